package main

import (
	"fmt"
	"go/ast"
	"go/constant"
	"go/token"
	"go/types"
	"sort"
	"strings"

	"golang.org/x/tools/go/packages"
)

func init() {
	register(&Property{
		ID:       "C46",
		Patterns: []string{"./sql"},
		Explanation: "Every index-range operation (overlap test, intersection, merge, subset, containment) of sql/range*.go orders range end points only through " +
			"MySQLRangeCut.Compare of the five cut kinds. Decided: folding the five Compare methods over the finite abstraction (kind of receiver x kind of argument x sign of " +
			"the uninterpreted antisymmetric key comparison) yields a total 5x5x3 table that (O1) never reaches the panic default, (O2) equals the reference order " +
			"BelowNull < AboveNull < Below(k) < Above(k) < AboveAll with Below(k1)/Above(k2) resolved by the key order and ties to Below, hence (O3) is antisymmetric, reflexive only on equal kind+key and " +
			"transitive over all 125 kind triples under all 13 weak orderings of three keys (checked directly on the extracted table as well); (B) the TypeAsLowerBound/TypeAsUpperBound " +
			"constant tables agree with that order (a bound is closed exactly when the cut lies on the far side of its key); (M) GetMySQLRangeCutMax/Min replace the running extreme exactly on " +
			"the sign that means 'candidate is larger/smaller'; (K) MySQLRangeCutIsBinding/GetMySQLRangeCutKey cover every kind and treat exactly the keyed kinds as binding; (T) the interval tree behind RemoveOverlappingRanges keeps its Parent pointers coupled with every child-pointer store and its two rotations are mirror images; (P1) purity of the range algebra: every function of package sql that has a receiver or parameter of a range slice type (MySQLRange, MySQLRangeCollection, []MySQLRange, []MySQLRangeColumnExpr: slices with value semantics whose operands the callers keep using) only reads it — SSA taint from the operand through re-slices, element slices, phi, conversions, interface boxing, local and captured variables and append results reaches no element store, no append onto an upper-bounded re-slice (x[:k]), no copy() destination and no sort.*/slices.Sort* argument, so Intersect/Overlaps/Subtract/TryUnion/RemoveOverlap/replace/… build their results in fresh storage and never narrow an operand under a caller that pairs it with further ranges.",
		NotCovered: "P1: writes through struct fields holding an operand (rangeColumnExprSlice.ranges under sort.Sort, tree nodes), operands handed to other packages, element slices copied into a fresh collection and modified there, append onto the full operand (writes beyond its length only), order-only permutations (NewIndexLookup reversal: named exception); RemoveOverlappingRanges' merging logic, the interval tree's balancing/colour/MaxUpperbound invariants (only its pointer coupling is decided), multi-column range algebra, the key comparison itself (Type.Compare: see C26) and value conversion in compareRangeCuts for extended types",
		Technique:  "finite-domain abstract interpretation (AST folding over kind x kind x sign) + order-law checking on the extracted table + SSA taint (operand slices -> store/append/copy/sort sinks) for purity",
		Run:        func(c *Ctx) { runC46(c, "sql") },
		Fixture: func(c *Ctx, fx *Prog) {
			expectFixture(c, fx, "c46: Above.Compare(Below) with ties resolved the wrong way must break the reference order and antisymmetry",
				[]string{"C46-O2:Above.Compare(Below)/key=0", "C46-O3:antisymmetry/Above,Below/key=0", "C46-O3:antisymmetry/Below,Above/key=0",
					"C46-O3:transitivity/Above,Below,Above/keys=0,0,0", "C46-O3:transitivity/Below,Above,Below/keys=0,0,0"},
				func(fc *Ctx) { runC46(fc, "testdata/c46/sql") })
		},
		FixturePkgs: []string{"./testdata/c46/sql"},
	})
}

var c46Kinds = []string{"BelowNull", "AboveNull", "Below", "Above", "AboveAll"}

// c46Model: position of a cut on the line; keyed kinds are ordered by key, then Below < Above.
func c46Model(k1, k2 string, sigma int) int {
	rank := func(k string) int {
		switch k {
		case "BelowNull":
			return 0
		case "AboveNull":
			return 1
		case "Below", "Above":
			return 2
		}
		return 3
	}
	r1, r2 := rank(k1), rank(k2)
	if r1 != r2 {
		return sign(r1 - r2)
	}
	if r1 != 2 {
		return 0
	}
	if sigma != 0 {
		return sigma
	}
	side := func(k string) int {
		if k == "Above" {
			return 1
		}
		return 0
	}
	return sign(side(k1) - side(k2))
}

func sign(i int) int {
	switch {
	case i < 0:
		return -1
	case i > 0:
		return 1
	}
	return 0
}

func runC46(c *Ctx, sqlRel string) {
	c.Rule("C46-O1", "each (receiver kind, argument kind, key sign) folds to a constant in {-1,0,1}; none reaches the panic default or an unreadable construct", 75)
	c.Rule("C46-O2", "the extracted table equals the reference order BelowNull < AboveNull < Below(k) < Above(k) < AboveAll (keys by sign, ties to Below)", 75)
	c.Rule("C46-O3", "order laws on the extracted table itself: antisymmetry, zero only on equal kind and key, transitivity over all kind triples and all consistent key orderings", 60)
	c.Rule("C46-B", "TypeAsLowerBound/TypeAsUpperBound: lower bound closed <=> the cut lies below its point, upper bound closed <=> above; AboveAll open both ways", 10)
	c.Rule("C46-M", "GetMySQLRangeCutMax replaces the running maximum iff running.Compare(candidate) is negative; Min iff positive", 2)
	c.Rule("C46-K", "MySQLRangeCutIsBinding and GetMySQLRangeCutKey cover every kind; exactly the keyed kinds are binding/have a key", 10)
	pk := c.P.Pkg(sqlRel)
	if pk == nil {
		c.Undecided("C46-O1", "package", 0, "package not loaded: "+sqlRel)
		return
	}
	itf, _ := pk.Types.Scope().Lookup("MySQLRangeCut").(*types.TypeName)
	if itf == nil {
		c.Undecided("C46-O1", "MySQLRangeCut", 0, "interface not found")
		return
	}
	iface, _ := itf.Type().Underlying().(*types.Interface)
	kinds := map[string]*types.Named{}
	for _, n := range pk.Types.Scope().Names() {
		tn, ok := pk.Types.Scope().Lookup(n).(*types.TypeName)
		if !ok || tn == itf {
			continue
		}
		nt, ok := tn.Type().(*types.Named)
		if !ok {
			continue
		}
		if _, isIface := nt.Underlying().(*types.Interface); isIface {
			continue
		}
		if types.Implements(nt, iface) {
			kinds[n] = nt
		}
	}
	var names []string
	for n := range kinds {
		names = append(names, n)
	}
	sort.Strings(names)
	want := append([]string{}, c46Kinds...)
	sort.Strings(want)
	if strings.Join(names, ",") != strings.Join(want, ",") {
		c.Undecided("C46-O1", "cut-kinds", itf.Pos(), fmt.Sprintf("implementations of MySQLRangeCut are %v, the reference order is defined for %v", names, want))
		return
	}
	keyed := func(k string) bool {
		st, _ := kinds[k].Underlying().(*types.Struct)
		for i := 0; st != nil && i < st.NumFields(); i++ {
			if st.Field(i).Name() == "Key" {
				return true
			}
		}
		return false
	}

	// ---- fold Compare --------------------------------------------------------------
	table := map[[2]string]map[int]int{} // (k1,k2) -> sigma -> result
	readable := true
	for _, k1 := range c46Kinds {
		fn := LookupFunc(pk, k1+".Compare")
		fd := c.P.Decl(fn)
		if fd == nil {
			c.Undecided("C46-O1", k1+".Compare", 0, "method not found")
			readable = false
			continue
		}
		for _, k2 := range c46Kinds {
			table[[2]string{k1, k2}] = map[int]int{}
			for _, sg := range []int{-1, 0, 1} {
				key := fmt.Sprintf("%s.Compare(%s)/key=%d", k1, k2, sg)
				r, panicked, err := c46Fold(c, pk, fd, kinds[k1], kinds[k2], sg, iface)
				switch {
				case err != nil:
					c.Undecided("C46-O1", key, fd.Pos(), "not foldable: "+err.Error())
					readable = false
				case panicked:
					c.Bad("C46-O1", key, fd.Pos(), fmt.Sprintf("%s.Compare reaches panic for an argument of kind %s: every range operation that meets this pair crashes", k1, k2))
					readable = false
				case r < -1 || r > 1:
					c.Bad("C46-O1", key, fd.Pos(), fmt.Sprintf("result %d outside {-1,0,1}; GetMySQLRangeCutMax/Min and the range algebra test for exactly -1/1", r))
					readable = false
				default:
					c.Ok("C46-O1", key, fd.Pos(), fmt.Sprint(r))
					table[[2]string{k1, k2}][sg] = r
				}
			}
		}
	}
	if !readable {
		return
	}
	// ---- O2: reference order -----------------------------------------------------------
	for _, k1 := range c46Kinds {
		fd := c.P.Decl(LookupFunc(pk, k1+".Compare"))
		for _, k2 := range c46Kinds {
			for _, sg := range []int{-1, 0, 1} {
				if (!keyed(k1) || !keyed(k2)) && sg != 0 {
					// sign irrelevant unless both have keys; still must equal the model (which ignores it)
				}
				got, exp := table[[2]string{k1, k2}][sg], c46Model(k1, k2, sg)
				key := fmt.Sprintf("%s.Compare(%s)/key=%d", k1, k2, sg)
				c.Check(got == exp, "C46-O2", key, fd.Pos(), "", fmt.Sprintf("%s.Compare(%s) with key sign %d yields %d, the reference order requires %d", k1, k2, sg, got, exp))
			}
		}
	}
	// ---- O3: laws directly on the table ------------------------------------------------
	T := func(k1, k2 string, sg int) int {
		if !keyed(k1) || !keyed(k2) {
			sg = 0
		}
		return table[[2]string{k1, k2}][sg]
	}
	for _, k1 := range c46Kinds {
		for _, k2 := range c46Kinds {
			for _, sg := range []int{-1, 0, 1} {
				if (!keyed(k1) || !keyed(k2)) && sg != 0 {
					continue
				}
				key := fmt.Sprintf("antisymmetry/%s,%s/key=%d", k1, k2, sg)
				c.Check(T(k1, k2, sg) == -T(k2, k1, -sg), "C46-O3", key, pk.Types.Scope().Lookup(k1).Pos(), "",
					fmt.Sprintf("%s.Compare(%s)=%d but %s.Compare(%s)=%d with the keys swapped", k1, k2, T(k1, k2, sg), k2, k1, T(k2, k1, -sg)))
				zeroOK := (T(k1, k2, sg) == 0) == (k1 == k2 && sg == 0)
				c.Check(zeroOK, "C46-O3", fmt.Sprintf("zero-iff-equal/%s,%s/key=%d", k1, k2, sg), pk.Types.Scope().Lookup(k1).Pos(), "",
					fmt.Sprintf("%s.Compare(%s) with key sign %d is %d: two cuts compare equal exactly when they have the same kind and key", k1, k2, sg, T(k1, k2, sg)))
			}
		}
	}
	// transitivity: all weak orderings of three keys = sign triples (s12,s23,s13) consistent with a weak order
	nTrans, badTrans := 0, 0
	for _, s12 := range []int{-1, 0, 1} {
		for _, s23 := range []int{-1, 0, 1} {
			for _, s13 := range []int{-1, 0, 1} {
				if !weakOrderConsistent(s12, s23, s13) {
					continue
				}
				for _, a := range c46Kinds {
					for _, b := range c46Kinds {
						for _, d := range c46Kinds {
							nTrans++
							ab, bd, ad := T(a, b, s12), T(b, d, s23), T(a, d, s13)
							// a<=b and b<=d => a<=d ; strict if either strict
							if ab <= 0 && bd <= 0 {
								okk := ad <= 0 && !((ab < 0 || bd < 0) && ad == 0)
								if !okk {
									badTrans++
									if badTrans <= 5 {
										c.Bad("C46-O3", fmt.Sprintf("transitivity/%s,%s,%s/keys=%d,%d,%d", a, b, d, s12, s23, s13), pk.Types.Scope().Lookup(a).Pos(),
											fmt.Sprintf("%s<=%s (%d) and %s<=%s (%d) but %s vs %s is %d", a, b, ab, b, d, bd, a, d, ad))
									}
								}
							}
						}
					}
				}
			}
		}
	}
	if badTrans == 0 {
		c.Ok("C46-O3", "transitivity/all-triples", itf.Pos(), fmt.Sprintf("%d (kind triple x key ordering) instances", nTrans))
	}
	c.Notef("transitivity instances checked: %d (13 weak orderings x 125 kind triples)", nTrans)

	// ---- B: bound-type tables ---------------------------------------------------------
	f := &Folder{P: c.P}
	closed := constant.MakeInt64(1)
	if cobj, ok := pk.Types.Scope().Lookup("Closed").(*types.Const); ok {
		closed = cobj.Val()
	} else if !c.fixtureMode {
		c.Undecided("C46-B", "Closed", 0, "constant Closed not found")
	}
	expLower := map[string]bool{"BelowNull": true, "AboveNull": false, "Below": true, "Above": false, "AboveAll": false}
	expUpper := map[string]bool{"BelowNull": false, "AboveNull": true, "Below": false, "Above": true, "AboveAll": false}
	for _, k := range c46Kinds {
		for _, side := range []string{"TypeAsLowerBound", "TypeAsUpperBound"} {
			fn := LookupFunc(pk, k+"."+side)
			if fn == nil {
				if !c.fixtureMode {
					c.Undecided("C46-B", k+"."+side, 0, "method not found")
				}
				continue
			}
			v, panicked, err := f.Call(fn, nil)
			if err != nil || panicked {
				c.Undecided("C46-B", k+"."+side, fn.Pos(), fmt.Sprintf("not a constant table: %v", err))
				continue
			}
			isClosed := constant.Compare(v, token.EQL, closed)
			exp := expLower[k]
			if side == "TypeAsUpperBound" {
				exp = expUpper[k]
			}
			c.Check(isClosed == exp, "C46-B", k+"."+side, fn.Pos(), "", fmt.Sprintf("%s.%s is closed=%v; a cut that lies %s its point must be closed=%v there (an index range would gain or lose its end point)", k, side, isClosed, map[bool]string{true: "below", false: "above"}[expLower[k]], exp))
		}
	}

	// ---- M: max/min selection -----------------------------------------------------------
	for _, mm := range []struct {
		name string
		want int
	}{{"GetMySQLRangeCutMax", -1}, {"GetMySQLRangeCutMin", 1}} {
		fn := LookupFunc(pk, mm.name)
		fd := c.P.Decl(fn)
		if fd == nil {
			if !c.fixtureMode {
				c.Undecided("C46-M", mm.name, 0, "function not found")
			}
			continue
		}
		got, ok := c46SelectSign(pk, fd)
		if !ok {
			c.Undecided("C46-M", mm.name, fd.Pos(), "selection shape not readable: expected `comp, err := running.Compare(ctx, candidate, typ); if comp <op> K { running = candidate }`")
			continue
		}
		c.Check(got == mm.want, "C46-M", mm.name, fd.Pos(), "", fmt.Sprintf("%s replaces the running value when running.Compare(candidate) has sign %d, must be %d", mm.name, got, mm.want))
	}

	c46Tree(c, pk)
	if !c.fixtureMode {
		c46Purity(c, pk, 34)
	}

	// ---- K: kind coverage helpers ---------------------------------------------------------
	for _, h := range []string{"MySQLRangeCutIsBinding", "GetMySQLRangeCutKey"} {
		fn := LookupFunc(pk, h)
		fd := c.P.Decl(fn)
		if fd == nil {
			if !c.fixtureMode {
				c.Undecided("C46-K", h, 0, "function not found")
			}
			continue
		}
		for _, k := range c46Kinds {
			m := &Mini{P: c.P, Info: pk.TypesInfo}
			m.Sel = func(m *Mini, sel *ast.SelectorExpr, base MV) (MV, bool) { return &MSym{Name: "key"}, true }
			bind := map[types.Object]MV{}
			for _, fl := range fd.Type.Params.List {
				for _, n := range fl.Names {
					bind[pk.TypesInfo.Defs[n]] = &MSym{Name: "cut", Dyn: kinds[k]}
				}
			}
			res, panicked, err := m.RunFunc(fd, bind)
			key := h + "(" + k + ")"
			switch {
			case err != nil:
				c.Undecided("C46-K", key, fd.Pos(), err.Error())
			case h == "MySQLRangeCutIsBinding":
				b, isB := false, false
				if len(res) == 1 {
					b, isB = MBool(res[0])
				}
				c.Check(!panicked && isB && b == keyed(k), "C46-K", key, fd.Pos(), "", fmt.Sprintf("MySQLRangeCutIsBinding(%s): panicked=%v result=%v, want %v", k, panicked, b, keyed(k)))
			default:
				c.Check(panicked == !keyed(k), "C46-K", key, fd.Pos(), "", fmt.Sprintf("GetMySQLRangeCutKey(%s): panicked=%v, keyed=%v", k, panicked, keyed(k)))
			}
		}
	}
}

func weakOrderConsistent(s12, s23, s13 int) bool {
	// there exist reals x1,x2,x3 with sign(x1-x2)=s12 etc.
	for _, x1 := range []int{0, 1, 2} {
		for _, x2 := range []int{0, 1, 2} {
			for _, x3 := range []int{0, 1, 2} {
				if sign(x1-x2) == s12 && sign(x2-x3) == s23 && sign(x1-x3) == s13 {
					return true
				}
			}
		}
	}
	return false
}

// c46Fold folds one Compare method for (receiver kind, argument kind, sigma = sign of
// key(receiver) vs key(argument)).
func c46Fold(c *Ctx, pk *packages.Package, fd *ast.FuncDecl, k1, k2 *types.Named, sigma int, iface *types.Interface) (int, bool, error) {
	selfKey, otherKey := &MSym{Name: "selfKey"}, &MSym{Name: "otherKey"}
	self := &MSym{Name: "self", Dyn: k1, Fields: map[string]MV{"Key": selfKey, "Typ": &MSym{Name: "selfTyp"}}}
	other := &MSym{Name: "other", Dyn: k2, Fields: map[string]MV{"Key": otherKey, "Typ": &MSym{Name: "otherTyp"}}}
	bind := map[types.Object]MV{}
	if fd.Recv != nil && len(fd.Recv.List[0].Names) > 0 {
		bind[pk.TypesInfo.Defs[fd.Recv.List[0].Names[0]]] = self
	}
	for _, fl := range fd.Type.Params.List {
		t := pk.TypesInfo.Types[fl.Type].Type
		for _, n := range fl.Names {
			o := pk.TypesInfo.Defs[n]
			if o == nil {
				continue
			}
			if it, ok := t.Underlying().(*types.Interface); ok && types.Identical(it, iface) {
				bind[o] = other
			} else {
				bind[o] = &MSym{Name: n.Name}
			}
		}
	}
	keyRole := func(v MV) int { // 1 self, 2 other, 0 none
		s, ok := v.(*MSym)
		if !ok {
			return 0
		}
		if s == selfKey {
			return 1
		}
		if s == otherKey {
			return 2
		}
		for _, f := range s.Fields {
			if f == MV(selfKey) {
				return 1
			}
			if f == MV(otherKey) {
				return 2
			}
		}
		return 0
	}
	m := &Mini{P: c.P, Info: pk.TypesInfo}
	m.Call = func(m *Mini, call *ast.CallExpr, fn *types.Func, recv MV, args []MV) ([]MV, bool) {
		if fn == nil {
			return nil, false
		}
		sig := fn.Type().(*types.Signature)
		if sig.Results().Len() != 2 || !IsErrorType(sig.Results().At(1).Type()) {
			return nil, false
		}
		var roles []int
		for _, a := range args {
			if r := keyRole(a); r != 0 {
				roles = append(roles, r)
			}
		}
		if len(roles) != 2 {
			return nil, false
		}
		s := 0
		switch {
		case roles[0] == 1 && roles[1] == 2:
			s = sigma
		case roles[0] == 2 && roles[1] == 1:
			s = -sigma
		default:
			s = 0
		}
		return []MV{constant.MakeInt64(int64(s)), &MSym{Name: "nil", Nil: true}}, true
	}
	res, panicked, err := m.RunFunc(fd, bind)
	if err != nil {
		return 0, false, err
	}
	if panicked {
		return 0, true, nil
	}
	if len(res) != 2 {
		return 0, false, fmt.Errorf("Compare returned %d values", len(res))
	}
	n, ok := MInt(res[0])
	if !ok {
		return 0, false, fmt.Errorf("result is not a constant integer")
	}
	if e, ok := res[1].(*MSym); !ok || !e.Nil {
		return 0, false, fmt.Errorf("non-nil error on the no-error path")
	}
	return int(n), false, nil
}

// c46SelectSign reads, in a max/min selection loop, the sign of running.Compare(candidate)
// under which the running value is replaced by the candidate.
func c46SelectSign(pk *packages.Package, fd *ast.FuncDecl) (int, bool) {
	info := pk.TypesInfo
	result, found := 0, false
	// comp variable -> (receiver object, candidate expr string)
	type cmpDef struct {
		recv types.Object
		cand string
	}
	defs := map[types.Object]cmpDef{}
	ast.Inspect(fd.Body, func(n ast.Node) bool {
		as, ok := n.(*ast.AssignStmt)
		if !ok || len(as.Rhs) != 1 || len(as.Lhs) != 2 {
			return true
		}
		call, ok := as.Rhs[0].(*ast.CallExpr)
		if !ok || len(call.Args) < 2 {
			return true
		}
		sel, ok := call.Fun.(*ast.SelectorExpr)
		if !ok || sel.Sel.Name != "Compare" {
			return true
		}
		rid := identOf(sel.X)
		lid := identOf(as.Lhs[0])
		if rid == nil || lid == nil {
			return true
		}
		o := info.Defs[lid]
		if o == nil {
			o = info.Uses[lid]
		}
		defs[o] = cmpDef{info.Uses[rid], types.ExprString(call.Args[1])}
		return true
	})
	ast.Inspect(fd.Body, func(n ast.Node) bool {
		is, ok := n.(*ast.IfStmt)
		if !ok {
			return true
		}
		be, ok := ast.Unparen(is.Cond).(*ast.BinaryExpr)
		if !ok {
			return true
		}
		id := identOf(be.X)
		if id == nil {
			return true
		}
		d, ok := defs[info.Uses[id]]
		if !ok {
			return true
		}
		tv := info.Types[be.Y]
		if tv.Value == nil {
			return true
		}
		k, _ := constant.Int64Val(tv.Value)
		// body must assign running = candidate
		assigns := false
		for _, st := range is.Body.List {
			if as, ok := st.(*ast.AssignStmt); ok && len(as.Lhs) == 1 && len(as.Rhs) == 1 {
				if l := identOf(as.Lhs[0]); l != nil && info.Uses[l] == d.recv && types.ExprString(as.Rhs[0]) == d.cand {
					assigns = true
				}
			}
		}
		if !assigns {
			return true
		}
		// set of comp values in {-1,0,1} accepted by the condition
		var acc []int
		for _, v := range []int64{-1, 0, 1} {
			if constant.Compare(constant.MakeInt64(v), be.Op, constant.MakeInt64(k)) {
				acc = append(acc, int(v))
			}
		}
		if len(acc) == 1 {
			result, found = acc[0], true
		} else {
			result, found = 99, true // accepts several signs (e.g. <= 0): not a strict selection
		}
		return true
	})
	return result, found
}

// ---- T: interval-tree pointer structure --------------------------------------------------------
//
// RemoveOverlappingRanges keeps ranges in a red-black interval tree whose nodes carry Left, Right
// and Parent pointers. Two exact structural clauses:
//   T1 (coupling)  every store `A.Left = B` / `A.Right = B` of a non-nil B is accompanied in the same
//                  function by the store `B.Parent = A` (B written as the same expression, as `A.Left`
//                  itself, or through a local alias assigned from it): replaceNode and the
//                  rebalancing walk follow Parent pointers, so a stale one cuts a subtree off.
//   T2 (mirror)    rotateLeft and rotateRight are mirror images on their pointer statements
//                  (Left<->Right swapped); the augmentation statements (MaxUpperbound) are excluded.
func c46Tree(c *Ctx, pk *packages.Package) {
	c.Rule("C46-T1", "interval tree: every store of a non-nil child pointer (A.Left/A.Right = B) is coupled with B.Parent = A in the same function", 8)
	c.Rule("C46-T2", "interval tree: rotateLeft and rotateRight are mirror images on their Left/Right/Parent statements", 1)
	info := pk.TypesInfo
	nodeTN, _ := pk.Types.Scope().Lookup("rangeColumnExprTreeNode").(*types.TypeName)
	if nodeTN == nil {
		if !c.fixtureMode {
			c.Undecided("C46-T1", "rangeColumnExprTreeNode", 0, "tree node type not found")
		}
		return
	}
	isNodeField := func(se *ast.SelectorExpr, names ...string) bool {
		sel := info.Selections[se]
		if sel == nil {
			return false
		}
		t := sel.Recv()
		if p, ok := t.(*types.Pointer); ok {
			t = p.Elem()
		}
		if !types.Identical(t, nodeTN.Type()) {
			return false
		}
		for _, n := range names {
			if se.Sel.Name == n {
				return true
			}
		}
		return false
	}
	for _, file := range pk.Syntax {
		for _, d := range file.Decls {
			fd, ok := d.(*ast.FuncDecl)
			if !ok || fd.Body == nil {
				continue
			}
			type store struct {
				a, f, b string
				pos     ast.Node
				lit     bool
			}
			var childStores []store
			parentStores := map[string]bool{} // "B|A"
			alias := map[string][]string{}    // expr text -> alias identifiers assigned from it
			ast.Inspect(fd.Body, func(n ast.Node) bool {
				as, ok := n.(*ast.AssignStmt)
				if !ok || len(as.Lhs) != len(as.Rhs) {
					return true
				}
				for i, l := range as.Lhs {
					r := as.Rhs[i]
					if se, ok := ast.Unparen(l).(*ast.SelectorExpr); ok {
						if isNodeField(se, "Left", "Right") && !isNilIdent(info, r) {
							_, isLit := ast.Unparen(r).(*ast.UnaryExpr)
							childStores = append(childStores, store{types.ExprString(se.X), se.Sel.Name, types.ExprString(r), as, isLit})
						}
						if isNodeField(se, "Parent") {
							parentStores[types.ExprString(se.X)+"|"+types.ExprString(r)] = true
						}
					}
					if id := identOf(l); id != nil {
						alias[types.ExprString(r)] = append(alias[types.ExprString(r)], id.Name)
					}
				}
				return true
			})
			for _, s := range childStores {
				cands := []string{s.a + "." + s.f}
				if !s.lit {
					cands = append(cands, s.b)
				}
				cands = append(cands, alias[s.a+"."+s.f]...)
				ok := false
				for _, b := range cands {
					if parentStores[b+"|"+s.a] {
						ok = true
					}
				}
				bdesc := s.b
				if s.lit {
					bdesc = "&node{…}"
				}
				c.Check(ok, "C46-T1", DeclName(fd)+"/"+s.a+"."+s.f+" = "+bdesc, s.pos.Pos(), "",
					fmt.Sprintf("%s stores %s.%s = %s but never stores the child's Parent = %s: replaceNode/rebalancing follow Parent pointers, a stale one detaches a subtree and its ranges are silently lost", DeclName(fd), s.a, s.f, bdesc, s.a))
			}
		}
	}
	// T2
	norm := func(name string) ([]string, *ast.FuncDecl) {
		fd := c.P.Decl(LookupFunc(pk, "MySQLRangeColumnExprTree."+name))
		if fd == nil {
			return nil, nil
		}
		swap := name == "rotateRight"
		var pivot string
		var out []string
		for _, st := range fd.Body.List {
			onlyPtr := true
			ast.Inspect(st, func(n ast.Node) bool {
				if se, ok := n.(*ast.SelectorExpr); ok {
					if sel := info.Selections[se]; sel != nil && sel.Kind() == types.FieldVal && !isNodeField(se, "Left", "Right", "Parent") {
						onlyPtr = false
					}
				}
				return true
			})
			if !onlyPtr {
				continue
			}
			if as, ok := st.(*ast.AssignStmt); ok && as.Tok == token.DEFINE && pivot == "" {
				if id := identOf(as.Lhs[0]); id != nil {
					pivot = id.Name
				}
			}
			var sb strings.Builder
			ast.Inspect(st, func(n ast.Node) bool {
				switch x := n.(type) {
				case *ast.Ident:
					name := x.Name
					switch {
					case name == pivot:
						name = "PIVOT"
					case name == "Left":
						name = map[bool]string{false: "A", true: "B"}[swap]
					case name == "Right":
						name = map[bool]string{false: "B", true: "A"}[swap]
					}
					sb.WriteString(name + " ")
				case *ast.BasicLit:
					sb.WriteString(x.Value + " ")
				case *ast.AssignStmt:
					sb.WriteString("assign ")
				case *ast.IfStmt:
					sb.WriteString("if ")
				case *ast.BinaryExpr:
					sb.WriteString(x.Op.String() + " ")
				case *ast.CallExpr:
					sb.WriteString("call ")
				}
				return true
			})
			out = append(out, sb.String())
		}
		return out, fd
	}
	l, lfd := norm("rotateLeft")
	r, _ := norm("rotateRight")
	if lfd == nil || r == nil {
		if !c.fixtureMode {
			c.Undecided("C46-T2", "rotateLeft/rotateRight", 0, "rotation functions not found")
		}
		return
	}
	c.Check(strings.Join(l, "\n") == strings.Join(r, "\n") && len(l) >= 4, "C46-T2", "rotateLeft~rotateRight", lfd.Pos(), fmt.Sprintf("%d mirrored pointer statements", len(l)),
		fmt.Sprintf("the pointer statements of rotateLeft and rotateRight are not mirror images:\n  left : %s\n  right: %s", strings.Join(l, " ; "), strings.Join(r, " ; ")))
}
