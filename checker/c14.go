package main

import (
	"fmt"
	"go/ast"
	"go/token"
	"go/types"
	"sort"
	"strings"

	"golang.org/x/tools/go/ssa"
)

// C14 — primary / unique keys enforced exactly: the key-encoding clause.

type c14Params struct {
	srcPkgs  []string // packages whose cell-formatting calls are sources and whose comparisons are checked ("memory")
	flowPkgs []string // additional packages the taint is followed through ("internal/cmap")
	rowRel   string   // package declaring the row type and the editor interface
	rowType  string   // "Row"
	ocIface  string   // "EditOpenerCloser": K2 is decided for the code reachable from its implementations
	floors   map[string]int
}

var c14Repo = c14Params{srcPkgs: []string{"memory"}, flowPkgs: []string{"internal/cmap"}, rowRel: "sql", rowType: "Row", ocIface: "EditOpenerCloser",
	floors: map[string]int{"C14-K1": 5, "C14-K2": 1}}

func init() {
	register(&Property{
		ID:       "C14",
		Patterns: []string{"./memory"},
		Explanation: "Row identity in the in-memory editors must be computed by typed comparison or by an injective, collation-aware encoding. Decided: (K1) no string produced by fmt-formatting a dynamically typed row cell (fmt.Sprint*/Fprint* with an interface-typed operand, directly or through strings.Builder / concatenation / helper functions / generic containers) is used as the key of a map lookup, update or delete: `%v` concatenation is not injective ((1,23) vs (12,3)) and ignores the column's collation; " +
			"(K2) in the code reachable from the table editors (methods of the sql.EditOpenerCloser implementations of package memory, static calls plus class-hierarchy resolution of interface calls inside the package) no two row cells are compared with Go's == / != on interface values or reflect.DeepEqual: identity of key cells has to go through the column type's Compare (collation, padding, numeric equality); " +
			"(P) pending-edit precedence: for every implementation of memory.tableEditAccumulator the bodies of Insert and Delete are folded over every edit history (length <= 3) of one key (cmap.Map containers) or of two row values (list containers, only histories in which a delete names an existing row), starting from a table that does / does not hold the row; Get, GetByCols and ApplyEdits are then folded on the resulting pending state: the found flag of Get / GetByCols must equal 'the latest edit of the key is an insert, or there is no edit and the row is stored' (keyless: the net row count is positive) and ApplyEdits must leave exactly the rows the edits leave when applied in order. " +
			"(Y1) prefix-length truncation is symmetric: every function of package memory that receives two rows and the index prefix lengths ([]uint16) - columnsMatch, the comparator behind every GetByCols uniqueness probe - cuts both compared cells by the same function of (cell, declared prefix length): on the SSA form, every bound of a slice applied to a value that derives from one row parameter " +
			"(in the function or in a same-package helper it calls, summarised in the helper's parameters) derives from the prefix-length parameter and from no cell of the other row parameter (def-use closure through phis, conversions, type assertions, len and other calls, loads of address-taken locals), and the sets of truncated cell types of the two rows are equal. A bound that is clamped to the first cell's length and not re-initialised before the second truncation makes a stored value shorter than the prefix match every value that starts with it.",
		NotCovered: "how the editor and the plan nodes use the verdicts (IGNORE / REPLACE / ON DUPLICATE KEY handling), prefix lengths beyond the symmetry clause Y1 (that the right index's lengths are passed, character vs byte length, control dependence of a bound on the other cell), NULL handling in unique indexes, the virtual-column branch of GetByCols (HasVirtualColumns is folded as false), interaction of several distinct keys that share a unique value (P tracks one key), what columnsMatch / the key function consider equal (K1, K2), integrator backends",
		Technique:  "interprocedural SSA taint (sources: fmt formatting of interface-typed cells; sinks: map key operands) + SSA def-use classification of interface comparisons + finite-domain folding (eng_mini) of the accumulator methods over edit histories + SSA def-use closure of slice bounds with helper summaries",
		Run:        func(c *Ctx) { runC14(c, c14Repo); runC14P(c, c14pRepo); runC14Y(c, c14yRepo) },
		Fixture: func(c *Ctx, fx *Prog) {
			p := c14Params{srcPkgs: []string{"testdata/c14/mem"}, flowPkgs: []string{"testdata/c14/cmap"}, rowRel: "testdata/c14/sql", rowType: "Row", ocIface: "EditOpenerCloser", floors: map[string]int{}}
			expectFixture(c, fx, "c14: formatted keys and == on cells must be reported", []string{
				"C14-K1:testdata/c14/mem.acc.rowKey/formatted-cell-map-key",
				"C14-K1:testdata/c14/mem.acc.seen/formatted-cell-map-key",
				"C14-K2:testdata/c14/mem.sameKey/cell-equality",
			}, func(fc *Ctx) { runC14(fc, p) })
			expectFixture(c, fx, "c14y: a truncation bound that depends on the other row's cell, and a one-sided truncation, must be reported", []string{
				"C14-Y1:testdata/c14/mem.matchStale/bound of b",
				"C14-Y1:testdata/c14/mem.matchHelperOneSide/bound of b",
				"C14-Y1:testdata/c14/mem.matchHelperOneSide/same truncation on both rows",
			}, func(fc *Ctx) { runC14Y(fc, c14yParams{rels: []string{"testdata/c14/mem"}, rowRel: "testdata/c14/sql", rowType: "Row"}) })
			pp := c14pParams{memRel: "testdata/c14p/mem", sqlRel: "testdata/c14p/sql", cmapRel: "testdata/c14p/cmap", accIface: "accumulator", cmapType: "Map",
				insertFn: "Insert", deleteFn: "Delete", getFn: "Get", byColsFn: "GetByCols", applyFn: "ApplyEdits", insertHelper: "insertHelper", deleteHelper: "deleteHelper",
				matchFn: "columnsMatch", rowType: "Row", equalsFn: "Equals", tableDataType: "TableData", partitionsField: "partitions"}
			expectFixture(c, fx, "c14p: readers that disagree with the writers of the pending edits must be reported", []string{
				"C14-P:testdata/c14p/mem.keyedAcc.Get/latest-edit-wins",
				"C14-P:testdata/c14p/mem.keyedAcc.ApplyEdits/latest-edit-wins",
				"C14-P:testdata/c14p/mem.listAcc.ApplyEdits/net-count",
			}, func(fc *Ctx) { runC14P(fc, pp) })
		},
		FixturePkgs: []string{"./testdata/c14/sql", "./testdata/c14/cmap", "./testdata/c14/mem", "./testdata/c14p/sql", "./testdata/c14p/cmap", "./testdata/c14p/mem"},
	})
}

type c14Origin struct {
	pos  token.Pos // position of the formatting call
	fn   string    // function containing it
	via  *c14Origin
	step string
}

func runC14(c *Ctx, p c14Params) {
	c.Rule("C14-K1", "no fmt-formatted row cell flows into a map key (per formatting site: ok if it reaches no map key)", p.floors["C14-K1"])
	c.Rule("C14-K2", "no == / != / reflect.DeepEqual between two row cells (interface values derived from elements of sql.Row) in the functions reachable from the table editors of package memory", p.floors["C14-K2"])
	rowPk := c.P.Pkg(p.rowRel)
	if rowPk == nil {
		c.Undecided("C14-K1", "packages", 0, "package "+p.rowRel+" not loaded")
		return
	}
	rowTN, _ := rowPk.Types.Scope().Lookup(p.rowType).(*types.TypeName)
	if rowTN == nil {
		c.Undecided("C14-K1", "row-type", 0, p.rowType+" not found in "+p.rowRel)
		return
	}
	rowT := rowTN.Type()
	analysed := map[*types.Package]bool{}
	srcSet := map[*types.Package]bool{}
	for _, rel := range append(append([]string{}, p.srcPkgs...), p.flowPkgs...) {
		pk := c.P.Pkg(rel)
		if pk == nil {
			c.Undecided("C14-K1", "package "+rel, 0, "package not loaded")
			return
		}
		analysed[pk.Types] = true
	}
	for _, rel := range p.srcPkgs {
		srcSet[c.P.Pkg(rel).Types] = true
	}

	// 1. formatting sites with an interface-typed (dynamically typed) operand — AST + types
	type site struct {
		call   *ast.CallExpr
		fn     string
		writer bool // Fprint*: writes into Args[0]
	}
	sites := map[token.Pos]*site{} // keyed by Lparen
	for _, rel := range p.srcPkgs {
		pk := c.P.Pkg(rel)
		info := pk.TypesInfo
		for _, file := range pk.Syntax {
			ast.Inspect(file, func(n ast.Node) bool {
				call, ok := n.(*ast.CallExpr)
				if !ok {
					return true
				}
				fn := Callee(info, call)
				if fn == nil || fn.Pkg() == nil || fn.Pkg().Path() != "fmt" {
					return true
				}
				first := -1
				writer := false
				switch fn.Name() {
				case "Sprint", "Sprintln":
					first = 0
				case "Sprintf":
					first = 1
				case "Fprint", "Fprintln":
					first, writer = 1, true
				case "Fprintf":
					first, writer = 2, true
				default:
					return true
				}
				dyn := false
				for i := first; i < len(call.Args); i++ {
					t := info.TypeOf(call.Args[i])
					if t == nil {
						continue
					}
					if _, isIface := t.Underlying().(*types.Interface); isIface && !IsErrorType(t) {
						dyn = true
					}
					if sl, isSlice := t.Underlying().(*types.Slice); isSlice {
						if _, isIface := sl.Elem().Underlying().(*types.Interface); isIface {
							dyn = true
						}
					}
				}
				if !dyn {
					return true
				}
				where := "?"
				if fd := dmlEnclosingDecl(pk, call.Pos()); fd != nil {
					where = dmlRelOfPkg(pk.PkgPath) + "." + DeclName(fd)
				}
				sites[call.Lparen] = &site{call: call, fn: where, writer: writer}
				return true
			})
		}
	}

	// 2. SSA functions of the analysed packages
	prog := c.P.SSA()
	pkgOf := func(f *ssa.Function) *types.Package {
		for g := f; g != nil; g = g.Parent() {
			if g.Pkg != nil {
				return g.Pkg.Pkg
			}
			if o := g.Origin(); o != nil && o.Pkg != nil {
				return o.Pkg.Pkg
			}
		}
		return nil
	}
	funcs := dmlSSAFuncs(c.P, prog, analysed, pkgOf)
	fname := func(f *ssa.Function) string {
		root := f
		for root.Parent() != nil {
			root = root.Parent()
		}
		if o := root.Origin(); o != nil {
			root = o
		}
		if obj, ok := root.Object().(*types.Func); ok {
			rel := ""
			if obj.Pkg() != nil {
				rel = dmlRelOfPkg(obj.Pkg().Path()) + "."
			}
			return rel + c21ShortName(obj)
		}
		return root.Name()
	}

	// 3. taint fixpoint
	taint := map[ssa.Value]*c14Origin{}
	retTaint := map[*ssa.Function]*c14Origin{}
	strip := func(v ssa.Value) ssa.Value {
		for {
			switch x := v.(type) {
			case *ssa.MakeInterface:
				v = x.X
			case *ssa.ChangeInterface:
				v = x.X
			case *ssa.ChangeType:
				v = x.X
			default:
				return v
			}
		}
	}
	changed := true
	mark := func(v ssa.Value, o *c14Origin) {
		if v == nil || o == nil {
			return
		}
		if _, ok := taint[v]; !ok {
			taint[v] = o
			changed = true
		}
	}
	isBuilderMethod := func(fn *types.Func, names ...string) bool {
		if fn == nil || fn.Pkg() == nil {
			return false
		}
		full := FullName(fn)
		for _, n := range names {
			if full == "strings.Builder."+n || full == "bytes.Buffer."+n {
				return true
			}
		}
		return false
	}
	for rounds := 0; changed && rounds < 50; rounds++ {
		changed = false
		for _, f := range funcs {
			for _, b := range f.Blocks {
				for _, in := range b.Instrs {
					switch x := in.(type) {
					case *ssa.Call:
						com := x.Common()
						if s, ok := sites[x.Pos()]; ok && com.StaticCallee() != nil && com.StaticCallee().Pkg != nil && com.StaticCallee().Pkg.Pkg.Path() == "fmt" {
							o := &c14Origin{pos: s.call.Pos(), fn: s.fn}
							if s.writer && len(com.Args) > 0 {
								mark(strip(com.Args[0]), o)
							} else {
								mark(x, o)
							}
							continue
						}
						callee := com.StaticCallee()
						if callee != nil {
							if obj, ok := callee.Object().(*types.Func); ok && !com.IsInvoke() {
								// Builder / Buffer: writes taint the receiver, String/Bytes read it
								if isBuilderMethod(obj, "WriteString", "Write", "WriteByte", "WriteRune") && len(com.Args) >= 2 {
									if o := taint[com.Args[1]]; o != nil {
										mark(strip(com.Args[0]), o)
									}
								}
								if isBuilderMethod(obj, "String", "Bytes") && len(com.Args) >= 1 {
									if o := taint[strip(com.Args[0])]; o != nil {
										mark(x, o)
									}
								}
							}
							if len(callee.Blocks) > 0 && analysed[pkgOf(callee)] {
								for i, arg := range com.Args {
									if o := taint[arg]; o != nil && i < len(callee.Params) {
										mark(callee.Params[i], &c14Origin{pos: o.pos, fn: o.fn, via: o, step: fname(f) + " -> " + fname(callee)})
									}
								}
								if o := retTaint[callee]; o != nil {
									mark(x, o)
								}
							}
						}
						// closures called through a value: bindings handled at MakeClosure
					case *ssa.MakeClosure:
						if fn, ok := x.Fn.(*ssa.Function); ok {
							for i, bnd := range x.Bindings {
								if o := taint[bnd]; o != nil && i < len(fn.FreeVars) {
									mark(fn.FreeVars[i], o)
								}
							}
						}
					case *ssa.Phi:
						for _, e := range x.Edges {
							if o := taint[e]; o != nil {
								mark(x, o)
							}
						}
					case *ssa.BinOp:
						if x.Op == token.ADD {
							for _, e := range []ssa.Value{x.X, x.Y} {
								if o := taint[e]; o != nil {
									mark(x, o)
								}
							}
						}
					case *ssa.Convert:
						mark(x, taint[x.X])
					case *ssa.ChangeType:
						mark(x, taint[x.X])
					case *ssa.MakeInterface:
						mark(x, taint[x.X])
					case *ssa.ChangeInterface:
						mark(x, taint[x.X])
					case *ssa.Slice:
						mark(x, taint[x.X])
					case *ssa.Extract:
						mark(x, taint[x.Tuple])
					case *ssa.TypeAssert:
						mark(x, taint[x.X])
					case *ssa.UnOp:
						if x.Op == token.MUL {
							mark(x, taint[x.X])
						}
					case *ssa.Store:
						if o := taint[x.Val]; o != nil {
							mark(x.Addr, o)
						}
					case *ssa.Return:
						for _, r := range x.Results {
							if o := taint[r]; o != nil && retTaint[f] == nil {
								retTaint[f] = &c14Origin{pos: o.pos, fn: o.fn, via: o, step: "returned by " + fname(f)}
								changed = true
							}
						}
					}
				}
			}
		}
	}

	// 4. sinks
	type hit struct {
		where string
		pos   token.Pos
		o     *c14Origin
	}
	hitsBySite := map[token.Pos][]hit{}
	addHit := func(f *ssa.Function, pos token.Pos, key ssa.Value, what string) {
		if o := taint[key]; o != nil {
			hitsBySite[o.pos] = append(hitsBySite[o.pos], hit{where: what + " in " + fname(f), pos: pos, o: o})
		}
	}
	for _, f := range funcs {
		for _, b := range f.Blocks {
			for _, in := range b.Instrs {
				switch x := in.(type) {
				case *ssa.MapUpdate:
					addHit(f, x.Pos(), x.Key, "map update")
				case *ssa.Lookup:
					if _, isMap := x.X.Type().Underlying().(*types.Map); isMap {
						addHit(f, x.Pos(), x.Index, "map lookup")
					}
				case *ssa.Call:
					if bi, ok := x.Common().Value.(*ssa.Builtin); ok && bi.Name() == "delete" && len(x.Common().Args) == 2 {
						addHit(f, x.Pos(), x.Common().Args[1], "map delete")
					}
				}
			}
		}
	}
	// one obligation per formatting site, keyed by its function
	var order []token.Pos
	for lp := range sites {
		order = append(order, lp)
	}
	sort.Slice(order, func(i, j int) bool { return order[i] < order[j] })
	for _, lp := range order {
		s := sites[lp]
		key := s.fn + "/formatted-cell-map-key"
		hs := hitsBySite[s.call.Pos()]
		if len(hs) == 0 {
			c.Ok("C14-K1", key, s.call.Pos(), "formatted cell does not reach a map key")
			continue
		}
		seen := map[string]bool{}
		var sinks, path []string
		for _, h := range hs {
			if !seen[h.where] {
				seen[h.where] = true
				sinks = append(sinks, h.where)
			}
		}
		sort.Strings(sinks)
		for o := hs[0].o; o != nil; o = o.via {
			if o.step != "" {
				path = append([]string{o.step}, path...)
			}
		}
		path = append([]string{c.P.Rel(s.call.Pos()) + ": " + types.ExprString(s.call)}, path...)
		c.Bad("C14-K1", key, s.call.Pos(), fmt.Sprintf("%s formats a dynamically typed row cell with fmt and the result is used as a map key (%s): concatenated %%v renderings are not injective ((1,23) and (12,3) both give \"123\") and ignore the column's collation, so distinct keys collide and equal keys under the collation do not", s.fn, strings.Join(sinks, "; ")), path...)
	}

	// 5. K2: equality of two row cells
	isIface := func(t types.Type) bool {
		_, ok := t.Underlying().(*types.Interface)
		return ok
	}
	var fromCell func(v ssa.Value, depth int, seen map[ssa.Value]bool) bool
	fromCell = func(v ssa.Value, depth int, seen map[ssa.Value]bool) bool {
		if v == nil || depth > 12 || seen[v] {
			return false
		}
		seen[v] = true
		switch x := v.(type) {
		case *ssa.UnOp:
			if x.Op == token.MUL {
				if ia, ok := x.X.(*ssa.IndexAddr); ok {
					t := ia.X.Type()
					if pt, ok := t.Underlying().(*types.Pointer); ok {
						t = pt.Elem()
					}
					return types.Identical(t, rowT)
				}
				// load of a local: follow the stores
				if al, ok := x.X.(*ssa.Alloc); ok {
					for _, ref := range *al.Referrers() {
						if st, ok := ref.(*ssa.Store); ok && st.Addr == ssa.Value(al) && fromCell(st.Val, depth+1, seen) {
							return true
						}
					}
				}
			}
		case *ssa.Index:
			return types.Identical(x.X.Type(), rowT)
		case *ssa.Phi:
			for _, e := range x.Edges {
				if fromCell(e, depth+1, seen) {
					return true
				}
			}
		case *ssa.MakeInterface:
			return fromCell(x.X, depth+1, seen)
		case *ssa.ChangeInterface:
			return fromCell(x.X, depth+1, seen)
		case *ssa.Convert:
			return fromCell(x.X, depth+1, seen)
		case *ssa.Slice:
			return fromCell(x.X, depth+1, seen)
		case *ssa.TypeAssert:
			return fromCell(x.X, depth+1, seen)
		case *ssa.Extract:
			return fromCell(x.Tuple, depth+1, seen)
		}
		return false
	}
	isNilConst := func(v ssa.Value) bool {
		k, ok := v.(*ssa.Const)
		return ok && k.IsNil()
	}
	type cmpHit struct {
		pos  token.Pos
		what string
	}
	byFn := map[string][]cmpHit{}
	scanned := 0
	// functions reachable from the editors
	oc := dmlLookupIface(c.P, p.rowRel, p.ocIface)
	if oc == nil {
		c.Undecided("C14-K2", "editor-interface", 0, p.ocIface+" not found in "+p.rowRel)
		return
	}
	recvNamed := func(f *ssa.Function) *types.Named {
		if f.Signature.Recv() == nil {
			return nil
		}
		return dmlNamedOf(f.Signature.Recv().Type())
	}
	reach := map[*ssa.Function]bool{}
	var queue []*ssa.Function
	for _, f := range funcs {
		if nt := recvNamed(f); nt != nil && srcSet[pkgOf(f)] && dmlImplements(nt, oc) {
			reach[f] = true
			queue = append(queue, f)
		}
	}
	nRoots := len(queue)
	for len(queue) > 0 {
		f := queue[0]
		queue = queue[1:]
		add := func(g *ssa.Function) {
			if g != nil && len(g.Blocks) > 0 && analysed[pkgOf(g)] && !reach[g] {
				reach[g] = true
				queue = append(queue, g)
			}
		}
		for _, af := range f.AnonFuncs {
			add(af)
		}
		for _, b := range f.Blocks {
			for _, in := range b.Instrs {
				ci, ok := in.(ssa.CallInstruction)
				if !ok {
					continue
				}
				com := ci.Common()
				if !com.IsInvoke() {
					add(com.StaticCallee())
					continue
				}
				it, _ := com.Value.Type().Underlying().(*types.Interface)
				for _, g := range funcs {
					if nt := recvNamed(g); nt != nil && g.Name() == com.Method.Name() && it != nil && dmlImplements(nt, it) {
						add(g)
					}
				}
			}
		}
	}
	if nRoots == 0 {
		c.Undecided("C14-K2", "editor-roots", 0, "no implementation of "+p.ocIface+" found in the source packages")
		return
	}
	for _, f := range funcs {
		if !srcSet[pkgOf(f)] || !reach[f] {
			continue
		}
		scanned++
		for _, b := range f.Blocks {
			for _, in := range b.Instrs {
				switch x := in.(type) {
				case *ssa.BinOp:
					if (x.Op == token.EQL || x.Op == token.NEQ) && isIface(x.X.Type()) && isIface(x.Y.Type()) && !isNilConst(x.X) && !isNilConst(x.Y) {
						if fromCell(x.X, 0, map[ssa.Value]bool{}) && fromCell(x.Y, 0, map[ssa.Value]bool{}) {
							byFn[fname(f)] = append(byFn[fname(f)], cmpHit{x.Pos(), "interface " + x.Op.String()})
						}
					}
				case *ssa.Call:
					if callee := x.Common().StaticCallee(); callee != nil && callee.Pkg != nil && callee.Pkg.Pkg.Path() == "reflect" && callee.Name() == "DeepEqual" && len(x.Common().Args) == 2 {
						if fromCell(x.Common().Args[0], 0, map[ssa.Value]bool{}) && fromCell(x.Common().Args[1], 0, map[ssa.Value]bool{}) {
							byFn[fname(f)] = append(byFn[fname(f)], cmpHit{x.Pos(), "reflect.DeepEqual"})
						}
					}
				}
			}
		}
	}
	var fns []string
	for f := range byFn {
		fns = append(fns, f)
	}
	sort.Strings(fns)
	for _, f := range fns {
		h := byFn[f][0]
		c.Bad("C14-K2", f+"/cell-equality", h.pos, fmt.Sprintf("%s decides whether two row cells are equal with %s on interface values: 'a' and 'A' under a case-insensitive collation (or padded / differently typed numerics) are different Go values, so duplicates under the column's collation are not detected; compare through the column type's Compare", f, h.what))
	}
	if len(fns) == 0 {
		c.Ok("C14-K2", "no-cell-equality", 0, fmt.Sprintf("%d functions scanned, no == / != / DeepEqual between two row cells", scanned))
	}
}
