package main

// eng_fresh.go — destination freshness ("frs"): does an operation write through memory that the
// function allocated itself, or through memory it was handed?
//
// Question decided, per SSA value v of pointer / slice / map / interface / aggregate type:
// Origins(v) = the set of *leaves* v may refer to:
//
//	fresh      an object allocated by this activation (Alloc: new(T), &T{}, a local variable; make;
//	           the result of a callee that is read and returns only fresh objects)
//	param      what a parameter of the function holds (the object a pointer parameter points to, the
//	           backing array of a slice parameter, the pointers inside a struct parameter)
//	param-deep memory reached by loading through a parameter (p.Lines[i].Points)
//	global     a package-level variable or what it holds
//	foreign    anything else the function did not allocate: the result of a dynamic call or of a callee
//	           whose body is not read, a received value, the contents of memory the walk cannot follow
//
// For a pointer or slice value the leaves are the identity of the referent; for an aggregate value
// (struct, array, interface holding one) they are the referents of its pointer-like components. Loads
// from local cells (Alloc) are resolved through the stores into the cell (first-level field
// sensitive, flow insensitive); loads from memory the function does not own turn param into
// param-deep and fresh into foreign (contents of an object somebody else filled).
//
// Static callees whose bodies are available (module packages plus explicitly built dependency
// packages, e.g. cockroachdb/apd) are summarised: Ret(f, k) = leaves of result k in terms of f's
// parameters, Writes(f) = the parameters through which f stores (directly, through copy(), or through
// a summarised callee). A value is *owned* iff every leaf is fresh or nil. Unknown is never owned:
// the engine over-approximates the origins, so "owned" is a must-property. What it does not see
// (and therefore cannot report): stores performed inside callees whose bodies are not read, stores
// through aliases created by storing the address of a local somewhere else, append() writing into
// spare capacity of a shared slice.

import (
	"fmt"
	"go/token"
	"go/types"
	"sort"
	"strings"

	"golang.org/x/tools/go/ssa"
)

type frsKind int

const (
	frsFresh frsKind = iota
	frsNil
	frsParam
	frsParamDeep
	frsGlobal
	frsForeign
)

type frsLeaf struct {
	kind frsKind
	par  *ssa.Parameter // frsParam, frsParamDeep
	cell *ssa.Alloc     // frsFresh: the allocation, when it is an Alloc of the function itself
	what string
	pos  token.Pos
}

func (l frsLeaf) key() string {
	switch l.kind {
	case frsFresh:
		if l.cell != nil {
			return fmt.Sprintf("0fresh %p", l.cell)
		}
		return "0fresh"
	case frsNil:
		return "1nil"
	case frsParam, frsParamDeep:
		return fmt.Sprintf("2param %d %p %s", l.kind, l.par, l.par.Name())
	}
	return fmt.Sprintf("3%d %s", l.kind, l.what)
}

func (l frsLeaf) String() string {
	switch l.kind {
	case frsFresh:
		return "fresh (" + l.what + ")"
	case frsNil:
		return "nil"
	case frsParam:
		return "parameter " + l.par.Name()
	case frsParamDeep:
		return "memory reached through parameter " + l.par.Name()
	case frsGlobal:
		return "package-level variable " + l.what
	}
	return l.what
}

type frsSet struct{ m map[string]frsLeaf }

func frsNewSet() *frsSet { return &frsSet{m: map[string]frsLeaf{}} }

func (s *frsSet) add(l frsLeaf) {
	k := l.key()
	if _, ok := s.m[k]; !ok {
		s.m[k] = l
	}
}

func (s *frsSet) Leaves() []frsLeaf {
	var ks []string
	for k := range s.m {
		ks = append(ks, k)
	}
	sort.Strings(ks)
	out := make([]frsLeaf, 0, len(ks))
	for _, k := range ks {
		out = append(out, s.m[k])
	}
	return out
}

// Owned: every leaf is a fresh allocation of this activation (or nil).
func (s *frsSet) Owned() bool {
	for _, l := range s.m {
		if l.kind != frsFresh && l.kind != frsNil {
			return false
		}
	}
	return true
}

// NotOwned: the leaves that are not fresh, sorted.
func (s *frsSet) NotOwned() []frsLeaf {
	var out []frsLeaf
	for _, l := range s.Leaves() {
		if l.kind != frsFresh && l.kind != frsNil {
			out = append(out, l)
		}
	}
	return out
}

func (s *frsSet) Describe() string {
	var ds []string
	for _, l := range s.Leaves() {
		ds = append(ds, l.String())
	}
	if len(ds) == 0 {
		return "(nothing)"
	}
	return strings.Join(ds, "; ")
}

type frsWitness struct {
	at   ssa.Instruction
	what string
}

type frsEngine struct {
	p       *Prog
	ix      *orgIndex
	retMemo map[string]*frsSet
	retBusy map[string]bool
	wrMemo  map[*ssa.Function]map[int]frsWitness
	wrBusy  map[*ssa.Function]bool

	fieldMemo   map[*types.Var]*frsSet
	fieldBusy   map[*types.Var]bool
	wholeStored map[*types.Var]bool
	sealedMemo  map[string][]*ssa.Function
}

// frsNewEngine: bodies of the module packages are read; extra names dependency packages (by types
// package) whose function bodies are built and read as well.
func frsNewEngine(p *Prog, extra ...*types.Package) *frsEngine {
	ix := orgIndexOf(p)
	for _, tp := range extra {
		if tp == nil {
			continue
		}
		if sp := ix.prog.Package(tp); sp != nil {
			sp.Build()
		}
	}
	return &frsEngine{p: p, ix: ix, retMemo: map[string]*frsSet{}, retBusy: map[string]bool{},
		wrMemo: map[*ssa.Function]map[int]frsWitness{}, wrBusy: map[*ssa.Function]bool{},
		fieldMemo: map[*types.Var]*frsSet{}, fieldBusy: map[*types.Var]bool{}}
}

func frsReadable(f *ssa.Function) bool { return f != nil && len(f.Blocks) > 0 }

// frsPointerish: can a value of this type refer to mutable memory?
func frsPointerish(t types.Type) bool { return frsPointerishD(t, 0) }

func frsPointerishD(t types.Type, d int) bool {
	if t == nil || d > 6 {
		return true
	}
	switch u := t.Underlying().(type) {
	case *types.Basic:
		return u.Kind() == types.UnsafePointer
	case *types.Pointer, *types.Slice, *types.Map, *types.Chan, *types.Interface, *types.Signature:
		return true
	case *types.Struct:
		for i := 0; i < u.NumFields(); i++ {
			if frsPointerishD(u.Field(i).Type(), d+1) {
				return true
			}
		}
		return false
	case *types.Array:
		return frsPointerishD(u.Elem(), d+1)
	case *types.Tuple:
		for i := 0; i < u.Len(); i++ {
			if frsPointerishD(u.At(i).Type(), d+1) {
				return true
			}
		}
		return false
	case *types.TypeParam:
		return true
	}
	return true
}

type frsWalk struct {
	e     *frsEngine
	out   *frsSet
	seen  map[ssa.Value]bool
	n     *int // budget shared with the sub-walks
	depth int  // nesting of sub-walks (loads through non-local memory)
}

// Origins: the leaves v may refer to (see the file comment).
func (e *frsEngine) Origins(v ssa.Value) *frsSet {
	w := &frsWalk{e: e, out: frsNewSet(), seen: map[ssa.Value]bool{}, n: new(int)}
	w.val(v)
	return w.out
}

// sub: a walk of its own (own visited set: its leaves are transformed by the caller, so values the
// outer walk has already seen must be seen again); nesting is bounded.
func (w *frsWalk) sub() *frsWalk {
	return &frsWalk{e: w.e, out: frsNewSet(), seen: map[ssa.Value]bool{}, n: w.n, depth: w.depth + 1}
}

func (w *frsWalk) foreign(what string, pos token.Pos) {
	w.out.add(frsLeaf{kind: frsForeign, what: what, pos: pos})
}

func (w *frsWalk) val(v ssa.Value) {
	if v == nil || w.seen[v] {
		return
	}
	*w.n++
	if *w.n > 20000 || w.depth > 12 {
		w.foreign("origin walk exceeded its budget", v.Pos())
		return
	}
	if c, ok := v.(*ssa.Const); ok {
		if c.IsNil() && frsPointerish(c.Type()) {
			w.out.add(frsLeaf{kind: frsNil})
		}
		return
	}
	if !frsPointerish(v.Type()) {
		return
	}
	w.seen[v] = true
	switch x := v.(type) {
	case *ssa.Alloc:
		w.out.add(frsLeaf{kind: frsFresh, cell: x, what: frsAllocWhat(x), pos: x.Pos()})
	case *ssa.MakeSlice:
		w.out.add(frsLeaf{kind: frsFresh, what: "make", pos: x.Pos()})
	case *ssa.MakeMap:
		w.out.add(frsLeaf{kind: frsFresh, what: "make", pos: x.Pos()})
	case *ssa.MakeChan:
		w.out.add(frsLeaf{kind: frsFresh, what: "make", pos: x.Pos()})
	case *ssa.MakeClosure, *ssa.Function, *ssa.Builtin:
	case *ssa.Global:
		w.out.add(frsLeaf{kind: frsGlobal, what: x.Name(), pos: x.Pos()})
	case *ssa.Parameter:
		w.out.add(frsLeaf{kind: frsParam, par: x, pos: x.Pos()})
	case *ssa.FreeVar:
		w.foreign("captured variable "+x.Name(), x.Pos())
	case *ssa.Phi:
		for _, e := range x.Edges {
			w.val(e)
		}
	case *ssa.MakeInterface:
		w.val(x.X)
	case *ssa.ChangeInterface:
		w.val(x.X)
	case *ssa.ChangeType:
		w.val(x.X)
	case *ssa.SliceToArrayPointer:
		w.val(x.X)
	case *ssa.Convert:
		if b, ok := x.X.Type().Underlying().(*types.Basic); ok && b.Info()&types.IsString != 0 {
			w.out.add(frsLeaf{kind: frsFresh, what: "conversion from string", pos: x.Pos()})
		} else {
			w.val(x.X)
		}
	case *ssa.TypeAssert:
		w.val(x.X)
	case *ssa.Slice:
		w.val(x.X)
	case *ssa.FieldAddr:
		w.val(x.X)
	case *ssa.IndexAddr:
		w.val(x.X)
	case *ssa.Field:
		w.val(x.X)
	case *ssa.Index:
		w.val(x.X)
	case *ssa.Lookup:
		if _, isMap := x.X.Type().Underlying().(*types.Map); isMap {
			w.nonLocalContents(x.X, "an element of map "+frsDescribe(x.X))
		}
	case *ssa.Extract:
		switch t := x.Tuple.(type) {
		case *ssa.Call:
			w.callResult(t, x.Index)
		case *ssa.TypeAssert:
			if x.Index == 0 {
				w.val(t.X)
			}
		case *ssa.Lookup:
			if x.Index == 0 {
				w.nonLocalContents(t.X, "an element of map "+frsDescribe(t.X))
			}
		case *ssa.Next:
			if rg, ok := t.Iter.(*ssa.Range); ok {
				w.nonLocalContents(rg.X, "an element of "+frsDescribe(rg.X))
			}
		default:
			w.foreign(fmt.Sprintf("component of %T", x.Tuple), x.Pos())
		}
	case *ssa.Call:
		w.callResult(x, 0)
	case *ssa.UnOp:
		switch x.Op {
		case token.MUL:
			w.load(x.X, x)
		case token.ARROW:
			w.foreign("a value received from channel "+frsDescribe(x.X), x.Pos())
		}
	case *ssa.BinOp:
	default:
		w.foreign(fmt.Sprintf("%T %s", v, v.Name()), v.Pos())
	}
}

func frsAllocWhat(a *ssa.Alloc) string {
	if a.Comment != "" {
		return a.Comment
	}
	return "new"
}

// frsPeelAddr strips the address arithmetic from an address: the root whose referent is addressed and
// the first-level selector below the root (field index, -2 for an element, -1 for the root itself).
func frsPeelAddr(addr ssa.Value) (root ssa.Value, first int) {
	first = -1
	for {
		switch x := addr.(type) {
		case *ssa.FieldAddr:
			first = x.Field
			addr = x.X
		case *ssa.IndexAddr:
			first = -2
			addr = x.X
		default:
			return addr, first
		}
	}
}

// load: the value stored at addr (at: the loading instruction, when there is one).
func (w *frsWalk) load(addr ssa.Value, at ssa.Instruction) {
	root, first := frsPeelAddr(addr)
	switch r := root.(type) {
	case *ssa.Alloc:
		w.cellContents(r, first, 0, at)
	case *ssa.FreeVar:
		w.foreign("captured variable "+r.Name(), r.Pos())
	case *ssa.Global:
		w.out.add(frsLeaf{kind: frsGlobal, what: r.Name(), pos: r.Pos()})
	case *ssa.MakeSlice:
		w.sliceStores(r, 0)
	default:
		if fa, ok := addr.(*ssa.FieldAddr); ok {
			if fv := orgFieldOf(fa.X.Type(), fa.Field); fv != nil && w.e.fieldInvariant(fv) {
				w.fieldContents(fv, fa)
				return
			}
		}
		w.nonLocalContents(root, "")
	}
}

// fieldInvariant: can the contents of this struct field be read off the stores to it? Yes for an
// unexported field of a struct declared in a module package whose SSA is indexed: only that package
// can name the field, every store to it (composite literals included) is a FieldAddr store of the
// index, provided no value of the struct type is ever stored as a whole (a struct copy carries the
// field along without naming it).
func (e *frsEngine) fieldInvariant(fv *types.Var) bool {
	if fv == nil || fv.Exported() || fv.Pkg() == nil || !e.ix.inMod[fv.Pkg()] {
		return false
	}
	if e.wholeStored == nil {
		e.wholeStored = map[*types.Var]bool{}
		mark := func(t types.Type) {
			if st, ok := t.Underlying().(*types.Struct); ok {
				for i := 0; i < st.NumFields(); i++ {
					e.wholeStored[st.Field(i)] = true
				}
			}
		}
		for _, f := range e.ix.funcs {
			for _, b := range f.Blocks {
				for _, in := range b.Instrs {
					if st, ok := in.(*ssa.Store); ok {
						if c, isC := st.Val.(*ssa.Const); isC && c.Value == nil {
							continue // zero value
						}
						mark(st.Val.Type())
					}
				}
			}
		}
	}
	return !e.wholeStored[fv]
}

// fieldContents: what the field may hold = what the module stores into it, judged in the storing function.
func (w *frsWalk) fieldContents(fv *types.Var, at *ssa.FieldAddr) {
	if w.e.fieldBusy[fv] {
		return
	}
	set, ok := w.e.fieldMemo[fv]
	if !ok {
		w.e.fieldBusy[fv] = true
		set = frsNewSet()
		owner := fv.Name()
		if pt, ok := at.X.Type().Underlying().(*types.Pointer); ok {
			if n, ok := types.Unalias(pt.Elem()).(*types.Named); ok {
				owner = n.Obj().Name() + "." + fv.Name()
			}
		}
		if len(w.e.ix.stores[fv]) == 0 {
			set.add(frsLeaf{kind: frsForeign, what: "field " + owner + ", which no function of the module stores to (its contents are not visible)", pos: fv.Pos()})
		}
		for _, st := range w.e.ix.stores[fv] {
			fn := st.at.Parent()
			for _, l := range w.e.Origins(st.val).Leaves() {
				switch l.kind {
				case frsFresh:
					if l.cell != nil && len(w.e.ShallowShares(l.cell)) > 0 {
						set.add(frsLeaf{kind: frsForeign, what: "a shallow copy stored into field " + owner + " by " + maFnName(fn), pos: st.at.Pos()})
						continue
					}
					set.add(frsLeaf{kind: frsFresh, what: "field " + owner + " holds only objects allocated by the functions that store into it", pos: st.at.Pos()})
				case frsNil:
				case frsParam, frsParamDeep:
					set.add(frsLeaf{kind: frsForeign, what: fmt.Sprintf("field %s, which %s sets from (memory of) its parameter %s", owner, maFnName(fn), l.par.Name()), pos: st.at.Pos()})
				case frsGlobal:
					set.add(l)
				default:
					set.add(frsLeaf{kind: frsForeign, what: fmt.Sprintf("field %s, which %s sets to %s", owner, maFnName(fn), l.what), pos: st.at.Pos()})
				}
			}
		}
		delete(w.e.fieldBusy, fv)
		w.e.fieldMemo[fv] = set
	}
	for _, l := range set.Leaves() {
		w.out.add(l)
	}
}

// nonLocalContents: a value loaded from memory that base refers to and that is not a local cell.
func (w *frsWalk) nonLocalContents(base ssa.Value, what string) {
	if ms, ok := base.(*ssa.MakeMap); ok {
		if refs := ms.Referrers(); refs != nil {
			clean := true
			for _, q := range *refs {
				switch u := q.(type) {
				case *ssa.MapUpdate:
					if u.Map == ms {
						w.val(u.Value)
					}
				case *ssa.Lookup, *ssa.Range, *ssa.DebugRef:
				default:
					if _, isCall := q.(ssa.CallInstruction); isCall && frsIsLenLike(q) {
						continue
					}
					clean = false
				}
			}
			if clean {
				return
			}
		}
	}
	s := w.sub()
	s.val(base)
	for _, l := range s.out.Leaves() {
		switch l.kind {
		case frsFresh:
			d := what
			if d == "" {
				d = "the contents of " + frsDescribe(base)
			}
			w.foreign(d+" (an object this function allocated or received fresh, but whose contents are not tracked)", base.Pos())
		case frsParam:
			l.kind = frsParamDeep
			w.out.add(l)
		case frsNil:
		default:
			w.out.add(l)
		}
	}
}

func frsIsLenLike(in ssa.Instruction) bool {
	ci, ok := in.(ssa.CallInstruction)
	if !ok {
		return false
	}
	b, ok := ci.Common().Value.(*ssa.Builtin)
	return ok && (b.Name() == "len" || b.Name() == "cap" || b.Name() == "delete" || b.Name() == "clear")
}

// cellContents: the values held by a local cell (an Alloc, or a FreeVar standing for a captured
// one), as a whole (field < 0) or in one first-level field / its elements.
//
// Whole-value stores and direct stores to the asked field are the *definitions* of what the load sees;
// for a load in the cell's own function they are flow sensitive: a definition counts only if it can
// reach the load without being overwritten by another definition of that function
// (`pts = append(make([]T, 0, n), pts...)` cuts the parameter off for everything after it;
// `r := p; r.Lines = make(...)` cuts p.Lines off r.Lines). Partial updates (element stores, nested
// fields), stores made by closures that capture the cell, and loads made inside a closure see every store.
func (w *frsWalk) cellContents(cell ssa.Value, field int, depth int, at ssa.Instruction) {
	refs := cell.Referrers()
	if refs == nil || depth > 4 {
		return
	}
	var defs []ssa.Instruction
	flow := false
	if a, ok := cell.(*ssa.Alloc); ok && at != nil && at.Parent() == a.Parent() {
		flow = true
		for _, ref := range *refs {
			switch q := ref.(type) {
			case *ssa.Store:
				if q.Addr == cell {
					defs = append(defs, q)
				}
			case *ssa.FieldAddr:
				if q.X == cell && field >= 0 && q.Field == field {
					if rr := q.Referrers(); rr != nil {
						for _, u := range *rr {
							if st, ok := u.(*ssa.Store); ok && st.Addr == q {
								defs = append(defs, st)
							}
						}
					}
				}
			}
		}
	}
	keep := func(st *ssa.Store) bool { return !flow || frsReachesAvoiding(st, at, defs) }
	for _, ref := range *refs {
		switch q := ref.(type) {
		case *ssa.Store:
			if q.Addr == cell && keep(q) {
				w.val(q.Val)
			}
		case *ssa.FieldAddr:
			if q.X == cell && (field < 0 || field == -2 || q.Field == field) {
				if field >= 0 {
					w.addrStores(q, 0, keep)
				} else {
					w.addrStores(q, 0, nil)
				}
			}
		case *ssa.IndexAddr:
			if q.X == cell {
				w.addrStores(q, 0, nil)
			}
		case *ssa.Slice:
			if q.X == cell {
				w.sliceStores(q, 0)
			}
		case *ssa.MakeClosure:
			fn, _ := q.Fn.(*ssa.Function)
			for i, b := range q.Bindings {
				if b == cell && fn != nil && i < len(fn.FreeVars) {
					w.cellContents(fn.FreeVars[i], field, depth+1, nil)
				}
			}
		case ssa.CallInstruction:
			w.filledByCall(q, cell)
		}
	}
}

// filledByCall: a pointer into a local cell is handed to a call: the callee may store into the cell.
func (w *frsWalk) filledByCall(ci ssa.CallInstruction, ptr ssa.Value) {
	com := ci.Common()
	if _, isB := com.Value.(*ssa.Builtin); isB {
		if b := com.Value.(*ssa.Builtin); b.Name() == "copy" && len(com.Args) == 2 && com.Args[0] == ptr {
			w.nonLocalContents(com.Args[1], "")
		}
		return
	}
	callee := com.StaticCallee()
	if !frsReadable(callee) {
		w.foreign("contents set by "+frsCalleeName(com), ci.Pos())
		return
	}
	wr := w.e.Writes(callee)
	for i, a := range com.Args {
		if a == ptr {
			if _, writes := wr[i]; writes {
				w.foreign("contents set by "+frsCalleeName(com), ci.Pos())
			}
		}
	}
}

// addrStores: the values stored through an address instruction (and the addresses derived from it).
func (w *frsWalk) addrStores(addr ssa.Value, depth int, keep func(*ssa.Store) bool) {
	refs := addr.Referrers()
	if refs == nil || depth > 4 {
		return
	}
	for _, ref := range *refs {
		switch q := ref.(type) {
		case *ssa.Store:
			if q.Addr == addr && (keep == nil || keep(q)) {
				w.val(q.Val)
			}
		case *ssa.FieldAddr:
			if q.X == addr {
				w.addrStores(q, depth+1, nil)
			}
		case *ssa.IndexAddr:
			if q.X == addr {
				w.addrStores(q, depth+1, nil)
			}
		case *ssa.Slice:
			if q.X == addr {
				w.sliceStores(q, depth+1)
			}
		case ssa.CallInstruction:
			w.filledByCall(q, addr)
		}
	}
}

// sliceStores: the values stored into the elements of a slice value made in this function.
func (w *frsWalk) sliceStores(sl ssa.Value, depth int) {
	refs := sl.Referrers()
	if refs == nil || depth > 4 {
		return
	}
	for _, ref := range *refs {
		switch q := ref.(type) {
		case *ssa.IndexAddr:
			if q.X == sl {
				w.addrStores(q, depth+1, nil)
			}
		case *ssa.Slice:
			if q.X == sl {
				w.sliceStores(q, depth+1)
			}
		case *ssa.Phi:
			// the slice flows on (e.g. a loop variable): its later element stores are not followed
			w.foreign("elements of "+frsDescribe(sl)+" stored after it was merged with another value", q.Pos())
		case ssa.CallInstruction:
			com := q.Common()
			if b, ok := com.Value.(*ssa.Builtin); ok {
				switch b.Name() {
				case "copy":
					if len(com.Args) == 2 && com.Args[0] == sl {
						w.nonLocalContents(com.Args[1], "")
					}
				case "append":
					if len(com.Args) > 0 && com.Args[0] == sl {
						for _, a := range com.Args[1:] {
							w.nonLocalContents(a, "")
						}
					}
				}
				continue
			}
			w.filledByCall(q, sl)
		}
	}
}

func frsCalleeName(com *ssa.CallCommon) string {
	if com.IsInvoke() {
		return "dynamic call " + frsDescribe(com.Value) + "." + com.Method.Name()
	}
	if f := com.StaticCallee(); f != nil {
		return maFnName(f)
	}
	return "dynamic call " + frsDescribe(com.Value)
}

func (w *frsWalk) callResult(call *ssa.Call, idx int) {
	com := call.Common()
	if b, ok := com.Value.(*ssa.Builtin); ok {
		if b.Name() == "append" && len(com.Args) > 0 {
			w.val(com.Args[0])
			w.out.add(frsLeaf{kind: frsFresh, what: "append", pos: call.Pos()})
		}
		return
	}
	callee := com.StaticCallee()
	if com.IsInvoke() {
		if impls := w.e.sealedImpls(com.Value.Type(), com.Method); len(impls) > 0 {
			// a sealed interface of the module: the result is what one of its (all known) implementations returns
			args := append([]ssa.Value{com.Value}, com.Args...)
			for _, fn := range impls {
				w.mapRet(fn, idx, args, call)
			}
			return
		}
	}
	if !frsReadable(callee) {
		w.foreign("the result of "+frsCalleeName(com), call.Pos())
		return
	}
	w.mapRet(callee, idx, com.Args, call)
}

// mapRet: the leaves of result idx of callee, translated to the caller (args: the actual arguments,
// receiver first).
func (w *frsWalk) mapRet(callee *ssa.Function, idx int, args []ssa.Value, call *ssa.Call) {
	for _, l := range w.e.Ret(callee, idx).Leaves() {
		switch l.kind {
		case frsFresh:
			if !w.e.cellsClean(callee, l) {
				w.foreign("a copy made by "+maFnName(callee)+" that shares memory with what it was copied from", call.Pos())
				continue
			}
			w.out.add(frsLeaf{kind: frsFresh, what: "allocated by " + maFnName(callee), pos: call.Pos()})
		case frsNil:
			w.out.add(l)
		case frsParam, frsParamDeep:
			i := frsParamIndex(callee, l.par)
			if i < 0 || i >= len(args) {
				w.foreign("the result of "+maFnName(callee), call.Pos())
				continue
			}
			if l.kind == frsParam {
				w.val(args[i])
			} else {
				w.nonLocalContents(args[i], "memory reachable from argument "+frsDescribe(args[i])+" of "+maFnName(callee))
			}
		default:
			w.out.add(l)
		}
	}
}

func frsParamIndex(f *ssa.Function, p *ssa.Parameter) int {
	for i, q := range f.Params {
		if q == p {
			return i
		}
	}
	return -1
}

// Ret: leaves of result idx of f, in terms of f's own parameters.
func (e *frsEngine) Ret(f *ssa.Function, idx int) *frsSet {
	key := fmt.Sprintf("%p/%d", f, idx)
	if s, ok := e.retMemo[key]; ok {
		return s
	}
	if e.retBusy[key] {
		return frsNewSet() // recursion: the cycle adds nothing of its own
	}
	e.retBusy[key] = true
	out := frsNewSet()
	for _, b := range f.Blocks {
		if len(b.Instrs) == 0 {
			continue
		}
		if ret, ok := b.Instrs[len(b.Instrs)-1].(*ssa.Return); ok && idx < len(ret.Results) {
			for _, l := range e.Origins(ret.Results[idx]).Leaves() {
				out.add(l)
			}
		}
	}
	delete(e.retBusy, key)
	e.retMemo[key] = out
	return out
}

// frsStoreRoot: the value whose referent a store through addr modifies, or nil when the store goes
// into a local cell of the function itself.
func frsStoreRoot(addr ssa.Value) ssa.Value {
	root, _ := frsPeelAddr(addr)
	if _, local := root.(*ssa.Alloc); local {
		return nil
	}
	return root
}

// Writes: the parameters of f through which f stores (index -> one witness).
func (e *frsEngine) Writes(f *ssa.Function) map[int]frsWitness {
	if m, ok := e.wrMemo[f]; ok {
		return m
	}
	if f != nil && !frsReadable(f) {
		return frsStdWrites(f)
	}
	if e.wrBusy[f] || f == nil {
		return nil
	}
	e.wrBusy[f] = true
	out := map[int]frsWitness{}
	note := func(v ssa.Value, at ssa.Instruction, what string) {
		if v == nil {
			return
		}
		for _, l := range e.Origins(v).Leaves() {
			if l.kind == frsParam || l.kind == frsParamDeep {
				if i := frsParamIndex(f, l.par); i >= 0 {
					if _, dup := out[i]; !dup {
						out[i] = frsWitness{at, what}
					}
				}
			}
		}
	}
	for _, b := range f.Blocks {
		for _, in := range b.Instrs {
			switch x := in.(type) {
			case *ssa.Store:
				note(frsStoreRoot(x.Addr), in, "store to "+frsDescribe(x.Addr))
			case *ssa.MapUpdate:
				note(x.Map, in, "map update of "+frsDescribe(x.Map))
			case ssa.CallInstruction:
				com := x.Common()
				if bi, ok := com.Value.(*ssa.Builtin); ok {
					if bi.Name() == "copy" && len(com.Args) == 2 {
						note(com.Args[0], in, "copy into "+frsDescribe(com.Args[0]))
					}
					if bi.Name() == "append" && len(com.Args) > 0 {
						if base := frsShortenedReslice(com.Args[0]); base != nil {
							note(base, in, "append to a shortened re-slice of "+frsDescribe(base)+", which overwrites its elements in place")
						}
					}
					continue
				}
				callee := com.StaticCallee()
				if callee == nil {
					continue
				}
				cw := e.Writes(callee)
				var js []int
				for j := range cw {
					js = append(js, j)
				}
				sort.Ints(js)
				for _, j := range js {
					if j < len(com.Args) {
						note(com.Args[j], in, "call of "+maFnName(callee)+", which writes through its "+frsParamName(callee, j))
					}
				}
			}
		}
	}
	delete(e.wrBusy, f)
	e.wrMemo[f] = out
	return out
}

// frsDescribe: a short, source-like, position-free description of an SSA value.
func frsDescribe(v ssa.Value) string { return frsDescribeD(v, 0) }

func frsDescribeD(v ssa.Value, d int) string {
	if v == nil {
		return "?"
	}
	if d > 8 {
		return "…"
	}
	q := func(p *types.Package) string { return p.Name() }
	switch x := v.(type) {
	case *ssa.Parameter:
		return x.Name()
	case *ssa.FreeVar:
		return x.Name()
	case *ssa.Global:
		return x.Name()
	case *ssa.Const:
		if x.IsNil() {
			return "nil"
		}
		return x.Name()
	case *ssa.Alloc:
		if x.Comment != "" {
			return x.Comment
		}
		return "new(" + types.TypeString(x.Type().Underlying().(*types.Pointer).Elem(), q) + ")"
	case *ssa.MakeSlice:
		return "make(" + types.TypeString(x.Type(), q) + ")"
	case *ssa.MakeMap:
		return "make(" + types.TypeString(x.Type(), q) + ")"
	case *ssa.Phi:
		if x.Comment != "" {
			return x.Comment
		}
		var es []string
		seen := map[string]bool{}
		for _, e := range x.Edges {
			s := frsDescribeD(e, d+3)
			if !seen[s] {
				seen[s] = true
				es = append(es, s)
			}
		}
		return strings.Join(es, "|")
	case *ssa.FieldAddr:
		return frsDescribeD(x.X, d+1) + "." + frsFieldName(x.X.Type(), x.Field)
	case *ssa.Field:
		return frsDescribeD(x.X, d+1) + "." + frsFieldName(x.X.Type(), x.Field)
	case *ssa.IndexAddr:
		return frsDescribeD(x.X, d+1) + "[]"
	case *ssa.Index:
		return frsDescribeD(x.X, d+1) + "[]"
	case *ssa.Lookup:
		return frsDescribeD(x.X, d+1) + "[]"
	case *ssa.Slice:
		return frsDescribeD(x.X, d+1) + "[:]"
	case *ssa.UnOp:
		if x.Op == token.MUL {
			return frsDescribeD(x.X, d+1)
		}
		return x.Op.String() + frsDescribeD(x.X, d+1)
	case *ssa.MakeInterface:
		return frsDescribeD(x.X, d+1)
	case *ssa.ChangeInterface:
		return frsDescribeD(x.X, d+1)
	case *ssa.ChangeType:
		return frsDescribeD(x.X, d+1)
	case *ssa.Convert:
		return types.TypeString(x.Type(), q) + "(" + frsDescribeD(x.X, d+1) + ")"
	case *ssa.TypeAssert:
		return frsDescribeD(x.X, d+1) + ".(" + types.TypeString(x.AssertedType, q) + ")"
	case *ssa.Extract:
		if ta, ok := x.Tuple.(*ssa.TypeAssert); ok && x.Index == 0 {
			return frsDescribeD(ta, d+1)
		}
		if nx, ok := x.Tuple.(*ssa.Next); ok {
			if rg, ok := nx.Iter.(*ssa.Range); ok {
				return "range " + frsDescribeD(rg.X, d+1)
			}
		}
		s := frsDescribeD(x.Tuple, d+1)
		if x.Index > 0 {
			s += fmt.Sprintf("#%d", x.Index)
		}
		return s
	case *ssa.Call:
		com := x.Common()
		if com.IsInvoke() {
			return frsDescribeD(com.Value, d+1) + "." + com.Method.Name() + "()"
		}
		if b, ok := com.Value.(*ssa.Builtin); ok {
			if len(com.Args) > 0 {
				return b.Name() + "(" + frsDescribeD(com.Args[0], d+1) + ", …)"
			}
			return b.Name() + "()"
		}
		if f := com.StaticCallee(); f != nil {
			return maFnName(f) + "()"
		}
		return frsDescribeD(com.Value, d+1) + "()"
	case *ssa.Function:
		return maFnName(x)
	case *ssa.BinOp:
		return frsDescribeD(x.X, d+1) + x.Op.String() + frsDescribeD(x.Y, d+1)
	}
	return fmt.Sprintf("%T", v)
}

func frsFieldName(t types.Type, i int) string {
	if fv := orgFieldOf(t, i); fv != nil {
		return fv.Name()
	}
	return fmt.Sprintf("f%d", i)
}

// frsFuncKey: a stable, position-free name of an SSA function for construct keys: DeclName style
// ("Type.Method", "func"), anonymous functions as parent$n.
func frsFuncKey(f *ssa.Function) string {
	if f == nil {
		return "?"
	}
	if f.Parent() != nil {
		return frsFuncKey(f.Parent()) + "$" + strings.TrimPrefix(f.Name(), f.Parent().Name()+"$")
	}
	if recv := f.Signature.Recv(); recv != nil {
		t := recv.Type()
		if p, ok := t.(*types.Pointer); ok {
			t = p.Elem()
		}
		if n, ok := types.Unalias(t).(*types.Named); ok {
			return n.Obj().Name() + "." + f.Name()
		}
	}
	return f.Name()
}

// ShallowShares: cell is a local allocation of an aggregate; the leaves of the pointer-like values the
// function itself stores into it (whole-value stores such as `*c = *x` / new(*x), and field stores)
// that are not owned. A cell filled that way is a new object that shares interior memory with its
// source: operations that update the interior in place (apd's big coefficient) reach the source.
// Stores done by callees into the cell are not included (a callee that is given the cell as its
// destination is judged by its own body).
func (e *frsEngine) ShallowShares(cell *ssa.Alloc) []frsLeaf {
	w := &frsWalk{e: e, out: frsNewSet(), seen: map[ssa.Value]bool{}, n: new(int)}
	refs := cell.Referrers()
	if refs == nil {
		return nil
	}
	var direct func(addr ssa.Value, d int)
	direct = func(addr ssa.Value, d int) {
		rr := addr.Referrers()
		if rr == nil || d > 4 {
			return
		}
		for _, q := range *rr {
			switch u := q.(type) {
			case *ssa.Store:
				if u.Addr == addr {
					w.val(u.Val)
				}
			case *ssa.FieldAddr:
				if u.X == addr {
					direct(u, d+1)
				}
			case *ssa.IndexAddr:
				if u.X == addr {
					direct(u, d+1)
				}
			}
		}
	}
	direct(cell, 0)
	return w.out.NotOwned()
}

// cellsClean: a fresh leaf of a callee's result summary stands for an allocation of the callee; it
// counts as fresh for the caller only if the callee did not fill it with a shallow copy of foreign memory.
func (e *frsEngine) cellsClean(callee *ssa.Function, l frsLeaf) bool {
	if l.cell == nil {
		return true
	}
	return len(e.ShallowShares(l.cell)) == 0
}

func frsParamName(f *ssa.Function, j int) string {
	if j < len(f.Params) {
		return "parameter " + f.Params[j].Name()
	}
	if sig := f.Signature; sig != nil {
		k := j
		if sig.Recv() != nil {
			if k == 0 {
				return "receiver"
			}
			k--
		}
		if k < sig.Params().Len() && sig.Params().At(k).Name() != "" {
			return "parameter " + sig.Params().At(k).Name()
		}
	}
	return fmt.Sprintf("argument %d", j)
}

// frsStdInPlace: functions of the standard library that permute / overwrite the elements of their
// argument in place (argument index). Their bodies are not read; this is their documented contract.
var frsStdInPlace = map[string]int{
	"sort.Slice": 0, "sort.SliceStable": 0, "sort.Sort": 0, "sort.Stable": 0, "sort.Strings": 0, "sort.Ints": 0, "sort.Float64s": 0,
	"slices.Sort": 0, "slices.SortFunc": 0, "slices.SortStableFunc": 0, "slices.Reverse": 0,
}

func frsStdWrites(f *ssa.Function) map[int]frsWitness {
	g := f
	if o := f.Origin(); o != nil {
		g = o
	}
	if g.Pkg == nil || g.Signature.Recv() != nil {
		return nil
	}
	if j, ok := frsStdInPlace[g.Pkg.Pkg.Path()+"."+g.Name()]; ok {
		return map[int]frsWitness{j: {nil, g.Pkg.Pkg.Path() + "." + g.Name() + " reorders its argument in place"}}
	}
	return nil
}

// frsShortenedReslice: v is (a phi / append chain over) a re-slice x[:k] / x[i:k] with an explicit upper
// bound other than len(x): appending to it stores into x's backing array (the spare capacity is x's
// own tail) - the "filter in place" idiom. Returns x, or nil.
func frsShortenedReslice(v ssa.Value) ssa.Value {
	seen := map[ssa.Value]bool{}
	var walk func(v ssa.Value) ssa.Value
	walk = func(v ssa.Value) ssa.Value {
		if v == nil || seen[v] {
			return nil
		}
		seen[v] = true
		switch x := v.(type) {
		case *ssa.Slice:
			if x.High == nil {
				return walk(x.X)
			}
			if call, ok := x.High.(*ssa.Call); ok {
				if b, ok := call.Common().Value.(*ssa.Builtin); ok && b.Name() == "len" && len(call.Common().Args) == 1 && call.Common().Args[0] == x.X {
					return walk(x.X)
				}
			}
			if _, isStr := x.X.Type().Underlying().(*types.Basic); isStr {
				return nil
			}
			return x.X
		case *ssa.Phi:
			for _, e := range x.Edges {
				if r := walk(e); r != nil {
					return r
				}
			}
		case *ssa.Call:
			if b, ok := x.Common().Value.(*ssa.Builtin); ok && b.Name() == "append" && len(x.Common().Args) > 0 {
				return walk(x.Common().Args[0])
			}
		case *ssa.UnOp:
			if x.Op == token.MUL {
				if a, ok := x.X.(*ssa.Alloc); ok {
					if refs := a.Referrers(); refs != nil {
						for _, q := range *refs {
							if st, ok := q.(*ssa.Store); ok && st.Addr == a {
								if r := walk(st.Val); r != nil {
									return r
								}
							}
						}
					}
				}
			}
		}
		return nil
	}
	return walk(v)
}

// frsReachesAvoiding: can control flow from instruction `from` reach instruction `to` without executing
// any instruction of `avoid` other than `from` itself (and before `to`)?
func frsReachesAvoiding(from, to ssa.Instruction, avoid []ssa.Instruction) bool {
	if from.Block() == nil || to.Block() == nil {
		return true
	}
	av := map[ssa.Instruction]bool{}
	for _, a := range avoid {
		if a != from {
			av[a] = true
		}
	}
	// scan: walk the instructions of b from index i; true = reached `to`, stop = killed
	scan := func(b *ssa.BasicBlock, i int) (reached, killed bool) {
		for ; i < len(b.Instrs); i++ {
			if b.Instrs[i] == to {
				return true, false
			}
			if av[b.Instrs[i]] {
				return false, true
			}
		}
		return false, false
	}
	fb := from.Block()
	start := 0
	for i, in := range fb.Instrs {
		if in == from {
			start = i + 1
		}
	}
	if r, k := scan(fb, start); r {
		return true
	} else if k {
		return false
	}
	seen := map[*ssa.BasicBlock]bool{}
	work := append([]*ssa.BasicBlock{}, fb.Succs...)
	for len(work) > 0 {
		b := work[len(work)-1]
		work = work[:len(work)-1]
		if seen[b] {
			continue
		}
		seen[b] = true
		r, k := scan(b, 0)
		if r {
			return true
		}
		if !k {
			work = append(work, b.Succs...)
		}
	}
	return false
}

// ---- protected writes: primitive sinks, and the module functions that become writers by forwarding

// frsSink: instruction `at` of fn writes memory of the protected kind through dest.
type frsSink struct {
	fn   *ssa.Function
	at   ssa.Instruction
	dest ssa.Value
	how  string
}

type frsSinkID struct {
	at   ssa.Instruction
	dest ssa.Value
}

// ProtectedSinks closes a set of primitive sinks (given per instruction by prim) under forwarding: a
// module function whose sink destination may be (what) its own parameter i (holds) is a writer of
// parameter i, whatever the static type of the parameter (interface{}, a struct value, a slice), and
// every static call of it is a sink for the argument in that position. Returns all sinks (primitive
// ones first, each group in the index's function order) and the writer table.
//
// forward(f, p) says whether a write through f's own parameter p is the callers' business (f is a
// destination-passing helper all of whose callers are visible); when it is not, the rule reports
// the write inside f and the call sites of f are not sinks.
func (e *frsEngine) ProtectedSinks(prim func(f *ssa.Function, in ssa.Instruction) []frsSink, forward func(f *ssa.Function, p *ssa.Parameter) bool) ([]frsSink, map[*ssa.Function]map[int]bool) {
	var prims []frsSink
	for _, f := range e.ix.funcs {
		for _, b := range f.Blocks {
			for _, in := range b.Instrs {
				prims = append(prims, prim(f, in)...)
			}
		}
	}
	primAt := map[frsSinkID]bool{}
	for _, s := range prims {
		primAt[frsSinkID{s.at, s.dest}] = true
	}
	memo := map[ssa.Value]*frsSet{}
	origins := func(v ssa.Value) *frsSet {
		if o, ok := memo[v]; ok {
			return o
		}
		o := e.Origins(v)
		memo[v] = o
		return o
	}
	W := map[*ssa.Function]map[int]bool{}
	var all []frsSink
	for round := 0; round < 12; round++ {
		all = append([]frsSink{}, prims...)
		if len(W) > 0 {
			for _, f := range e.ix.funcs {
				for _, b := range f.Blocks {
					for _, in := range b.Instrs {
						ci, ok := in.(ssa.CallInstruction)
						if !ok {
							continue
						}
						g := ci.Common().StaticCallee()
						if g == nil || W[g] == nil {
							continue
						}
						var js []int
						for j := range W[g] {
							js = append(js, j)
						}
						sort.Ints(js)
						for _, j := range js {
							if args := ci.Common().Args; j < len(args) && !primAt[frsSinkID{in, args[j]}] {
								all = append(all, frsSink{f, in, args[j], maFnName(g)})
							}
						}
					}
				}
			}
		}
		changed := false
		for _, s := range all {
			for _, l := range origins(s.dest).Leaves() {
				if l.kind != frsParam || !forward(s.fn, l.par) {
					continue
				}
				if i := frsParamIndex(s.fn, l.par); i >= 0 {
					if W[s.fn] == nil {
						W[s.fn] = map[int]bool{}
					}
					if !W[s.fn][i] {
						W[s.fn][i] = true
						changed = true
					}
				}
			}
		}
		if !changed {
			break
		}
	}
	return all, W
}

// sealedImpls: the implementations of method m of interface type t when t is *sealed*: a named interface
// declared in a module package with at least one unexported method, so that only types of the loaded
// module can implement it. Returns nil when t is not sealed, when an implementation has no readable
// body, or when there are more than 24 (the summaries would cost more than they decide).
func (e *frsEngine) sealedImpls(t types.Type, m *types.Func) []*ssa.Function {
	n, ok := types.Unalias(t).(*types.Named)
	if !ok || n.Obj().Pkg() == nil || !e.ix.inMod[n.Obj().Pkg()] || m == nil {
		return nil
	}
	it, ok := n.Underlying().(*types.Interface)
	if !ok {
		return nil
	}
	key := n.Obj().Pkg().Path() + "." + n.Obj().Name() + "." + m.Name()
	if r, ok := e.sealedMemo[key]; ok {
		return r
	}
	if e.sealedMemo == nil {
		e.sealedMemo = map[string][]*ssa.Function{}
	}
	e.sealedMemo[key] = nil
	sealed := false
	for i := 0; i < it.NumMethods(); i++ {
		if !it.Method(i).Exported() {
			sealed = true
		}
	}
	if !sealed {
		return nil
	}
	var out []*ssa.Function
	for _, pk := range e.p.Module {
		if pk.Types == nil {
			continue
		}
		sc := pk.Types.Scope()
		for _, name := range sc.Names() {
			tn, ok := sc.Lookup(name).(*types.TypeName)
			if !ok || tn.IsAlias() {
				continue
			}
			if _, isI := tn.Type().Underlying().(*types.Interface); isI {
				continue
			}
			if nt, ok := tn.Type().(*types.Named); ok && nt.TypeParams().Len() > 0 {
				continue
			}
			for _, cand := range []types.Type{tn.Type(), types.NewPointer(tn.Type())} {
				if !types.Implements(cand, it) {
					continue
				}
				sel := e.ix.prog.MethodSets.MethodSet(cand).Lookup(m.Pkg(), m.Name())
				if sel == nil {
					return nil
				}
				fn := e.ix.prog.MethodValue(sel)
				if !frsReadable(fn) {
					return nil
				}
				out = append(out, fn)
				break
			}
		}
	}
	if len(out) > 24 {
		return nil
	}
	e.sealedMemo[key] = out
	return out
}
