package main

import (
	"go/ast"
	"go/constant"
	"go/token"
	"go/types"
	"strings"
)

// C23-T4: the prescribed order is the order of execution.
//
// Each application of a trigger lands next to the DML node (T3): a BEFORE executor between the node and what was its
// source so far, an AFTER executor between the node and what was above it so far. Rows therefore pass the BEFORE
// executors in application order and the AFTER executors in reverse application order. Hence:
//
//	(a) applyTriggers applies the slice returned by the ordering wrapper, nothing else;
//	(b) OrderTriggers' split loop sends `time == before` to one result and the rest to the other — this fixes which
//	    result index is the BEFORE half;
//	(c) that split loop ranges over the slice the PRECEDES/FOLLOWS loop reorders, not over the input;
//	(d) the reorder inserts a PRECEDES trigger at the index of the referenced trigger and a FOLLOWS trigger at index+1
//	    (read from append(s[:a], append(t, s[a:]...)...));
//	(e) the wrapper reverses exactly the result bound to the AFTER index and returns both halves.

func c23RunOrder(e *c23Env) {
	c := e.c
	ainfo := e.anPk.TypesInfo
	pinfo := e.planPk.TypesInfo
	orderFn := LookupFunc(e.planPk, e.nm.orderFn)
	wrapFn := LookupFunc(e.anPk, e.nm.orderWrapFn)
	oneFn := LookupFunc(e.anPk, e.nm.applyOneFn)
	_, applyFd := c.P.FuncDecl(e.nm.anRel, e.nm.applyFn)
	orderFd := c.P.Decl(orderFn)
	wrapFd := c.P.Decl(wrapFn)
	if orderFd == nil || wrapFd == nil || applyFd == nil || oneFn == nil {
		c.Undecided("C23-T4", "anchors", 0, "plan."+e.nm.orderFn+", analyzer."+e.nm.orderWrapFn+", "+e.nm.applyFn+" or "+e.nm.applyOneFn+" not found")
		return
	}

	// (a) the application loop
	{
		key := e.nm.applyFn + "/applies-ordered-slice"
		var loop *ast.RangeStmt
		ast.Inspect(applyFd.Body, func(n ast.Node) bool {
			if rs, ok := n.(*ast.RangeStmt); ok {
				for _, call := range c23AllCalls(rs.Body) {
					if fn := Callee(ainfo, call); fn != nil && fn == oneFn {
						loop = rs
					}
				}
			}
			return true
		})
		if loop == nil {
			c.Undecided("C23-T4", key, applyFd.Pos(), "no range loop that calls "+e.nm.applyOneFn)
		} else {
			o := c23Obj(ainfo, loop.X)
			good := o != nil
			why := "the application loop does not range over a variable"
			if call, ok := ast.Unparen(loop.X).(*ast.CallExpr); ok {
				fn := Callee(ainfo, call)
				good = fn != nil && fn == wrapFn
				why = "the application loop ranges over a call that is not the ordering function"
			} else if good {
				as := c23AssignmentsTo(ainfo, applyFd.Body, o)
				good = len(as) > 0
				why = "the applied slice is never assigned"
				for _, a := range as {
					call, ok := ast.Unparen(a.rhs).(*ast.CallExpr)
					if a.rhs == nil || !ok || Callee(ainfo, call) != wrapFn {
						good, why = false, "the applied slice is not (only) the result of "+e.nm.orderWrapFn+": triggers would run in catalog order, ignoring FOLLOWS/PRECEDES and the AFTER reversal"
					}
				}
			}
			// the wrapper must use the ordering function
			usesOrder := false
			for _, call := range c23AllCalls(wrapFd.Body) {
				if fn := Callee(ainfo, call); fn != nil && fn == orderFn {
					usesOrder = true
				}
			}
			if good && !usesOrder {
				good, why = false, e.nm.orderWrapFn+" does not call plan."+e.nm.orderFn
			}
			if good {
				c.Ok("C23-T4", key, loop.Pos(), "triggers are applied in the order returned by "+e.nm.orderWrapFn)
			} else {
				c.Bad("C23-T4", key, loop.Pos(), why)
			}
		}
	}

	// ---- OrderTriggers ---------------------------------------------------------------------------------------------
	sig := orderFn.Type().(*types.Signature)
	if sig.Params().Len() != 1 || sig.Results().Len() != 2 {
		c.Undecided("C23-T4", e.nm.orderFn+"/split-by-time", orderFd.Pos(), "expected func(triggers) (before, after)")
		return
	}
	param := pinfo.Defs[orderFd.Type.Params.List[0].Names[0]]
	sliceT := param.Type()
	// result objects by index: named results, or the identifiers of the final return
	resObj := [2]types.Object{}
	if orderFd.Type.Results != nil {
		i := 0
		for _, f := range orderFd.Type.Results.List {
			for _, nm := range f.Names {
				if i < 2 {
					resObj[i] = pinfo.Defs[nm]
				}
				i++
			}
		}
	}
	ast.Inspect(orderFd.Body, func(n ast.Node) bool {
		if r, ok := n.(*ast.ReturnStmt); ok && len(r.Results) == 2 {
			for i := range r.Results {
				if o := c23Obj(pinfo, r.Results[i]); o != nil {
					if resObj[i] != nil && resObj[i] != o {
						resObj[i] = nil // inconsistent
					} else {
						resObj[i] = o
					}
				}
			}
		}
		return true
	})
	constStr := func(x ast.Expr) string {
		if tv, ok := pinfo.Types[x]; ok && tv.Value != nil && tv.Value.Kind() == constant.String {
			return strings.ToLower(constant.StringVal(tv.Value))
		}
		return ""
	}
	// cmpConst: cond is `<expr> == "<const>"`; returns the const (lower case) and the other side
	cmpConst := func(cond ast.Expr) (string, ast.Expr, bool) {
		be, ok := ast.Unparen(cond).(*ast.BinaryExpr)
		if !ok || (be.Op != token.EQL && be.Op != token.NEQ) {
			return "", nil, false
		}
		if s := constStr(be.Y); s != "" {
			return s, be.X, be.Op == token.EQL
		}
		if s := constStr(be.X); s != "" {
			return s, be.Y, be.Op == token.EQL
		}
		return "", nil, false
	}
	appendTarget := func(st ast.Stmt) types.Object {
		// x = append(x, …)
		as, ok := st.(*ast.AssignStmt)
		if !ok || len(as.Lhs) != 1 || len(as.Rhs) != 1 {
			return nil
		}
		call, ok := ast.Unparen(as.Rhs[0]).(*ast.CallExpr)
		if !ok || !IsBuiltinCall(pinfo, call, "append") || len(call.Args) < 2 {
			return nil
		}
		lo := c23Obj(pinfo, as.Lhs[0])
		if lo == nil || c23Obj(pinfo, call.Args[0]) != lo {
			return nil
		}
		return lo
	}

	// (b) split loop
	beforeIdx := -1
	var splitLoop *ast.RangeStmt
	{
		key := e.nm.orderFn + "/split-by-time"
		ast.Inspect(orderFd.Body, func(n ast.Node) bool {
			rs, ok := n.(*ast.RangeStmt)
			if !ok || splitLoop != nil {
				return true
			}
			for _, st := range rs.Body.List {
				is, ok := st.(*ast.IfStmt)
				if !ok || is.Else == nil {
					continue
				}
				s, _, eq := cmpConst(is.Cond)
				if s != "before" && s != "after" {
					continue
				}
				thenIsBefore := (s == "before") == eq
				var thenT, elseT types.Object
				if len(is.Body.List) == 1 {
					thenT = appendTarget(is.Body.List[0])
				}
				if eb, ok := is.Else.(*ast.BlockStmt); ok && len(eb.List) == 1 {
					elseT = appendTarget(eb.List[0])
				}
				if thenT == nil || elseT == nil || thenT == elseT {
					continue
				}
				splitLoop = rs
				bT := thenT
				if !thenIsBefore {
					bT = elseT
				}
				for i := 0; i < 2; i++ {
					if resObj[i] == bT {
						beforeIdx = i
					}
				}
				aT := elseT
				if !thenIsBefore {
					aT = thenT
				}
				if beforeIdx >= 0 && resObj[1-beforeIdx] != aT {
					beforeIdx = -1
				}
			}
			return true
		})
		if splitLoop == nil || beforeIdx < 0 {
			c.Undecided("C23-T4", key, orderFd.Pos(), "no loop of the shape `if t.time == before { a = append(a, t) } else { b = append(b, t) }` whose targets are the two results")
		} else {
			c.Ok("C23-T4", key, splitLoop.Pos(), "BEFORE triggers go to result "+string(rune('0'+beforeIdx))+", the others to result "+string(rune('0'+1-beforeIdx))+", in slice order")
		}
	}

	// (c) + (d) the reorder loop
	var reorder *ast.RangeStmt
	var reordered types.Object
	ast.Inspect(orderFd.Body, func(n ast.Node) bool {
		rs, ok := n.(*ast.RangeStmt)
		if !ok || reorder != nil || rs == splitLoop || c23Obj(pinfo, rs.X) != param {
			return true
		}
		reorder = rs
		return true
	})
	if reorder != nil {
		ast.Inspect(reorder.Body, func(n ast.Node) bool {
			if as, ok := n.(*ast.AssignStmt); ok {
				for _, l := range as.Lhs {
					if o := c23Obj(pinfo, l); o != nil && o != param && types.Identical(o.Type(), sliceT) {
						if reordered != nil && reordered != o {
							reordered = param // ambiguous: poisoned below
						} else {
							reordered = o
						}
					}
				}
			}
			return true
		})
	}
	{
		key := e.nm.orderFn + "/splits-reordered-slice"
		switch {
		case reorder == nil || reordered == nil || reordered == param:
			c.Undecided("C23-T4", key, orderFd.Pos(), "no loop over the input that reorders a single working slice")
		case splitLoop == nil:
			c.Undecided("C23-T4", key, orderFd.Pos(), "split loop not found")
		default:
			c.Check(c23Obj(pinfo, splitLoop.X) == reordered, "C23-T4", key, splitLoop.Pos(), "the BEFORE/AFTER split ranges over the reordered slice",
				"the BEFORE/AFTER split does not range over the slice that the PRECEDES/FOLLOWS loop reorders: the declared order is computed and thrown away")
		}
	}
	if reorder != nil && reordered != nil && reordered != param {
		// find `if <x>.PrecedesOrFollows == "precedes" {…} else if … == "follows" {…}` and read the splices
		type splice struct {
			at  ast.Expr
			pos token.Pos
			ok  bool
		}
		readSplice := func(st ast.Stmt) (splice, bool) {
			as, ok := st.(*ast.AssignStmt)
			if !ok || len(as.Lhs) != 1 || len(as.Rhs) != 1 || c23Obj(pinfo, as.Lhs[0]) != reordered {
				return splice{}, false
			}
			outer, ok := ast.Unparen(as.Rhs[0]).(*ast.CallExpr)
			if !ok || !IsBuiltinCall(pinfo, outer, "append") || len(outer.Args) != 2 {
				return splice{}, false
			}
			head, ok := ast.Unparen(outer.Args[0]).(*ast.SliceExpr)
			if !ok || c23Obj(pinfo, head.X) != reordered || head.Low != nil || head.High == nil {
				return splice{}, false // plain append(s, t): not a splice
			}
			inner, ok := ast.Unparen(outer.Args[1]).(*ast.CallExpr)
			if !ok || !outer.Ellipsis.IsValid() || !IsBuiltinCall(pinfo, inner, "append") || len(inner.Args) != 2 || !inner.Ellipsis.IsValid() {
				return splice{pos: as.Pos()}, true
			}
			tail, ok := ast.Unparen(inner.Args[1]).(*ast.SliceExpr)
			if !ok || c23Obj(pinfo, tail.X) != reordered || tail.High != nil || tail.Low == nil {
				return splice{pos: as.Pos()}, true
			}
			if types.ExprString(head.High) != types.ExprString(tail.Low) {
				return splice{pos: as.Pos()}, true // drops or duplicates elements
			}
			return splice{at: head.High, pos: as.Pos(), ok: true}, true
		}
		var visitIf func(is *ast.IfStmt, refIdx types.Object)
		seenRole := map[string]bool{}
		visitIf = func(is *ast.IfStmt, refIdx types.Object) {
			s, _, eq := cmpConst(is.Cond)
			if (s == "precedes" || s == "follows") && eq {
				role := strings.ToUpper(s)
				key := e.nm.orderFn + "/" + role
				n := 0
				ast.Inspect(is.Body, func(k ast.Node) bool {
					st, ok := k.(ast.Stmt)
					if !ok {
						return true
					}
					sp, isSp := readSplice(st)
					if !isSp {
						return true
					}
					n++
					seenRole[role] = true
					good := sp.ok && refIdx != nil
					if good {
						if s == "precedes" {
							good = c23Obj(pinfo, sp.at) == refIdx
						} else {
							be, ok := ast.Unparen(sp.at).(*ast.BinaryExpr)
							good = ok && be.Op == token.ADD && c23Obj(pinfo, be.X) == refIdx
							if good {
								tv, ok := pinfo.Types[be.Y]
								good = ok && tv.Value != nil && constant.Compare(tv.Value, token.EQL, constant.MakeInt64(1))
							}
						}
					}
					want := "at the index of the referenced trigger"
					if s == "follows" {
						want = "at the index of the referenced trigger + 1"
					}
					c.Check(good, "C23-T4", key, sp.pos, role+" re-inserts the trigger "+want, role+" does not re-insert the trigger "+want+" (splice append(s[:a], append(t, s[a:]...)...) with that a)")
					return true
				})
				if n == 0 {
					c.Bad("C23-T4", key, is.Pos(), "the "+role+" branch never re-inserts the trigger into the reordered slice")
					seenRole[role] = true
				}
			}
			if ei, ok := is.Else.(*ast.IfStmt); ok {
				visitIf(ei, refIdx)
			}
		}
		// the inner loop that finds the referenced trigger: its key variable is the reference index
		ast.Inspect(reorder.Body, func(n ast.Node) bool {
			rs, ok := n.(*ast.RangeStmt)
			if !ok || c23Obj(pinfo, rs.X) != reordered || rs.Key == nil {
				return true
			}
			refIdx := c23Obj(pinfo, rs.Key)
			ast.Inspect(rs.Body, func(k ast.Node) bool {
				if is, ok := k.(*ast.IfStmt); ok {
					s, _, _ := cmpConst(is.Cond)
					if s == "precedes" || s == "follows" {
						visitIf(is, refIdx)
						return false
					}
				}
				return true
			})
			return false
		})
		for _, role := range []string{"PRECEDES", "FOLLOWS"} {
			if !seenRole[role] {
				c.Undecided("C23-T4", e.nm.orderFn+"/"+role, reorder.Pos(), "no branch for "+role+" inside the search for the referenced trigger")
			}
		}
	}

	// (e) the wrapper reverses exactly the AFTER half
	{
		key := e.nm.orderWrapFn + "/reverses-after-half"
		var lhs [2]types.Object
		found := false
		ast.Inspect(wrapFd.Body, func(n ast.Node) bool {
			if as, ok := n.(*ast.AssignStmt); ok && len(as.Rhs) == 1 && len(as.Lhs) == 2 {
				if call, ok := ast.Unparen(as.Rhs[0]).(*ast.CallExpr); ok && Callee(ainfo, call) == orderFn {
					lhs[0], lhs[1] = c23Obj(ainfo, as.Lhs[0]), c23Obj(ainfo, as.Lhs[1])
					found = true
				}
			}
			return true
		})
		if !found || beforeIdx < 0 || lhs[0] == nil || lhs[1] == nil {
			c.Undecided("C23-T4", key, wrapFd.Pos(), "the two results of plan."+e.nm.orderFn+" are not bound to two variables (or the split was not readable)")
		} else {
			reversed := map[types.Object]bool{}
			unreadable := false
			ast.Inspect(wrapFd.Body, func(n ast.Node) bool {
				switch x := n.(type) {
				case *ast.CallExpr:
					if fn := Callee(ainfo, x); fn != nil && fn.Pkg() != nil && fn.Pkg().Path() == "slices" && fn.Name() == "Reverse" && len(x.Args) == 1 {
						if o := c23Obj(ainfo, x.Args[0]); o != nil {
							reversed[o] = true
						}
					}
				case *ast.ForStmt:
					o, ok := c23ReverseLoop(ainfo, x)
					if ok {
						reversed[o] = true
					} else if o != nil {
						unreadable = true
					}
				}
				return true
			})
			after, before := lhs[1-beforeIdx], lhs[beforeIdx]
			returnsBoth := false
			ast.Inspect(wrapFd.Body, func(n ast.Node) bool {
				if r, ok := n.(*ast.ReturnStmt); ok && len(r.Results) == 1 {
					if c23Mentions(ainfo, r.Results[0], map[types.Object]bool{after: true}) && c23Mentions(ainfo, r.Results[0], map[types.Object]bool{before: true}) {
						returnsBoth = true
					}
				}
				return true
			})
			switch {
			case unreadable:
				c.Undecided("C23-T4", key, wrapFd.Pos(), "a loop swaps elements of a result of "+e.nm.orderFn+" but is not a plain full reversal")
			case !reversed[after]:
				c.Bad("C23-T4", key, wrapFd.Pos(), "the AFTER half (result "+string(rune('0'+1-beforeIdx))+" of "+e.nm.orderFn+") is not reversed: each AFTER executor lands directly above the DML node, so the last applied runs first")
			case reversed[before]:
				c.Bad("C23-T4", key, wrapFd.Pos(), "the BEFORE half (result "+string(rune('0'+beforeIdx))+" of "+e.nm.orderFn+") is reversed: BEFORE executors run in application order")
			case !returnsBoth:
				c.Bad("C23-T4", key, wrapFd.Pos(), "the wrapper does not return both halves")
			default:
				c.Ok("C23-T4", key, wrapFd.Pos(), "exactly the AFTER half is reversed and both halves are returned")
			}
		}
	}
}

// c23ReverseLoop recognises `for l, r := 0, len(s)-1; l < r; l, r = l+1, r-1 { s[l], s[r] = s[r], s[l] }`.
// It returns the slice variable; ok=false with a non-nil object means "swaps elements of it but not this shape".
func c23ReverseLoop(info *types.Info, fs *ast.ForStmt) (types.Object, bool) {
	var swap *ast.AssignStmt
	for _, st := range fs.Body.List {
		if as, ok := st.(*ast.AssignStmt); ok && len(as.Lhs) == 2 && len(as.Rhs) == 2 {
			l0, ok0 := ast.Unparen(as.Lhs[0]).(*ast.IndexExpr)
			l1, ok1 := ast.Unparen(as.Lhs[1]).(*ast.IndexExpr)
			if ok0 && ok1 && types.ExprString(l0) == types.ExprString(as.Rhs[1]) && types.ExprString(l1) == types.ExprString(as.Rhs[0]) && c23Obj(info, l0.X) != nil && c23Obj(info, l0.X) == c23Obj(info, l1.X) {
				swap = as
			}
		}
	}
	if swap == nil {
		return nil, false
	}
	l0 := ast.Unparen(swap.Lhs[0]).(*ast.IndexExpr)
	l1 := ast.Unparen(swap.Lhs[1]).(*ast.IndexExpr)
	s := c23Obj(info, l0.X)
	li, ri := c23Obj(info, l0.Index), c23Obj(info, l1.Index)
	if li == nil || ri == nil || li == ri || len(fs.Body.List) != 1 {
		return s, false
	}
	// init: li, ri := 0, len(s)-1
	init, ok := fs.Init.(*ast.AssignStmt)
	if !ok || len(init.Lhs) != 2 || len(init.Rhs) != 2 {
		return s, false
	}
	val := func(o types.Object) ast.Expr {
		for i, l := range init.Lhs {
			if c23Obj(info, l) == o {
				return init.Rhs[i]
			}
		}
		return nil
	}
	isZero := func(x ast.Expr) bool {
		tv, ok := info.Types[x]
		return x != nil && ok && tv.Value != nil && constant.Compare(tv.Value, token.EQL, constant.MakeInt64(0))
	}
	isLenMinus1 := func(x ast.Expr) bool {
		be, ok := ast.Unparen(x).(*ast.BinaryExpr)
		if x == nil || !ok || be.Op != token.SUB {
			return false
		}
		call, ok := ast.Unparen(be.X).(*ast.CallExpr)
		if !ok || !IsBuiltinCall(info, call, "len") || c23Obj(info, call.Args[0]) != s {
			return false
		}
		tv, ok := info.Types[be.Y]
		return ok && tv.Value != nil && constant.Compare(tv.Value, token.EQL, constant.MakeInt64(1))
	}
	lo, hi := li, ri
	if !(isZero(val(lo)) && isLenMinus1(val(hi))) {
		lo, hi = ri, li
		if !(isZero(val(lo)) && isLenMinus1(val(hi))) {
			return s, false
		}
	}
	// cond: lo < hi
	cond, ok := ast.Unparen(fs.Cond).(*ast.BinaryExpr)
	if !ok {
		return s, false
	}
	switch {
	case cond.Op == token.LSS && c23Obj(info, cond.X) == lo && c23Obj(info, cond.Y) == hi:
	case cond.Op == token.GTR && c23Obj(info, cond.X) == hi && c23Obj(info, cond.Y) == lo:
	default:
		return s, false
	}
	// post: lo, hi = lo+1, hi-1
	post, ok := fs.Post.(*ast.AssignStmt)
	if !ok || len(post.Lhs) != 2 || len(post.Rhs) != 2 {
		return s, false
	}
	for i, l := range post.Lhs {
		o := c23Obj(info, l)
		be, ok := ast.Unparen(post.Rhs[i]).(*ast.BinaryExpr)
		if !ok || c23Obj(info, be.X) != o {
			return s, false
		}
		tv, ok := info.Types[be.Y]
		if !ok || tv.Value == nil || !constant.Compare(tv.Value, token.EQL, constant.MakeInt64(1)) {
			return s, false
		}
		if (o == lo && be.Op != token.ADD) || (o == hi && be.Op != token.SUB) || (o != lo && o != hi) {
			return s, false
		}
	}
	return s, true
}
