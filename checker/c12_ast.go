package main

import (
	"fmt"
	"go/ast"
	"go/token"
	"go/types"
	"sort"
	"strings"

	"golang.org/x/tools/go/packages"
)

// C12-A: the syntax tree a session caches for a prepared statement is read-only.
//
// Every execution of a prepared statement hands the SAME parser tree to the planbuilder
// (Engine.preparedStatement -> Builder.BindOnly). If the planbuilder stores into a node of
// that tree while building, the next execution no longer builds the statement that was
// prepared. The rule enumerates every store whose written memory belongs to a parser node
// and is reached through a reference that was not allocated in the same function.
//
// A store is `lhs = …`, `lhs op= …`, `lhs++`, copy(lhs, …), delete(lhs, …). The left-hand
// side is read as a chain root.step.step…; the memory written belongs to the object reached
// by the LAST dereference in the chain (pointer field selection, slice/map index, *p). A
// chain without a dereference writes a local variable (a private copy) and is no store here.

type c12AstCfg struct {
	isASTPkg   func(p *types.Package) bool
	nodeIface  string   // name of the node interface in the AST package ("SQLNode")
	scope      []string // module packages (rel) through which the cached tree passes
	exceptions map[string]string
}

type c12Store struct {
	fn      *ast.FuncDecl
	pk      *packages.Package
	pos     token.Pos
	lhs     ast.Expr
	target  string // "<Type>.<path>" of the written location
	root    *ast.Ident
	derefs  int
	rootPtr bool // the only dereference is that of the root identifier itself
}

type c12Step struct {
	x     ast.Expr // operand
	name  string   // ".f" or "[]" or "*"
	deref bool
}

// c12Chain decomposes a left-hand side into root and steps (outermost last).
func c12Chain(info *types.Info, lhs ast.Expr) (root ast.Expr, steps []c12Step) {
	e := ast.Unparen(lhs)
	for {
		switch x := e.(type) {
		case *ast.SelectorExpr:
			if s := info.Selections[x]; s != nil && s.Kind() == types.FieldVal {
				steps = append(steps, c12Step{x: x.X, name: "." + x.Sel.Name, deref: s.Indirect()})
				e = ast.Unparen(x.X)
				continue
			}
			// qualified identifier (package-level variable) or method value: root
		case *ast.IndexExpr:
			d := false
			if t := info.TypeOf(x.X); t != nil {
				switch u := t.Underlying().(type) {
				case *types.Slice, *types.Map:
					d = true
				case *types.Pointer:
					_ = u
					d = true
				}
			}
			steps = append(steps, c12Step{x: x.X, name: "[]", deref: d})
			e = ast.Unparen(x.X)
			continue
		case *ast.StarExpr:
			steps = append(steps, c12Step{x: x.X, name: "*", deref: true})
			e = ast.Unparen(x.X)
			continue
		case *ast.TypeAssertExpr:
			e = ast.Unparen(x.X)
			continue
		}
		break
	}
	// reverse: innermost first
	for i, j := 0, len(steps)-1; i < j; i, j = i+1, j-1 {
		steps[i], steps[j] = steps[j], steps[i]
	}
	return e, steps
}

func (a *c12AstCfg) namedAST(t types.Type) *types.Named {
	if t == nil {
		return nil
	}
	if n, ok := types.Unalias(t).(*types.Named); ok && n.Obj().Pkg() != nil && a.isASTPkg(n.Obj().Pkg()) {
		return n
	}
	return nil
}

// refTarget describes the memory a dereference of r reaches if that memory belongs to a
// parser node: "" otherwise.
func (a *c12AstCfg) refTarget(info *types.Info, r ast.Expr, defs map[types.Object][]ast.Expr, depth int) string {
	t := info.TypeOf(r)
	if t == nil {
		return ""
	}
	if p, ok := types.Unalias(t).Underlying().(*types.Pointer); ok {
		if n := a.namedAST(p.Elem()); n != nil {
			if _, isStruct := n.Underlying().(*types.Struct); isStruct {
				return n.Obj().Name()
			}
			return n.Obj().Name()
		}
	}
	if n := a.namedAST(t); n != nil {
		switch n.Underlying().(type) {
		case *types.Slice, *types.Map:
			return n.Obj().Name()
		}
	}
	// a slice/map/pointer-valued field of a parser struct
	if sel, ok := ast.Unparen(r).(*ast.SelectorExpr); ok {
		if s := info.Selections[sel]; s != nil && s.Kind() == types.FieldVal {
			if fv, ok := s.Obj().(*types.Var); ok && fv.Pkg() != nil && a.isASTPkg(fv.Pkg()) {
				owner := ""
				rt := s.Recv()
				if p, ok := types.Unalias(rt).(*types.Pointer); ok {
					rt = p.Elem()
				}
				if n, ok := types.Unalias(rt).(*types.Named); ok {
					owner = n.Obj().Name()
				}
				return owner + "." + fv.Name()
			}
		}
	}
	// a local alias of such a field (one level)
	if id, ok := ast.Unparen(r).(*ast.Ident); ok && depth == 0 {
		if o := info.Uses[id]; o != nil {
			if ds := defs[o]; len(ds) == 1 {
				return a.refTarget(info, ds[0], defs, 1)
			}
		}
	}
	return ""
}

// c12LocalDefs collects, per local variable, the expressions assigned to the whole variable.
func c12LocalDefs(info *types.Info, body ast.Node) map[types.Object][]ast.Expr {
	defs := map[types.Object][]ast.Expr{}
	obj := func(e ast.Expr) types.Object {
		if id, ok := ast.Unparen(e).(*ast.Ident); ok {
			if o := info.Defs[id]; o != nil {
				return o
			}
			return info.Uses[id]
		}
		return nil
	}
	ast.Inspect(body, func(n ast.Node) bool {
		switch s := n.(type) {
		case *ast.AssignStmt:
			if len(s.Lhs) == len(s.Rhs) {
				for i := range s.Lhs {
					if o := obj(s.Lhs[i]); o != nil {
						defs[o] = append(defs[o], s.Rhs[i])
					}
				}
			} else if len(s.Rhs) == 1 {
				for i := range s.Lhs {
					if o := obj(s.Lhs[i]); o != nil {
						defs[o] = append(defs[o], s.Rhs[0])
					}
				}
			}
		case *ast.ValueSpec:
			for i, nm := range s.Names {
				o := info.Defs[nm]
				if o == nil {
					continue
				}
				if len(s.Values) == len(s.Names) {
					defs[o] = append(defs[o], s.Values[i])
				} else if len(s.Values) == 1 {
					defs[o] = append(defs[o], s.Values[0])
				} else {
					defs[o] = append(defs[o], nil) // zero value
				}
			}
		case *ast.RangeStmt:
			if s.Key != nil {
				if o := obj(s.Key); o != nil {
					defs[o] = append(defs[o], s.X)
				}
			}
			if s.Value != nil {
				if o := obj(s.Value); o != nil {
					defs[o] = append(defs[o], s.X)
				}
			}
		}
		return true
	})
	return defs
}

// fresh reports whether e allocates new memory: &T{…}, T{…}, new(T), make(…), a call of a
// package-level function of the AST package (constructors, the parser), or nil (zero value).
func (a *c12AstCfg) fresh(info *types.Info, e ast.Expr) bool {
	if e == nil {
		return true
	}
	switch x := ast.Unparen(e).(type) {
	case *ast.CompositeLit:
		return true
	case *ast.UnaryExpr:
		if x.Op == token.AND {
			_, ok := ast.Unparen(x.X).(*ast.CompositeLit)
			return ok
		}
	case *ast.CallExpr:
		if IsBuiltinCall(info, x, "new") || IsBuiltinCall(info, x, "make") {
			return true
		}
		if fn := Callee(info, x); fn != nil && fn.Pkg() != nil && a.isASTPkg(fn.Pkg()) {
			if sig, ok := fn.Type().(*types.Signature); ok && sig.Recv() == nil {
				return true
			}
		}
	case *ast.Ident:
		if x.Name == "nil" && info.Uses[x] == types.Universe.Lookup("nil") {
			return true
		}
	}
	return false
}

func (a *c12AstCfg) rootFresh(info *types.Info, root ast.Expr, defs map[types.Object][]ast.Expr) bool {
	id, ok := root.(*ast.Ident)
	if !ok {
		return a.fresh(info, root)
	}
	o := info.Uses[id]
	if o == nil {
		o = info.Defs[id]
	}
	ds := defs[o]
	if len(ds) == 0 {
		return false // parameter, receiver, type-switch or named result: not allocated here
	}
	for _, d := range ds {
		if !a.fresh(info, d) {
			return false
		}
	}
	return true
}

// c12StoresIn lists the stores of one function whose written memory belongs to a parser node.
func (a *c12AstCfg) storesIn(pk *packages.Package, fd *ast.FuncDecl) (out []c12Store, defs map[types.Object][]ast.Expr) {
	info := pk.TypesInfo
	defs = c12LocalDefs(info, fd.Body)
	consider := func(lhs ast.Expr, pos token.Pos) {
		root, steps := c12Chain(info, lhs)
		last := -1
		n := 0
		for i, s := range steps {
			if s.deref {
				last = i
				n++
			}
		}
		if last < 0 {
			return
		}
		tgt := a.refTarget(info, steps[last].x, defs, 0)
		if tgt == "" {
			return
		}
		path := ""
		for _, s := range steps[last:] {
			if s.name == "*" {
				continue
			}
			path += s.name
		}
		st := c12Store{fn: fd, pk: pk, pos: pos, lhs: lhs, target: tgt + path, derefs: n}
		if id, ok := root.(*ast.Ident); ok {
			st.root = id
			st.rootPtr = n == 1 && ast.Unparen(steps[last].x) == ast.Expr(id)
		}
		if a.rootFresh(info, root, defs) {
			return // memory allocated in this function
		}
		out = append(out, st)
	}
	ast.Inspect(fd.Body, func(n ast.Node) bool {
		switch s := n.(type) {
		case *ast.AssignStmt:
			if s.Tok == token.DEFINE {
				return true
			}
			for _, l := range s.Lhs {
				consider(l, s.Pos())
			}
		case *ast.IncDecStmt:
			consider(s.X, s.Pos())
		case *ast.RangeStmt:
			if s.Tok == token.ASSIGN {
				if s.Key != nil {
					consider(s.Key, s.Pos())
				}
				if s.Value != nil {
					consider(s.Value, s.Pos())
				}
			}
		case *ast.CallExpr:
			if (IsBuiltinCall(info, s, "copy") || IsBuiltinCall(info, s, "delete") || IsBuiltinCall(info, s, "clear")) && len(s.Args) > 0 {
				// writes the memory its first argument refers to
				consider(&ast.IndexExpr{X: s.Args[0], Index: &ast.BasicLit{Kind: token.INT, Value: "0"}}, s.Pos())
			}
		}
		return true
	})
	return out, defs
}

func c12IsTestFile(p *Prog, pos token.Pos) bool {
	return strings.HasSuffix(p.Fset.Position(pos).Filename, "_test.go")
}

// c12CallSites indexes static call sites of module functions.
func c12CallSites(p *Prog) map[*types.Func][]c12Site {
	out := map[*types.Func][]c12Site{}
	p.EachModuleFuncDecl(func(pk *packages.Package, fd *ast.FuncDecl) {
		if c12IsTestFile(p, fd.Pos()) {
			return
		}
		ast.Inspect(fd.Body, func(n ast.Node) bool {
			if call, ok := n.(*ast.CallExpr); ok {
				if fn := Callee(pk.TypesInfo, call); fn != nil {
					out[fn.Origin()] = append(out[fn.Origin()], c12Site{pk, fd, call})
				}
			}
			return true
		})
	})
	return out
}

type c12Site struct {
	pk   *packages.Package
	fd   *ast.FuncDecl
	call *ast.CallExpr
}

// privateCopy: the store goes through pointer parameter `root` of fd only (one dereference) and
// every caller in the module passes the address of a struct-valued local or value parameter.
func (a *c12AstCfg) privateCopy(p *Prog, st c12Store, sites map[*types.Func][]c12Site) (bool, string) {
	if !st.rootPtr || st.root == nil {
		return false, ""
	}
	info := st.pk.TypesInfo
	o, _ := info.Uses[st.root].(*types.Var)
	fn, _ := info.Defs[st.fn.Name].(*types.Func)
	if o == nil || fn == nil {
		return false, ""
	}
	sig := fn.Type().(*types.Signature)
	idx := -1
	for i := 0; i < sig.Params().Len(); i++ {
		if sig.Params().At(i) == o {
			idx = i
		}
	}
	if idx < 0 {
		return false, ""
	}
	ss := sites[fn]
	if len(ss) == 0 {
		return false, ""
	}
	var who []string
	for _, s := range ss {
		if idx >= len(s.call.Args) {
			return false, ""
		}
		u, ok := ast.Unparen(s.call.Args[idx]).(*ast.UnaryExpr)
		if !ok || u.Op != token.AND {
			return false, ""
		}
		id, ok := ast.Unparen(u.X).(*ast.Ident)
		if !ok {
			return false, ""
		}
		v, _ := s.pk.TypesInfo.Uses[id].(*types.Var)
		if v == nil || v.IsField() || v.Parent() == nil || v.Parent() == s.pk.Types.Scope() {
			return false, ""
		}
		if _, isStruct := v.Type().Underlying().(*types.Struct); !isStruct {
			return false, ""
		}
		who = append(who, DeclName(s.fd)+" passes &"+id.Name)
	}
	sort.Strings(who)
	return true, strings.Join(who, "; ")
}

// mutators: methods of parser node types that store into memory reached from their receiver.
func (a *c12AstCfg) mutators(p *Prog) (map[*types.Func]bool, *types.Interface) {
	out := map[*types.Func]bool{}
	var node *types.Interface
	for _, pk := range p.ByPath {
		if !a.isASTPkg(pk.Types) {
			continue
		}
		if tn, ok := pk.Types.Scope().Lookup(a.nodeIface).(*types.TypeName); ok {
			node, _ = tn.Type().Underlying().(*types.Interface)
		}
		for _, f := range pk.Syntax {
			for _, d := range f.Decls {
				fd, ok := d.(*ast.FuncDecl)
				if !ok || fd.Body == nil || fd.Recv == nil || len(fd.Recv.List) == 0 || len(fd.Recv.List[0].Names) == 0 {
					continue
				}
				recv := pk.TypesInfo.Defs[fd.Recv.List[0].Names[0]]
				fn, _ := pk.TypesInfo.Defs[fd.Name].(*types.Func)
				if recv == nil || fn == nil {
					continue
				}
				stores, _ := a.storesIn(pk, fd)
				for _, st := range stores {
					if st.root != nil && pk.TypesInfo.Uses[st.root] == recv {
						out[fn] = true
					}
				}
			}
		}
	}
	return out, node
}

// ifaceMutator: fn is a method of an interface declared in the parser package and some parser type that
// implements the interface has a mutator under that name.
func (a *c12AstCfg) ifaceMutator(p *Prog, fn *types.Func, muts map[*types.Func]bool) bool {
	sig, _ := fn.Type().(*types.Signature)
	if sig == nil || sig.Recv() == nil || fn.Pkg() == nil || !a.isASTPkg(fn.Pkg()) {
		return false
	}
	iface, ok := sig.Recv().Type().Underlying().(*types.Interface)
	if !ok {
		return false
	}
	for m := range muts {
		if m.Name() != fn.Name() {
			continue
		}
		rt := m.Type().(*types.Signature).Recv().Type()
		if types.Implements(rt, iface) {
			return true
		}
		if _, isPtr := rt.(*types.Pointer); !isPtr && types.Implements(types.NewPointer(rt), iface) {
			return true
		}
	}
	return false
}

func runC12Ast(c *Ctx, a *c12AstCfg, floors map[string]int) {
	c.Rule("C12-A1", "the cached syntax tree is read-only: no store (assignment, op-assignment, ++/--, copy/delete/clear) in the packages a cached statement passes through writes memory of a parser node "+
		"through a reference that was not allocated in the same function (or is the caller's private struct copy)", floors["C12-A1"])
	c.Rule("C12-A2", "no method of a parser node type that stores into its receiver is called on a node that was not allocated in the same function", floors["C12-A2"])
	inScope := map[*packages.Package]bool{}
	for _, rel := range a.scope {
		pk := c.P.Pkg(rel)
		if pk == nil {
			c.Undecided("C12-A1", "package "+rel, 0, "package not loaded")
			return
		}
		inScope[pk] = true
	}
	astLoaded := false
	for _, pk := range c.P.ByPath {
		if a.isASTPkg(pk.Types) && len(pk.Syntax) > 0 {
			astLoaded = true
		}
	}
	if !astLoaded {
		c.Undecided("C12-A1", "parser package", 0, "the parser's AST package is not loaded with syntax")
		return
	}
	sites := c12CallSites(c.P)
	muts, node := a.mutators(c.P)
	if node == nil {
		c.Undecided("C12-A2", a.nodeIface, 0, "node interface of the parser package not found")
	}
	c.Notef("parser node methods that store into their receiver: %d", len(muts))

	type agg struct {
		st    c12Store
		lines []string
	}
	seenExc := map[string]bool{}
	c.P.EachModuleFuncDecl(func(pk *packages.Package, fd *ast.FuncDecl) {
		if c12IsTestFile(c.P, fd.Pos()) {
			return
		}
		stores, defs := a.storesIn(pk, fd)
		fname := DeclName(fd)
		groups := map[string]*agg{}
		var order []string
		for _, st := range stores {
			g := groups[st.target]
			if g == nil {
				g = &agg{st: st}
				groups[st.target] = g
				order = append(order, st.target)
			}
			g.lines = append(g.lines, c.P.Rel(st.pos))
		}
		for _, tgt := range order {
			g := groups[tgt]
			key := fname + "/" + tgt
			where := strings.Join(g.lines, ", ")
			if !inScope[pk] {
				c.Note("C12-A1", c12PkgName(pk.PkgPath)+"."+key, g.st.pos, "store into a parser node outside the packages a session's cached statement passes through (not decided here): "+where)
				continue
			}
			if ok, who := a.privateCopy(c.P, g.st, sites); ok {
				c.Ok("C12-A1", key, g.st.pos, "writes the caller's private copy of the struct ("+who+"), not the cached tree")
				continue
			}
			if r, ok := a.exceptions[key]; ok {
				seenExc[key] = true
				c.Exc("C12-A1", key, g.st.pos, r)
				continue
			}
			c.Bad("C12-A1", key, g.st.pos, fmt.Sprintf("%s stores into %s of a parser node it did not allocate (%s): for a prepared statement this node belongs to the tree the session caches, "+
				"so the next EXECUTE builds a different statement than the one prepared", fname, tgt, types.ExprString(g.st.lhs)), where)
		}
		if !inScope[pk] || node == nil {
			return
		}
		info := pk.TypesInfo
		ast.Inspect(fd.Body, func(n ast.Node) bool {
			call, ok := n.(*ast.CallExpr)
			if !ok {
				return true
			}
			fn := Callee(info, call)
			if fn == nil || !(muts[fn.Origin()] || a.ifaceMutator(c.P, fn, muts)) {
				return true
			}
			sel, ok := ast.Unparen(call.Fun).(*ast.SelectorExpr)
			if !ok {
				return true
			}
			rt := info.TypeOf(sel.X)
			if rt == nil || !(types.Implements(rt, node) || types.Implements(types.NewPointer(rt), node)) {
				return true
			}
			root, _ := c12Chain(info, sel.X)
			key := fname + "/" + fn.Name()
			if a.rootFresh(info, root, defs) {
				c.Ok("C12-A2", key, call.Pos(), "receiver allocated in this function")
				return true
			}
			if r, ok := a.exceptions[key]; ok {
				c.Exc("C12-A2", key, call.Pos(), r)
				return true
			}
			c.Bad("C12-A2", key, call.Pos(), fmt.Sprintf("%s calls %s, which stores into its receiver, on a parser node it did not allocate: the cached tree of a prepared statement would be changed", fname, FullName(fn)))
			return true
		})
	})
	for k := range a.exceptions {
		if !seenExc[k] && !c.fixtureMode {
			c.Note("C12-A1", "stale-exception/"+k, 0, "exception table entry no longer matches a store")
		}
	}
}
