package main

import (
	"go/ast"
	"go/token"
	"go/types"

	"golang.org/x/tools/go/cfg"
)

// Path walker and three-valued condition evaluator used by the C19-G* clauses.
//
// go/cfg keeps a whole `if` condition as ONE node (&&, || and ! are not lowered), so the
// clauses below evaluate conditions over Kleene logic: named atoms get a fixed value for the
// walk (a case split chosen by the caller), everything else is "unknown" and both successors
// are followed. The walker enumerates paths (small functions only; a step budget makes an
// oversized function undecided, never a pass) and carries the values of local bool variables.

const (
	c19gF = 0
	c19gT = 1
	c19gU = 2
)

func c19gNot(a int) int {
	switch a {
	case c19gT:
		return c19gF
	case c19gF:
		return c19gT
	}
	return c19gU
}

func c19gAnd(a, b int) int {
	if a == c19gF || b == c19gF {
		return c19gF
	}
	if a == c19gT && b == c19gT {
		return c19gT
	}
	return c19gU
}

func c19gOr(a, b int) int {
	if a == c19gT || b == c19gT {
		return c19gT
	}
	if a == c19gF && b == c19gF {
		return c19gF
	}
	return c19gU
}

func c19gBoolConst(info *types.Info, e ast.Expr) (int, bool) {
	id, ok := ast.Unparen(e).(*ast.Ident)
	if !ok {
		return c19gU, false
	}
	if c, ok := info.Uses[id].(*types.Const); ok && c.Pkg() == nil {
		switch c.Name() {
		case "true":
			return c19gT, true
		case "false":
			return c19gF, true
		}
	}
	return c19gU, false
}

// c19gEval evaluates a boolean expression. atom is asked first for every sub-expression and
// may claim it; the structure (parens, !, &&, ||, ==/!= against true/false) is folded here.
func c19gEval(info *types.Info, e ast.Expr, atom func(ast.Expr) (int, bool)) int {
	e = ast.Unparen(e)
	if v, ok := c19gBoolConst(info, e); ok {
		return v
	}
	if atom != nil {
		if v, ok := atom(e); ok {
			return v
		}
	}
	switch x := e.(type) {
	case *ast.UnaryExpr:
		if x.Op == token.NOT {
			return c19gNot(c19gEval(info, x.X, atom))
		}
	case *ast.BinaryExpr:
		switch x.Op {
		case token.LAND:
			return c19gAnd(c19gEval(info, x.X, atom), c19gEval(info, x.Y, atom))
		case token.LOR:
			return c19gOr(c19gEval(info, x.X, atom), c19gEval(info, x.Y, atom))
		case token.EQL, token.NEQ:
			var other ast.Expr
			var k int
			if v, ok := c19gBoolConst(info, x.Y); ok {
				other, k = x.X, v
			} else if v, ok := c19gBoolConst(info, x.X); ok {
				other, k = x.Y, v
			}
			if other != nil {
				v := c19gEval(info, other, atom)
				if k == c19gF {
					v = c19gNot(v)
				}
				if x.Op == token.NEQ {
					v = c19gNot(v)
				}
				return v
			}
		}
	}
	return c19gU
}

// c19gIsBranch reports whether block b ends in a boolean condition that selects between
// Succs[0] (true) and Succs[1] (false), and returns it. Tagged switches and range heads are
// not boolean branches.
func c19gIsBranch(b *cfg.Block, tagless map[*ast.CaseClause]bool) (ast.Expr, bool) {
	if len(b.Succs) != 2 || len(b.Nodes) == 0 {
		return nil, false
	}
	e, ok := b.Nodes[len(b.Nodes)-1].(ast.Expr)
	if !ok {
		return nil, false
	}
	switch b.Succs[0].Kind {
	case cfg.KindIfThen, cfg.KindForBody:
		return e, true
	case cfg.KindSwitchCaseBody:
		// go/cfg hangs the case body on its CaseClause; only `switch { case cond: }` compares with true
		if cc, ok := b.Succs[0].Stmt.(*ast.CaseClause); ok && tagless[cc] {
			return e, true
		}
	}
	return nil, false
}

// c19gTaglessCases collects the case clauses of the `switch { … }` statements (no tag, no init
// restrictions) under root: their case expressions are boolean conditions.
func c19gTaglessCases(root ast.Node) map[*ast.CaseClause]bool {
	out := map[*ast.CaseClause]bool{}
	ast.Inspect(root, func(n ast.Node) bool {
		if sw, ok := n.(*ast.SwitchStmt); ok && sw.Tag == nil {
			for _, s := range sw.Body.List {
				if cc, ok := s.(*ast.CaseClause); ok {
					out[cc] = true
				}
			}
		}
		return true
	})
	return out
}

// c19gPath is the state carried along one path.
type c19gPath struct {
	bl     map[types.Object]int // local bool variables
	ptr    map[types.Object]int // client-defined abstraction of nilable locals
	tags   map[types.Object]int // client-defined tags of other locals
	marks  map[string]bool      // client-defined events
	visits map[*cfg.Block]int
	trail  []ast.Node
}

func (p *c19gPath) clone() *c19gPath {
	q := &c19gPath{bl: map[types.Object]int{}, ptr: map[types.Object]int{}, tags: map[types.Object]int{}, marks: map[string]bool{}, visits: map[*cfg.Block]int{}}
	for k, v := range p.bl {
		q.bl[k] = v
	}
	for k, v := range p.ptr {
		q.ptr[k] = v
	}
	for k, v := range p.tags {
		q.tags[k] = v
	}
	for k, v := range p.marks {
		q.marks[k] = v
	}
	for k, v := range p.visits {
		q.visits[k] = v
	}
	q.trail = append([]ast.Node(nil), p.trail...)
	return q
}

type c19gWalker struct {
	info    *types.Info
	tagless map[*ast.CaseClause]bool // from c19gTaglessCases(function body)
	// atom evaluates client atoms under the current path state (bool locals are handled by the walker)
	atom func(p *c19gPath, e ast.Expr) (int, bool)
	// node is called for every non-condition node in execution order
	node func(p *c19gPath, n ast.Node)
	// cond is called when a boolean branch is taken (after pruning)
	cond func(p *c19gPath, e ast.Expr, taken bool)
	// halt: the path is discharged after this node (asked after node())
	halt func(p *c19gPath, n ast.Node) bool
	// stop: the path ends when it is about to enter block b (loop head / loop exit of the analysed loop)
	stop func(b *cfg.Block) (string, bool)
	// end is called once per finished path: how = "return" | "end" | the string given by stop
	end func(p *c19gPath, how string, ret *ast.ReturnStmt)

	budget   int
	exceeded bool
}

func (w *c19gWalker) evalIn(p *c19gPath, e ast.Expr) int {
	return c19gEval(w.info, e, func(x ast.Expr) (int, bool) {
		if w.atom != nil {
			if v, ok := w.atom(p, x); ok {
				return v, true // the client's atoms win over the tracked value of a local
			}
		}
		if id, ok := x.(*ast.Ident); ok {
			if v, ok := p.bl[w.info.Uses[id]]; ok {
				return v, true
			}
		}
		return c19gU, false
	})
}

func (w *c19gWalker) isBool(t types.Type) bool {
	if t == nil {
		return false
	}
	b, ok := t.Underlying().(*types.Basic)
	return ok && b.Info()&types.IsBoolean != 0
}

// effects keeps the bool environment up to date.
func (w *c19gWalker) effects(p *c19gPath, n ast.Node) {
	switch x := n.(type) {
	case *ast.AssignStmt:
		for i, l := range x.Lhs {
			id, ok := ast.Unparen(l).(*ast.Ident)
			if !ok || id.Name == "_" {
				continue
			}
			obj := w.info.Defs[id]
			if obj == nil {
				obj = w.info.Uses[id]
			}
			if obj == nil || !w.isBool(obj.Type()) {
				continue
			}
			if len(x.Rhs) == len(x.Lhs) && (x.Tok == token.ASSIGN || x.Tok == token.DEFINE) {
				p.bl[obj] = w.evalIn(p, x.Rhs[i])
			} else {
				p.bl[obj] = c19gU
			}
		}
	case *ast.ValueSpec:
		for i, id := range x.Names {
			obj := w.info.Defs[id]
			if obj == nil || !w.isBool(obj.Type()) {
				continue
			}
			switch {
			case len(x.Values) == 0:
				p.bl[obj] = c19gF
			case len(x.Values) == len(x.Names):
				p.bl[obj] = w.evalIn(p, x.Values[i])
			default:
				p.bl[obj] = c19gU
			}
		}
	}
}

// walk enumerates the paths that start at the first node of block b.
func (w *c19gWalker) walk(b *cfg.Block, p *c19gPath) {
	w.walkFrom(b, 0, p)
}

func (w *c19gWalker) walkFrom(b *cfg.Block, i int, p *c19gPath) {
	if w.exceeded {
		return
	}
	w.budget--
	if w.budget < 0 {
		w.exceeded = true
		return
	}
	p.visits[b]++
	condExpr, isBranch := c19gIsBranch(b, w.tagless)
	for ; i < len(b.Nodes); i++ {
		n := b.Nodes[i]
		if isBranch && i == len(b.Nodes)-1 {
			break
		}
		p.trail = append(p.trail, n)
		w.effects(p, n)
		if w.node != nil {
			w.node(p, n)
		}
		if w.halt != nil && w.halt(p, n) {
			return
		}
		if r, ok := n.(*ast.ReturnStmt); ok {
			w.end(p, "return", r)
			return
		}
	}
	if len(b.Succs) == 0 {
		if isFallOffEnd(b) {
			w.end(p, "end", nil)
		}
		return
	}
	follow := func(s *cfg.Block, q *c19gPath) {
		if w.stop != nil {
			if how, ok := w.stop(s); ok {
				w.end(q, how, nil)
				return
			}
		}
		if q.visits[s] >= 2 {
			return // every block at most twice on a path: one full iteration of inner loops
		}
		w.walkFrom(s, 0, q)
	}
	if isBranch {
		v := w.evalIn(p, condExpr)
		for si, s := range b.Succs {
			if (v == c19gT && si != 0) || (v == c19gF && si != 1) {
				continue
			}
			q := p.clone()
			q.trail = append(q.trail, condExpr)
			if w.cond != nil {
				w.cond(q, condExpr, si == 0)
			}
			follow(s, q)
		}
		return
	}
	if len(b.Succs) == 1 {
		follow(b.Succs[0], p)
		return
	}
	for _, s := range b.Succs {
		follow(s, p.clone())
	}
}

func c19gNewPath() *c19gPath {
	return &c19gPath{bl: map[types.Object]int{}, ptr: map[types.Object]int{}, tags: map[types.Object]int{}, marks: map[string]bool{}, visits: map[*cfg.Block]int{}}
}

// c19gObjOf resolves an identifier expression to its object (definition or use).
func c19gObjOf(info *types.Info, e ast.Expr) types.Object {
	id, ok := ast.Unparen(e).(*ast.Ident)
	if !ok || id.Name == "_" {
		return nil
	}
	if o := info.Defs[id]; o != nil {
		return o
	}
	return info.Uses[id]
}

// c19gMentionsAny reports whether n uses one of the objects for which in() is true.
func c19gMentionsAny(info *types.Info, n ast.Node, in func(types.Object) bool) bool {
	found := false
	ast.Inspect(n, func(m ast.Node) bool {
		if found {
			return false
		}
		if _, ok := m.(*ast.FuncLit); ok {
			return false
		}
		if id, ok := m.(*ast.Ident); ok {
			if o := info.Uses[id]; o != nil && in(o) {
				found = true
			}
		}
		return true
	})
	return found
}

// c19gFieldSel: e is `<ident of obj>.<field>` where the selected object is the given field.
func c19gFieldSel(info *types.Info, e ast.Expr, obj types.Object, field *types.Var) bool {
	sel, ok := ast.Unparen(e).(*ast.SelectorExpr)
	if !ok || field == nil || info.Uses[sel.Sel] != types.Object(field) {
		return false
	}
	if obj == nil {
		return true
	}
	id, ok := ast.Unparen(sel.X).(*ast.Ident)
	return ok && info.Uses[id] == obj
}

// c19gMentionsField: n contains a selection of the field on the given object (any object if nil).
func c19gMentionsField(info *types.Info, n ast.Node, obj types.Object, field *types.Var) bool {
	found := false
	ast.Inspect(n, func(m ast.Node) bool {
		if found {
			return false
		}
		if e, ok := m.(ast.Expr); ok && c19gFieldSel(info, e, obj, field) {
			found = true
		}
		return true
	})
	return found
}
