package main

import (
	"fmt"
	"go/ast"
	"go/constant"
	"go/types"
	"sort"
	"strings"

	"golang.org/x/tools/go/packages"
)

// C01-R1 — range-heap bounds. analyzer.getRangeFilters pairs the comparison conjuncts of a join
// condition into rangeFilter{value, min, max, closedOnLowerBound, closedOnUpperBound}; the
// range-heap iterator only visits right rows whose [min,max] interval (with that closedness)
// contains the left value, and the join filter evaluated on top can only remove rows. So every
// bound recorded for a comparison T must be implied by T: the set of compare(Left,Right) outcomes
// that T.Eval accepts (read from T.Eval exactly as C03-E reads it) must be contained in the set of
// outcomes the recorded bound admits. Nothing is keyed on the names of the comparison types or of
// the helper closures: what a helper records is read from how its parameters reach the
// rangeFilter fields (directly, or through the candidate maps it fills / reads).
//
// c01_r1.go hooks itself into property C01 (c01.go is frozen): init order within the package is
// file-name order, c01.go < c01_r1.go.

func init() {
	pr := registry["C01"]
	if pr == nil {
		panic("c01_r1.go: property C01 is not registered yet (file order changed?)")
	}
	run := pr.Run
	pr.Run = func(c *Ctx) {
		run(c)
		runC01R1(c, "sql/analyzer", "sql/expression", "rangeFilter")
	}
	pr.Explanation += " (R1) Range-heap bounds: in every function of package analyzer that builds rangeFilter records (getRangeFilters), each helper closure is summarised by how its parameters reach the record — a finder puts (value, min, closedOnLowerBound) or (value, max, closedOnUpperBound) from its parameters and the opposite bound with its closedness from one element of a candidate map keyed by value; a storer files (key, bound, closedness) into those maps with the side the finders read them as — and the bound fields stay paired with their own closedness field. For every type-switch arm whose case type T is a comparison expression (has Left/Right and a foldable Eval), every helper call's recorded relation `lo <= hi` (closed) / `lo < hi` (open) over T's operands admits every compare(Left,Right) outcome that T.Eval accepts (accepted set read from T.Eval as in C03-E; >= and <= accept 0, > and < do not; +1 accepted means Left is bounded below by Right): a narrower bound drops boundary rows under the range-heap plan only."
	pr.NotCovered += "; R1: the Between arm (positional literal, both bounds closed) is not folded against Between.Eval, the range-heap iterator's use of the closedness flags (rowexec.rangeHeapJoinIter), bounds wider than the comparison (harmless: the join filter is re-evaluated), the orientation of comparison.Compare (assumed compare(Left,Right), as in C03)"
}

type c01Src struct {
	kind  string       // "param" | "elem"
	param int          // param index (kind param)
	m     types.Object // map variable (kind elem)
	rng   types.Object // range value variable (kind elem)
	key   int          // param index used as map key (kind elem)
	field string       // field of the element struct (kind elem)
}

type c01Assert struct{ lo, hi, closed int } // parameter indices: records lo <= hi (closed) / lo < hi (open)

type c01MapRole struct {
	side          string // "min": elements are lower bounds of the key; "max": upper bounds
	gField, cField string
}

func runC01R1(c *Ctx, analyzerRel, exprRel, recName string) {
	const rule = "C01-R1"
	c.Rule(rule, "range-heap bounds: every bound a getRangeFilters arm records for comparison type T (through the finder/storer closures, summarised from how their parameters reach rangeFilter{value,min,max,closedOnLowerBound,closedOnUpperBound}) admits every compare(Left,Right) outcome that T.Eval accepts; helper closures keep each bound paired with its own closedness flag", 15)
	an, ex := c.P.Pkg(analyzerRel), c.P.Pkg(exprRel)
	if an == nil || ex == nil {
		c.Undecided(rule, "packages", 0, "packages not loaded: "+analyzerRel+", "+exprRel)
		return
	}
	info := an.TypesInfo
	rtn, _ := an.Types.Scope().Lookup(recName).(*types.TypeName)
	if rtn == nil {
		c.Undecided(rule, recName, 0, "record type not found in "+analyzerRel)
		return
	}
	rst, _ := rtn.Type().Underlying().(*types.Struct)
	want := map[string]bool{"value": false, "min": false, "max": false, "closedOnLowerBound": true, "closedOnUpperBound": true}
	okShape := rst != nil && rst.NumFields() == len(want)
	for i := 0; okShape && i < rst.NumFields(); i++ {
		isBool, known := want[rst.Field(i).Name()]
		b, _ := rst.Field(i).Type().Underlying().(*types.Basic)
		if !known || isBool != (b != nil && b.Kind() == types.Bool) {
			okShape = false
		}
	}
	if !okShape {
		c.Undecided(rule, recName, rtn.Pos(), "record type no longer has exactly the fields value,min,max (expressions) and closedOnLowerBound,closedOnUpperBound (bool): the rule's vocabulary does not apply")
		return
	}
	c.Assumptions = append(c.Assumptions, "C01-R1: the integer folded in T.Eval is compare(Left, Right) (comparison.Compare), as assumed by C03-E")

	isRec := func(e ast.Expr) bool {
		t := info.TypeOf(e)
		return t != nil && types.Identical(t, rtn.Type())
	}
	nBuilders := 0
	c.P.EachFuncDecl([]string{analyzerRel}, func(_ *packages.Package, fd *ast.FuncDecl) {
		builds := false
		ast.Inspect(fd.Body, func(n ast.Node) bool {
			if cl, ok := n.(*ast.CompositeLit); ok && isRec(cl) {
				builds = true
			}
			return true
		})
		if !builds {
			return
		}
		nBuilders++
		c01R1Func(c, rule, an, ex, fd, rst, isRec)
	})
	if nBuilders == 0 {
		c.Undecided(rule, recName+"-builders", rtn.Pos(), "no function builds "+recName+" records")
	}
}

// c01LitFields maps field name -> expression for a keyed or positional struct literal.
func c01LitFields(st *types.Struct, cl *ast.CompositeLit) map[string]ast.Expr {
	out := map[string]ast.Expr{}
	for i, el := range cl.Elts {
		if kv, ok := el.(*ast.KeyValueExpr); ok {
			if id, ok := kv.Key.(*ast.Ident); ok {
				out[id.Name] = kv.Value
			}
			continue
		}
		if i < st.NumFields() {
			out[st.Field(i).Name()] = el
		}
	}
	return out
}

func c01R1Func(c *Ctx, rule string, an, ex *packages.Package, fd *ast.FuncDecl, rst *types.Struct, isRec func(ast.Expr) bool) {
	info := an.TypesInfo
	fname := DeclName(fd)

	// helper closures: name := func(...) {...}
	helpers := map[types.Object]*ast.FuncLit{}
	reassigned := map[types.Object]bool{}
	var helperOrder []types.Object
	ast.Inspect(fd.Body, func(n ast.Node) bool {
		as, ok := n.(*ast.AssignStmt)
		if !ok || len(as.Lhs) != len(as.Rhs) {
			return true
		}
		for i, l := range as.Lhs {
			id, ok := l.(*ast.Ident)
			fl, ok2 := as.Rhs[i].(*ast.FuncLit)
			if !ok || !ok2 {
				continue
			}
			o := info.Defs[id]
			if o == nil {
				o = info.Uses[id] // re-assigned helper: two bodies, not summarised
				if o != nil {
					helpers[o] = nil
					reassigned[o] = true
				}
				continue
			}
			helpers[o] = fl
			helperOrder = append(helperOrder, o)
		}
		return true
	})
	paramIdx := func(fl *ast.FuncLit) map[types.Object]int {
		m := map[types.Object]int{}
		i := 0
		for _, f := range fl.Type.Params.List {
			for _, n := range f.Names {
				m[info.Defs[n]] = i
				i++
			}
			if len(f.Names) == 0 {
				i++
			}
		}
		return m
	}
	// p.String() with p a parameter -> index
	// locals defined exactly once in the function by `x := <expr>` (lowerStr := lower.String())
	localDef := map[types.Object]ast.Expr{}
	nAssign := map[types.Object]int{}
	ast.Inspect(fd.Body, func(n ast.Node) bool {
		if as, ok := n.(*ast.AssignStmt); ok && len(as.Lhs) == len(as.Rhs) {
			for i, l := range as.Lhs {
				if id, ok := l.(*ast.Ident); ok {
					if o := info.Defs[id]; o != nil {
						localDef[o] = as.Rhs[i]
						nAssign[o]++
					} else if o := info.Uses[id]; o != nil {
						nAssign[o]++
					}
				}
			}
		}
		return true
	})
	keyParam := func(e ast.Expr, params map[types.Object]int) (int, bool) {
		if id, ok := ast.Unparen(e).(*ast.Ident); ok {
			if o := info.Uses[id]; o != nil && nAssign[o] == 1 && localDef[o] != nil {
				e = localDef[o]
			}
		}
		call, ok := ast.Unparen(e).(*ast.CallExpr)
		if !ok || len(call.Args) != 0 {
			return 0, false
		}
		sel, ok := call.Fun.(*ast.SelectorExpr)
		if !ok || sel.Sel.Name != "String" {
			return 0, false
		}
		id, ok := ast.Unparen(sel.X).(*ast.Ident)
		if !ok {
			return 0, false
		}
		i, ok := params[info.Uses[id]]
		return i, ok
	}

	// ---- pass A: finders -------------------------------------------------------------------
	summaries := map[types.Object][]c01Assert{}
	roles := map[types.Object]*c01MapRole{}
	undecidedHelper := map[types.Object]string{}
	for _, ho := range helperOrder {
		fl := helpers[ho]
		if fl == nil {
			continue
		}
		params := paramIdx(fl)
		// range statements of the helper: value var -> (map, key param)
		type rinfo struct {
			m   types.Object
			key int
		}
		rngs := map[types.Object]rinfo{}
		ast.Inspect(fl.Body, func(n ast.Node) bool {
			rs, ok := n.(*ast.RangeStmt)
			if !ok {
				return true
			}
			vid, ok := rs.Value.(*ast.Ident)
			if !ok {
				return true
			}
			ix, ok := ast.Unparen(rs.X).(*ast.IndexExpr)
			if !ok {
				return true
			}
			mid, ok := ast.Unparen(ix.X).(*ast.Ident)
			if !ok {
				return true
			}
			if _, isMap := info.TypeOf(mid).Underlying().(*types.Map); !isMap {
				return true
			}
			if k, ok := keyParam(ix.Index, params); ok {
				rngs[info.Defs[vid]] = rinfo{info.Uses[mid], k}
			}
			return true
		})
		classify := func(e ast.Expr) (c01Src, bool) {
			switch x := ast.Unparen(e).(type) {
			case *ast.Ident:
				if i, ok := params[info.Uses[x]]; ok {
					return c01Src{kind: "param", param: i}, true
				}
			case *ast.SelectorExpr:
				if id, ok := ast.Unparen(x.X).(*ast.Ident); ok {
					if r, ok := rngs[info.Uses[id]]; ok {
						return c01Src{kind: "elem", m: r.m, rng: info.Uses[id], key: r.key, field: x.Sel.Name}, true
					}
				}
			}
			return c01Src{}, false
		}
		ast.Inspect(fl.Body, func(n ast.Node) bool {
			cl, ok := n.(*ast.CompositeLit)
			if !ok || !isRec(cl) {
				return true
			}
			key := fname + "/helper " + ho.Name()
			fields := c01LitFields(rst, cl)
			src := map[string]c01Src{}
			for _, fn := range []string{"value", "min", "max", "closedOnLowerBound", "closedOnUpperBound"} {
				e := fields[fn]
				if e == nil {
					undecidedHelper[ho] = "record literal leaves field " + fn + " unset"
					c.Undecided(rule, key, cl.Pos(), undecidedHelper[ho])
					return true
				}
				s, ok := classify(e)
				if !ok {
					undecidedHelper[ho] = fmt.Sprintf("field %s of the record is `%s`: neither a parameter nor a field of the element of a candidate map ranged over by value.String()", fn, types.ExprString(e))
					c.Undecided(rule, key, cl.Pos(), undecidedHelper[ho])
					return true
				}
				src[fn] = s
			}
			if src["value"].kind != "param" {
				undecidedHelper[ho] = "the record's value is not a parameter of the helper"
				c.Undecided(rule, key, cl.Pos(), undecidedHelper[ho])
				return true
			}
			v := src["value"].param
			type side struct{ bound, closed, name string }
			lower, upper := side{"min", "closedOnLowerBound", "min"}, side{"max", "closedOnUpperBound", "max"}
			var fromParam, fromElem *side
			for _, s := range []*side{&lower, &upper} {
				b, cl2 := src[s.bound], src[s.closed]
				switch {
				case b.kind == "param" && cl2.kind == "param":
					if fromParam != nil {
						fromParam = nil
						fromElem = nil
						break
					}
					fromParam = s
				case b.kind == "elem" && cl2.kind == "elem" && b.rng == cl2.rng:
					fromElem = s
				default:
					c.Bad(rule, key, cl.Pos(), fmt.Sprintf("%s: helper %s fills %s from %s but %s from %s: the bound and its closedness flag come from different comparisons, so the interval's end is open/closed according to the other end's operator",
						fname, ho.Name(), s.bound, c01SrcString(b), s.closed, c01SrcString(cl2)))
					undecidedHelper[ho] = "mis-paired bound and closedness"
					return true
				}
			}
			if fromParam == nil || fromElem == nil {
				undecidedHelper[ho] = "the record is not (one bound from the parameters, the other from a candidate map element)"
				c.Undecided(rule, key, cl.Pos(), undecidedHelper[ho])
				return true
			}
			eb := src[fromElem.bound]
			if eb.key != v {
				undecidedHelper[ho] = "the candidate map is not keyed by the record's value"
				c.Undecided(rule, key, cl.Pos(), undecidedHelper[ho])
				return true
			}
			role := &c01MapRole{side: fromElem.name, gField: eb.field, cField: src[fromElem.closed].field}
			if old := roles[eb.m]; old != nil && *old != *role {
				c.Bad(rule, key, cl.Pos(), fmt.Sprintf("%s: candidate map %s is read as %s bounds here and as %s bounds elsewhere", fname, eb.m.Name(), role.side, old.side))
				return true
			}
			roles[eb.m] = role
			a := c01Assert{closed: src[fromParam.closed].param}
			if fromParam.name == "min" {
				a.lo, a.hi = src["min"].param, v
			} else {
				a.lo, a.hi = v, src["max"].param
			}
			summaries[ho] = append(summaries[ho], a)
			c.Ok(rule, key, cl.Pos(), fmt.Sprintf("records param%d <= param%d (closed iff param%d); other bound from %s[value] as %s", a.lo, a.hi, a.closed, eb.m.Name(), role.side))
			return true
		})
	}

	// ---- pass B: storers -------------------------------------------------------------------
	for _, ho := range helperOrder {
		fl := helpers[ho]
		if fl == nil {
			continue
		}
		params := paramIdx(fl)
		var as2 []c01Assert
		bad := false
		ast.Inspect(fl.Body, func(n ast.Node) bool {
			as, ok := n.(*ast.AssignStmt)
			if !ok || len(as.Lhs) != 1 || len(as.Rhs) != 1 {
				return true
			}
			ix, ok := ast.Unparen(as.Lhs[0]).(*ast.IndexExpr)
			if !ok {
				return true
			}
			mid, ok := ast.Unparen(ix.X).(*ast.Ident)
			if !ok {
				return true
			}
			role := roles[info.Uses[mid]]
			if role == nil {
				return true
			}
			key := fname + "/helper " + ho.Name()
			k, kok := keyParam(ix.Index, params)
			var lit *ast.CompositeLit
			if call, ok := ast.Unparen(as.Rhs[0]).(*ast.CallExpr); ok && IsBuiltinCall(info, call, "append") && len(call.Args) == 2 {
				lit, _ = ast.Unparen(call.Args[1]).(*ast.CompositeLit)
			}
			est, _ := func() (*types.Struct, bool) {
				if lit == nil {
					return nil, false
				}
				s, ok := info.TypeOf(lit).Underlying().(*types.Struct)
				return s, ok
			}()
			if !kok || lit == nil || est == nil {
				bad = true
				undecidedHelper[ho] = "store into candidate map " + mid.Name + " is not `m[p.String()] = append(m[…], elem{…})`"
				c.Undecided(rule, key, as.Pos(), undecidedHelper[ho])
				return true
			}
			f := c01LitFields(est, lit)
			gi, gok := func() (int, bool) {
				id, ok := ast.Unparen(f[role.gField]).(*ast.Ident)
				if !ok {
					return 0, false
				}
				i, ok := params[info.Uses[id]]
				return i, ok
			}()
			ci, cok := func() (int, bool) {
				id, ok := ast.Unparen(f[role.cField]).(*ast.Ident)
				if !ok {
					return 0, false
				}
				i, ok := params[info.Uses[id]]
				return i, ok
			}()
			if f[role.gField] == nil || f[role.cField] == nil || !gok || !cok {
				bad = true
				undecidedHelper[ho] = fmt.Sprintf("element stored into %s does not take %s and %s from parameters", mid.Name, role.gField, role.cField)
				c.Undecided(rule, key, as.Pos(), undecidedHelper[ho])
				return true
			}
			a := c01Assert{closed: ci}
			if role.side == "max" {
				a.lo, a.hi = k, gi // elements are upper bounds of the key
			} else {
				a.lo, a.hi = gi, k
			}
			dup := false
			for _, b := range as2 {
				if b == a {
					dup = true
				}
			}
			if !dup {
				as2 = append(as2, a)
			}
			return true
		})
		if bad || len(as2) == 0 {
			continue
		}
		key := fname + "/helper " + ho.Name()
		if len(as2) > 1 {
			c.Bad(rule, key, fl.Pos(), fmt.Sprintf("%s: helper %s files the same pair into the candidate maps with contradictory orientation or closedness (%v): the lower->upper and upper->lower maps disagree about which expression is the smaller one", fname, ho.Name(), as2))
			undecidedHelper[ho] = "contradictory stores"
			continue
		}
		summaries[ho] = append(summaries[ho], as2[0])
		c.Ok(rule, key, fl.Pos(), fmt.Sprintf("files param%d <= param%d (closed iff param%d) into the candidate maps, consistently with how the finders read them", as2[0].lo, as2[0].hi, as2[0].closed))
	}
	for _, ho := range helperOrder {
		if helpers[ho] != nil && len(summaries[ho]) == 0 && undecidedHelper[ho] == "" {
			c.Note(rule, fname+"/helper "+ho.Name(), helpers[ho].Pos(), "closure records no bound")
		}
	}

	for o := range reassigned {
		undecidedHelper[o] = "closure variable " + o.Name() + " is assigned more than one function literal"
		delete(summaries, o)
	}

	// ---- arms ------------------------------------------------------------------------------
	accCache := map[string]map[int]bool{}
	ast.Inspect(fd.Body, func(n ast.Node) bool {
		ts, ok := n.(*ast.TypeSwitchStmt)
		if !ok {
			return true
		}
		for _, cs := range ts.Body.List {
			cc := cs.(*ast.CaseClause)
			armVar := info.Implicits[cc]
			var calls []*ast.CallExpr
			for _, st := range cc.Body {
				ast.Inspect(st, func(m ast.Node) bool {
					if _, ok := m.(*ast.FuncLit); ok {
						return false
					}
					if call, ok := m.(*ast.CallExpr); ok {
						if id, ok := ast.Unparen(call.Fun).(*ast.Ident); ok {
							if o := info.Uses[id]; o != nil {
								if _, isHelper := helpers[o]; isHelper && (len(summaries[o]) > 0 || undecidedHelper[o] != "") {
									calls = append(calls, call)
								}
							}
						}
					}
					return true
				})
			}
			// which comparison type?
			tname := "default"
			var tnamed *types.Named
			if len(cc.List) == 1 {
				t := info.TypeOf(cc.List[0])
				if pt, ok := t.(*types.Pointer); ok {
					t = pt.Elem()
				}
				if nt, ok := t.(*types.Named); ok {
					tnamed = nt
					tname = nt.Obj().Name()
				}
			} else if len(cc.List) > 1 {
				var ns []string
				for _, x := range cc.List {
					ns = append(ns, types.ExprString(x))
				}
				tname = strings.Join(ns, ",")
			}
			if len(calls) == 0 {
				lits := 0
				for _, st := range cc.Body {
					ast.Inspect(st, func(m ast.Node) bool {
						if cl, ok := m.(*ast.CompositeLit); ok && isRec(cl) {
							lits++
						}
						return true
					})
				}
				if lits > 0 {
					c.Note(rule, fname+"/case "+tname+"/literal", cc.Pos(), "arm builds the record directly from the expression's own fields (not folded: see NotCovered)")
				}
				continue
			}
			base := fname + "/case " + tname
			var acc map[int]bool
			var accErr string
			if tnamed == nil || tnamed.Obj().Pkg() != ex.Types {
				accErr = "the arm is not a single comparison expression type of package " + ex.Types.Name()
			} else if LookupFunc(ex, tname+".Left") == nil || LookupFunc(ex, tname+".Right") == nil {
				accErr = tname + " has no Left/Right operands"
			} else if a, ok := accCache[tname]; ok {
				acc = a
			} else {
				a, err := c03FoldEval(c, ex, tname, "Eval")
				if err != nil {
					accErr = "accepted compare outcomes of " + tname + ".Eval not readable: " + err.Error()
				} else {
					acc, accCache[tname] = a, a
				}
			}
			for _, call := range calls {
				ho := info.Uses[ast.Unparen(call.Fun).(*ast.Ident)]
				key := base + "/" + ho.Name()
				if accErr != "" {
					c.Undecided(rule, key, call.Pos(), accErr)
					continue
				}
				if why := undecidedHelper[ho]; why != "" {
					c.Undecided(rule, key, call.Pos(), "helper not summarised: "+why)
					continue
				}
				operand := func(e ast.Expr) string {
					oc, ok := ast.Unparen(e).(*ast.CallExpr)
					if !ok || len(oc.Args) != 0 {
						return ""
					}
					sel, ok := oc.Fun.(*ast.SelectorExpr)
					if !ok {
						return ""
					}
					id, ok := ast.Unparen(sel.X).(*ast.Ident)
					if !ok || armVar == nil || info.Uses[id] != armVar {
						return ""
					}
					fn := Callee(info, oc)
					if fn == nil {
						return ""
					}
					switch fn.Name() {
					case "Left":
						return "L"
					case "Right":
						return "R"
					}
					return ""
				}
				verdictOK := true
				var msgs []string
				undec := ""
				for _, a := range summaries[ho] {
					if a.lo >= len(call.Args) || a.hi >= len(call.Args) || a.closed >= len(call.Args) {
						undec = "argument count does not match the helper's parameters"
						break
					}
					lo, hi := operand(call.Args[a.lo]), operand(call.Args[a.hi])
					tv := info.Types[call.Args[a.closed]]
					if lo == "" || hi == "" || lo == hi {
						undec = fmt.Sprintf("bound operands `%s`, `%s` are not the Left()/Right() operands of the arm's expression", types.ExprString(call.Args[a.lo]), types.ExprString(call.Args[a.hi]))
						break
					}
					if tv.Value == nil || tv.Value.Kind() != constant.Bool {
						undec = fmt.Sprintf("closedness argument `%s` is not a constant", types.ExprString(call.Args[a.closed]))
						break
					}
					closed := constant.BoolVal(tv.Value)
					claim := map[int]bool{}
					if lo == "L" { // Left <= Right
						claim[-1] = true
					} else { // Right <= Left
						claim[1] = true
					}
					claim[0] = closed
					rel := "<"
					if closed {
						rel = "<="
					}
					nm := map[string]string{"L": "Left", "R": "Right"}
					desc := fmt.Sprintf("%s %s %s", nm[lo], rel, nm[hi])
					sub := true
					for _, o := range []int{-1, 0, 1} {
						if acc[o] && !claim[o] {
							sub = false
						}
					}
					if sub {
						msgs = append(msgs, fmt.Sprintf("records %s; %s accepts compare(Left,Right) in %v", desc, tname, c03AccList(acc)))
					} else {
						verdictOK = false
						msgs = append(msgs, fmt.Sprintf("%s: case %s calls %s(%s) which records the bound %s (compare(Left,Right) in %v), but %s.Eval accepts compare outcomes %v: rows on the excluded outcome are never visited by the range-heap join although every other join plan returns them",
							fname, tname, ho.Name(), c01Args(call), desc, c03AccList(claim), tname, c03AccList(acc)))
					}
				}
				switch {
				case undec != "":
					c.Undecided(rule, key, call.Pos(), undec)
				case verdictOK:
					c.Ok(rule, key, call.Pos(), strings.Join(msgs, "; "))
				default:
					c.Bad(rule, key, call.Pos(), strings.Join(msgs, "; "))
				}
			}
		}
		return true
	})

	// helper calls outside every type-switch arm
	ast.Inspect(fd.Body, func(n ast.Node) bool {
		switch x := n.(type) {
		case *ast.TypeSwitchStmt, *ast.FuncLit:
			return false
		case *ast.CallExpr:
			if id, ok := ast.Unparen(x.Fun).(*ast.Ident); ok {
				if o := info.Uses[id]; o != nil && len(summaries[o]) > 0 {
					c.Undecided(rule, fname+"/outside-arm/"+o.Name(), x.Pos(), "bound helper called outside a type-switch arm: the comparison the bound comes from is not known")
				}
			}
		}
		return true
	})
	_ = sort.Strings
}

func c01SrcString(s c01Src) string {
	if s.kind == "param" {
		return fmt.Sprintf("parameter %d", s.param)
	}
	return fmt.Sprintf("%s[…].%s", s.m.Name(), s.field)
}

func c01Args(call *ast.CallExpr) string {
	var as []string
	for _, a := range call.Args {
		as = append(as, types.ExprString(a))
	}
	return strings.Join(as, ", ")
}
