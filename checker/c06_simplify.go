package main

import (
	"fmt"
	"go/ast"
	"go/constant"
	"go/types"
	"sort"
	"strings"
)

// C06-SB: simplifyExpression rewrites BETWEEN into comparisons (and into a single comparison when two
// of its operands are the same column). Each outcome of that arm must have the three-valued table of
// val >= lower AND val <= upper on every point consistent with the sameness it relied on.

func c06SimplifyBetween(w *c06World) {
	c := w.c
	fd := c.P.Decl(LookupFunc(w.an, "simplifyExpression"))
	if fd == nil {
		c.Undecided("C06-SB", "simplifyExpression", 0, "not found")
		return
	}
	sameFn := LookupFunc(w.ex, "GetField.IsSameField")
	gfT, otherT, btwT := c06PtrTo(w.ex, "GetField"), c06PtrTo(w.ex, "Literal"), c06PtrTo(w.ex, "Between")
	if sameFn == nil || gfT == nil || otherT == nil || btwT == nil {
		c.Undecided("C06-SB", "simplifyExpression", fd.Pos(), "GetField.IsSameField / GetField / Literal / Between not found")
		return
	}
	// the expression-transform closure: the function literal whose body switches on a *Between
	var lit *ast.FuncLit
	ast.Inspect(fd.Body, func(n ast.Node) bool {
		fl, ok := n.(*ast.FuncLit)
		if !ok || lit != nil {
			return lit == nil
		}
		mentions := false
		ast.Inspect(fl.Body, func(x ast.Node) bool {
			if se, ok := x.(*ast.StarExpr); ok {
				if tv, ok := w.an.TypesInfo.Types[se]; ok && tv.IsType() && types.Identical(tv.Type, btwT) {
					mentions = true
				}
			}
			return !mentions
		})
		if mentions {
			lit = fl
			return false
		}
		return true
	})
	if lit == nil {
		c.Note("C06-SB", "simplifyExpression", fd.Pos(), "no BETWEEN arm in simplifyExpression (nothing to decide)")
		return
	}
	t := w.terms()
	outs := []c06Out{c06Lt, c06Eq, c06Gt, c06Null}
	type scenario struct {
		name       string
		fields     [3]bool // val, lower, upper are column references
		class      [3]int  // equal numbers = same column
		consistent func(ol, ou c06Out) bool
	}
	all := func(ol, ou c06Out) bool { return true }
	scenarios := []scenario{
		{"no columns", [3]bool{false, false, false}, [3]int{0, 1, 2}, all},
		{"three different columns", [3]bool{true, true, true}, [3]int{0, 1, 2}, all},
		{"lower and upper the same column", [3]bool{false, true, true}, [3]int{0, 1, 1}, func(ol, ou c06Out) bool { return ol == ou }},
		{"value and lower the same column", [3]bool{true, true, true}, [3]int{0, 0, 2}, func(ol, ou c06Out) bool {
			return (ol == c06Eq) || (ol == c06Null && ou == c06Null) // x ? x is '=' unless x is NULL, and then every comparison with x is NULL
		}},
		{"value and upper the same column", [3]bool{true, true, true}, [3]int{0, 1, 0}, func(ol, ou c06Out) bool {
			return (ou == c06Eq) || (ou == c06Null && ol == c06Null)
		}},
		{"all three the same column", [3]bool{true, true, true}, [3]int{0, 0, 0}, func(ol, ou c06Out) bool {
			return (ol == c06Eq && ou == c06Eq) || (ol == c06Null && ou == c06Null)
		}},
	}
	for _, sc := range scenarios {
		key := "simplifyExpression/Between/" + strings.ReplaceAll(sc.name, " ", "-")
		leaves := [3]*MSym{{Name: "val"}, {Name: "lower"}, {Name: "upper"}}
		for i, l := range leaves {
			l.Dyn = otherT
			if sc.fields[i] {
				l.Dyn = gfT
			}
		}
		classOf := func(v MV) int {
			for i, l := range leaves {
				if v == MV(l) {
					return sc.class[i]
				}
			}
			return -1
		}
		e := t.mk("Between", leaves[0], leaves[1], leaves[2])
		m := w.mini(w.an)
		m.Call = func(m *Mini, call *ast.CallExpr, fn *types.Func, recv MV, args []MV) ([]MV, bool) {
			if fn == nil {
				return nil, false
			}
			if fn == sameFn && len(args) == 1 {
				a, b := classOf(recv), classOf(args[0])
				return []MV{constant.MakeBool(a >= 0 && a == b)}, true
			}
			return t.call(fn, recv, args)
		}
		bind := map[types.Object]MV{}
		n := 0
		for _, f := range lit.Type.Params.List {
			for _, id := range f.Names {
				var v MV = &MSym{Name: id.Name}
				if _, isIface := w.an.TypesInfo.Defs[id].Type().Underlying().(*types.Interface); isIface && (n > 0 || len(lit.Type.Params.List) == 1) {
					v = e
				}
				bind[w.an.TypesInfo.Defs[id]] = v
				n++
			}
		}
		res, returned, panicked, _, err := m.RunBlock(lit.Body.List, bind)
		if err != nil || !returned || panicked || len(res) == 0 {
			c.Undecided("C06-SB", key, lit.Pos(), fmt.Sprint("arm not foldable: ", err))
			continue
		}
		out, _ := res[0].(*MSym)
		if out == nil {
			c.Undecided("C06-SB", key, lit.Pos(), "the arm does not return an expression")
			continue
		}
		var diffs []string
		var evalErr error
		points := 0
		for _, ol := range outs {
			for _, ou := range outs {
				if !sc.consistent(ol, ou) {
					continue
				}
				points++
				asg := c06Asg{cmp: map[[2]*MSym]c06Out{{leaves[0], leaves[1]}: ol, {leaves[0], leaves[2]}: ou}}
				vi, err := t.eval(e, asg)
				if err == nil {
					var vo int
					if vo, err = t.eval(out, asg); err == nil && vi != vo {
						diffs = append(diffs, fmt.Sprintf("val?lower:%s,val?upper:%s: BETWEEN %s, rewritten %s", ol, ou, c05Name(vi), c05Name(vo)))
					}
				}
				if err != nil {
					evalErr = err
				}
			}
		}
		if evalErr != nil {
			c.Undecided("C06-SB", key, lit.Pos(), evalErr.Error())
			continue
		}
		sort.Strings(diffs)
		c.Check(len(diffs) == 0, "C06-SB", key, lit.Pos(), fmt.Sprintf("same table on %d points", points),
			fmt.Sprintf("simplifyExpression rewrites BETWEEN (%s) into an expression with a different three-valued result: %s", sc.name, strings.Join(diffs, "; ")))
	}
}

// C06-SC: the And / Or arms of simplifyExpression (absorbing and neutral literal operands) return an
// expression with the same three-valued table, and never hand back a non-boolean operand as the value
// of the connective. getDefiniteBoolValues is folded, not assumed.

func c06SimplifyConnectives(w *c06World) {
	c := w.c
	fd := c.P.Decl(LookupFunc(w.an, "simplifyExpression"))
	litT, predT, fieldT := c06PtrTo(w.ex, "Literal"), c06PtrTo(w.ex, "Equals"), c06PtrTo(w.ex, "GetField")
	andT := c06PtrTo(w.ex, "And")
	valueFn := LookupFunc(w.ex, "Literal.Value")
	newTrue, newFalse := LookupFunc(w.ex, "NewTrue"), LookupFunc(w.ex, "NewFalse")
	newLit := LookupFunc(w.ex, "NewLiteral")
	isBool := LookupFunc(w.ty, "IsBoolean")
	convBool := LookupFunc(w.sq, "ConvertToBool")
	if fd == nil || litT == nil || predT == nil || fieldT == nil || andT == nil || valueFn == nil || newTrue == nil || newFalse == nil || isBool == nil {
		c.Undecided("C06-SC", "simplifyExpression", 0, "simplifyExpression / Literal / NewTrue / NewFalse / IsBoolean not found")
		return
	}
	var lit *ast.FuncLit
	ast.Inspect(fd.Body, func(n ast.Node) bool {
		fl, ok := n.(*ast.FuncLit)
		if !ok || lit != nil {
			return lit == nil
		}
		mentions := false
		ast.Inspect(fl.Body, func(x ast.Node) bool {
			if se, ok := x.(*ast.StarExpr); ok {
				if tv, ok := w.an.TypesInfo.Types[se]; ok && tv.IsType() && types.Identical(tv.Type, andT) {
					mentions = true
				}
			}
			return !mentions
		})
		if mentions {
			lit = fl
			return false
		}
		return true
	})
	if lit == nil {
		c.Note("C06-SC", "simplifyExpression", fd.Pos(), "no And/Or arm in simplifyExpression (nothing to decide)")
		return
	}
	t := w.terms()
	kinds := []string{"TRUE", "FALSE", "NULL", "predicate", "non-boolean"}
	mkLeaf := func(kind, name string) *MSym {
		s := &MSym{Name: name}
		switch kind {
		case "TRUE", "FALSE", "NULL":
			s.Dyn = litT
		case "predicate":
			s.Dyn = predT
		default:
			s.Dyn = fieldT
		}
		return s
	}
	fixed := map[string]int{"TRUE": 1, "FALSE": 0, "NULL": -1}
	for _, conn := range []string{"And", "Or"} {
		for _, lk := range kinds {
			for _, rk := range kinds {
				key := fmt.Sprintf("simplifyExpression/%s(%s,%s)", conn, lk, rk)
				l, r := mkLeaf(lk, "left"), mkLeaf(rk, "right")
				kindOf := map[*MSym]string{l: lk, r: rk}
				e := t.mk(conn, l, r)
				tTrue, tFalse := &MSym{Name: "TRUE", Dyn: litT}, &MSym{Name: "FALSE", Dyn: litT}
				m := w.mini(w.an)
				m.Call = func(m *Mini, call *ast.CallExpr, fn *types.Func, recv MV, args []MV) ([]MV, bool) {
					if fn == nil {
						return nil, false
					}
					switch {
					case fn == newTrue:
						return []MV{tTrue}, true
					case fn == newFalse:
						return []MV{tFalse}, true
					case fn == newLit && newLit != nil && len(args) == 2: // a literal built directly
						if b, ok := MBool(args[0]); ok {
							if b {
								return []MV{tTrue}, true
							}
							return []MV{tFalse}, true
						}
						return nil, false
					case fn == valueFn:
						if s, ok := recv.(*MSym); ok {
							switch kindOf[s] {
							case "TRUE":
								return []MV{constant.MakeBool(true)}, true
							case "FALSE":
								return []MV{constant.MakeBool(false)}, true
							case "NULL":
								return []MV{w.nilSym}, true
							}
						}
						return nil, false
					case fn == convBool && convBool != nil && len(args) == 2:
						if _, ok := MBool(args[1]); ok {
							return []MV{args[1], w.nilSym}, true
						}
						return nil, false
					case fn == isBool && len(args) == 1:
						if ts, ok := args[0].(*MSym); ok && strings.HasPrefix(ts.Name, "type:") {
							return []MV{constant.MakeBool(ts.Name != "type:non-boolean")}, true
						}
						return nil, false
					}
					if s, ok := recv.(*MSym); ok && fn.Type().(*types.Signature).Results().Len() == 1 && len(args) == 1 {
						if k, isLeaf := kindOf[s]; isLeaf { // leaf.Type(ctx)
							return []MV{&MSym{Name: "type:" + k}}, true
						}
					}
					return t.call(fn, recv, args)
				}
				bind := map[types.Object]MV{}
				n := 0
				for _, f := range lit.Type.Params.List {
					for _, id := range f.Names {
						var v MV = &MSym{Name: id.Name}
						if _, isIface := w.an.TypesInfo.Defs[id].Type().Underlying().(*types.Interface); isIface && (n > 0 || len(lit.Type.Params.List) == 1) {
							v = e
						}
						bind[w.an.TypesInfo.Defs[id]] = v
						n++
					}
				}
				res, returned, panicked, _, err := m.RunBlock(lit.Body.List, bind)
				if err != nil || !returned || panicked || len(res) == 0 {
					c.Undecided("C06-SC", key, lit.Pos(), fmt.Sprint("arm not foldable: ", err))
					continue
				}
				out, _ := res[0].(*MSym)
				if out == nil {
					c.Undecided("C06-SC", key, lit.Pos(), "the arm does not return an expression")
					continue
				}
				if out == e {
					c.Ok("C06-SC", key, lit.Pos(), "left as it is")
					continue
				}
				if k, isLeaf := kindOf[out]; isLeaf && k == "non-boolean" {
					c.Bad("C06-SC", key, lit.Pos(), fmt.Sprintf("%s(%s,%s) is replaced by its non-boolean operand: the connective yields 0/1/NULL, the operand its own value", conn, lk, rk))
					continue
				}
				// all truth assignments of the varying leaves
				vary := []*MSym{}
				base := map[*MSym]int{tTrue: 1, tFalse: 0}
				for _, s := range []*MSym{l, r} {
					if v, ok := fixed[kindOf[s]]; ok {
						base[s] = v
					} else {
						vary = append(vary, s)
					}
				}
				var diffs []string
				var evalErr error
				var rec func(i int, asg map[*MSym]int)
				rec = func(i int, asg map[*MSym]int) {
					if i == len(vary) {
						a := c06Asg{truth: asg}
						vi, err1 := t.eval(e, a)
						vo, err2 := t.eval(out, a)
						if err1 != nil || err2 != nil {
							evalErr = fmt.Errorf("%v %v", err1, err2)
							return
						}
						if vi != vo {
							diffs = append(diffs, fmt.Sprintf("left=%s,right=%s: %s, rewritten %s", c05Name(asg[l]), c05Name(asg[r]), c05Name(vi), c05Name(vo)))
						}
						return
					}
					for _, v := range []int{1, 0, -1} {
						next := map[*MSym]int{}
						for k, x := range asg {
							next[k] = x
						}
						next[vary[i]] = v
						rec(i+1, next)
					}
				}
				rec(0, base)
				if evalErr != nil {
					c.Undecided("C06-SC", key, lit.Pos(), evalErr.Error())
					continue
				}
				sort.Strings(diffs)
				c.Check(len(diffs) == 0, "C06-SC", key, lit.Pos(), "same table",
					fmt.Sprintf("simplifyExpression rewrites %s(%s,%s) into an expression with a different three-valued result: %s", conn, lk, rk, strings.Join(diffs, "; ")))
			}
		}
	}
}
