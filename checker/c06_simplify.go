package main

import (
	"fmt"
	"go/ast"
	"go/constant"
	"go/types"
	"sort"
	"strings"
)

// C06-SB: simplifyExpression rewrites BETWEEN into comparisons (and into a single comparison when two
// of its operands are the same column). Each outcome of that arm must have the three-valued table of
// val >= lower AND val <= upper on every point consistent with the sameness it relied on.

func c06SimplifyBetween(w *c06World) {
	c := w.c
	fd := c.P.Decl(LookupFunc(w.an, "simplifyExpression"))
	if fd == nil {
		c.Undecided("C06-SB", "simplifyExpression", 0, "not found")
		return
	}
	sameFn := LookupFunc(w.ex, "GetField.IsSameField")
	gfT, otherT, btwT := c06PtrTo(w.ex, "GetField"), c06PtrTo(w.ex, "Literal"), c06PtrTo(w.ex, "Between")
	if sameFn == nil || gfT == nil || otherT == nil || btwT == nil {
		c.Undecided("C06-SB", "simplifyExpression", fd.Pos(), "GetField.IsSameField / GetField / Literal / Between not found")
		return
	}
	// the expression-transform closure: the function literal whose body switches on a *Between
	var lit *ast.FuncLit
	ast.Inspect(fd.Body, func(n ast.Node) bool {
		fl, ok := n.(*ast.FuncLit)
		if !ok || lit != nil {
			return lit == nil
		}
		mentions := false
		ast.Inspect(fl.Body, func(x ast.Node) bool {
			if se, ok := x.(*ast.StarExpr); ok {
				if tv, ok := w.an.TypesInfo.Types[se]; ok && tv.IsType() && types.Identical(tv.Type, btwT) {
					mentions = true
				}
			}
			return !mentions
		})
		if mentions {
			lit = fl
			return false
		}
		return true
	})
	if lit == nil {
		c.Note("C06-SB", "simplifyExpression", fd.Pos(), "no BETWEEN arm in simplifyExpression (nothing to decide)")
		return
	}
	t := w.terms()
	outs := []c06Out{c06Lt, c06Eq, c06Gt, c06Null}
	type scenario struct {
		name       string
		fields     [3]bool // val, lower, upper are column references
		class      [3]int  // equal numbers = same column
		consistent func(ol, ou c06Out) bool
	}
	all := func(ol, ou c06Out) bool { return true }
	scenarios := []scenario{
		{"no columns", [3]bool{false, false, false}, [3]int{0, 1, 2}, all},
		{"three different columns", [3]bool{true, true, true}, [3]int{0, 1, 2}, all},
		{"lower and upper the same column", [3]bool{false, true, true}, [3]int{0, 1, 1}, func(ol, ou c06Out) bool { return ol == ou }},
		{"value and lower the same column", [3]bool{true, true, true}, [3]int{0, 0, 2}, func(ol, ou c06Out) bool {
			return (ol == c06Eq) || (ol == c06Null && ou == c06Null) // x ? x is '=' unless x is NULL, and then every comparison with x is NULL
		}},
		{"value and upper the same column", [3]bool{true, true, true}, [3]int{0, 1, 0}, func(ol, ou c06Out) bool {
			return (ou == c06Eq) || (ou == c06Null && ol == c06Null)
		}},
		{"all three the same column", [3]bool{true, true, true}, [3]int{0, 0, 0}, func(ol, ou c06Out) bool {
			return (ol == c06Eq && ou == c06Eq) || (ol == c06Null && ou == c06Null)
		}},
	}
	for _, sc := range scenarios {
		key := "simplifyExpression/Between/" + strings.ReplaceAll(sc.name, " ", "-")
		leaves := [3]*MSym{{Name: "val"}, {Name: "lower"}, {Name: "upper"}}
		for i, l := range leaves {
			l.Dyn = otherT
			if sc.fields[i] {
				l.Dyn = gfT
			}
		}
		classOf := func(v MV) int {
			for i, l := range leaves {
				if v == MV(l) {
					return sc.class[i]
				}
			}
			return -1
		}
		e := t.mk("Between", leaves[0], leaves[1], leaves[2])
		m := w.mini(w.an)
		m.Call = func(m *Mini, call *ast.CallExpr, fn *types.Func, recv MV, args []MV) ([]MV, bool) {
			if fn == nil {
				return nil, false
			}
			if fn == sameFn && len(args) == 1 {
				a, b := classOf(recv), classOf(args[0])
				return []MV{constant.MakeBool(a >= 0 && a == b)}, true
			}
			return t.call(fn, recv, args)
		}
		bind := map[types.Object]MV{}
		n := 0
		for _, f := range lit.Type.Params.List {
			for _, id := range f.Names {
				var v MV = &MSym{Name: id.Name}
				if _, isIface := w.an.TypesInfo.Defs[id].Type().Underlying().(*types.Interface); isIface && (n > 0 || len(lit.Type.Params.List) == 1) {
					v = e
				}
				bind[w.an.TypesInfo.Defs[id]] = v
				n++
			}
		}
		res, returned, panicked, _, err := m.RunBlock(lit.Body.List, bind)
		if err != nil || !returned || panicked || len(res) == 0 {
			c.Undecided("C06-SB", key, lit.Pos(), fmt.Sprint("arm not foldable: ", err))
			continue
		}
		out, _ := res[0].(*MSym)
		if out == nil {
			c.Undecided("C06-SB", key, lit.Pos(), "the arm does not return an expression")
			continue
		}
		var diffs []string
		var evalErr error
		points := 0
		for _, ol := range outs {
			for _, ou := range outs {
				if !sc.consistent(ol, ou) {
					continue
				}
				points++
				asg := c06Asg{cmp: map[[2]*MSym]c06Out{{leaves[0], leaves[1]}: ol, {leaves[0], leaves[2]}: ou}}
				vi, err := t.eval(e, asg)
				if err == nil {
					var vo int
					if vo, err = t.eval(out, asg); err == nil && vi != vo {
						diffs = append(diffs, fmt.Sprintf("val?lower:%s,val?upper:%s: BETWEEN %s, rewritten %s", ol, ou, c05Name(vi), c05Name(vo)))
					}
				}
				if err != nil {
					evalErr = err
				}
			}
		}
		if evalErr != nil {
			c.Undecided("C06-SB", key, lit.Pos(), evalErr.Error())
			continue
		}
		sort.Strings(diffs)
		c.Check(len(diffs) == 0, "C06-SB", key, lit.Pos(), fmt.Sprintf("same table on %d points", points),
			fmt.Sprintf("simplifyExpression rewrites BETWEEN (%s) into an expression with a different three-valued result: %s", sc.name, strings.Join(diffs, "; ")))
	}
}
