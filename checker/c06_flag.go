package main

import (
	"fmt"
	"go/ast"
	"go/constant"
	"go/types"
	"strings"
)

// C06-HF: the has-NULL flag HashInTuple.Eval consults is computed by newInMap when the rewrite
// happens and wired into the struct by NewHashInTuple. Both are folded: newInMap over lists of
// one and two abstract elements {value, NULL-typed, NULL-valued} (plus the empty list and a
// NULL-typed left operand), NewHashInTuple symbolically.

func c06HashFlag(w *c06World) {
	c := w.c
	inMap := LookupFunc(w.ex, "newInMap")
	fd := c.P.Decl(inMap)
	numCols := LookupFunc(w.ty, "NumColumns")
	tupleT, _ := w.ex.Types.Scope().Lookup("Tuple").(*types.TypeName)
	if fd == nil || tupleT == nil || numCols == nil {
		c.Undecided("C06-HF", "newInMap", 0, "newInMap / Tuple / NumColumns not found")
		return
	}
	falsePreds := map[*types.Func]bool{}
	for _, n := range []string{"IsEnum", "IsSet"} {
		if fn := LookupFunc(w.ty, n); fn != nil {
			falsePreds[fn] = true
		}
	}
	getCmpType := LookupFunc(w.ty, "GetCompareType")
	hashFn := LookupFunc(w.hs, "HashOfSimple")
	type kind struct {
		name              string
		nullType, nullVal bool
	}
	kinds := []kind{{"value", false, false}, {"NULL-typed", true, true}, {"NULL-valued", false, true}}
	var lists [][]kind
	lists = append(lists, nil)
	for _, k := range kinds {
		lists = append(lists, []kind{k})
	}
	for _, k1 := range kinds {
		for _, k2 := range kinds {
			lists = append(lists, []kind{k1, k2})
		}
	}
	// parameter names: ctx, lType, right
	var pnames []string
	for _, f := range fd.Type.Params.List {
		for _, n := range f.Names {
			pnames = append(pnames, n.Name)
		}
	}
	if len(pnames) != 3 {
		c.Undecided("C06-HF", "newInMap", fd.Pos(), "unexpected parameter list")
		return
	}
	run := func(leftTypeNull bool, list []kind) (bool, error) {
		tupleSym := &MSym{Name: "tuple", Dyn: tupleT.Type()}
		var lType MV = &MSym{Name: "leftType"}
		if leftTypeNull {
			lType = w.typeNull
		}
		elems := make([]*MSym, len(list))
		for i := range list {
			elems[i] = &MSym{Name: fmt.Sprintf("el%d", i)}
		}
		m := w.mini(w.ex)
		m.Unroll = func(m *Mini, rs *ast.RangeStmt, eval func(ast.Expr) MV) (int, func(int) (MV, MV), bool) {
			x := eval(rs.X)
			if x == MV(tupleSym) {
				return len(list), func(i int) (MV, MV) { return constant.MakeInt64(int64(i)), elems[i] }, true
			}
			if s, ok := x.(*MSym); ok && strings.HasPrefix(s.Name, "opaque:") {
				return 0, nil, true // hashing of the collected values is outside the abstraction
			}
			return 0, nil, false
		}
		m.Call = func(m *Mini, call *ast.CallExpr, fn *types.Func, recv MV, args []MV) ([]MV, bool) {
			if fn == nil {
				if IsBuiltinCall(m.Info, call, "len") && len(args) == 1 && args[0] == MV(tupleSym) {
					return []MV{constant.MakeInt64(int64(len(list)))}, true
				}
				return nil, false
			}
			if r, ok := w.errCall(fn, recv, args); ok {
				return r, true
			}
			switch {
			case fn == numCols:
				return []MV{constant.MakeInt64(1)}, true
			case falsePreds[fn]:
				return []MV{constant.MakeBool(false)}, true
			case fn == getCmpType && getCmpType != nil:
				return []MV{&MSym{Name: "cmpType"}}, true
			case fn == hashFn && hashFn != nil:
				return []MV{&MSym{Name: "key"}, constant.MakeInt64(0), w.nilSym}, true
			}
			sig := fn.Type().(*types.Signature)
			for i, s := range elems {
				if recv == MV(s) {
					if sig.Results().Len() == 2 { // el.Eval
						if list[i].nullVal {
							return []MV{w.nilSym, w.nilSym}, true
						}
						return []MV{&MSym{Name: "val"}, w.nilSym}, true
					}
					if sig.Results().Len() == 1 { // el.Type
						if list[i].nullType {
							return []MV{w.typeNull}, true
						}
						return []MV{&MSym{Name: "elemType"}}, true
					}
				}
			}
			return nil, false
		}
		res, panicked, err := m.RunFunc(fd, w.bind(w.ex, fd, nil, map[string]MV{pnames[1]: lType, pnames[2]: tupleSym}))
		if err != nil {
			return false, err
		}
		if panicked || len(res) != 4 {
			return false, fmt.Errorf("unexpected result shape")
		}
		if e, ok := res[3].(*MSym); !ok || !e.Nil {
			return false, fmt.Errorf("returns an error")
		}
		b, ok := MBool(res[2])
		if !ok {
			return false, fmt.Errorf("the flag does not fold to a boolean")
		}
		return b, nil
	}
	check := func(key string, leftTypeNull bool, list []kind, want bool, why string) {
		got, err := run(leftTypeNull, list)
		if err != nil {
			c.Undecided("C06-HF", key, fd.Pos(), err.Error())
			return
		}
		c.Check(got == want, "C06-HF", key, fd.Pos(), fmt.Sprint(got), fmt.Sprintf("newInMap reports hasNull=%v for %s; %s", got, key, why))
	}
	for _, list := range lists {
		var names []string
		want := false
		for _, k := range list {
			names = append(names, k.name)
			want = want || k.nullVal
		}
		check("newInMap(list=["+strings.Join(names, ",")+"])", false, list, want,
			"HashInTuple.Eval answers NULL on a miss exactly when this flag is set, so it must be set iff the list holds a NULL")
	}
	check("newInMap(left type NULL)", true, []kind{kinds[0]}, true, "a NULL-typed left operand makes IN NULL")

	// NewHashInTuple wires the results into the struct
	nfd := c.P.Decl(LookupFunc(w.ex, "NewHashInTuple"))
	newIn := LookupFunc(w.ex, "NewInTuple")
	if nfd == nil || newIn == nil {
		c.Undecided("C06-HF", "NewHashInTuple", 0, "NewHashInTuple / NewInTuple not found")
		return
	}
	var hp []string
	for _, f := range nfd.Type.Params.List {
		for _, n := range f.Names {
			hp = append(hp, n.Name)
		}
	}
	if len(hp) != 3 {
		c.Undecided("C06-HF", "NewHashInTuple", nfd.Pos(), "unexpected parameter list")
		return
	}
	left, right := &MSym{Name: "left"}, &MSym{Name: "right", Dyn: tupleT.Type()}
	mapSym, typSym, flagSym := &MSym{Name: "map"}, &MSym{Name: "cmpType"}, &MSym{Name: "hasNull"}
	tupleArgOK := false
	m := w.mini(w.ex)
	m.Call = func(m *Mini, call *ast.CallExpr, fn *types.Func, recv MV, args []MV) ([]MV, bool) {
		if fn == nil {
			return nil, false
		}
		if r, ok := w.errCall(fn, recv, args); ok {
			return r, true
		}
		switch {
		case fn == inMap:
			tupleArgOK = len(args) == 3 && args[2] == MV(right)
			return []MV{mapSym, typSym, flagSym, w.nilSym}, true
		case fn == newIn && len(args) == 2:
			return []MV{&MSym{Name: "In", Fields: map[string]MV{"L": args[0], "R": args[1]}}}, true
		case recv == MV(left) && fn.Type().(*types.Signature).Results().Len() == 1:
			return []MV{&MSym{Name: "leftType"}}, true
		}
		return nil, false
	}
	res, panicked, err := m.RunFunc(nfd, w.bind(w.ex, nfd, nil, map[string]MV{hp[1]: left, hp[2]: right}))
	if err != nil || panicked || len(res) != 2 {
		c.Undecided("C06-HF", "NewHashInTuple", nfd.Pos(), fmt.Sprint("not foldable: ", err))
		return
	}
	st, _ := res[0].(*MSym)
	field := func(n string) MV {
		if st == nil || st.Fields == nil {
			return nil
		}
		return st.Fields[n]
	}
	in, _ := field("in").(*MSym)
	c.Check(field("hasNull") == MV(flagSym), "C06-HF", "NewHashInTuple/hasNull", nfd.Pos(), "newInMap's flag", "HashInTuple.hasNull is not the flag newInMap computed")
	c.Check(field("cmp") == MV(mapSym) && field("cmpType") == MV(typSym), "C06-HF", "NewHashInTuple/cmp,cmpType", nfd.Pos(), "newInMap's map and type", "HashInTuple.cmp / cmpType are not the element set and comparison type newInMap computed")
	c.Check(tupleArgOK && in != nil && in.Fields["L"] == MV(left) && in.Fields["R"] == MV(right), "C06-HF", "NewHashInTuple/operands", nfd.Pos(), "in position", "NewHashInTuple hashes a different list than the one it keeps, or exchanges the operands of the InTuple it wraps")
}
