package main

// C52-M1 — geometry values are immutable: no store goes through the rings / points / members of a
// geometry value that the storing function did not allocate itself.
//
// Geometry values (Point, LineString, Polygon, Multi*, GeomColl) are passed by value, but every one
// except Point carries a slice; the copy of the struct shares the backing array with the value it was
// copied from - the row held by the in-memory table, the result cached by a sibling expression.
// Swap/SetSRID and the spatial functions must therefore build their result in a slice they made; an
// element store through the receiver's (or an evaluated argument's) slice rewrites the stored value:
// ST_AsWKB(g) for SRID 4326 would flip the axes of the stored g, and ST_GeomFromWKB(ST_AsWKB(g)) stops
// being g.

import (
	"fmt"
	"go/types"
	"os"
	"sort"
	"strings"

	"golang.org/x/tools/go/ssa"
)

type c52MutCfg struct {
	typesRel string
	iface    string
	floor    int
	minTypes int
	exc      map[string]string
}

func runC52Mut(c *Ctx, cfg c52MutCfg) {
	c.Rule("C52-M1", "geometry values are immutable: every store into an element of a slice of geometry values (points of a line, rings of a polygon, members of a collection), every field store through a pointer to a geometry value, "+
		"every copy() into such a slice and every call of a function that stores through a geometry-typed parameter has a target that the storing function allocated itself (make, composite literal, append result of those, "+
		"the result of a callee that returns only fresh memory); never memory reached from its receiver, from a parameter of geometry type, from the result of Eval/UnwrapGeometry, from a field or a global. "+
		"A non-geometry destination parameter ([]Point scratch, *T) makes the function a writer, decided at its static call sites", cfg.floor)
	tp := c.P.Pkg(cfg.typesRel)
	if tp == nil {
		c.Undecided("C52-M1", "package", 0, "package "+cfg.typesRel+" not loaded")
		return
	}
	ifn, _ := tp.Types.Scope().Lookup(cfg.iface).(*types.TypeName)
	if ifn == nil {
		c.Undecided("C52-M1", cfg.iface, 0, "interface not found")
		return
	}
	it, ok := ifn.Type().Underlying().(*types.Interface)
	if !ok {
		c.Undecided("C52-M1", cfg.iface, 0, "not an interface")
		return
	}
	geo := map[*types.TypeName]bool{}
	var names []string
	for _, n := range tp.Types.Scope().Names() {
		tn, ok := tp.Types.Scope().Lookup(n).(*types.TypeName)
		if !ok || tn == ifn {
			continue
		}
		if _, isI := tn.Type().Underlying().(*types.Interface); isI {
			continue
		}
		if _, isS := tn.Type().Underlying().(*types.Struct); !isS {
			continue
		}
		if types.Implements(tn.Type(), it) || types.Implements(types.NewPointer(tn.Type()), it) {
			geo[tn] = true
			names = append(names, n)
		}
	}
	sort.Strings(names)
	c.Notef("C52-M1 geometry value types (implementers of %s): %s", cfg.iface, strings.Join(names, " "))
	if len(geo) < cfg.minTypes || len(geo) == 0 {
		c.Undecided("C52-M1", "geometry-types", 0, fmt.Sprintf("found %d struct types implementing %s, expected at least %d", len(geo), cfg.iface, cfg.minTypes))
		return
	}
	isGeoVal := func(t types.Type) bool { // a geometry value itself: one of the structs or the interface
		if n, ok := types.Unalias(t).(*types.Named); ok {
			return geo[n.Obj()] || n.Obj() == ifn
		}
		return false
	}
	var geoish func(t types.Type, d int) bool // a geometry value, or a pointer / slice / array of them
	geoish = func(t types.Type, d int) bool {
		if d > 4 {
			return false
		}
		if isGeoVal(t) {
			return true
		}
		switch u := types.Unalias(t).Underlying().(type) {
		case *types.Pointer:
			return geoish(u.Elem(), d+1)
		case *types.Slice:
			return geoish(u.Elem(), d+1)
		case *types.Array:
			return geoish(u.Elem(), d+1)
		}
		return false
	}
	// geoAddr: does the address (its arithmetic, without crossing a load) select an element of a slice of
	// geometry values or a field of a geometry value reached through a pointer?
	geoAddr := func(addr ssa.Value) bool {
		for {
			switch x := addr.(type) {
			case *ssa.IndexAddr:
				switch u := x.X.Type().Underlying().(type) {
				case *types.Slice:
					if isGeoVal(u.Elem()) {
						return true
					}
				case *types.Pointer:
					if a, ok := u.Elem().Underlying().(*types.Array); ok && isGeoVal(a.Elem()) {
						return true
					}
				}
				addr = x.X
			case *ssa.FieldAddr:
				if p, ok := x.X.Type().Underlying().(*types.Pointer); ok && isGeoVal(p.Elem()) {
					return true
				}
				addr = x.X
			default:
				return false
			}
		}
	}

	eng := frsNewEngine(c.P)
	dyn := frsDynamicMethods(c.P)
	type sink = frsSink
	sinks, _ := eng.ProtectedSinks(func(f *ssa.Function, in ssa.Instruction) []frsSink {
		var out []frsSink
		switch x := in.(type) {
		case *ssa.Store:
			if !geoAddr(x.Addr) {
				return nil
			}
			root := frsStoreRoot(x.Addr)
			if root == nil {
				return nil // into a local variable / composite literal of the function
			}
			out = append(out, sink{f, in, root, "store " + frsDescribe(x.Addr)})
		case ssa.CallInstruction:
			com := x.Common()
			if bi, ok := com.Value.(*ssa.Builtin); ok {
				if bi.Name() == "copy" && len(com.Args) == 2 && geoish(com.Args[0].Type(), 0) {
					out = append(out, sink{f, in, com.Args[0], "copy into " + frsDescribe(com.Args[0])})
				}
				if bi.Name() == "append" && len(com.Args) > 0 && geoish(com.Args[0].Type(), 0) {
					if base := frsShortenedReslice(com.Args[0]); base != nil {
						out = append(out, sink{f, in, base, "append to shortened re-slice of " + frsDescribe(base)})
					}
				}
				return out
			}
			callee := com.StaticCallee()
			if callee == nil || frsReadable(callee) {
				return out // module functions become writers by forwarding (ProtectedSinks)
			}
			wr := frsStdWrites(callee)
			var js []int
			for j := range wr {
				js = append(js, j)
			}
			sort.Ints(js)
			for _, j := range js {
				if j < len(com.Args) && geoish(orgPeel(com.Args[j]).Type(), 0) {
					out = append(out, sink{f, in, com.Args[j], frsQualName(callee)})
				}
			}
		}
		return out
	}, func(f *ssa.Function, p *ssa.Parameter) bool {
		return !dyn(f) && len(eng.ix.callers[f]) > 0 && !isGeoVal(p.Type())
	})
	dump := os.Getenv("VCHK_DUMP") != "" && !c.fixtureMode
	for _, s := range sinks {
		fk := frsFuncKey(s.fn)
		key := fk + "/" + s.how
		if _, isCall := s.at.(ssa.CallInstruction); isCall && !strings.HasPrefix(s.how, "copy into") && !strings.HasPrefix(s.how, "append to") {
			key = fmt.Sprintf("%s/%s(%s)", fk, s.how, frsDescribe(s.dest))
		}
		pos := s.at.Pos()
		if !pos.IsValid() {
			pos = s.fn.Pos()
		}
		o := eng.Origins(s.dest)
		if dump {
			fmt.Printf("M1SINK %s at %s: %s\n", key, c.P.Rel(pos), o.Describe())
		}
		bad := o.NotOwned()
		if len(bad) == 0 {
			c.Ok("C52-M1", key, pos, "target is "+o.Describe())
			continue
		}
		deferable := !dyn(s.fn) && len(eng.ix.callers[s.fn]) > 0
		var ps []string
		for _, l := range bad {
			if l.kind != frsParam || isGeoVal(l.par.Type()) {
				deferable = false
			} else {
				ps = append(ps, l.par.Name())
			}
		}
		if deferable {
			c.Ok("C52-M1", key, pos, fmt.Sprintf("target is the function's own destination parameter %s (not a geometry value): %s is a writer, decided at its %d static call site(s)", strings.Join(ps, ", "), fk, len(eng.ix.callers[s.fn])))
			continue
		}
		if why, ok := cfg.exc[key]; ok && !c.fixtureMode {
			c.Exc("C52-M1", key, pos, why)
			continue
		}
		var ds, path []string
		for _, l := range bad {
			ds = append(ds, l.String())
			if l.pos.IsValid() {
				path = append(path, fmt.Sprintf("%s: %s", c.P.Rel(l.pos), l.String()))
			}
		}
		c.Bad("C52-M1", key, pos, fmt.Sprintf("%s: %s performs `%s` through memory it did not allocate: the target may be %s. Geometry values are copied by value but share their point/ring/member slices with the value they were copied from (the row stored in the table, an operand evaluated once and used twice): the store rewrites that value, so ST_GeomFromWKB(ST_AsWKB(g)) no longer equals the stored g and a read-only statement changes the table. Build the result in a slice made in this function.",
			c.P.Rel(pos), fk, s.how, strings.Join(ds, "; ")), path...)
	}
}

// frsQualName: Type.Method / Name for module functions, pkg.Name for functions of other packages.
func frsQualName(f *ssa.Function) string {
	g := f
	if o := f.Origin(); o != nil {
		g = o
	}
	if g.Pkg != nil && g.Signature.Recv() == nil && g.Parent() == nil && !frsReadable(f) {
		return g.Pkg.Pkg.Name() + "." + g.Name()
	}
	return maFnName(g)
}
