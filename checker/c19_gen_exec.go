package main

import (
	"fmt"
	"go/ast"
	"go/types"
	"sort"

	"golang.org/x/tools/go/cfg"
	"golang.org/x/tools/go/packages"
)

// C19-G3 / C19-G4: the executors of the update expressions.
//
// An "applier" is a function of an executor package that consumes the explicit or the derived
// accessor of the update-expression container. A half is applied either by an inline loop
// (`for _, e := range ue.Explicit…() { val, err := e.Eval(ctx, acc); …; acc = val.(Row) }`) or by
// handing the accessor's result to a loop function of the same shape (one call level).

type c19gApp struct {
	kind   string // "explicit" | "derived"
	form   string // "inline" | "call"
	rs     *ast.RangeStmt
	node   ast.Node     // event node in the applier's CFG: inline: the ranged expression; call: the assignment
	in     types.Object // accumulator entering the application (nil: not a plain variable)
	inExpr ast.Expr
	out    types.Object // accumulator leaving the application
	write  ast.Node     // inline: the in-loop assignment acc = val…; call: == node
	loopFn *types.Func  // call form: the loop function
}

type c19gLoop struct {
	acc      types.Object
	val      types.Object
	evalAs   *ast.AssignStmt
	accWrite []*ast.AssignStmt
	why      string
	path     []ast.Node
	// repairs: assignments inside the loop that replace the evaluation result by another value
	// (the IGNORE arms); repairWhy is set when one of them is not computed from the accumulator
	repairs   int
	repairWhy string
	repairPos ast.Node
}

func (a *c19g) accessorKind(info *types.Info, e ast.Expr, fd *ast.FuncDecl) (string, *ast.CallExpr) {
	e = ast.Unparen(e)
	if o := c19gObjOf(info, e); o != nil && fd != nil {
		if def := c19gSingleDef(info, fd, o); def != nil {
			e = ast.Unparen(def)
		}
	}
	call, ok := e.(*ast.CallExpr)
	if !ok {
		return "", nil
	}
	fn := Callee(info, call)
	if fn == nil {
		return "", nil
	}
	switch fn.Origin() {
	case a.accExplicit:
		return "explicit", call
	case a.accDerived:
		return "derived", call
	}
	return "", nil
}

// loopShape decides one application loop: the expression is evaluated over the accumulator and
// the accumulator is replaced by the result before the next expression (or the loop exit).
func (a *c19g) loopShape(pk *packages.Package, fd *ast.FuncDecl, rs *ast.RangeStmt) *c19gLoop {
	info := pk.TypesInfo
	lp := &c19gLoop{}
	ev := c19gObjOf(info, rs.Value)
	if ev == nil {
		lp.why = "the loop does not bind the expression"
		return lp
	}
	ast.Inspect(rs.Body, func(n ast.Node) bool {
		if _, ok := n.(*ast.FuncLit); ok {
			return false
		}
		as, ok := n.(*ast.AssignStmt)
		if !ok || len(as.Rhs) != 1 || len(as.Lhs) != 2 {
			return true
		}
		call, ok := ast.Unparen(as.Rhs[0]).(*ast.CallExpr)
		if !ok || len(call.Args) == 0 {
			return true
		}
		fn := Callee(info, call)
		sel, isSel := ast.Unparen(call.Fun).(*ast.SelectorExpr)
		if fn == nil || !isSel || fn.Name() != a.exprEval.Name() || c19gObjOf(info, sel.X) != ev {
			return true
		}
		if lp.evalAs == nil {
			lp.evalAs = as
		}
		return true
	})
	if lp.evalAs == nil {
		lp.why = "no `val, err := <expr>.Eval(ctx, row)` on the loop's expression"
		return lp
	}
	call := ast.Unparen(lp.evalAs.Rhs[0]).(*ast.CallExpr)
	lp.acc = c19gObjOf(info, call.Args[len(call.Args)-1])
	lp.val = c19gObjOf(info, lp.evalAs.Lhs[0])
	if lp.acc == nil || !types.Identical(lp.acc.Type(), a.rowT) {
		lp.why = "the row handed to Eval is not a plain Row variable: `" + types.ExprString(call.Args[len(call.Args)-1]) + "`"
		lp.acc = nil
		return lp
	}
	if lp.val == nil {
		lp.why = "the result of Eval is discarded"
		return lp
	}
	g := a.c.P.CFG(info, fd.Body)
	// values derived from the evaluation result inside the loop body (`next, ok := val.(Row)`)
	fromVal := map[types.Object]bool{lp.val: true}
	for changed := true; changed; {
		changed = false
		ast.Inspect(rs.Body, func(n ast.Node) bool {
			as, ok := n.(*ast.AssignStmt)
			if !ok || as == lp.evalAs {
				return true
			}
			m := false
			for _, r := range as.Rhs {
				if c19gMentionsAny(info, r, func(o types.Object) bool { return fromVal[o] }) {
					m = true
				}
			}
			if m {
				for _, l := range as.Lhs {
					if o := c19gObjOf(info, l); o != nil && o != lp.acc && !fromVal[o] {
						if b, isB := o.Type().Underlying().(*types.Basic); isB && b.Info()&types.IsBoolean != 0 {
							continue
						}
						fromVal[o] = true
						changed = true
					}
				}
			}
			return true
		})
	}
	isAccWrite := func(n ast.Node) bool {
		as, ok := n.(*ast.AssignStmt)
		if !ok || !dmlAssigns(info, as, lp.acc) {
			return false
		}
		for _, r := range as.Rhs {
			if c19gMentionsAny(info, r, func(o types.Object) bool { return fromVal[o] }) {
				return true
			}
		}
		return false
	}
	// the value that replaces the accumulator must be computed from the accumulator: either the
	// evaluation result itself, or a repair of (a copy of) the accumulator
	isRowish := func(o types.Object) bool {
		if types.Identical(o.Type(), a.rowT) {
			return true
		}
		it, ok := o.Type().Underlying().(*types.Interface)
		return ok && it.NumMethods() == 0
	}
	fromAcc := map[types.Object]bool{lp.acc: true}
	for o := range fromVal {
		fromAcc[o] = true
	}
	for changed := true; changed; {
		changed = false
		// only copies taken inside the loop body count: a snapshot taken before the loop is stale
		ast.Inspect(rs.Body, func(n ast.Node) bool {
			as, ok := n.(*ast.AssignStmt)
			if !ok || as == lp.evalAs {
				return true
			}
			m := false
			for _, r := range as.Rhs {
				if c19gMentionsAny(info, r, func(o types.Object) bool { return fromAcc[o] }) {
					m = true
				}
			}
			if m {
				for _, l := range as.Lhs {
					if o := c19gObjOf(info, l); o != nil && !fromAcc[o] && isRowish(o) {
						fromAcc[o] = true
						changed = true
					}
				}
			}
			return true
		})
	}
	ast.Inspect(rs.Body, func(n ast.Node) bool {
		as, ok := n.(*ast.AssignStmt)
		if !ok || as == lp.evalAs {
			return true
		}
		for i, l := range as.Lhs {
			o := c19gObjOf(info, l)
			if o == nil || !fromVal[o] || !isRowish(o) {
				continue
			}
			var rhs ast.Expr
			if len(as.Lhs) == len(as.Rhs) {
				rhs = as.Rhs[i]
			} else if len(as.Rhs) == 1 {
				rhs = as.Rhs[0]
			}
			if rhs == nil {
				continue
			}
			if c19gMentionsAny(info, rhs, func(x types.Object) bool { return fromVal[x] }) {
				continue // a conversion of the evaluation result (`next, ok := val.(Row)`)
			}
			lp.repairs++
			if !c19gMentionsAny(info, rhs, func(x types.Object) bool { return fromAcc[x] && isRowish(x) }) && lp.repairWhy == "" {
				lp.repairWhy = fmt.Sprintf("after a failed evaluation `%s` takes the place of the evaluation result and then of `%s`, but it is not computed from `%s`: the assignments applied so far are dropped and columns the statement does not assign are overwritten", shortNode(a.c.P.Fset, as), lp.acc.Name(), lp.acc.Name())
				lp.repairPos = as
			}
		}
		return true
	})
	ast.Inspect(rs.Body, func(n ast.Node) bool {
		if as, ok := n.(*ast.AssignStmt); ok && isAccWrite(as) {
			lp.accWrite = append(lp.accWrite, as)
		}
		return true
	})
	leaves := func(b *cfg.Block, si int) bool {
		t := b.Succs[si]
		return t.Stmt == ast.Stmt(rs) && (t.Kind == cfg.KindRangeLoop || t.Kind == cfg.KindRangeDone)
	}
	start, ok := FindNode(g, lp.evalAs)
	if !ok {
		lp.why = "evaluation not found in the CFG"
		return lp
	}
	// (1) from the evaluation, the next expression / the loop exit is not reached before acc = …val…
	p := dmlSearch(g, start, 0, func(n ast.Node, st int) (int, dmlVerdict) {
		if st != 0 {
			return st, dmlHit
		}
		if _, ok := n.(*ast.ReturnStmt); ok {
			return st, dmlStop
		}
		if isAccWrite(n) {
			return st, dmlStop
		}
		return st, dmlGo
	}, func(b *cfg.Block, si int, st int) (int, bool) {
		if leaves(b, si) {
			st = 1
		}
		return st, true
	}, func(st int) bool { return st != 0 })
	if p != nil {
		lp.why = fmt.Sprintf("after `%s` the next expression (or the code after the loop) is reached without `%s` having been replaced by the result: later expressions do not see this one's effect", shortNode(a.c.P.Fset, lp.evalAs), lp.acc.Name())
		lp.path = append([]ast.Node{lp.evalAs}, p...)
		return lp
	}
	// (2) every iteration evaluates its expression
	var body *cfg.Block
	for _, b := range g.Blocks {
		if b.Stmt == ast.Stmt(rs) && b.Kind == cfg.KindRangeBody {
			body = b
		}
	}
	if body == nil {
		lp.why = "loop body not found in the CFG"
		return lp
	}
	p = dmlSearch(g, CFGPoint{body, -1}, 0, func(n ast.Node, st int) (int, dmlVerdict) {
		if st != 0 {
			return st, dmlHit
		}
		if n == ast.Node(lp.evalAs) {
			return st, dmlStop
		}
		if _, ok := n.(*ast.ReturnStmt); ok {
			return st, dmlStop
		}
		return st, dmlGo
	}, func(b *cfg.Block, si int, st int) (int, bool) {
		if leaves(b, si) {
			st = 1
		}
		return st, true
	}, func(st int) bool { return st != 0 })
	if p != nil {
		lp.why = "an iteration can finish without evaluating its expression: that update expression is skipped"
		lp.path = p
	}
	return lp
}

func (a *c19g) appliers(pk *packages.Package) {
	c, info := a.c, pk.TypesInfo
	if a.accExplicit == nil || a.accDerived == nil {
		c.Undecided("C19-G3", "accessors", 0, "the explicit/derived accessors were not identified (see C19-G2); the executors cannot be decided")
		return
	}
	loopFns := map[*types.Func]*c19gLoop{} // loop functions already decided
	loopParam := map[*types.Func][2]int{}  // (exprs param index, acc param index)
	loopReported := map[*types.Func]bool{}
	nAppliers := 0
	a.c.P.EachFuncDecl([]string{dmlRelOfPkg(pk.PkgPath)}, func(_ *packages.Package, fd *ast.FuncDecl) {
		name := DeclName(fd)
		var apps []*c19gApp
		undecided := false
		// inline applications
		ast.Inspect(fd.Body, func(n ast.Node) bool {
			switch x := n.(type) {
			case *ast.FuncLit:
				return false
			case *ast.RangeStmt:
				kind, _ := a.accessorKind(info, x.X, fd)
				if kind == "" {
					return true
				}
				lp := a.loopShape(pk, fd, x)
				key := name + "/" + kind + "-loop"
				if lp.why != "" {
					c.Bad("C19-G3", key, x.Pos(), name+": "+lp.why, c.P.DescribePath(lp.path)...)
					undecided = true
					if lp.acc == nil {
						return true
					}
				} else {
					c.Ok("C19-G3", key, x.Pos(), fmt.Sprintf("each %s expression is evaluated over `%s`, which is replaced by the result before the next one", kind, lp.acc.Name()))
				}
				a.reportRepair(name+"/"+kind+"-loop", name, lp)
				app := &c19gApp{kind: kind, form: "inline", rs: x, node: x.X, in: lp.acc, out: lp.acc}
				if len(lp.accWrite) > 0 {
					app.write = lp.accWrite[0]
				}
				apps = append(apps, app)
			case *ast.AssignStmt:
				if len(x.Rhs) != 1 {
					return true
				}
				call, ok := ast.Unparen(x.Rhs[0]).(*ast.CallExpr)
				if !ok {
					return true
				}
				for ai, arg := range call.Args {
					kind, _ := a.accessorKind(info, arg, fd)
					if kind == "" {
						continue
					}
					h := Callee(info, call)
					if h == nil {
						continue
					}
					h = h.Origin()
					hd := c.P.Decl(h)
					hpk := c.P.PkgOf(h)
					key := name + "/" + kind + "-half"
					if hd == nil || hpk == nil || hd.Body == nil {
						c.Undecided("C19-G3", key, call.Pos(), fmt.Sprintf("%s hands the %s expressions to %s, whose source is not loaded", name, kind, h.Name()))
						undecided = true
						continue
					}
					if _, done := loopFns[h]; !done {
						loopFns[h] = nil
						hsig := h.Type().(*types.Signature)
						if ai < hsig.Params().Len() {
							ep := hsig.Params().At(ai)
							var hrs *ast.RangeStmt
							ast.Inspect(hd.Body, func(m ast.Node) bool {
								if rs, ok := m.(*ast.RangeStmt); ok && hrs == nil && c19gObjOf(hpk.TypesInfo, rs.X) == types.Object(ep) {
									hrs = rs
								}
								return true
							})
							if hrs != nil {
								lp := a.loopShape(hpk, hd, hrs)
								loopFns[h] = lp
								accIdx := -1
								for i := 0; i < hsig.Params().Len(); i++ {
									if lp.acc != nil && hsig.Params().At(i) == lp.acc {
										accIdx = i
									}
								}
								loopParam[h] = [2]int{ai, accIdx}
								if lp.why == "" && accIdx < 0 {
									lp.why = "the row the expressions are evaluated over is not a parameter of the loop function"
								}
								if lp.why == "" {
									// every non-nil Row result is the accumulator
									ast.Inspect(hd.Body, func(m ast.Node) bool {
										if _, ok := m.(*ast.FuncLit); ok {
											return false
										}
										r, ok := m.(*ast.ReturnStmt)
										if !ok || len(r.Results) == 0 {
											return true
										}
										if !types.Identical(hsig.Results().At(0).Type(), a.rowT) || isNilIdent(hpk.TypesInfo, r.Results[0]) {
											return true
										}
										if c19gObjOf(hpk.TypesInfo, r.Results[0]) != lp.acc {
											lp.why = fmt.Sprintf("returns `%s`, not the accumulated row `%s`", types.ExprString(r.Results[0]), lp.acc.Name())
											lp.path = []ast.Node{r}
										}
										return true
									})
								}
							}
						}
					}
					lp := loopFns[h]
					if lp == nil {
						c.Undecided("C19-G3", key, call.Pos(), fmt.Sprintf("%s hands the %s expressions to %s, which does not range over that parameter", name, kind, h.Name()))
						undecided = true
						continue
					}
					if !loopReported[h] {
						loopReported[h] = true
						lkey := DeclName(hd) + "/loop"
						if lp.why != "" {
							c.Bad("C19-G3", lkey, hd.Pos(), DeclName(hd)+": "+lp.why, c.P.DescribePath(lp.path)...)
						} else {
							c.Ok("C19-G3", lkey, hd.Pos(), fmt.Sprintf("each expression is evaluated over `%s`, which is replaced by the result before the next one and is what the function returns", lp.acc.Name()))
						}
						a.reportRepair(lkey, DeclName(hd), lp)
					}
					if lp.why != "" {
						undecided = true
						continue
					}
					accIdx := loopParam[h][1]
					app := &c19gApp{kind: kind, form: "call", node: x, write: x, loopFn: h}
					if accIdx < len(call.Args) {
						app.inExpr = call.Args[accIdx]
						app.in = c19gObjOf(info, call.Args[accIdx])
					}
					app.out = c19gObjOf(info, x.Lhs[0])
					if app.out == nil || !types.Identical(app.out.Type(), a.rowT) {
						c.Bad("C19-G3", key, call.Pos(), fmt.Sprintf("%s: the row produced by applying the %s expressions is discarded (`%s`)", name, kind, shortNode(c.P.Fset, x)))
						undecided = true
						continue
					}
					c.Ok("C19-G3", key, call.Pos(), fmt.Sprintf("%s expressions applied by %s to `%s`, result in `%s`", kind, h.Name(), types.ExprString(app.inExpr), app.out.Name()))
					apps = append(apps, app)
				}
			}
			return true
		})
		if len(apps) == 0 {
			return
		}
		nAppliers++
		if undecided {
			return
		}
		a.applier(pk, fd, apps)
	})
	if nAppliers == 0 {
		c.Undecided("C19-G3", "appliers/"+dmlRelOfPkg(pk.PkgPath), 0, "no function applying the explicit/derived update expressions found")
	}
	// who-may-read: an executor that takes the expressions of the container through any other
	// []Expression-returning method (the unsplit list) applies them without the explicit|derived protocol
	a.c.P.EachFuncDecl([]string{dmlRelOfPkg(pk.PkgPath)}, func(_ *packages.Package, fd *ast.FuncDecl) {
		for _, call := range dmlCallsIn(fd.Body, true) {
			fn := Callee(info, call)
			if fn == nil {
				continue
			}
			fn = fn.Origin()
			sig, _ := fn.Type().(*types.Signature)
			if sig == nil || sig.Recv() == nil || dmlNamedOf(sig.Recv().Type()) != a.ueT || fn == a.accExplicit || fn == a.accDerived {
				continue
			}
			if sig.Results().Len() == 1 && a.isExprSlice(sig.Results().At(0).Type()) {
				c.Bad("C19-G3", DeclName(fd)+"/reads-unsplit-expressions", call.Pos(), fmt.Sprintf("%s reads the update expressions through %s.%s, not through the explicit/derived accessors: whatever it applies is outside the explicit-then-derived protocol", DeclName(fd), a.p.ueType, fn.Name()))
			}
		}
	})
}

func (a *c19g) applier(pk *packages.Package, fd *ast.FuncDecl, apps []*c19gApp) {
	c, info := a.c, pk.TypesInfo
	name := DeclName(fd)
	g := c.P.CFG(info, fd.Body)
	tagless := c19gTaglessCases(fd.Body)
	var ex, de []*c19gApp
	for _, ap := range apps {
		if ap.kind == "explicit" {
			ex = append(ex, ap)
		} else {
			de = append(de, ap)
		}
	}
	if len(ex) != 1 || len(de) > 1 {
		c.Undecided("C19-G3", name+"/derived-after-explicit", fd.Pos(), fmt.Sprintf("%s applies the explicit half %d times and the derived half %d times; one of each is expected", name, len(ex), len(de)))
		return
	}
	E := ex[0]
	if len(de) == 0 {
		c.Bad("C19-G4", name+"/derived-applied-when-changed", fd.Pos(), name+" applies the user's assignments but never the derived expressions: generated columns keep their old value")
		return
	}
	D := de[0]
	X := E.out
	isNode := func(ap *c19gApp) func(ast.Node) bool {
		return func(n ast.Node) bool { return n == ap.node }
	}
	afterE := func() (CFGPoint, bool) {
		if E.form == "inline" {
			for _, b := range g.Blocks {
				if b.Stmt == ast.Stmt(E.rs) && b.Kind == cfg.KindRangeDone {
					return CFGPoint{b, -1}, true
				}
			}
			return CFGPoint{}, false
		}
		return FindNode(g, E.node)
	}
	startE, okE := afterE()
	if !okE {
		c.Undecided("C19-G3", name+"/derived-after-explicit", fd.Pos(), "explicit application not found in the CFG")
		return
	}

	// ---- G3b: order and chaining
	key := name + "/derived-after-explicit"
	switch {
	case PathAvoiding(g, EntryPoint(g), isNode(E), isNode(D), nil) != nil:
		p := PathAvoiding(g, EntryPoint(g), isNode(E), isNode(D), nil)
		c.Bad("C19-G3", key, D.node.Pos(), name+": the derived expressions can be applied without the user's assignments having been applied first", c.P.DescribePath(p)...)
	case D.in == nil || D.in != X:
		c.Bad("C19-G3", key, D.node.Pos(), fmt.Sprintf("%s: the derived expressions are applied to `%s`, not to the row produced by the user's assignments (`%s`): generated columns are computed from pre-assignment values", name, c19gExprOrVar(D), X.Name()))
	default:
		p := dmlSearch(g, startE, 0, func(n ast.Node, st int) (int, dmlVerdict) {
			if n == D.node {
				return st, dmlStop
			}
			if as, ok := n.(*ast.AssignStmt); ok && n != E.write && dmlAssigns(info, as, X) && !dmlMentionsRHS(info, as, X) {
				return st, dmlHit
			}
			return st, dmlGo
		}, nil, nil)
		if p != nil {
			c.Bad("C19-G3", key, p[len(p)-1].Pos(), fmt.Sprintf("%s: `%s` is replaced between the two applications by a value that does not derive from it", name, X.Name()), c.P.DescribePath(p)...)
		} else {
			c.Ok("C19-G3", key, D.node.Pos(), fmt.Sprintf("explicit application dominates the derived one, which continues from `%s`", X.Name()))
		}
	}

	// ---- views of X and the state transfer shared by G3c and G4
	var views []types.Object
	isView := map[types.Object]int{}
	for changed := true; changed; {
		changed = false
		ast.Inspect(fd.Body, func(n ast.Node) bool {
			as, ok := n.(*ast.AssignStmt)
			if !ok {
				return true
			}
			m := false
			for _, r := range as.Rhs {
				if c19gMentionsAny(info, r, func(o types.Object) bool { _, v := isView[o]; return o == X || v }) {
					m = true
				}
			}
			if !m {
				return true
			}
			for _, l := range as.Lhs {
				o := c19gObjOf(info, l)
				if o == nil || o == X {
					continue
				}
				if _, isSlice := o.Type().Underlying().(*types.Slice); !isSlice {
					continue
				}
				if _, seen := isView[o]; !seen && len(views) < 28 {
					isView[o] = len(views)
					views = append(views, o)
					changed = true
				}
			}
			return true
		})
	}
	const applied = 1 << 30
	isApplication := func(n ast.Node) bool {
		for _, ap := range apps {
			if ap.write != nil && n == ap.write {
				return true
			}
			if ap.form == "inline" {
				if n == ap.node {
					return true // the loop is entered: from here on the accumulator is the application's result (also after zero iterations)
				}
				// any in-loop replacement of the accumulator by the evaluation result
				if as, ok := n.(*ast.AssignStmt); ok && as.Pos() >= ap.rs.Body.Pos() && as.End() <= ap.rs.Body.End() && dmlAssigns(info, as, ap.out) {
					return true
				}
			}
		}
		return false
	}
	freshMention := func(e ast.Node, st int) bool {
		return c19gMentionsAny(info, e, func(o types.Object) bool {
			if o == X {
				return true
			}
			i, v := isView[o]
			return v && st&(1<<i) != 0
		})
	}
	step := func(n ast.Node, st int) int {
		if isApplication(n) {
			return applied // every earlier view is stale now
		}
		if as, ok := n.(*ast.AssignStmt); ok {
			fresh := false
			for _, r := range as.Rhs {
				if freshMention(r, st) {
					fresh = true
				}
			}
			for _, l := range as.Lhs {
				if i, v := isView[c19gObjOf(info, l)]; v {
					if fresh {
						st |= 1 << i
					} else {
						st &^= 1 << i
					}
				}
			}
		}
		return st
	}
	sinkExprs := func(n ast.Node) []ast.Expr {
		var out []ast.Expr
		if r, ok := n.(*ast.ReturnStmt); ok {
			for _, e := range r.Results {
				if t := info.TypeOf(e); t != nil && types.Identical(t, a.rowT) && !isNilIdent(info, e) {
					out = append(out, e)
				}
			}
			return out
		}
		for _, call := range dmlCallsIn(n, false) {
			sel, ok := ast.Unparen(call.Fun).(*ast.SelectorExpr)
			if !ok || !dmlImplements(info.TypeOf(sel.X), a.oc) {
				continue
			}
			switch {
			case sel.Sel.Name == "Update" && len(call.Args) == 3:
				out = append(out, call.Args[2])
			case sel.Sel.Name == "Insert" && len(call.Args) == 2:
				out = append(out, call.Args[1])
			}
		}
		return out
	}

	// ---- G3c: what is stored / returned is the result of the last application
	nSinks := 0
	for _, b := range g.Blocks {
		for _, n := range b.Nodes {
			nSinks += len(sinkExprs(n))
		}
	}
	key = name + "/result-is-last-application"
	if nSinks == 0 {
		c.Undecided("C19-G3", key, fd.Pos(), name+" neither returns nor stores a row: where the updated row goes cannot be followed")
	} else {
		var badExpr ast.Expr
		p := dmlSearch(g, EntryPoint(g), 0, func(n ast.Node, st int) (int, dmlVerdict) {
			if st&applied != 0 {
				for _, e := range sinkExprs(n) {
					if !freshMention(e, st) {
						badExpr = e
						return st, dmlHit
					}
				}
			}
			return step(n, st), dmlGo
		}, nil, nil)
		if p != nil {
			c.Bad("C19-G3", key, badExpr.Pos(), fmt.Sprintf("%s: `%s` is stored/returned, but on this path it was taken from `%s` before the last application of update expressions (or does not derive from it at all): the effect of that application – e.g. the recomputed generated columns – is lost", name, types.ExprString(badExpr), X.Name()), c.P.DescribePath(p)...)
		} else {
			c.Ok("C19-G3", key, fd.Pos(), fmt.Sprintf("every stored/returned row derives from `%s` as left by the last application (%d sinks)", X.Name(), nSinks))
		}
	}

	// ---- G4: the derived half is reached whenever there are derived expressions and the row changed
	type eqSite struct {
		as   *ast.AssignStmt
		call *ast.CallExpr
		same types.Object
	}
	var eqs []eqSite
	for _, n := range ReachableNodes(g, startE, isNode(D), nil) {
		as, ok := n.(*ast.AssignStmt)
		if !ok || len(as.Rhs) != 1 {
			continue
		}
		call, ok := ast.Unparen(as.Rhs[0]).(*ast.CallExpr)
		if !ok {
			continue
		}
		if fn := Callee(info, call); fn == nil || fn.Origin() != a.rowEqualsF || len(call.Args) < 2 {
			continue
		}
		eqs = append(eqs, eqSite{as, call, c19gObjOf(info, as.Lhs[0])})
	}
	sameVar := map[types.Object]bool{}
	for _, e := range eqs {
		if e.same != nil {
			sameVar[e.same] = true
		}
	}
	atom := func(x ast.Expr) (int, bool) {
		switch y := x.(type) {
		case *ast.Ident:
			if sameVar[info.Uses[y]] {
				return c19gF, true // the row changed
			}
		case *ast.CallExpr:
			if fn := Callee(info, y); fn != nil && a.hasDerived[fn.Origin()] {
				return c19gT, true // there are derived expressions
			}
		}
		return c19gU, false
	}
	key = name + "/derived-applied-when-changed"
	var skippedAt ast.Node
	var skipPath []ast.Node
	skipped := false
	w := &c19gWalker{info: info, budget: 200000, tagless: tagless}
	w.atom = func(_ *c19gPath, x ast.Expr) (int, bool) { return atom(x) }
	w.halt = func(p *c19gPath, n ast.Node) bool {
		if n == D.node {
			return true
		}
		if len(sinkExprs(n)) > 0 {
			if !skipped {
				skipped, skippedAt, skipPath = true, n, append([]ast.Node(nil), p.trail...)
			}
			return true
		}
		return false
	}
	w.end = func(p *c19gPath, how string, r *ast.ReturnStmt) {
		if how == "end" && !skipped {
			skipped, skipPath = true, append([]ast.Node(nil), p.trail...)
		}
	}
	w.walkFrom(startE.B, startE.I+1, c19gNewPath())
	if w.exceeded {
		c.Undecided("C19-G4", key, D.node.Pos(), "path budget exceeded")
	} else if skipped {
		where := "the end of the function"
		if skippedAt != nil {
			where = "`" + shortNode(c.P.Fset, skippedAt) + "`"
		}
		c.Bad("C19-G4", key, D.node.Pos(), fmt.Sprintf("%s: with derived expressions present and a row changed by the user's assignments, %s is reached without the derived expressions having been applied: generated columns keep the value computed from the old row", name, where), c.P.DescribePath(skipPath)...)
	} else {
		c.Ok("C19-G4", key, D.node.Pos(), "on every non-error path after the explicit half with (has derived ∧ row changed) the derived half is applied")
	}

	// ---- G4: operands of the change test
	key = name + "/change-test-operands"
	if len(eqs) == 0 {
		c.Ok("C19-G4", key, D.node.Pos(), "no change test between the two applications: the derived half does not depend on one")
		return
	}
	pre := map[types.Object]bool{}
	if E.form == "call" {
		in := ast.Unparen(E.inExpr)
		if call, ok := in.(*ast.CallExpr); ok && IsBuiltinCall(info, call, "append") && len(call.Args) > 0 {
			in = ast.Unparen(call.Args[0])
		}
		if o := c19gObjOf(info, in); o != nil && !c19gReassignedSlice(info, fd, o, false) {
			pre[o] = true
		}
	} else {
		ast.Inspect(fd.Body, func(n ast.Node) bool {
			as, ok := n.(*ast.AssignStmt)
			if !ok || len(as.Lhs) != len(as.Rhs) || as.Pos() >= E.rs.Pos() {
				return true
			}
			for i, l := range as.Lhs {
				lo := c19gObjOf(info, l)
				if lo != nil && lo != X && c19gObjOf(info, as.Rhs[i]) == X && !c19gReassignedSlice(info, fd, lo, true) {
					pre[lo] = true
				}
			}
			return true
		})
	}
	var names []string
	for o := range pre {
		names = append(names, o.Name())
	}
	sort.Strings(names)
	for _, e := range eqs {
		e := e
		sel, _ := ast.Unparen(e.call.Fun).(*ast.SelectorExpr)
		if sel == nil {
			c.Undecided("C19-G4", key, e.call.Pos(), "change test is not a method call")
			return
		}
		opA, opB := sel.X, e.call.Args[1]
		why := ""
		p := dmlSearch(g, EntryPoint(g), 0, func(n ast.Node, st int) (int, dmlVerdict) {
			if n == ast.Node(e.as) {
				cls := func(x ast.Expr) string {
					if o := c19gObjOf(info, x); o != nil && pre[o] {
						return "pre"
					}
					if st&applied != 0 && freshMention(x, st) {
						return "post"
					}
					return "other"
				}
				ca, cb := cls(opA), cls(opB)
				if !((ca == "pre" && cb == "post") || (ca == "post" && cb == "pre")) {
					describe := map[string]string{"pre": "the row before the user's assignments", "post": "the row after the user's assignments", "other": "neither the row before nor the row after the user's assignments"}
					why = fmt.Sprintf("`%s` is %s and `%s` is %s", types.ExprString(opA), describe[ca], types.ExprString(opB), describe[cb])
					return st, dmlHit
				}
				return st, dmlStop
			}
			return step(n, st), dmlGo
		}, nil, nil)
		if p != nil {
			c.Bad("C19-G4", key, e.call.Pos(), fmt.Sprintf("%s: the change test that decides whether the derived expressions are applied must compare the row before the user's assignments (%v) with the row after them (`%s` or a value taken from it afterwards), but %s: a changed row can be judged unchanged and its generated columns are then not recomputed", name, names, X.Name(), why), c.P.DescribePath(p)...)
			return
		}
	}
	c.Ok("C19-G4", key, eqs[0].call.Pos(), fmt.Sprintf("compares the row before the user's assignments (%v) with the row after them (`%s`)", names, X.Name()))
}

// reportRepair records the "repair derives from the accumulator" verdict of a loop that has repair arms.
func (a *c19g) reportRepair(loopKey, fname string, lp *c19gLoop) {
	if lp.acc == nil || lp.repairs == 0 {
		return
	}
	key := loopKey + "/repair-from-accumulator"
	if lp.repairWhy != "" {
		a.c.Bad("C19-G3", key, lp.repairPos.Pos(), fname+": "+lp.repairWhy)
		return
	}
	a.c.Ok("C19-G3", key, lp.evalAs.Pos(), fmt.Sprintf("the value that replaces a failed evaluation is computed from `%s` (%d repair arm(s))", lp.acc.Name(), lp.repairs))
}

func c19gExprOrVar(ap *c19gApp) string {
	if ap.inExpr != nil {
		return types.ExprString(ap.inExpr)
	}
	if ap.in != nil {
		return ap.in.Name()
	}
	return "?"
}
