package main

import (
	"fmt"
	"go/ast"
	"go/types"
	"sort"
	"strings"

	"golang.org/x/tools/go/packages"
	"golang.org/x/tools/go/ssa"
)

// C39-D*: deep-copy / no-aliasing discipline of the privilege-set merge and copy family.
//
// The privilege model needs stored grants to change only through GRANT/REVOKE. The active set of an
// account is computed as "copy the user's set, then union every role's set into the copy"
// (MySQLDb.UserActivePrivilegeSet); the grant-table editors work on UserCopy(user). Both rest on:
//
//	D1  a merge function (receiver = destination, argument = source) never makes a map that is reachable from
//	    one operand reachable from the maps of the other: whatever it hangs into the destination was allocated by
//	    the family itself (make / composite literal), never loaded from the source;
//	D2  a copy function returns a value that shares no map with its operand;
//	D3  the destination of PrivilegeSet.UnionWith is always a set built by the calling function itself
//	    (NewPrivilegeSet / Copy), never a stored one.
//
// Decided with the map-aliasing engine (eng_mapalias.go) over go/ssa.

type c39CopyCfg struct {
	rel       string
	merges    []string // "Type.method": receiver is the destination, first argument the source
	copies    []string // functions whose results must not share a map with an operand
	unionInto string   // the exported merge whose destination must be fresh at every call site
	floors    [3]int
}

func runC39Copy(c *Ctx, cf c39CopyCfg) {
	c.Rule("C39-D1", "merge functions of the privilege-set family (UnionWith and the unionWith of every level) never make a map reachable from one operand reachable from the other operand's maps: everything stored into the destination is allocated by the family (no sharing of stored grants)", cf.floors[0])
	c.Rule("C39-D2", "copy functions (PrivilegeSet.Copy, UserCopy) return a value that shares no map with their operand: every map field of every level is a fresh allocation", cf.floors[1])
	c.Rule("C39-D3", "the destination of every PrivilegeSet.UnionWith call is a set created by the calling function (NewPrivilegeSet / Copy), never a parameter-, field- or call-derived (stored) set", cf.floors[2])
	pk := c.P.Pkg(cf.rel)
	if pk == nil {
		c.Undecided("C39-D1", "package", 0, "package "+cf.rel+" not loaded")
		return
	}
	c.P.SSA()
	lookup := func(rule, name string) *ssa.Function {
		fn := LookupFunc(pk, name)
		sf := c.P.SSAFunc(fn)
		if fn == nil || sf == nil || len(sf.Blocks) == 0 {
			c.Undecided(rule, name, 0, "function not found or without SSA body")
			return nil
		}
		return sf
	}
	var entries []*ssa.Function
	merges := map[*ssa.Function]string{}
	copies := map[*ssa.Function]string{}
	for _, n := range cf.merges {
		if sf := lookup("C39-D1", n); sf != nil {
			entries = append(entries, sf)
			merges[sf] = n
		}
	}
	for _, n := range cf.copies {
		if sf := lookup("C39-D2", n); sf != nil {
			entries = append(entries, sf)
			copies[sf] = n
		}
	}
	target := lookup("C39-D3", cf.unionInto)
	if len(entries) == 0 {
		return
	}
	eng := maNewEngine(c.P, entries)

	// D3 call sites: every module function that calls the exported merge
	type site struct {
		fn   *ssa.Function
		call ssa.CallInstruction
		name string
	}
	var sites []site
	var extras []*ssa.Function
	if target != nil {
		tobj := target.Object()
		for _, mp := range c.P.Module {
			for _, file := range mp.Syntax {
				for _, d := range file.Decls {
					fd, ok := d.(*ast.FuncDecl)
					if !ok || fd.Body == nil {
						continue
					}
					if !c39CallsObj(mp, fd, tobj) {
						continue
					}
					fobj, _ := mp.TypesInfo.Defs[fd.Name].(*types.Func)
					sf := c.P.SSAFunc(fobj)
					if sf == nil {
						c.Undecided("C39-D3", DeclName(fd), fd.Pos(), "calls "+cf.unionInto+" but has no SSA body")
						continue
					}
					fns := []*ssa.Function{sf}
					fns = append(fns, sf.AnonFuncs...)
					for _, f := range fns {
						for _, b := range f.Blocks {
							for _, in := range b.Instrs {
								if ci, ok := in.(ssa.CallInstruction); ok && ci.Common().StaticCallee() == target {
									sites = append(sites, site{f, ci, c39RelPkg(mp) + "." + DeclName(fd)})
									extras = append(extras, f)
								}
							}
						}
					}
				}
			}
		}
	}
	eng.Solve(extras...)

	// every family function must be readable
	var fam []string
	for _, f := range eng.order {
		fam = append(fam, maFnName(f))
		sum := eng.Summary(f)
		for i, u := range sum.und {
			c.Undecided("C39-D1", maFnName(f)+"/unread", sum.undPos[i], "family function "+maFnName(f)+" contains a construct the map-aliasing engine does not read: "+u)
		}
	}
	sort.Strings(fam)
	c.Notef("C39-D family (%d functions reachable from the merge/copy entry points): %s", len(fam), strings.Join(fam, ", "))

	rootName := func(f *ssa.Function, r maSrc) string { return eng.state(f).rootName(r) }
	effKey := func(f *ssa.Function, k maEffect, w *maWitness) string {
		l := w.leaf()
		if l.fn == f {
			return fmt.Sprintf("%s/%s<-%s", maFnName(f), l.cont, rootName(f, k.src))
		}
		return fmt.Sprintf("%s/%s<-%s via %s:%s", maFnName(f), rootName(f, k.dst), rootName(f, k.src), maFnName(l.fn), l.cont)
	}
	sortedEff := func(sum *maSummary) []maEffect {
		var ks []maEffect
		for k := range sum.eff {
			ks = append(ks, k)
		}
		sort.Slice(ks, func(i, j int) bool {
			if ks[i].dst != ks[j].dst {
				return ks[i].dst > ks[j].dst
			}
			return ks[i].src > ks[j].src
		})
		return ks
	}
	reportEffects := func(rule string, f *ssa.Function, name string) bool {
		sum := eng.Summary(f)
		clean := true
		for _, k := range sortedEff(sum) {
			w := sum.eff[k]
			if w.via != nil {
				if _, contracted := merges[w.via.fn]; contracted {
					c.Note(rule, name+"/inherited", w.pos, fmt.Sprintf("%s inherits the sharing %s<-%s from its call of %s, where it is reported", name, rootName(f, k.dst), rootName(f, k.src), merges[w.via.fn]))
					continue
				}
			}
			clean = false
			c.Bad(rule, effKey(f, k, w), w.leaf().pos, fmt.Sprintf("%s: after the call a map reachable from %s is also reachable from %s — the two privilege sets share a mutable map, so a later GRANT/REVOKE or role merge on one silently changes the other (stored grants change without a GRANT; privileges survive REVOKE)", name, rootName(f, k.src), rootName(f, k.dst)), eng.WitnessPath(w)...)
		}
		return clean
	}

	// ---- D1
	var ms []*ssa.Function
	for f := range merges {
		ms = append(ms, f)
	}
	sort.Slice(ms, func(i, j int) bool { return merges[ms[i]] < merges[ms[j]] })
	for _, f := range ms {
		name := merges[f]
		nc := 0
		for _, p := range f.Params {
			if eng.carries(p.Type()) {
				nc++
			}
		}
		if nc < 2 {
			c.Undecided("C39-D1", name, f.Pos(), "a merge function is expected to have a destination and a source operand that hold maps")
			continue
		}
		if reportEffects("C39-D1", f, name) {
			c.Ok("C39-D1", name, f.Pos(), "no cross-operand sharing: "+eng.Describe(f))
		}
	}

	// ---- D2
	var cs []*ssa.Function
	for f := range copies {
		cs = append(cs, f)
	}
	sort.Slice(cs, func(i, j int) bool { return copies[cs[i]] < copies[cs[j]] })
	for _, f := range cs {
		name := copies[f]
		sum := eng.Summary(f)
		clean := reportEffects("C39-D2", f, name)
		var is []int
		for i := range sum.ret {
			is = append(is, i)
		}
		sort.Ints(is)
		for _, i := range is {
			w := sum.ret[i]
			clean = false
			c.Bad("C39-D2", name+"/result shares "+rootName(f, maParam(i)), w.pos, fmt.Sprintf("%s returns a value that still shares a map with its operand %s: the copy is not deep, so changing the copy (role merge, grant-table edit) changes the original stored privilege set", name, rootName(f, maParam(i))), eng.WitnessPath(w)...)
		}
		if sum.retExt != nil {
			clean = false
			c.Bad("C39-D2", name+"/result shares memory", sum.retExt.pos, name+" returns a value that shares a map with memory the family did not allocate (global or result of an unanalysed call)", eng.WitnessPath(sum.retExt)...)
		}
		if clean {
			c.Ok("C39-D2", name, f.Pos(), "the result shares no map with an operand: "+eng.Describe(f))
		}
	}

	// ---- D3
	sort.Slice(sites, func(i, j int) bool { return sites[i].name < sites[j].name })
	for _, st := range sites {
		roots, _ := eng.ArgOwn(st.fn, st.call, 0)
		key := st.name + "/" + target.Name()
		if len(roots) == 0 {
			c.Ok("C39-D3", key, st.call.Pos(), "the destination is a set allocated in this function (NewPrivilegeSet / Copy result)")
		} else {
			c.Bad("C39-D3", key, st.call.Pos(), fmt.Sprintf("%s merges into a set that is not its own fresh allocation (it may share maps with: %s): the union writes the other set's privileges into stored grants", st.name, strings.Join(roots, ", ")))
		}
	}
}

func c39RelPkg(pk *packages.Package) string {
	return strings.TrimPrefix(strings.TrimPrefix(strings.TrimPrefix(pk.PkgPath, modPath), "/"), "vchk/")
}

func c39CallsObj(pk *packages.Package, fd *ast.FuncDecl, target types.Object) bool {
	found := false
	ast.Inspect(fd.Body, func(n ast.Node) bool {
		if call, ok := n.(*ast.CallExpr); ok && !found {
			if fn := Callee(pk.TypesInfo, call); fn != nil && fn.Origin() == target {
				found = true
			}
		}
		return !found
	})
	return found
}
