package main

import (
	"fmt"
	"go/ast"
	"go/types"

	"golang.org/x/tools/go/packages"
)

// C12-K1 (the prepared cache is keyed by the exact text): a session keeps parsed statements in a
// map from string to the parser's Statement. The same map serves named statements (PREPARE s
// FROM ...) and statements prepared by their full text (the bindings API and COM_STMT_PREPARE key
// by the query string). Two different texts must therefore never share a slot: every store,
// lookup and delete on such a map uses, as the key, a string parameter of the enclosing function
// unchanged (directly or through a local that is assigned once from it) - no call, no
// concatenation, no conversion in between. A folded key (lower-casing, trimming) makes a
// parameterised statement run the syntax tree cached for another text.
//
// The maps are found by type: struct fields of the given package whose type is
// map[string]<Statement interface of the parser package>.

func runC12Key(c *Ctx, rel string, isParserPkg func(*types.Package) bool, stmtIface string, rels []string, floor int) {
	const rule = "C12-K1"
	c.Rule(rule, "every store, lookup and delete on a session's map from string to parsed statement uses a string parameter of the enclosing function unchanged as the key", floor)
	pk := c.P.Pkg(rel)
	if pk == nil {
		c.Undecided(rule, rel, 0, "package not loaded")
		return
	}
	isCacheMap := func(t types.Type) bool {
		m, ok := types.Unalias(t).Underlying().(*types.Map)
		if !ok {
			return false
		}
		if b, ok := m.Key().Underlying().(*types.Basic); !ok || b.Kind() != types.String {
			return false
		}
		n, ok := types.Unalias(m.Elem()).(*types.Named)
		return ok && n.Obj().Name() == stmtIface && isParserPkg(n.Obj().Pkg())
	}
	fields := map[*types.Var]bool{}
	for _, name := range pk.Types.Scope().Names() {
		tn, ok := pk.Types.Scope().Lookup(name).(*types.TypeName)
		if !ok {
			continue
		}
		st, ok := tn.Type().Underlying().(*types.Struct)
		if !ok {
			continue
		}
		for i := 0; i < st.NumFields(); i++ {
			if isCacheMap(st.Field(i).Type()) {
				fields[st.Field(i)] = true
			}
		}
	}
	if len(fields) == 0 {
		c.Undecided(rule, rel, 0, "no struct field of type map[string]"+stmtIface+" found")
		return
	}
	c.P.EachFuncDecl(rels, func(p *packages.Package, fd *ast.FuncDecl) {
		if fd.Body == nil {
			return
		}
		info := p.TypesInfo
		params := map[types.Object]bool{}
		for _, f := range fd.Type.Params.List {
			for _, n := range f.Names {
				if o := info.Defs[n]; o != nil {
					params[o] = true
				}
			}
		}
		// single-assignment locals
		assigns := map[types.Object][]ast.Expr{}
		ast.Inspect(fd.Body, func(n ast.Node) bool {
			if as, ok := n.(*ast.AssignStmt); ok && len(as.Lhs) == len(as.Rhs) {
				for i, l := range as.Lhs {
					if id := identOf(l); id != nil {
						o := info.Defs[id]
						if o == nil {
							o = info.Uses[id]
						}
						if o != nil {
							assigns[o] = append(assigns[o], as.Rhs[i])
						}
					}
				}
			}
			return true
		})
		var isParam func(e ast.Expr, depth int) bool
		isParam = func(e ast.Expr, depth int) bool {
			id := identOf(e)
			if id == nil || depth > 4 {
				return false
			}
			o := info.Uses[id]
			if params[o] {
				return true
			}
			if rhs := assigns[o]; len(rhs) == 1 {
				return isParam(rhs[0], depth+1)
			}
			return false
		}
		isCacheField := func(e ast.Expr) *types.Var {
			sel, ok := ast.Unparen(e).(*ast.SelectorExpr)
			if !ok {
				return nil
			}
			if s := info.Selections[sel]; s != nil {
				if v, ok := s.Obj().(*types.Var); ok && fields[v] {
					return v
				}
			}
			return nil
		}
		n := 0
		check := func(what string, fld *types.Var, key ast.Expr) {
			n++
			k := fmt.Sprintf("%s.%s/%s %s[%s]", pkRel(p), DeclName(fd), what, fld.Name(), types.ExprString(key))
			if isParam(key, 0) {
				c.Ok(rule, k, key.Pos(), "keyed by the parameter unchanged")
			} else {
				c.Bad(rule, k, key.Pos(), fmt.Sprintf("%s: the prepared-statement cache %s is keyed by `%s`, which is not a string parameter handed through unchanged: two different statement texts can map to one slot, and a statement executed with bindings then runs the syntax tree cached for another text", DeclName(fd), fld.Name(), types.ExprString(key)))
			}
		}
		ast.Inspect(fd.Body, func(m ast.Node) bool {
			switch x := m.(type) {
			case *ast.IndexExpr:
				if f := isCacheField(x.X); f != nil {
					check("index", f, x.Index)
				}
			case *ast.CallExpr:
				if id, ok := ast.Unparen(x.Fun).(*ast.Ident); ok && id.Name == "delete" && len(x.Args) == 2 {
					if _, isBuiltin := info.Uses[id].(*types.Builtin); isBuiltin {
						if f := isCacheField(x.Args[0]); f != nil {
							check("delete", f, x.Args[1])
						}
					}
				}
			}
			return true
		})
	})
}
