package main

import (
	"fmt"
	"go/ast"
	"go/types"

	"golang.org/x/tools/go/packages"
)

// C12-K1 (the prepared cache is keyed by the exact text): a session keeps parsed statements in a
// map from string to the parser's Statement. The same map serves named statements (PREPARE s
// FROM ...) and statements prepared by their full text (the bindings API and COM_STMT_PREPARE key
// by the query string). Two different texts must therefore never share a slot: every store,
// lookup and delete on such a map uses, as the key, a string parameter of the enclosing function
// unchanged (directly or through a local that is assigned once from it) - no call, no
// concatenation, no conversion in between. A folded key (lower-casing, trimming) makes a
// parameterised statement run the syntax tree cached for another text.
//
// The maps are found by type: struct fields of the given package whose type is
// map[string]<Statement interface of the parser package>.

func runC12Key(c *Ctx, rel string, isParserPkg func(*types.Package) bool, stmtIface string, rels []string, floor int) {
	const rule = "C12-K1"
	c.Rule(rule, "every store, lookup and delete on a session's map from string to parsed statement uses a string parameter of the enclosing function unchanged as the key", floor)
	pk := c.P.Pkg(rel)
	if pk == nil {
		c.Undecided(rule, rel, 0, "package not loaded")
		return
	}
	isCacheMap := func(t types.Type) bool {
		m, ok := types.Unalias(t).Underlying().(*types.Map)
		if !ok {
			return false
		}
		if b, ok := m.Key().Underlying().(*types.Basic); !ok || b.Kind() != types.String {
			return false
		}
		n, ok := types.Unalias(m.Elem()).(*types.Named)
		return ok && n.Obj().Name() == stmtIface && isParserPkg(n.Obj().Pkg())
	}
	fields := map[*types.Var]bool{}
	for _, name := range pk.Types.Scope().Names() {
		tn, ok := pk.Types.Scope().Lookup(name).(*types.TypeName)
		if !ok {
			continue
		}
		st, ok := tn.Type().Underlying().(*types.Struct)
		if !ok {
			continue
		}
		for i := 0; i < st.NumFields(); i++ {
			if isCacheMap(st.Field(i).Type()) {
				fields[st.Field(i)] = true
			}
		}
	}
	if len(fields) == 0 {
		c.Undecided(rule, rel, 0, "no struct field of type map[string]"+stmtIface+" found")
		return
	}
	c.P.EachFuncDecl(rels, func(p *packages.Package, fd *ast.FuncDecl) {
		if fd.Body == nil {
			return
		}
		info := p.TypesInfo
		params := map[types.Object]bool{}
		for _, f := range fd.Type.Params.List {
			for _, n := range f.Names {
				if o := info.Defs[n]; o != nil {
					params[o] = true
				}
			}
		}
		// single-assignment locals
		assigns := map[types.Object][]ast.Expr{}
		ast.Inspect(fd.Body, func(n ast.Node) bool {
			if as, ok := n.(*ast.AssignStmt); ok && len(as.Lhs) == len(as.Rhs) {
				for i, l := range as.Lhs {
					if id := identOf(l); id != nil {
						o := info.Defs[id]
						if o == nil {
							o = info.Uses[id]
						}
						if o != nil {
							assigns[o] = append(assigns[o], as.Rhs[i])
						}
					}
				}
			}
			return true
		})
		var isParam func(e ast.Expr, depth int) bool
		isParam = func(e ast.Expr, depth int) bool {
			id := identOf(e)
			if id == nil || depth > 4 {
				return false
			}
			o := info.Uses[id]
			if params[o] {
				return true
			}
			if rhs := assigns[o]; len(rhs) == 1 {
				return isParam(rhs[0], depth+1)
			}
			return false
		}
		isCacheField := func(e ast.Expr) *types.Var {
			sel, ok := ast.Unparen(e).(*ast.SelectorExpr)
			if !ok {
				return nil
			}
			if s := info.Selections[sel]; s != nil {
				if v, ok := s.Obj().(*types.Var); ok && fields[v] {
					return v
				}
			}
			return nil
		}
		n := 0
		check := func(what string, fld *types.Var, key ast.Expr) {
			n++
			k := fmt.Sprintf("%s.%s/%s %s[%s]", pkRel(p), DeclName(fd), what, fld.Name(), types.ExprString(key))
			if isParam(key, 0) {
				c.Ok(rule, k, key.Pos(), "keyed by the parameter unchanged")
			} else {
				c.Bad(rule, k, key.Pos(), fmt.Sprintf("%s: the prepared-statement cache %s is keyed by `%s`, which is not a string parameter handed through unchanged: two different statement texts can map to one slot, and a statement executed with bindings then runs the syntax tree cached for another text", DeclName(fd), fld.Name(), types.ExprString(key)))
			}
		}
		ast.Inspect(fd.Body, func(m ast.Node) bool {
			switch x := m.(type) {
			case *ast.IndexExpr:
				if f := isCacheField(x.X); f != nil {
					check("index", f, x.Index)
				}
			case *ast.CallExpr:
				if id, ok := ast.Unparen(x.Fun).(*ast.Ident); ok && id.Name == "delete" && len(x.Args) == 2 {
					if _, isBuiltin := info.Uses[id].(*types.Builtin); isBuiltin {
						if f := isCacheField(x.Args[0]); f != nil {
							check("delete", f, x.Args[1])
						}
					}
				}
			}
			return true
		})
	})
}

// C12-K2 (what is cached was parsed as the session would parse it): the statement handed to the
// session's prepared cache is produced by a parser entry point that takes the session's SQL mode
// into account - a method with a ParserOptions parameter whose argument is `<SqlMode>.ParserOptions()`,
// or the context-taking Parse (which loads the mode itself) - never by an option-less entry point:
// with ANSI_QUOTES or PIPES_AS_CONCAT the same text parses to a different tree, so EXECUTE would
// run something else than the inlined text. A statement received as a parameter is the caller's
// obligation (reported as info).
func runC12CacheParse(c *Ctx, rels []string, sqlRel string, floor int) {
	const rule = "C12-K2"
	c.Rule(rule, "every statement stored in the session's prepared cache comes from a parser entry point that applies the session's SQL mode (ParserOptions argument taken from SqlMode.ParserOptions(), or the context-taking Parse), never from an option-less parse", floor)
	sqlPk := c.P.Pkg(sqlRel)
	if sqlPk == nil {
		c.Undecided(rule, sqlRel, 0, "package not loaded")
		return
	}
	isStore := func(fn *types.Func) bool {
		if fn == nil || fn.Name() != "PrepareQuery" || fn.Pkg() != sqlPk.Types {
			return false
		}
		sig := fn.Type().(*types.Signature)
		return sig.Recv() != nil && sig.Params().Len() == 2
	}
	n := 0
	c.P.EachFuncDecl(rels, func(p *packages.Package, fd *ast.FuncDecl) {
		if fd.Body == nil {
			return
		}
		info := p.TypesInfo
		params := map[types.Object]bool{}
		for _, f := range fd.Type.Params.List {
			for _, nm := range f.Names {
				if o := info.Defs[nm]; o != nil {
					params[o] = true
				}
			}
		}
		assigns := map[types.Object][]ast.Expr{}
		ast.Inspect(fd.Body, func(m ast.Node) bool {
			as, ok := m.(*ast.AssignStmt)
			if !ok {
				return true
			}
			for i, l := range as.Lhs {
				id := identOf(l)
				if id == nil {
					continue
				}
				o := info.Defs[id]
				if o == nil {
					o = info.Uses[id]
				}
				if o == nil {
					continue
				}
				if len(as.Rhs) == len(as.Lhs) {
					assigns[o] = append(assigns[o], as.Rhs[i])
				} else if len(as.Rhs) == 1 {
					assigns[o] = append(assigns[o], as.Rhs[0])
				}
			}
			return true
		})
		modeAware := func(e ast.Expr) (bool, string) {
			call, ok := ast.Unparen(e).(*ast.CallExpr)
			if !ok {
				return false, "not a call: " + types.ExprString(e)
			}
			fn := Callee(info, call)
			if fn == nil {
				return false, "unresolved call " + types.ExprString(call.Fun)
			}
			sig := fn.Type().(*types.Signature)
			for i := 0; i < sig.Params().Len() && i < len(call.Args); i++ {
				if nt, ok := types.Unalias(sig.Params().At(i).Type()).(*types.Named); ok && nt.Obj().Name() == "ParserOptions" {
					// the options must come from the SQL mode
					arg := ast.Unparen(call.Args[i])
					if id := identOf(arg); id != nil {
						if rhs := assigns[info.Uses[id]]; len(rhs) == 1 {
							arg = ast.Unparen(rhs[0])
						}
					}
					if oc, ok := arg.(*ast.CallExpr); ok {
						if of := Callee(info, oc); of != nil && of.Name() == "ParserOptions" && of.Pkg() == sqlPk.Types {
							return true, ""
						}
					}
					return false, fn.Name() + " is given options that do not come from SqlMode.ParserOptions()"
				}
			}
			if fn.Name() == "Parse" && sig.Params().Len() >= 2 {
				if pt, ok := sig.Params().At(0).Type().(*types.Pointer); ok {
					if nt, ok := pt.Elem().(*types.Named); ok && nt.Obj().Name() == "Context" && nt.Obj().Pkg() == sqlPk.Types {
						return true, ""
					}
				}
			}
			return false, fn.Name() + " takes no parser options: the session's SQL mode (ANSI_QUOTES, PIPES_AS_CONCAT) is not applied"
		}
		ast.Inspect(fd.Body, func(m ast.Node) bool {
			call, ok := m.(*ast.CallExpr)
			if !ok || !isStore(Callee(info, call)) {
				return true
			}
			n++
			key := fmt.Sprintf("%s.%s/cached %s", pkRel(p), DeclName(fd), types.ExprString(call.Args[1]))
			id := identOf(call.Args[1])
			if id == nil {
				c.Undecided(rule, key, call.Pos(), "the cached statement is not a variable")
				return true
			}
			o := info.Uses[id]
			if params[o] {
				c.Ok(rule, key, call.Pos(), "statement received as a parameter: parsed by the caller, handed through")
				return true
			}
			bad := ""
			for _, r := range assigns[o] {
				if ok, why := modeAware(r); !ok {
					bad = why
				}
			}
			if len(assigns[o]) == 0 {
				bad = "no assignment found"
			}
			if bad != "" {
				c.Bad(rule, key, call.Pos(), fmt.Sprintf("%s stores %s in the prepared cache, but %s: EXECUTE then runs a tree the inlined text would not parse to under the session's SQL mode", DeclName(fd), id.Name, bad))
			} else {
				c.Ok(rule, key, call.Pos(), "parsed with the session's SQL mode")
			}
			return true
		})
	})
	if n == 0 {
		c.Undecided(rule, "PrepareQuery", 0, "no store into the prepared cache found")
	}
}
