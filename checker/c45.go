package main

import (
	"fmt"
	"go/ast"
	"go/constant"
	"go/token"
	"go/types"
	"sort"
	"strings"

	"golang.org/x/tools/go/cfg"
	"golang.org/x/tools/go/packages"
	"golang.org/x/tools/go/ssa"
)

func init() {
	register(&Property{
		ID:        "C45",
		Patterns:  []string{"./sql/sqlredact"},
		Thorough:  []string{"./sql/sqlredact"},
		Technique: "interprocedural taint over go/ssa (sources: lexer token text, exported text parameters; sanitizers: Mapping.Redact*; sinks: output-builder writes) + CFG must-pass-through + constant sets read from the lexer's return sites + mode-field/call-closure classification of the lexer package's parse entry points",
		Explanation: "Trace redaction never leaks identifiers or literals — structural clauses over package sqlredact. (T1) every write to a strings.Builder in the package writes untainted bytes " +
			"(constants, the token type, entries of constant tables, results of Mapping.RedactIdent/RedactValue), except the raw token text in exactly two places: the placeholder arm (VALUE_ARG/LIST_ARG) of " +
			"emitToken, and emitStructural, which is called only from emitToken's default arm after the identifier-set lookup on that text missed (or the text is empty). (T2) emitToken has an explicit, " +
			"redacting arm for every token type with which the pinned vitess lexer returns user-derived text (the set is read from the return sites of Tokenizer.Scan and its scan* helpers: named token " +
			"constants returned with a non-constant value outside the keyword-table branch), or the token is dropped/aborted before emitToken (COMMENT, LEX_ERROR). (T3) every return with a non-nil error " +
			"returns the constant UnparseableMarker as the text. (T4) Mapping.RedactIdent/RedactValue return only a map hit, a freshly minted prefix+Itoa(counter) token, or the original under the " +
			"documented nil/empty guard; the maps only ever receive minted tokens; minting happens under the write lock after the re-check; the two namespaces use distinct maps, counters and prefixes. " +
			"(T6) coverage agreement of the two passes: the function that walks the text with Tokenizer.Scan builds its identifier set, once, from the statement returned by exactly one parse call of the lexer package, and that parse covers exactly the walked text: " +
			"either the callee is a whole-input parser — decided from the lexer package's source: Scan returns token 0 before the end of its buffer only under the tokenizer's early-end mode fields (read from Scan's `return 0, …` sites and closed over the fields under whose test such a field is set), " +
			"no function in the callee's static call closure switches such a field on, and its text parameter reaches a tokenizer constructor unchanged — and it receives the same, unmodified text variable as the tokenizer's constructor; " +
			"or it is a prefix parser whose remainder-position result is bound to a variable that bounds the tokenizer's input (text[:rem]) or is compared with len(text) on every path to a nil-error return (otherwise identifiers after the parsed prefix miss the set and trailing unparseable text does not yield the marker: an unchecked error source in the sense of T3).",
		NotCovered: "keyword-typed tokens that carry customer text in AST fields other than TableIdent/ColIdent (e.g. a savepoint or account name spelled like a non-reserved keyword), bind-variable names " +
			"(pass through by design), preservation of the token structure, behaviour of the vitess parser/lexer themselves (T6 trusts that the generated parser accepts only at token 0 and reads only the tokenizer's mode fields; " +
			"what the branch taken after a remainder comparison does is not evaluated; tokenizer option differences between the parser's and the redactor's tokenizer, e.g. ANSI quotes, are not compared)",
		Run: func(c *Ctx) {
			runC45(c, c45Cfg{rel: "sql/sqlredact", emitToken: "emitToken", structural: "emitStructural", marker: "UnparseableMarker", mapping: "Mapping",
				redactors: []string{"RedactIdent", "RedactValue"}, lexerPkg: "github.com/dolthub/vitess/go/vt/sqlparser", lexerType: "Tokenizer",
				placeholders: []string{"VALUE_ARG", "LIST_ARG"}, floors: [5]int{20, 16, 4, 14}})
		},
		Fixture: func(c *Ctx, fx *Prog) {
			expectFixture(c, fx, "c45: raw text written in a literal arm, structural emit without the identifier lookup, missing arm for a data token, error return leaking the input, Redact returning the original, unlocked mint",
				[]string{
					"C45-T1:emitToken[INTEGRAL]/out.WriteString(string(val))",
					"C45-T1:emitStructural/out.Write(val)",
					"C45-T1:Redact/out.WriteString(sql[:3])",
					"C45-T2:token/HEX",
					"C45-T2:token/INTEGRAL",
					"C45-T3:Redact/return sql",
					"C45-T4:Mapping.RedactValue/return orig#2",
					"C45-T4:Mapping.RedactValue/store under lock",
					"C45-T4:Mapping.RedactValue/fields",
				},
				func(fc *Ctx) {
					runC45(fc, c45Cfg{rel: "testdata/c45/redact", emitToken: "emitToken", structural: "emitStructural", marker: "UnparseableMarker", mapping: "Mapping",
						redactors: []string{"RedactIdent", "RedactValue"}, lexerPkg: "vchk/testdata/c45/lex", lexerType: "Tokenizer", placeholders: []string{"VALUE_ARG"}})
				})
		},
		FixturePkgs: []string{"./testdata/c45/redact", "./testdata/c45/lex"},
	})
}

type c45Cfg struct {
	rel, emitToken, structural, marker, mapping string
	redactors                                   []string
	lexerPkg, lexerType                         string
	placeholders                                []string
	floors                                      [5]int // T1, T2, T3, T4
}

type c45Taint struct {
	c       *Ctx
	cfg     c45Cfg
	pk      *packages.Package
	sp      *ssa.Package
	fns     []*ssa.Function
	memo    map[ssa.Value]int // 0 unknown, 1 clean, 2 tainted, 3 in progress
	why     map[ssa.Value]string
	scan    *types.Func
	sanit   map[*types.Func]bool
	callers map[*ssa.Function][]*ssa.Call
}

func runC45(c *Ctx, cf c45Cfg) {
	c.Rule("C45-T1", "every write to a strings.Builder in the package writes untainted bytes, except raw token text in the placeholder arm of emitToken and in emitStructural (reached only from emitToken's default arm after the identifier-set lookup missed)", cf.floors[0])
	c.Rule("C45-T2", "every token constant the lexer returns with user-derived text has an explicit redacting arm in emitToken, is a placeholder, or is dropped before emitToken", cf.floors[1])
	c.Rule("C45-T3", "every return with a non-nil error returns the constant UnparseableMarker as the text", cf.floors[2])
	c.Rule("C45-T4", "Mapping.Redact*: returns are a map hit, a minted prefix+Itoa(counter) token or the original under the nil/empty guard; maps receive only minted tokens, under the write lock after the re-check; namespaces are disjoint", cf.floors[3])
	if !c.fixtureMode {
		c45KeyNormalForm(c, cf.rel)
	}
	pk := c.P.Pkg(cf.rel)
	if pk == nil {
		c.Undecided("C45-T1", "package", 0, "package "+cf.rel+" not loaded")
		return
	}
	prog := c.P.SSA()
	sp := prog.Package(pk.Types)
	if sp == nil {
		c.Undecided("C45-T1", "ssa", 0, "no SSA package")
		return
	}
	sp.Build()
	t := &c45Taint{c: c, cfg: cf, pk: pk, sp: sp, memo: map[ssa.Value]int{}, why: map[ssa.Value]string{}, sanit: map[*types.Func]bool{}, callers: map[*ssa.Function][]*ssa.Call{}}
	lex := c.P.ByPath[cf.lexerPkg]
	if lex == nil {
		c.Undecided("C45-T1", "lexer", 0, "lexer package "+cf.lexerPkg+" not loaded")
		return
	}
	t.scan = LookupFunc(lex, cf.lexerType+".Scan")
	if t.scan == nil {
		c.Undecided("C45-T1", "lexer", 0, cf.lexerType+".Scan not found")
		return
	}
	for _, r := range cf.redactors {
		if fn := LookupFunc(pk, cf.mapping+"."+r); fn != nil {
			t.sanit[fn] = true
		} else {
			c.Undecided("C45-T4", cf.mapping+"."+r, 0, "redactor not found")
		}
	}
	// all functions of the package, including methods and literals
	var addFn func(f *ssa.Function)
	seen := map[*ssa.Function]bool{}
	addFn = func(f *ssa.Function) {
		if f == nil || seen[f] || len(f.Blocks) == 0 {
			return
		}
		seen[f] = true
		t.fns = append(t.fns, f)
		for _, a := range f.AnonFuncs {
			addFn(a)
		}
	}
	c.P.EachFuncDecl([]string{cf.rel}, func(_ *packages.Package, fd *ast.FuncDecl) {
		if fn, ok := pk.TypesInfo.Defs[fd.Name].(*types.Func); ok {
			addFn(prog.FuncValue(fn))
		}
	})
	for _, f := range t.fns {
		for _, b := range f.Blocks {
			for _, ins := range b.Instrs {
				if call, ok := ins.(*ssa.Call); ok {
					if callee := call.Call.StaticCallee(); callee != nil {
						t.callers[callee] = append(t.callers[callee], call)
					}
				}
			}
		}
	}
	t.ruleT1()
	t.ruleT2(lex)
	t.ruleT3()
	t.ruleT4()
	if !c.fixtureMode {
		t.ruleT6(lex, 3)
	}
}

// ---- taint

func c45NoText(tp types.Type) bool {
	switch u := tp.Underlying().(type) {
	case *types.Basic:
		return u.Info()&(types.IsBoolean|types.IsFloat|types.IsComplex) != 0 || u.Kind() == types.UnsafePointer
	case *types.Struct:
		for i := 0; i < u.NumFields(); i++ {
			if !c45NoText(u.Field(i).Type()) {
				return false
			}
		}
		return true
	}
	return false
}

func (t *c45Taint) tainted(v ssa.Value) bool {
	if v == nil {
		return false
	}
	switch t.memo[v] {
	case 1, 3:
		return false
	case 2:
		return true
	}
	t.memo[v] = 3
	r := t.compute(v)
	if r {
		t.memo[v] = 2
	} else {
		t.memo[v] = 1
	}
	return r
}

func (t *c45Taint) mark(v ssa.Value, why string) bool {
	if _, ok := t.why[v]; !ok {
		t.why[v] = why
	}
	return true
}

func (t *c45Taint) inPkg(f *ssa.Function) bool {
	return f != nil && f.Pkg == t.sp && len(f.Blocks) > 0 || (f != nil && f.Parent() != nil && t.inPkg(f.Parent()))
}

func (t *c45Taint) compute(v ssa.Value) bool {
	if c45NoText(v.Type()) {
		return false
	}
	switch x := v.(type) {
	case *ssa.Const, *ssa.Global, *ssa.Function, *ssa.Builtin, *ssa.MakeMap, *ssa.MakeSlice, *ssa.MakeChan:
		return false
	case *ssa.Alloc:
		// a local variable: tainted if anything tainted is stored into it (or into its elements)
		return t.storedTaint(x)
	case *ssa.Parameter:
		f := x.Parent()
		isText := func(tp types.Type) bool {
			_, isInt := tp.Underlying().(*types.Basic)
			if isInt && tp.Underlying().(*types.Basic).Info()&types.IsString == 0 {
				return false
			}
			return true
		}
		if !isText(x.Type()) {
			return false
		}
		if _, isPtr := x.Type().Underlying().(*types.Pointer); isPtr {
			return false // *Mapping, *strings.Builder: state objects, followed through their fields/stores
		}
		if _, isMap := x.Type().Underlying().(*types.Map); isMap {
			return false // the identifier set: used for lookups only (struct{} values)
		}
		obj, _ := f.Object().(*types.Func)
		if f.Parent() == nil && obj != nil && obj.Exported() && bndBytesOrString(x.Type()) {
			return t.mark(v, "text parameter "+x.Name()+" of exported "+f.Name())
		}
		idx := -1
		for i, p := range f.Params {
			if p == x {
				idx = i
			}
		}
		for _, call := range t.callers[f] {
			args := call.Call.Args
			if idx >= 0 && idx < len(args) && t.tainted(args[idx]) {
				return t.mark(v, "parameter "+x.Name()+" of "+f.Name()+" receives "+t.why[args[idx]])
			}
		}
		return false
	case *ssa.FreeVar:
		// captured variable: find the binding in the parent's MakeClosure
		f := x.Parent()
		idx := -1
		for i, fv := range f.FreeVars {
			if fv == x {
				idx = i
			}
		}
		if p := f.Parent(); p != nil && idx >= 0 {
			for _, b := range p.Blocks {
				for _, ins := range b.Instrs {
					if mc, ok := ins.(*ssa.MakeClosure); ok && mc.Fn == f && idx < len(mc.Bindings) {
						if t.tainted(mc.Bindings[idx]) {
							return t.mark(v, t.why[mc.Bindings[idx]])
						}
					}
				}
			}
		}
		return false
	case *ssa.Phi:
		for _, e := range x.Edges {
			if t.tainted(e) {
				return t.mark(v, t.why[e])
			}
		}
		return false
	case *ssa.Extract:
		if call, ok := x.Tuple.(*ssa.Call); ok {
			return t.callResult(v, call, x.Index)
		}
		return t.pass(v, x.Tuple)
	case *ssa.Call:
		return t.callResult(v, x, 0)
	case *ssa.Convert:
		return t.pass(v, x.X)
	case *ssa.ChangeType:
		return t.pass(v, x.X)
	case *ssa.ChangeInterface:
		return t.pass(v, x.X)
	case *ssa.MakeInterface:
		return t.pass(v, x.X)
	case *ssa.TypeAssert:
		return t.pass(v, x.X)
	case *ssa.Slice:
		return t.pass(v, x.X)
	case *ssa.Field:
		return t.pass(v, x.X)
	case *ssa.Index:
		return t.pass(v, x.X)
	case *ssa.IndexAddr:
		return t.pass(v, x.X)
	case *ssa.FieldAddr:
		// field of a state object: tainted if something tainted is stored to that field anywhere in the package
		return t.fieldTaint(v, x)
	case *ssa.Lookup:
		return t.pass(v, x.X) // map content (values); strings: the string
	case *ssa.UnOp:
		return t.pass(v, x.X)
	case *ssa.BinOp:
		if t.tainted(x.X) {
			return t.mark(v, t.why[x.X])
		}
		return t.pass(v, x.Y)
	case *ssa.Next:
		return t.pass(v, x.Iter)
	case *ssa.Range:
		return t.pass(v, x.X)
	case *ssa.MakeClosure:
		return false
	}
	return t.mark(v, fmt.Sprintf("value of unhandled kind %T", v))
}

func (t *c45Taint) pass(v, from ssa.Value) bool {
	if t.tainted(from) {
		return t.mark(v, t.why[from])
	}
	return false
}

// storedTaint: anything tainted stored through this address (or an element/field address of it).
func (t *c45Taint) storedTaint(addr ssa.Value) bool {
	refs := addr.Referrers()
	if refs == nil {
		return false
	}
	for _, r := range *refs {
		switch x := r.(type) {
		case *ssa.Store:
			if x.Addr == addr && t.tainted(x.Val) {
				return t.mark(addr, t.why[x.Val])
			}
		case *ssa.IndexAddr:
			if x.X == addr && t.storedTaint(x) {
				return t.mark(addr, t.why[x])
			}
		case *ssa.FieldAddr:
			if x.X == addr && t.storedTaint(x) {
				return t.mark(addr, t.why[x])
			}
		case *ssa.MapUpdate:
			if x.Map == addr && t.tainted(x.Value) {
				return t.mark(addr, t.why[x.Value])
			}
		}
	}
	return false
}

// fieldTaint: the content of struct field F (through any pointer): tainted if any store in the
// package to a FieldAddr of the same field, or any MapUpdate on a load of it, stores a tainted value.
func (t *c45Taint) fieldTaint(v ssa.Value, fa *ssa.FieldAddr) bool {
	pt, ok := fa.X.Type().Underlying().(*types.Pointer)
	if !ok {
		return false
	}
	st, ok := pt.Elem().Underlying().(*types.Struct)
	if !ok {
		return false
	}
	fv := st.Field(fa.Field)
	for _, f := range t.fns {
		for _, b := range f.Blocks {
			for _, ins := range b.Instrs {
				switch x := ins.(type) {
				case *ssa.Store:
					if a, ok := x.Addr.(*ssa.FieldAddr); ok && c45SameField(a, fv) && t.tainted(x.Val) {
						return t.mark(v, "field "+fv.Name()+" stores "+t.why[x.Val])
					}
				case *ssa.MapUpdate:
					if ld, ok := x.Map.(*ssa.UnOp); ok {
						if a, ok := ld.X.(*ssa.FieldAddr); ok && c45SameField(a, fv) && t.tainted(x.Value) {
							return t.mark(v, "map field "+fv.Name()+" receives "+t.why[x.Value])
						}
					}
				}
			}
		}
	}
	return false
}

func c45SameField(a *ssa.FieldAddr, fv *types.Var) bool {
	pt, ok := a.X.Type().Underlying().(*types.Pointer)
	if !ok {
		return false
	}
	st, ok := pt.Elem().Underlying().(*types.Struct)
	return ok && a.Field < st.NumFields() && st.Field(a.Field) == fv
}

func (t *c45Taint) callResult(v ssa.Value, call *ssa.Call, idx int) bool {
	if b, ok := call.Call.Value.(*ssa.Builtin); ok {
		switch b.Name() {
		case "len", "cap", "make", "new":
			return false
		}
		for _, a := range call.Call.Args {
			if t.tainted(a) {
				return t.mark(v, t.why[a])
			}
		}
		return false
	}
	callee := call.Call.StaticCallee()
	if callee != nil {
		if obj, ok := callee.Object().(*types.Func); ok {
			if obj.Origin() == t.scan {
				if idx == 1 {
					return t.mark(v, "token text returned by "+t.cfg.lexerType+".Scan")
				}
				return false // the token type is structure, not text
			}
			if t.sanit[obj] {
				return false
			}
			if FullName(obj) == "strconv.Itoa" || FullName(obj) == "strconv.FormatInt" {
				return false
			}
		}
		if t.inPkg(callee) {
			for _, b := range callee.Blocks {
				if ret, ok := b.Instrs[len(b.Instrs)-1].(*ssa.Return); ok && idx < len(ret.Results) && t.tainted(ret.Results[idx]) {
					return t.mark(v, "result of "+callee.Name()+": "+t.why[ret.Results[idx]])
				}
			}
			return false
		}
	}
	// external or dynamic callee: the result is as tainted as its arguments (and receiver)
	for _, a := range call.Call.Args {
		if t.tainted(a) {
			return t.mark(v, t.why[a])
		}
	}
	if call.Call.IsInvoke() && t.tainted(call.Call.Value) {
		return t.mark(v, t.why[call.Call.Value])
	}
	return false
}

// ---- T1

func (t *c45Taint) ruleT1() {
	c, info := t.c, t.pk.TypesInfo
	calls := map[token.Pos]*ssa.Call{}
	for _, f := range t.fns {
		for _, b := range f.Blocks {
			for _, ins := range b.Instrs {
				if call, ok := ins.(*ssa.Call); ok {
					calls[call.Pos()] = call
				}
			}
		}
	}
	emitTok := LookupFunc(t.pk, t.cfg.emitToken)
	structural := LookupFunc(t.pk, t.cfg.structural)
	if emitTok == nil || structural == nil {
		c.Undecided("C45-T1", "anchors", 0, t.cfg.emitToken+" or "+t.cfg.structural+" not found")
		return
	}
	okStructural, whyStructural := t.structuralGuarded(emitTok, structural)
	c.P.EachFuncDecl([]string{t.cfg.rel}, func(_ *packages.Package, fd *ast.FuncDecl) {
		fname := DeclName(fd)
		fnObj, _ := info.Defs[fd.Name].(*types.Func)
		var stack []ast.Node
		ast.Inspect(fd.Body, func(n ast.Node) bool {
			if n == nil {
				stack = stack[:len(stack)-1]
				return true
			}
			stack = append(stack, n)
			call, ok := n.(*ast.CallExpr)
			if !ok {
				return true
			}
			fn := Callee(info, call)
			if fn == nil {
				return true
			}
			argIdx := -1
			switch FullName(fn) {
			case "strings.Builder.Write", "strings.Builder.WriteString", "strings.Builder.WriteByte", "strings.Builder.WriteRune",
				"bytes.Buffer.Write", "bytes.Buffer.WriteString", "bytes.Buffer.WriteByte", "bytes.Buffer.WriteRune":
				argIdx = 0
			case "fmt.Fprintf", "fmt.Fprint", "fmt.Fprintln", "io.WriteString":
				argIdx = 1
			}
			if argIdx < 0 || argIdx >= len(call.Args) {
				return true
			}
			arm := ""
			for i := len(stack) - 1; i >= 0; i-- {
				if cc, ok := stack[i].(*ast.CaseClause); ok {
					arm = "[default]"
					if len(cc.List) > 0 {
						var ls []string
						for _, l := range cc.List {
							e := types.ExprString(l)
							if k := strings.LastIndex(e, "."); k >= 0 {
								e = e[k+1:]
							}
							ls = append(ls, e)
						}
						arm = "[" + strings.Join(ls, ",") + "]"
					}
					break
				}
			}
			key := fname + arm + "/" + types.ExprString(call.Fun) + "(" + types.ExprString(call.Args[argIdx]) + ")"
			sc := calls[call.Lparen]
			if sc == nil {
				c.Undecided("C45-T1", key, call.Pos(), "sink call not found in SSA")
				return true
			}
			// data arguments: everything from argIdx on (the receiver / writer is not data)
			args := sc.Call.Args
			off := len(args) - len(call.Args) // receiver is Args[0] for static method calls
			tainted, why := false, ""
			for i := argIdx; i < len(call.Args); i++ {
				if a := args[off+i]; t.tainted(a) {
					tainted, why = true, t.why[a]
				}
			}
			if !tainted {
				c.Ok("C45-T1", key, call.Pos(), "untainted")
				return true
			}
			// allowed (A): placeholder arm of emitToken
			if fnObj == emitTok {
				for i := len(stack) - 1; i >= 0; i-- {
					if cc, ok := stack[i].(*ast.CaseClause); ok {
						if len(cc.List) > 0 && t.allPlaceholders(cc.List) {
							c.Ok("C45-T1", key, call.Pos(), "raw bind-placeholder text (by design) in the arm "+c45Labels(cc.List))
							return true
						}
						break
					}
				}
			}
			// allowed (B): emitStructural, guarded at its call sites
			if fnObj == structural {
				if okStructural {
					c.Ok("C45-T1", key, call.Pos(), "raw structural text; "+whyStructural)
				} else {
					c.Bad("C45-T1", key, call.Pos(), fname+" writes raw token text and "+whyStructural)
				}
				return true
			}
			c.Bad("C45-T1", key, call.Pos(), fmt.Sprintf("%s writes unredacted input text to the output: %s (tainted by: %s)", fname, types.ExprString(call.Args[argIdx]), why))
			return true
		})
	})
}

func c45Labels(list []ast.Expr) string {
	var s []string
	for _, l := range list {
		s = append(s, types.ExprString(l))
	}
	return strings.Join(s, ",")
}

func (t *c45Taint) allPlaceholders(list []ast.Expr) bool {
	for _, l := range list {
		name := ""
		switch x := ast.Unparen(l).(type) {
		case *ast.SelectorExpr:
			name = x.Sel.Name
		case *ast.Ident:
			name = x.Name
		}
		if !contains(t.cfg.placeholders, name) {
			return false
		}
		if tv, ok := t.pk.TypesInfo.Types[l]; !ok || tv.Value == nil {
			return false
		}
	}
	return true
}

// structuralGuarded: every call of emitStructural in the package is in emitToken's default
// clause (of the switch over the token type), and on every path from the start of that clause
// to the call the identifier-set lookup on the token text was evaluated (or the text is empty).
func (t *c45Taint) structuralGuarded(emitTok, structural *types.Func) (bool, string) {
	info := t.pk.TypesInfo
	ok, why := true, ""
	ncalls := 0
	t.c.P.EachFuncDecl([]string{t.cfg.rel}, func(_ *packages.Package, fd *ast.FuncDecl) {
		fnObj, _ := info.Defs[fd.Name].(*types.Func)
		var stack []ast.Node
		ast.Inspect(fd.Body, func(n ast.Node) bool {
			if n == nil {
				stack = stack[:len(stack)-1]
				return true
			}
			stack = append(stack, n)
			call, isCall := n.(*ast.CallExpr)
			if !isCall || Callee(info, call) != structural {
				return true
			}
			ncalls++
			if fnObj != emitTok {
				ok, why = false, "it is also called from "+DeclName(fd)+", outside emitToken's identifier test"
				return true
			}
			var clause *ast.CaseClause
			for i := len(stack) - 1; i >= 0; i-- {
				if cc, isCC := stack[i].(*ast.CaseClause); isCC {
					clause = cc
					break
				}
			}
			if clause == nil || clause.List != nil || len(clause.Body) == 0 {
				ok, why = false, "it is called outside the default arm of emitToken's token switch"
				return true
			}
			// the map parameter of emitToken (the identifier set)
			var setObj types.Object
			for _, fl := range fd.Type.Params.List {
				for _, nm := range fl.Names {
					if _, isMap := info.Defs[nm].Type().Underlying().(*types.Map); isMap {
						setObj = info.Defs[nm]
					}
				}
			}
			if setObj == nil {
				ok, why = false, "emitToken has no identifier-set parameter"
				return true
			}
			isLookup := func(m ast.Node) bool {
				found := false
				ast.Inspect(m, func(k ast.Node) bool {
					if ix, isIx := k.(*ast.IndexExpr); isIx {
						if id, isId := ast.Unparen(ix.X).(*ast.Ident); isId && info.Uses[id] == setObj {
							found = true
						}
					}
					return !found
				})
				return found
			}
			g := t.c.P.CFG(info, fd.Body)
			from, found := FindNode(g, c45FirstEvaluated(clause.Body[0]))
			if !found {
				ok, why = false, "default arm not found in the CFG"
				return true
			}
			// the first statement itself may contain the lookup
			start := CFGPoint{from.B, from.I - 1}
			edgeOK := func(b *cfg.Block, succ int) bool {
				if len(b.Succs) != 2 || len(b.Nodes) == 0 {
					return true
				}
				cond, isE := b.Nodes[len(b.Nodes)-1].(ast.Expr)
				if !isE {
					return true
				}
				// on the edge where the text is known to be empty nothing can leak: cut it
				if be, isB := ast.Unparen(cond).(*ast.BinaryExpr); isB {
					if lc, isL := ast.Unparen(be.X).(*ast.CallExpr); isL && IsBuiltinCall(info, lc, "len") {
						if tv, has := info.Types[be.Y]; has && tv.Value != nil && tv.Value.String() == "0" {
							emptyOnTrue := be.Op == token.EQL || be.Op == token.LEQ
							emptyOnFalse := be.Op == token.GTR || be.Op == token.NEQ
							if (succ == 0 && emptyOnTrue) || (succ == 1 && emptyOnFalse) {
								return false
							}
						}
					}
				}
				return true
			}
			target := func(m ast.Node) bool { return m.Pos() <= call.Pos() && call.End() <= m.End() }
			if p := PathAvoiding(g, start, isLookup, target, edgeOK); p != nil {
				ok, why = false, "emitToken can reach the call of "+t.cfg.structural+" with non-empty text without having looked it up in the identifier set"
			}
			return true
		})
	})
	if ncalls == 0 {
		return false, t.cfg.structural + " has no call site"
	}
	if ok {
		why = fmt.Sprintf("all %d call sites are in emitToken's default arm after the identifier-set lookup", ncalls)
	}
	return ok, why
}

// ---- T2

func (t *c45Taint) ruleT2(lex *packages.Package) {
	c, info := t.c, t.pk.TypesInfo
	_, fd := c.P.FuncDecl(t.cfg.rel, t.cfg.emitToken)
	if fd == nil {
		c.Undecided("C45-T2", t.cfg.emitToken, 0, "not found")
		return
	}
	// explicit arms of emitToken: label constant -> clause
	arms := map[string]*ast.CaseClause{}
	var sw *ast.SwitchStmt
	ast.Inspect(fd.Body, func(n ast.Node) bool {
		if s, ok := n.(*ast.SwitchStmt); ok && sw == nil && s.Tag != nil {
			sw = s
		}
		return sw == nil
	})
	if sw == nil {
		c.Undecided("C45-T2", t.cfg.emitToken, fd.Pos(), "no switch over the token type")
		return
	}
	constName := func(e ast.Expr) string {
		switch x := ast.Unparen(e).(type) {
		case *ast.SelectorExpr:
			if _, ok := info.Uses[x.Sel].(*types.Const); ok {
				return x.Sel.Name
			}
		case *ast.Ident:
			if _, ok := info.Uses[x].(*types.Const); ok {
				return x.Name
			}
		}
		return ""
	}
	for _, cs := range sw.Body.List {
		cc := cs.(*ast.CaseClause)
		for _, l := range cc.List {
			if n := constName(l); n != "" {
				arms[n] = cc
			}
		}
	}
	// tokens handled before emitToken: compared with ==/!= against the token type in the callers
	pre := map[string]bool{}
	c.P.EachFuncDecl([]string{t.cfg.rel}, func(_ *packages.Package, f *ast.FuncDecl) {
		if !ContainsCall(info, f.Body, func(fn *types.Func, _ *ast.CallExpr) bool { return fn.Origin() == t.scan }) {
			return
		}
		ast.Inspect(f.Body, func(n ast.Node) bool {
			ifs, ok := n.(*ast.IfStmt)
			if !ok {
				return true
			}
			be, ok := ast.Unparen(ifs.Cond).(*ast.BinaryExpr)
			if !ok || be.Op != token.EQL {
				return true
			}
			name := constName(be.Y)
			if name == "" {
				name = constName(be.X)
			}
			if name == "" || len(ifs.Body.List) == 0 {
				return true
			}
			// the branch leaves the iteration: continue / return
			switch s := ifs.Body.List[len(ifs.Body.List)-1].(type) {
			case *ast.ReturnStmt:
				pre[name] = true
			case *ast.BranchStmt:
				if s.Tok == token.CONTINUE {
					pre[name] = true
				}
			}
			return true
		})
	})
	data, kw, err := c45LexerDataTokens(c, lex, t.cfg.lexerType)
	if err != nil {
		c.Undecided("C45-T2", "lexer", 0, "lexer return sites not readable: "+err.Error())
		return
	}
	var names []string
	for n := range data {
		names = append(names, n)
	}
	sort.Strings(names)
	calls := map[token.Pos]*ssa.Call{}
	for _, f := range t.fns {
		for _, b := range f.Blocks {
			for _, ins := range b.Instrs {
				if call, ok := ins.(*ssa.Call); ok {
					calls[call.Pos()] = call
				}
			}
		}
	}
	for _, n := range names {
		key := "token/" + n
		pos := data[n]
		switch {
		case contains(t.cfg.placeholders, n):
			if _, ok := arms[n]; ok {
				c.Ok("C45-T2", key, pos, "bind placeholder: passes through by design in its own arm")
			} else {
				c.Bad("C45-T2", key, pos, "placeholder token "+n+" has no arm in emitToken")
			}
		case pre[n]:
			c.Ok("C45-T2", key, pos, "dropped or aborted before emitToken")
		case kw[n]:
			c.Ok("C45-T2", key, pos, "keyword-table token: its text is a keyword lexeme (identifier use is caught by the identifier set)")
		default:
			cc, ok := arms[n]
			if !ok {
				c.Bad("C45-T2", key, pos, fmt.Sprintf("the lexer returns token %s with user-derived text (%s) but emitToken has no explicit arm for it: the text is emitted by the structural default arm", n, c.P.Rel(pos)))
				continue
			}
			// the arm must call a redactor (directly or through a helper that does)
			red := false
			ast.Inspect(cc, func(m ast.Node) bool {
				if call, isCall := m.(*ast.CallExpr); isCall {
					if fn := Callee(info, call); fn != nil {
						if t.sanit[fn] {
							red = true
						} else if hd := c.P.Decl(fn); hd != nil && hd.Body != nil && fn.Pkg() == t.pk.Types {
							if ContainsCall(info, hd.Body, func(g *types.Func, _ *ast.CallExpr) bool { return t.sanit[g] }) {
								red = true
							}
						}
					}
				}
				return true
			})
			c.Check(red, "C45-T2", key, cc.Pos(), "explicit redacting arm", "the arm of emitToken for "+n+" does not call Mapping.RedactIdent/RedactValue")
		}
	}
}

// c45LexerDataTokens reads the return statements of the lexer type's methods with result
// (int, []byte): the named token constants that are returned together with a value that is not
// nil and not a constant conversion. Constants returned inside the `if found {…}` branch of a
// lookup in a package-level map (the keyword table), and the values of that table, are keyword tokens.
func c45LexerDataTokens(c *Ctx, lex *packages.Package, typeName string) (data map[string]token.Pos, kw map[string]bool, err error) {
	info := lex.TypesInfo
	data, kw = map[string]token.Pos{}, map[string]bool{}
	tokConst := func(e ast.Expr) string {
		if id, ok := ast.Unparen(e).(*ast.Ident); ok {
			if k, ok := info.Uses[id].(*types.Const); ok && k.Pkg() == lex.Types {
				if v, exact := constant.Int64Val(constant.ToInt(k.Val())); exact && v >= 256 {
					return id.Name
				}
			}
		}
		return ""
	}
	noData := func(e ast.Expr) bool {
		e = ast.Unparen(e)
		if isNilIdent(info, e) {
			return true
		}
		if call, ok := e.(*ast.CallExpr); ok && len(call.Args) == 1 { // []byte("BEGIN")
			if tv, ok := info.Types[call.Fun]; ok && tv.IsType() {
				if av, ok := info.Types[call.Args[0]]; ok && av.Value != nil {
					return true
				}
			}
		}
		if cl, ok := e.(*ast.CompositeLit); ok { // []byte{byte(ch)}
			_ = cl
			return false
		}
		return false
	}
	// keyword table: package-level map[string]int variables whose values are token constants
	kwTables := map[types.Object]bool{}
	for _, f := range lex.Syntax {
		for _, d := range f.Decls {
			gd, ok := d.(*ast.GenDecl)
			if !ok || gd.Tok != token.VAR {
				continue
			}
			for _, sp := range gd.Specs {
				vs := sp.(*ast.ValueSpec)
				for i, nm := range vs.Names {
					if i >= len(vs.Values) {
						continue
					}
					cl, ok := vs.Values[i].(*ast.CompositeLit)
					if !ok {
						continue
					}
					if _, isMap := info.Defs[nm].Type().Underlying().(*types.Map); !isMap {
						continue
					}
					n := 0
					for _, el := range cl.Elts {
						if kv, ok := el.(*ast.KeyValueExpr); ok {
							if name := tokConst(kv.Value); name != "" {
								kw[name] = true
								n++
							}
						}
					}
					if n >= 5 {
						kwTables[info.Defs[nm]] = true
					} else {
						for _, el := range cl.Elts {
							if kv, ok := el.(*ast.KeyValueExpr); ok {
								delete(kw, tokConst(kv.Value))
							}
						}
					}
				}
			}
		}
	}
	nMethods := 0
	for _, f := range lex.Syntax {
		for _, d := range f.Decls {
			fd, ok := d.(*ast.FuncDecl)
			if !ok || fd.Body == nil || fd.Recv == nil || !strings.HasPrefix(DeclName(fd), typeName+".") {
				continue
			}
			res := fd.Type.Results
			if res == nil || res.NumFields() != 2 {
				continue
			}
			sig := info.Defs[fd.Name].Type().(*types.Signature)
			if b, ok := sig.Results().At(0).Type().Underlying().(*types.Basic); !ok || b.Kind() != types.Int {
				continue
			}
			if !bndBytesOrString(sig.Results().At(1).Type()) {
				continue
			}
			nMethods++
			// variables of the function holding token types: name -> constants assigned
			assigned := map[types.Object][]string{}
			fromKw := map[types.Object]bool{}
			ast.Inspect(fd.Body, func(n ast.Node) bool {
				as, ok := n.(*ast.AssignStmt)
				if !ok {
					return true
				}
				for i, l := range as.Lhs {
					id, ok := l.(*ast.Ident)
					if !ok {
						continue
					}
					obj := info.Defs[id]
					if obj == nil {
						obj = info.Uses[id]
					}
					if obj == nil {
						continue
					}
					if len(as.Rhs) == len(as.Lhs) {
						if name := tokConst(as.Rhs[i]); name != "" {
							assigned[obj] = append(assigned[obj], name)
						}
					}
					if len(as.Rhs) == 1 && i == 0 {
						if ix, ok := ast.Unparen(as.Rhs[0]).(*ast.IndexExpr); ok {
							if mid, ok := ast.Unparen(ix.X).(*ast.Ident); ok && kwTables[info.Uses[mid]] {
								fromKw[obj] = true
							}
						}
					}
				}
				return true
			})
			// parameters holding token types: constants passed at call sites in the package
			for _, fl := range fd.Type.Params.List {
				for _, nm := range fl.Names {
					pobj := info.Defs[nm]
					if b, ok := pobj.Type().Underlying().(*types.Basic); !ok || b.Kind() != types.Int {
						continue
					}
					self := info.Defs[fd.Name]
					pi := 0
					idx := 0
					for _, fl2 := range fd.Type.Params.List {
						for _, nm2 := range fl2.Names {
							if nm2 == nm {
								pi = idx
							}
							idx++
						}
					}
					for _, f2 := range lex.Syntax {
						ast.Inspect(f2, func(n ast.Node) bool {
							if call, ok := n.(*ast.CallExpr); ok && Callee(info, call) == self && pi < len(call.Args) {
								if name := tokConst(call.Args[pi]); name != "" {
									assigned[pobj] = append(assigned[pobj], name)
								}
							}
							return true
						})
					}
				}
			}
			// returns; inKw: inside an `if found`-style block following a keyword-table lookup
			var walk func(n ast.Node, inKw bool)
			walk = func(n ast.Node, inKw bool) {
				ast.Inspect(n, func(m ast.Node) bool {
					switch x := m.(type) {
					case *ast.FuncLit:
						return false
					case *ast.IfStmt:
						if id, ok := ast.Unparen(x.Cond).(*ast.Ident); ok && !inKw {
							// `keywordID, found := keywords[...]; if found {`
							isFound := false
							ast.Inspect(fd.Body, func(k ast.Node) bool {
								if as, ok := k.(*ast.AssignStmt); ok && len(as.Lhs) == 2 && len(as.Rhs) == 1 {
									if l1, ok := as.Lhs[1].(*ast.Ident); ok && info.Defs[l1] != nil && info.Defs[l1] == info.Uses[id] {
										if ix, ok := ast.Unparen(as.Rhs[0]).(*ast.IndexExpr); ok {
											if mid, ok := ast.Unparen(ix.X).(*ast.Ident); ok && kwTables[info.Uses[mid]] {
												isFound = true
											}
										}
									}
								}
								return true
							})
							if isFound {
								walk(x.Body, true)
								if x.Else != nil {
									walk(x.Else, inKw)
								}
								return false
							}
						}
					case *ast.ReturnStmt:
						if len(x.Results) != 2 || noData(x.Results[1]) {
							return true
						}
						var names []string
						if name := tokConst(x.Results[0]); name != "" {
							names = []string{name}
						} else if id, ok := ast.Unparen(x.Results[0]).(*ast.Ident); ok {
							obj := info.Uses[id]
							names = assigned[obj]
							if fromKw[obj] {
								return true
							}
						}
						for _, name := range names {
							if inKw {
								kw[name] = true // returned with keyword-table text
								if _, isData := data[name]; !isData {
									data[name] = x.Pos()
								}
								continue
							}
							data[name] = x.Pos()
							delete(kw, name+"\x00")
						}
					}
					return true
				})
			}
			walk(fd.Body, false)
		}
	}
	if nMethods == 0 || len(data) == 0 {
		return nil, nil, fmt.Errorf("no scanner methods with result (int, []byte) found on %s", typeName)
	}
	// a constant returned with data outside the keyword branch somewhere is a data token even if
	// it is also a keyword-table value
	return data, kw, nil
}

// ---- T3

func (t *c45Taint) ruleT3() {
	c, info := t.c, t.pk.TypesInfo
	mk, _ := t.pk.Types.Scope().Lookup(t.cfg.marker).(*types.Const)
	if mk == nil {
		c.Undecided("C45-T3", t.cfg.marker, 0, "marker constant not found")
		return
	}
	// functions under T3: result list contains a string and an error
	under := map[*types.Func]bool{}
	c.P.EachFuncDecl([]string{t.cfg.rel}, func(_ *packages.Package, fd *ast.FuncDecl) {
		fn, _ := info.Defs[fd.Name].(*types.Func)
		if fn == nil {
			return
		}
		si, ei := c45StrErr(fn)
		if si >= 0 && ei >= 0 && fd.Recv == nil {
			under[fn] = true
		}
	})
	c.P.EachFuncDecl([]string{t.cfg.rel}, func(_ *packages.Package, fd *ast.FuncDecl) {
		fn, _ := info.Defs[fd.Name].(*types.Func)
		if !under[fn] {
			return
		}
		si, ei := c45StrErr(fn)
		seen := map[string]int{}
		ast.Inspect(fd.Body, func(n ast.Node) bool {
			if _, ok := n.(*ast.FuncLit); ok {
				return false
			}
			ret, ok := n.(*ast.ReturnStmt)
			if !ok {
				return true
			}
			key := DeclName(fd) + "/return"
			if len(ret.Results) <= si || len(ret.Results) <= ei {
				c.Bad("C45-T3", key, ret.Pos(), "bare return: the text returned with the error cannot be read")
				return true
			}
			s, e := ast.Unparen(ret.Results[si]), ast.Unparen(ret.Results[ei])
			key = DeclName(fd) + "/return " + types.ExprString(s)
			seen[key]++
			if seen[key] > 1 {
				key = fmt.Sprintf("%s (%s)", key, types.ExprString(e))
			}
			if isNilIdent(info, e) {
				c.Ok("C45-T3", key, ret.Pos(), "nil error")
				return true
			}
			if id, ok := s.(*ast.Ident); ok && info.Uses[id] == mk {
				c.Ok("C45-T3", key, ret.Pos(), "marker with error "+types.ExprString(e))
				return true
			}
			// pass-through: both come from one call of a function under T3
			if sid, ok := s.(*ast.Ident); ok {
				if eid, ok := e.(*ast.Ident); ok {
					okPass := false
					ast.Inspect(fd.Body, func(m ast.Node) bool {
						as, ok := m.(*ast.AssignStmt)
						if !ok || len(as.Rhs) != 1 {
							return true
						}
						call, ok := as.Rhs[0].(*ast.CallExpr)
						if !ok || !under[Callee(info, call)] {
							return true
						}
						csi, cei := c45StrErr(Callee(info, call))
						if csi < len(as.Lhs) && cei < len(as.Lhs) {
							l1, ok1 := as.Lhs[csi].(*ast.Ident)
							l2, ok2 := as.Lhs[cei].(*ast.Ident)
							if ok1 && ok2 && c45Obj(info, l1) == info.Uses[sid] && c45Obj(info, l2) == info.Uses[eid] {
								okPass = true
							}
						}
						return true
					})
					if okPass && c45AssignedOnce(info, fd, info.Uses[sid]) {
						c.Ok("C45-T3", key, ret.Pos(), "text and error of one call to a function under the same rule")
						return true
					}
				}
			}
			c.Bad("C45-T3", key, ret.Pos(), fmt.Sprintf("%s returns %s together with a non-nil error (%s): on failure only the constant %s may be published", DeclName(fd), types.ExprString(s), types.ExprString(e), t.cfg.marker))
			return true
		})
	})
}

func c45Obj(info *types.Info, id *ast.Ident) types.Object {
	if o := info.Defs[id]; o != nil {
		return o
	}
	return info.Uses[id]
}

func c45AssignedOnce(info *types.Info, fd *ast.FuncDecl, obj types.Object) bool {
	n := 0
	ast.Inspect(fd.Body, func(m ast.Node) bool {
		if as, ok := m.(*ast.AssignStmt); ok {
			for _, l := range as.Lhs {
				if id, ok := l.(*ast.Ident); ok && c45Obj(info, id) == obj {
					n++
				}
			}
		}
		return true
	})
	return n == 1
}

func c45StrErr(fn *types.Func) (si, ei int) {
	si, ei = -1, -1
	if fn == nil {
		return
	}
	res := fn.Type().(*types.Signature).Results()
	for i := 0; i < res.Len(); i++ {
		if b, ok := res.At(i).Type().Underlying().(*types.Basic); ok && b.Kind() == types.String && si < 0 {
			si = i
		}
		if IsErrorType(res.At(i).Type()) {
			ei = i
		}
	}
	return
}

// ---- T4

func (t *c45Taint) ruleT4() {
	c, info := t.c, t.pk.TypesInfo
	type ns struct {
		name       string
		mapF, cntF string
		prefix     string
		fields     map[string]bool
	}
	var spaces []ns
	for _, rn := range t.cfg.redactors {
		name := t.cfg.mapping + "." + rn
		fn := LookupFunc(t.pk, name)
		fd := c.P.Decl(fn)
		if fd == nil || fd.Body == nil || fd.Recv == nil || len(fd.Recv.List[0].Names) == 0 || len(fd.Type.Params.List) == 0 {
			c.Undecided("C45-T4", name, 0, "redactor not readable")
			continue
		}
		recv := info.Defs[fd.Recv.List[0].Names[0]]
		orig := info.Defs[fd.Type.Params.List[0].Names[0]]
		space := ns{name: name, fields: map[string]bool{}}
		fieldOf := func(e ast.Expr) string {
			if sel, ok := ast.Unparen(e).(*ast.SelectorExpr); ok {
				if id, ok := ast.Unparen(sel.X).(*ast.Ident); ok && info.Uses[id] == recv {
					return sel.Sel.Name
				}
			}
			return ""
		}
		ast.Inspect(fd.Body, func(n ast.Node) bool {
			if f := fieldOf(c45AsExpr(n)); f != "" {
				space.fields[f] = true
			}
			return true
		})
		// minted: CONST + strconv.Itoa(m.<counter>)
		minted := func(e ast.Expr) (prefix, cnt string, ok bool) {
			be, isB := ast.Unparen(e).(*ast.BinaryExpr)
			if !isB || be.Op != token.ADD {
				return
			}
			tv, has := info.Types[be.X]
			if !has || tv.Value == nil || tv.Value.Kind() != constant.String {
				return
			}
			call, isC := ast.Unparen(be.Y).(*ast.CallExpr)
			if !isC || len(call.Args) != 1 {
				return
			}
			if fn := Callee(info, call); fn == nil || FullName(fn) != "strconv.Itoa" {
				return
			}
			cnt = fieldOf(call.Args[0])
			return constant.StringVal(tv.Value), cnt, cnt != ""
		}
		// local variable classification: hit (from comma-ok lookup of a receiver map field), mint
		kind := map[types.Object]string{}
		mapOf := map[types.Object]string{}
		ast.Inspect(fd.Body, func(n ast.Node) bool {
			switch x := n.(type) {
			case *ast.AssignStmt:
				if len(x.Rhs) == 1 && len(x.Lhs) >= 1 {
					id, isId := x.Lhs[0].(*ast.Ident)
					if !isId {
						return true
					}
					obj := c45Obj(info, id)
					if ix, ok := ast.Unparen(x.Rhs[0]).(*ast.IndexExpr); ok && len(x.Lhs) == 2 {
						if f := fieldOf(ix.X); f != "" {
							kind[obj], mapOf[obj] = "hit", f
							return true
						}
					}
					if p, cnt, ok := minted(x.Rhs[0]); ok && len(x.Lhs) == 1 {
						kind[obj] = "mint"
						space.prefix, space.cntF = p, cnt
						return true
					}
					if len(x.Lhs) == 1 {
						kind[obj] = "other"
					}
				}
			}
			return true
		})
		g := c.P.CFG(info, fd.Body)
		// returns
		nret := map[string]int{}
		ast.Inspect(fd.Body, func(n ast.Node) bool {
			if _, ok := n.(*ast.FuncLit); ok {
				return false
			}
			ret, ok := n.(*ast.ReturnStmt)
			if !ok || len(ret.Results) != 1 {
				return true
			}
			r := ast.Unparen(ret.Results[0])
			key := name + "/return " + types.ExprString(r)
			nret[key]++
			if nret[key] > 1 {
				key = fmt.Sprintf("%s#%d", key, nret[key])
			}
			id, isId := r.(*ast.Ident)
			switch {
			case isId && kind[info.Uses[id]] == "hit":
				// must be on the ok-branch of the lookup: the enclosing if's condition is the ok variable
				c.Ok("C45-T4", key, ret.Pos(), "map hit of "+mapOf[info.Uses[id]])
			case isId && kind[info.Uses[id]] == "mint":
				c.Ok("C45-T4", key, ret.Pos(), "freshly minted token")
			case isId && info.Uses[id] == orig:
				// allowed only when dominated by the nil/empty guard: every path from entry to this
				// return passes a condition implying recv == nil or orig == ""
				guard := func(e ast.Expr) bool {
					be, ok := ast.Unparen(e).(*ast.BinaryExpr)
					if !ok || be.Op != token.EQL {
						return false
					}
					if x, ok := ast.Unparen(be.X).(*ast.Ident); ok {
						if info.Uses[x] == recv && isNilIdent(info, be.Y) {
							return true
						}
						if tv, has := info.Types[be.Y]; has && tv.Value != nil && info.Uses[x] == orig && tv.Value.Kind() == constant.String && constant.StringVal(tv.Value) == "" {
							return true
						}
					}
					return false
				}
				okGuard := false
				if pt, found := FindNode(g, ret); found {
					// the return is guarded iff its block is entered only through the true edge of a condition made of guards joined by ||
					okGuard = c45GuardedBlock(g, pt.B, guard)
				}
				c.Check(okGuard, "C45-T4", key, ret.Pos(), "original returned only under the nil-mapping / empty-string guard",
					name+" returns its argument unredacted outside the `m == nil || orig == \"\"` guard")
			default:
				c.Bad("C45-T4", key, ret.Pos(), name+" returns "+types.ExprString(r)+", which is neither a map hit, a freshly minted token nor the guarded original")
			}
			return true
		})
		// stores into the receiver's maps
		var lockCall, recheck ast.Node
		ast.Inspect(fd.Body, func(n ast.Node) bool {
			switch x := n.(type) {
			case *ast.ExprStmt:
				if call, ok := x.X.(*ast.CallExpr); ok {
					if fn := Callee(info, call); fn != nil && FullName(fn) == "sync.RWMutex.Lock" {
						lockCall = x
					}
				}
			}
			return true
		})
		ast.Inspect(fd.Body, func(n ast.Node) bool {
			as, ok := n.(*ast.AssignStmt)
			if !ok || len(as.Lhs) != 1 || len(as.Rhs) != 1 {
				return true
			}
			ix, ok := as.Lhs[0].(*ast.IndexExpr)
			if !ok {
				return true
			}
			f := fieldOf(ix.X)
			if f == "" {
				return true
			}
			space.mapF = f
			// value stored is minted
			valOK := false
			if id, ok := ast.Unparen(as.Rhs[0]).(*ast.Ident); ok && kind[info.Uses[id]] == "mint" {
				valOK = true
			}
			if _, _, ok := minted(as.Rhs[0]); ok {
				valOK = true
			}
			c.Check(valOK, "C45-T4", name+"/store value", as.Pos(), "the map receives a minted token", name+" stores "+types.ExprString(as.Rhs[0])+" into "+f+": only minted tokens may enter the map (its values are published)")
			// under the write lock, after the re-check
			okLock := false
			msg := "no m.mu.Lock() call found"
			if lockCall != nil {
				if p := PathAvoiding(g, EntryPoint(g), func(m ast.Node) bool { return m == lockCall }, func(m ast.Node) bool { return m == ast.Node(as) }, nil); p == nil {
					// re-check: a comma-ok lookup of the same map between the lock and the store on every path
					if lp, found := FindNode(g, lockCall); found {
						isRecheck := func(m ast.Node) bool {
							hit := false
							ast.Inspect(m, func(k ast.Node) bool {
								if ix2, ok := k.(*ast.IndexExpr); ok && fieldOf(ix2.X) == f && k != ast.Node(ix) {
									hit = true
								}
								return !hit
							})
							return hit
						}
						if p2 := PathAvoiding(g, lp, isRecheck, func(m ast.Node) bool { return m == ast.Node(as) }, nil); p2 == nil {
							okLock = true
						} else {
							msg = "the store can be reached after Lock() without looking the key up again (two goroutines can mint different tokens for one lexeme)"
						}
					}
				} else {
					msg = "the store can be reached without passing m.mu.Lock()"
				}
				// the unlock is deferred
				hasDefer := false
				for _, dc := range DeferredCalls(fd.Body, false) {
					if fn := Callee(info, dc); fn != nil && FullName(fn) == "sync.RWMutex.Unlock" {
						hasDefer = true
					}
				}
				if okLock && !hasDefer {
					okLock, msg = false, "the write lock is not released by a deferred Unlock"
				}
			}
			_ = recheck
			c.Check(okLock, "C45-T4", name+"/store under lock", as.Pos(), "minted under the write lock after the re-check", name+": "+msg)
			return true
		})
		spaces = append(spaces, space)
	}
	// namespaces are disjoint and each redactor touches only its own fields
	for i, s := range spaces {
		var fs []string
		for f := range s.fields {
			fs = append(fs, f)
		}
		sort.Strings(fs)
		okF := s.mapF != "" && s.cntF != "" && s.prefix != ""
		why := ""
		for j, o := range spaces {
			if i == j {
				continue
			}
			if o.mapF == s.mapF || o.cntF == s.cntF || o.prefix == s.prefix {
				okF, why = false, fmt.Sprintf("shares map/counter/prefix with %s (%s/%s/%q vs %s/%s/%q)", o.name, s.mapF, s.cntF, s.prefix, o.mapF, o.cntF, o.prefix)
			}
			if s.fields[o.mapF] || s.fields[o.cntF] {
				okF, why = false, "touches a field of the other namespace ("+o.name+")"
			}
		}
		if why == "" && !okF {
			why = "map, counter or prefix of the namespace not readable"
		}
		c.Check(okF, "C45-T4", s.name+"/fields", token.NoPos, fmt.Sprintf("map %s, counter %s, prefix %q; fields used %v", s.mapF, s.cntF, s.prefix, fs), s.name+": "+why)
	}
}

func c45AsExpr(n ast.Node) ast.Expr {
	if e, ok := n.(ast.Expr); ok {
		return e
	}
	return nil
}

// c45GuardedBlock: block b is entered only through true edges of conditions that are a guard or
// an || of guards.
func c45GuardedBlock(g *cfg.CFG, b *cfg.Block, guard func(ast.Expr) bool) bool {
	var allGuards func(e ast.Expr) bool
	allGuards = func(e ast.Expr) bool {
		e = ast.Unparen(e)
		if guard(e) {
			return true
		}
		if be, ok := e.(*ast.BinaryExpr); ok && be.Op == token.LOR {
			return allGuards(be.X) && allGuards(be.Y)
		}
		return false
	}
	npred := 0
	for _, p := range g.Blocks {
		for si, s := range p.Succs {
			if s != b {
				continue
			}
			npred++
			if len(p.Succs) != 2 || si != 0 || len(p.Nodes) == 0 {
				return false
			}
			cond, ok := p.Nodes[len(p.Nodes)-1].(ast.Expr)
			if !ok || !allGuards(cond) {
				return false
			}
		}
	}
	return npred > 0
}

// c45FirstEvaluated: the node of a statement that go/cfg records first (conditions of if/for/switch
// statements are recorded as expressions, not the statements themselves).
func c45FirstEvaluated(s ast.Stmt) ast.Node {
	switch x := s.(type) {
	case *ast.IfStmt:
		if x.Init != nil {
			return c45FirstEvaluated(x.Init)
		}
		return x.Cond
	case *ast.SwitchStmt:
		if x.Init != nil {
			return c45FirstEvaluated(x.Init)
		}
		if x.Tag != nil {
			return x.Tag
		}
	case *ast.ForStmt:
		if x.Init != nil {
			return c45FirstEvaluated(x.Init)
		}
		if x.Cond != nil {
			return x.Cond
		}
	case *ast.BlockStmt:
		if len(x.List) > 0 {
			return c45FirstEvaluated(x.List[0])
		}
	}
	return s
}
