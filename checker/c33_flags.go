package main

import (
	"fmt"
	"go/ast"
	"go/constant"
	"go/token"
	"go/types"
	"sort"
	"strconv"

	"golang.org/x/tools/go/ssa"
)

// G6: the match_type validator and the flag-interpreting loop of the compile helper.
//
// Read from the syntax (switch tables, folded with go/constant) and from the SSA of the helper
// (which strings may reach the loop).

type c33CharSwitch struct {
	rng    *ast.RangeStmt
	sw     *ast.SwitchStmt
	arms   map[rune]*ast.CaseClause
	order  []rune
	deflt  *ast.CaseClause
	rangeX ast.Expr
}

// charSwitch finds `for _, ch := range <string> { ... switch ch { case 'x': ... } ... }` directly in
// body (not inside function literals): the range body must contain the switch as a top-level
// statement with nothing before it that can leave the iteration.
func c33FindCharSwitches(info *types.Info, body *ast.BlockStmt) []*c33CharSwitch {
	var out []*c33CharSwitch
	ast.Inspect(body, func(n ast.Node) bool {
		switch x := n.(type) {
		case *ast.FuncLit:
			return false
		case *ast.RangeStmt:
			tv, ok := info.Types[x.X]
			if !ok || !c33IsString(tv.Type) || x.Value == nil {
				return true
			}
			vid, _ := x.Value.(*ast.Ident)
			if vid == nil {
				return true
			}
			vobj := info.Defs[vid]
			if vobj == nil {
				vobj = info.Uses[vid]
			}
			for i, st := range x.Body.List {
				sw, ok := st.(*ast.SwitchStmt)
				if !ok || sw.Init != nil {
					continue
				}
				tag, _ := ast.Unparen(sw.Tag).(*ast.Ident)
				if tag == nil || info.Uses[tag] != vobj {
					continue
				}
				// nothing before the switch may leave the iteration
				clean := true
				for _, pre := range x.Body.List[:i] {
					ast.Inspect(pre, func(m ast.Node) bool {
						switch m.(type) {
						case *ast.BranchStmt, *ast.ReturnStmt:
							clean = false
						}
						return clean
					})
				}
				if !clean {
					continue
				}
				cs := &c33CharSwitch{rng: x, sw: sw, arms: map[rune]*ast.CaseClause{}, rangeX: x.X}
				good := true
				for _, cl := range sw.Body.List {
					cc := cl.(*ast.CaseClause)
					if cc.List == nil {
						cs.deflt = cc
						continue
					}
					for _, lab := range cc.List {
						ltv := info.Types[lab]
						if ltv.Value == nil || ltv.Value.Kind() != constant.Int {
							good = false
							continue
						}
						v, _ := constant.Int64Val(ltv.Value)
						cs.arms[rune(v)] = cc
						cs.order = append(cs.order, rune(v))
					}
				}
				if good {
					out = append(out, cs)
				}
			}
		}
		return true
	})
	return out
}

func c33Q(r rune) string { return strconv.QuoteRune(r) }

func (e *c33) ruleG6() {
	c := e.c
	hobj, _ := e.H.Object().(*types.Func)
	hdecl := c.P.Decl(hobj)
	if hdecl == nil || hdecl.Body == nil {
		c.Undecided("C33-G6", e.H.Name(), e.H.Pos(), "no syntax for the compile helper")
		return
	}
	info := e.pk.TypesInfo
	hname := e.H.Name()
	// the interpreting loop: a character switch whose arms assign a non-string variable that is
	// passed to a matcher method
	var interp *c33CharSwitch
	var flagVar types.Object
	for _, cs := range c33FindCharSwitches(info, hdecl.Body) {
		var v types.Object
		for _, cl := range cs.arms {
			for _, st := range cl.Body {
				if as, ok := st.(*ast.AssignStmt); ok && len(as.Lhs) == 1 {
					if id, ok := as.Lhs[0].(*ast.Ident); ok {
						if o := info.Uses[id]; o != nil && !c33IsString(o.Type()) {
							v = o
						}
					}
				}
			}
		}
		if v != nil {
			if interp != nil {
				c.Undecided("C33-G6", hname+"/flag loop", cs.rng.Pos(), "more than one flag-interpreting loop in "+hname)
				return
			}
			interp, flagVar = cs, v
		}
	}
	if interp == nil {
		c.Undecided("C33-G6", hname+"/flag loop", hdecl.Pos(), "no loop `for _, ch := range <string> { switch ch { case …: flags |= … } }` found in "+hname+": the flag table cannot be read")
		return
	}
	// the variable reaches a matcher method
	reaches := false
	ast.Inspect(hdecl.Body, func(n ast.Node) bool {
		call, ok := n.(*ast.CallExpr)
		if !ok {
			return true
		}
		fn := Callee(info, call)
		if fn == nil {
			return true
		}
		sig := fn.Type().(*types.Signature)
		if sig.Recv() == nil || !types.Identical(types.Unalias(sig.Recv().Type()), e.regexT) {
			if sel, ok := ast.Unparen(call.Fun).(*ast.SelectorExpr); !ok || !types.Identical(types.Unalias(info.TypeOf(sel.X)), e.regexT) {
				return true
			}
		}
		for _, a := range call.Args {
			if id, ok := ast.Unparen(a).(*ast.Ident); ok && info.Uses[id] == flagVar {
				reaches = true
			}
		}
		return true
	})
	if !reaches {
		c.Bad("C33-G6", hname+"/flags reach the matcher", interp.rng.Pos(), fmt.Sprintf("the flag variable %s computed by the loop of %s is not an argument of any matcher method: match_type has no effect", flagVar.Name(), hname))
	} else {
		c.Ok("C33-G6", hname+"/flags reach the matcher", interp.rng.Pos(), flagVar.Name()+" is handed to the matcher")
	}
	// arms: one non-zero constant each, pairwise different
	S := map[rune]bool{}
	byConst := map[string]rune{}
	order := append([]rune{}, interp.order...)
	sort.Slice(order, func(i, j int) bool { return order[i] < order[j] })
	for _, ch := range order {
		cl := interp.arms[ch]
		key := hname + "/flag " + c33Q(ch)
		var consts []constant.Value
		for _, st := range cl.Body {
			as, ok := st.(*ast.AssignStmt)
			if !ok || len(as.Lhs) != 1 || len(as.Rhs) != 1 {
				continue
			}
			id, _ := as.Lhs[0].(*ast.Ident)
			if id == nil || info.Uses[id] != flagVar {
				continue
			}
			ast.Inspect(as.Rhs[0], func(n ast.Node) bool {
				if x, ok := n.(ast.Expr); ok {
					if tv, ok := info.Types[x]; ok && tv.Value != nil && tv.Value.Kind() == constant.Int {
						if _, isLit := x.(*ast.BasicLit); !isLit || as.Tok == token.ASSIGN || as.Tok == token.OR_ASSIGN {
							consts = append(consts, tv.Value)
							return false
						}
					}
				}
				return true
			})
		}
		if len(consts) != 1 {
			c.Bad("C33-G6", key, cl.Pos(), fmt.Sprintf("the arm %s of the flag loop in %s sets %d flag constants (expected exactly one): the character is accepted but has no (or an ambiguous) effect", c33Q(ch), hname, len(consts)))
			continue
		}
		S[ch] = true
		k := consts[0].ExactString()
		if v, _ := constant.Int64Val(consts[0]); v == 0 {
			c.Bad("C33-G6", key, cl.Pos(), fmt.Sprintf("the arm %s of the flag loop in %s sets the zero flag: the character has no effect", c33Q(ch), hname))
			continue
		}
		if other, dup := byConst[k]; dup {
			c.Bad("C33-G6", key, cl.Pos(), fmt.Sprintf("the arms %s and %s of the flag loop in %s set the same flag constant %s: one of the two match_type characters does something else than documented", c33Q(other), c33Q(ch), hname, k))
			continue
		}
		byConst[k] = ch
		c.Ok("C33-G6", key, cl.Pos(), "sets flag constant "+k)
	}
	// strings that reach the loop (SSA)
	var rng *ssa.Range
	hf := append([]*ssa.Function{e.H}, e.H.AnonFuncs...)
	e.eachInstr(hf, func(fn *ssa.Function, in ssa.Instruction) {
		if r, ok := in.(*ssa.Range); ok && c33IsString(r.X.Type()) {
			if r.Pos() == interp.rng.For || rng == nil && fn == e.H {
				if r.Pos() == interp.rng.For {
					rng = r
				}
			}
		}
	})
	if rng == nil {
		c.Undecided("C33-G6", hname+"/flag string", interp.rng.Pos(), "the range instruction of the flag loop was not found in the SSA of "+hname)
		return
	}
	var validator *ssa.Function
	for _, leaf := range c33PhiLeaves(rng.X) {
		switch x := leaf.(type) {
		case *ssa.Const:
			s := ""
			if x.Value != nil && x.Value.Kind() == constant.String {
				s = constant.StringVal(x.Value)
			}
			key := hname + "/flag string <- " + strconv.Quote(s)
			bad := ""
			for _, ch := range s {
				if !S[ch] {
					bad += c33Q(ch)
				}
			}
			if bad != "" {
				c.Bad("C33-G6", key, interp.rng.Pos(), fmt.Sprintf("the default flag string %q of %s contains %s, which the flag loop does not interpret", s, hname, bad))
			} else {
				c.Ok("C33-G6", key, interp.rng.Pos(), "constant default, every character interpreted")
			}
		default:
			var call *ssa.Call
			if ex, ok := leaf.(*ssa.Extract); ok && ex.Index == 0 {
				call, _ = ex.Tuple.(*ssa.Call)
			} else if cl, ok := leaf.(*ssa.Call); ok {
				call = cl
			}
			var sf *ssa.Function
			if call != nil {
				sf = c33StaticFn(call.Common())
			}
			if sf != nil && sf.Pkg != nil && sf.Pkg.Pkg == e.pk.Types && sf.Parent() == nil {
				key := hname + "/flag string <- " + sf.Name()
				if validator != nil && validator != sf {
					c.Bad("C33-G6", key, c33Pos(call), fmt.Sprintf("two different functions (%s, %s) produce the flag string of %s", validator.Name(), sf.Name(), hname))
					continue
				}
				validator = sf
				c.Ok("C33-G6", key, c33Pos(call), "validated by "+sf.Name())
				continue
			}
			desc := c33Describe(leaf)
			if call != nil {
				if f := c33Callee(call.Common()); f != nil {
					desc = "the result of " + f.Name()
				}
			}
			pos := interp.rng.Pos()
			if in, ok := leaf.(ssa.Instruction); ok {
				pos = c33Pos(in)
			}
			c.Bad("C33-G6", hname+"/flag string <- unvalidated", pos, fmt.Sprintf("%s reaches the flag loop of %s without passing the match_type validator: unknown flag characters are silently ignored instead of producing an error", desc, hname))
		}
	}
	if validator == nil {
		c.Bad("C33-G6", hname+"/validator", interp.rng.Pos(), "no package function validates the match_type string before the flag loop of "+hname+": unknown flag characters are silently ignored instead of producing an error")
		return
	}
	// the validator's table
	vobj, _ := validator.Object().(*types.Func)
	vdecl := c.P.Decl(vobj)
	vname := validator.Name()
	if vdecl == nil || vdecl.Body == nil {
		c.Undecided("C33-G6", vname, validator.Pos(), "no syntax for the validator")
		return
	}
	var vs *c33CharSwitch
	for _, cs := range c33FindCharSwitches(info, vdecl.Body) {
		// over a parameter of the validator
		if id, ok := ast.Unparen(cs.rangeX).(*ast.Ident); ok {
			if v, ok := info.Uses[id].(*types.Var); ok && c33IsParamOf(vobj, v) {
				vs = cs
			}
		}
	}
	if vs == nil {
		c.Undecided("C33-G6", vname+"/table", vdecl.Pos(), "no loop `for _, ch := range <parameter> { switch ch { … } }` found in "+vname+": the accepted characters cannot be read")
		return
	}
	// default arm: returns a constructed error, nothing else leaves it
	key := vname + "/default arm"
	switch {
	case vs.deflt == nil:
		c.Bad("C33-G6", key, vs.sw.Pos(), fmt.Sprintf("the character switch of %s has no default arm: an unknown match_type character is skipped instead of producing an error", vname))
	default:
		msg := ""
		body := vs.deflt.Body
		if len(body) == 0 {
			msg = "is empty"
		} else {
			for _, st := range body[:len(body)-1] {
				ast.Inspect(st, func(n ast.Node) bool {
					switch n.(type) {
					case *ast.BranchStmt, *ast.ReturnStmt, *ast.IfStmt, *ast.ForStmt, *ast.RangeStmt, *ast.SwitchStmt, *ast.TypeSwitchStmt, *ast.SelectStmt, *ast.GoStmt, *ast.DeferStmt:
						msg = "branches before its final statement"
					}
					return msg == ""
				})
			}
			if msg == "" {
				ret, ok := body[len(body)-1].(*ast.ReturnStmt)
				errIdx := c33ErrIndex(vobj.Type().(*types.Signature))
				switch {
				case !ok:
					msg = "does not end in a return"
				case errIdx < 0 || len(ret.Results) != vobj.Type().(*types.Signature).Results().Len():
					msg = "returns without an explicit error operand"
				default:
					call, isCall := ast.Unparen(ret.Results[errIdx]).(*ast.CallExpr)
					var fn *types.Func
					if isCall {
						fn = Callee(info, call)
					}
					if fn == nil || !e.errCtors[FullName(fn)] {
						msg = "returns " + types.ExprString(ret.Results[errIdx]) + " in the error position, which is not a constructed (never nil) error"
					}
				}
			}
		}
		if msg != "" {
			c.Bad("C33-G6", key, vs.deflt.Pos(), fmt.Sprintf("the default arm of the character switch of %s %s: an unknown match_type character does not produce an error on every path", vname, msg))
		} else {
			c.Ok("C33-G6", key, vs.deflt.Pos(), "unknown character: returns a constructed error")
		}
	}
	// output alphabet of the validator: one-character constants mentioned in its arms
	out := map[rune]bool{}
	for _, cl := range vs.arms {
		for _, st := range cl.Body {
			ast.Inspect(st, func(n ast.Node) bool {
				x, ok := n.(ast.Expr)
				if !ok {
					return true
				}
				tv, ok := info.Types[x]
				if !ok || tv.Value == nil {
					return true
				}
				switch tv.Value.Kind() {
				case constant.String:
					if s := []rune(constant.StringVal(tv.Value)); len(s) == 1 {
						out[s[0]] = true
					}
					return false
				case constant.Int:
					if b, ok := tv.Type.Underlying().(*types.Basic); ok && (b.Kind() == types.Int32 || b.Kind() == types.UntypedRune || b.Kind() == types.Uint8) {
						if v, ok := constant.Int64Val(tv.Value); ok && v > 0 {
							out[rune(v)] = true
						}
					}
					return false
				}
				return true
			})
		}
	}
	if len(out) == 0 {
		c.Undecided("C33-G6", vname+"/output", vs.sw.Pos(), "the arms of "+vname+" mention no one-character constants: the characters it lets through cannot be read")
		return
	}
	var outs []rune
	for ch := range out {
		outs = append(outs, ch)
	}
	sort.Slice(outs, func(i, j int) bool { return outs[i] < outs[j] })
	for _, ch := range outs {
		key := vname + "/lets through " + c33Q(ch)
		if S[ch] {
			c.Ok("C33-G6", key, vs.sw.Pos(), "interpreted by the flag loop of "+hname)
		} else {
			c.Bad("C33-G6", key, vs.sw.Pos(), fmt.Sprintf("%s lets the match_type character %s through but no arm of the flag loop of %s interprets it: the flag is accepted and silently ignored", vname, c33Q(ch), hname))
		}
	}
}

func c33IsParamOf(fn *types.Func, v *types.Var) bool {
	sig := fn.Type().(*types.Signature)
	for i := 0; i < sig.Params().Len(); i++ {
		if sig.Params().At(i) == v {
			return true
		}
	}
	return false
}

var c33FixtureWant = []string{
	"C33-G1:construct: OwnCompiler.compile -> CreateRegex",
	"C33-G1:fn.NilFlags.compile/compileRegex arguments",
	"C33-G1:fn.OwnCompiler.compile/re <- other",
	"C33-G1:fn.SwapArgs.compile/compileRegex pattern",
	"C33-G1:fn.SwapArgs.compile/compileRegex subject",
	"C33-G2:fn.DropErr.Eval/SetMatchString",
	"C33-G2:fn.NullErr.Eval/IndexOf",
	"C33-G2:fn.Overwrite.Eval/SetMatchString",
	"C33-G2s:fn.LostClose.compile/compileErr <- Close",
	"C33-G2s:fn.NoSlotCheck.Eval/compileErr after compile",
	"C33-G3:fn.NoNullTest.Eval/NULL Position",
	"C33-G3:fn.NullAsZero.Eval/NULL Occurrence",
	"C33-G3c:fn.NoGuard.Eval/IndexOf guarded",
	"C33-G3c:fn.NoGuard.Eval/SetMatchString guarded",
	"C33-G5:fn.FromOne.Eval/Matches.start",
	"C33-G5:fn.PosArith.Eval/IndexOf.start",
	"C33-G5:fn.Swapped.Eval/IndexOf position-occurrence",
	"C33-G6:compileRegex/flag 'x'",
	"C33-G6:compileRegex/flag string <- unvalidated",
	"C33-G6:validate/default arm",
	"C33-G6:validate/lets through 'n'",
	"C33-G7:NoRecompile/compiles under cacheRegex and !cacheRegex",
	"C33-G7:StalePattern.Eval/cachedVal under cacheVal",
	"C33-G7:StalePattern.compile/re under !cacheRegex",
	"C33-G7:StalePattern.compile/re under cacheRegex",
	"C33-G7:StaleVal.Eval/cachedVal under cacheVal",
	"C33-S1:fn.Lowered.Eval/SetMatchString.matchStr",
	"C33-S1:fn.NoUnwrap.Eval/SetMatchString.matchStr",
	"C33-S1:fn.OwnCompiler.compile/SetRegexString.regexStr",
}
