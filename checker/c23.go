package main

import (
	"fmt"
	"go/ast"
	"go/types"
	"os"

	"golang.org/x/tools/go/packages"
)

// C23 — triggers fire exactly once per affected row, inside the statement.
//
// What is decided is the *shape* of the four places that together make a trigger run:
//
//	T1/T5  the two iterators that execute trigger logic (rowexec.triggerIter, triggerBlockIter):
//	       one child row per call, logic built once and drained, closed, no error swallowed   (c23_exec.go)
//	T2     the row that is handed to the logic and the row that is handed on, and the writer /
//	       reader agreement on the OLD||NEW and input||updated row layouts                    (c23_flow.go, c23_layout.go)
//	T3     analyzer.applyTrigger puts BEFORE executors under the DML node and AFTER executors
//	       over it; the node kinds that edit rows are the kinds the trigger tables know        (c23_place.go)
//	T4     the order produced by plan.OrderTriggers is the order of application               (c23_order.go)
//
// Every anchor is resolved through go/types from the names below, so that the same rules run on
// the fixture packages under testdata/c23.
type c23Names struct {
	sqlRel, planRel, execRel, anRel, pbRel string

	rowIter string // interface with Next/Close
	rowType string // sql.Row
	builder string // rowexec.BaseBuilder
	buildFn string // BaseBuilder.buildNodeExec

	execNodes   []string // plan node types whose iterator executes trigger logic
	prependFn   string   // rowexec function producing the prepend transform
	selectorFn  string   // rowexec.shouldUseLogicResult
	setNode     string   // plan.Set
	blockNode   string   // plan.TriggerBeginEndBlock
	setBuild    string   // BaseBuilder.buildSet
	returningFn string   // triggerIter.getReturningRow (named exception of T2)

	updateSource string // rowexec.updateSourceIter
	updateIter   string // rowexec.updateIter
	rowUpdater   string // sql.RowUpdater
	logicFn      string // analyzer.getTriggerLogic
	aliasCtors   []string
	crossJoin    string
	createFn     string // planbuilder: Builder.buildCreateTrigger
	setAlias     string // planbuilder: scope.setTableAlias

	applyFn, applyOneFn string // analyzer.applyTriggers / applyTrigger
	newExecutor         string // plan.NewTriggerExecutor
	eventType           string // plan.TriggerEvent
	editorCtors         []string
	editOps             map[string]string // sql interface -> "Method=event constant name"
	dmlIters            map[string]string // plan node -> rowexec iterator type (read from the build functions, cross-checked)

	orderFn, orderWrapFn string // plan.OrderTriggers / analyzer.orderTriggersAndReverseAfter
	createNode           string // plan.CreateTrigger
	orderField           string // CreateTrigger.TriggerOrder
	timeField            string // CreateTrigger.TriggerTime
}

func c23RealNames() c23Names {
	return c23Names{
		sqlRel: "sql", planRel: "sql/plan", execRel: "sql/rowexec", anRel: "sql/analyzer", pbRel: "sql/planbuilder",
		rowIter: "RowIter", rowType: "Row", builder: "BaseBuilder", buildFn: "buildNodeExec",
		execNodes: []string{"TriggerExecutor", "TriggerBeginEndBlock"},
		prependFn: "prependRowInPlanForTriggerExecution", selectorFn: "shouldUseLogicResult",
		setNode: "Set", blockNode: "TriggerBeginEndBlock", setBuild: "buildSet", returningFn: "getReturningRow",
		updateSource: "updateSourceIter", updateIter: "updateIter", rowUpdater: "RowUpdater",
		logicFn: "getTriggerLogic", aliasCtors: []string{"NewTableAlias", "NewSubqueryAlias"}, crossJoin: "NewCrossJoin",
		createFn: "Builder.buildCreateTrigger", setAlias: "setTableAlias",
		applyFn: "applyTriggers", applyOneFn: "applyTrigger", newExecutor: "NewTriggerExecutor", eventType: "TriggerEvent",
		editorCtors: []string{"NewTableEditorIter", "NewCheckpointingTableEditorIter"},
		editOps: map[string]string{
			"RowInserter": "Insert=InsertTrigger", "RowUpdater": "Update=UpdateTrigger", "RowDeleter": "Delete=DeleteTrigger",
		},
		orderFn: "OrderTriggers", orderWrapFn: "orderTriggersAndReverseAfter",
		createNode: "CreateTrigger", orderField: "TriggerOrder", timeField: "TriggerTime",
	}
}

func init() {
	real := c23RealNames()
	fx := real
	fx.sqlRel, fx.planRel, fx.execRel, fx.anRel, fx.pbRel = "testdata/c23/sql", "testdata/c23/plan", "testdata/c23/rowexec", "testdata/c23/analyzer", "testdata/c23/planbuilder"
	register(&Property{
		ID:        "C23",
		Patterns:  []string{"./sql/analyzer", "./sql/rowexec"},
		Technique: "stateful CFG path exploration (go/cfg x a finite protocol state) of the trigger-executing iterators; def-use of the row variables; writer/reader agreement of row layouts read from slice/append shapes and scope constructors (go/types); placement and ordering read from the analyzer's type switches and the ordering function; asymmetric case-folding scan of name comparisons",
		Explanation: "A trigger runs because (1) analyzer.applyTriggers selects the triggers of the statement's event, orders them and wraps the DML node in plan.TriggerExecutor nodes, (2) rowexec builds a triggerIter per executor " +
			"(and a triggerBlockIter per BEGIN…END body), which pulls one row from its child, builds and drains the trigger logic for it and hands a row on. Decided: " +
			"(T1) once per row: in every iterator that executes trigger logic, each path to a returned row pulls exactly one child row, rules out the child's error/EOF before the logic runs and returns that error itself, " +
			"builds the logic exactly once (per statement of a block: exactly once per statement, all statements) and drains it until io.EOF; " +
			"(T5) inside the statement: a built logic iterator is closed on every path (closing is what completes or discards the edits of DML inside the body), and no error of build / Next / Close of the logic is swallowed — each reaches the caller, i.e. the triggering statement fails; Close of an executor closes its child (under an AFTER executor: the DML's table editor iterator) on every path and returns its error; " +
			"(T2) row flow: the logic is built on, and its sources are prepended with, the row pulled from the child (a block threads its current row through its statements); the rows handed on are the child's row or the last logic row selected by shouldUseLogicResult; " +
			"the input||updated layout written by buildSet is read back as the upper half by both readers; the old||new layout of UPDATE rows agrees between updateSourceIter (writer), updateIter (reader, RowUpdater.Update(old,new)) and the OLD/NEW scope that getTriggerLogic builds for every event; " +
			"planbuilder and analyzer offer the same aliases (new / old) per event; the rows a DML iterator returns to an AFTER executor have the width of that event's scope; " +
			"(T3) placement: for every DML node kind applyTrigger wraps the node's row source for BEFORE and the node itself for AFTER, the two analyzer switches (event detection, placement) cover exactly the node kinds whose build function opens a table editor and agree on the event; every editor operation a DML iterator performs is covered by the event the node is matched to; a trigger is selected only under a conjunction testing its table and its event, and every placement arm tests the trigger's event and table against the node it is about to wrap (a subtree can hold DML nodes of several kinds and tables, e.g. the branches of an IF in a trigger body); the roles of the executor's two children (child = first constructor parameter, logic = second; field, Children() index and accessor read from plan) are the roles buildTriggerExecutor, the selector of the placing transform (no descent into the logic of an executor placed earlier: otherwise the next trigger is also placed on DML inside that body) and the prepend selector use; " +
			"(T4) order: applyTriggers applies the triggers in the slice produced by the ordering function; OrderTriggers inserts a PRECEDES trigger at, a FOLLOWS trigger right after, the referenced one and splits the *reordered* slice; exactly the AFTER half is reversed before application (each application lands next to the DML node, so BEFORE triggers run in application order and AFTER triggers in reverse). " +
			"(T6) a trigger is found whatever the spelling of its table: in every analyzer function that handles trigger definitions, a string equality with one visibly lower-cased operand has the other operand lower-cased too (or constant) - this covers the guard that keeps DELETE from being rewritten to TRUNCATE when the table has a DELETE trigger.",
		NotCovered: "case-insensitive matching of names that no function folds at all (T6 only reports a comparison that folds one side); the values an arbitrary trigger body computes, reads or stores (expression evaluation, GetField index assignment by the analyzer, prepend-node execution); which plan shapes shouldUseLogicResult selects (it looks for SET NEW.x in the analysed body); run-time iteration counts beyond the path shape (e.g. a child that yields a row twice); " +
			"rollback of the trigger's and the statement's effects through savepoints: AddTriggerRollbackIter logs and ignores CreateSavepoint errors and the in-memory session does not implement savepoints, so that half is not claimed; DELETE with explicit targets / multi-table trigger sets (refused by applyTrigger); foreign-key cascades and TRUNCATE do not fire triggers (as in MySQL) and are outside the tables checked here",
		Run: func(c *Ctx) { runC23(c, real, false); runC23Fold(c, []string{"sql/analyzer"}, 4, c23UsesTriggerDefs("sql/plan", "CreateTrigger")) },
		Fixture: func(c *Ctx, fx2 *Prog) {
			expectFixture(c, fx2, "c23: planted defects in the fixture executors, layouts, placement and ordering must be reported", c23FixtureWant, func(fc *Ctx) { runC23(fc, fx, true) })
			expectFixture(c, fx2, "c23 fold: a trigger's table name compared as written with a lower-cased target name",
				[]string{"C23-T6:vchk/testdata/c23/analyzer.hasDeleteTriggerBad/nameOf(tr) == name"},
				func(fc *Ctx) { runC23Fold(fc, []string{"testdata/c23/analyzer"}, 0, c23UsesTriggerDefs("testdata/c23/plan", "CreateTrigger")) })
		},
		FixturePkgs: []string{"./testdata/c23/analyzer", "./testdata/c23/rowexec", "./testdata/c23/planbuilder"},
	})
}

// c23Env is what the rule files share.
type c23Env struct {
	c  *Ctx
	nm c23Names
	fx bool

	sqlPk, planPk, execPk, anPk, pbPk *packages.Package
	rowT                              types.Type
	iterNext, iterClose               *types.Func
	buildFn                           *types.Func
	scopeWidth                        map[string]int // event constant name -> number of table aliases in the analyzer scope
}

func (e *c23Env) floor(n int) int {
	if e.fx {
		return 0
	}
	return n
}

func runC23(c *Ctx, nm c23Names, fixture bool) {
	e := &c23Env{c: c, nm: nm, fx: fixture}
	c23DeclareRules(e)
	e.sqlPk, e.planPk, e.execPk, e.anPk, e.pbPk = c.P.Pkg(nm.sqlRel), c.P.Pkg(nm.planRel), c.P.Pkg(nm.execRel), c.P.Pkg(nm.anRel), c.P.Pkg(nm.pbRel)
	for rel, pk := range map[string]*packages.Package{nm.sqlRel: e.sqlPk, nm.planRel: e.planPk, nm.execRel: e.execPk, nm.anRel: e.anPk, nm.pbRel: e.pbPk} {
		if pk == nil {
			c.Undecided("C23-T1", "package "+rel, 0, "package not loaded: "+rel)
			return
		}
	}
	itn, _ := e.sqlPk.Types.Scope().Lookup(nm.rowIter).(*types.TypeName)
	rtn, _ := e.sqlPk.Types.Scope().Lookup(nm.rowType).(*types.TypeName)
	if itn == nil || rtn == nil {
		c.Undecided("C23-T1", "anchors", 0, "sql."+nm.rowIter+" or sql."+nm.rowType+" not found")
		return
	}
	e.rowT = rtn.Type()
	if obj, _, _ := types.LookupFieldOrMethod(itn.Type(), false, e.sqlPk.Types, "Next"); obj != nil {
		e.iterNext, _ = obj.(*types.Func)
	}
	if obj, _, _ := types.LookupFieldOrMethod(itn.Type(), false, e.sqlPk.Types, "Close"); obj != nil {
		e.iterClose, _ = obj.(*types.Func)
	}
	e.buildFn = LookupFunc(e.execPk, nm.builder+"."+nm.buildFn)
	if e.iterNext == nil || e.iterClose == nil || e.buildFn == nil {
		c.Undecided("C23-T1", "anchors", 0, "RowIter.Next/Close or "+nm.builder+"."+nm.buildFn+" not found")
		return
	}
	c23RunExec(e)
	c23RunFlow(e)
	c23RunLayout(e)
	c23RunPlace(e)
	c23RunOrder(e)
	c23RunGuards(e)
	if os.Getenv("C23_DEBUG") != "" {
		for _, o := range c.Obs {
			fmt.Printf("OBS %-7s %-10s %-70s %s | %s\n", o.Rule, o.Status, o.Key, o.Pos, o.Msg)
		}
	}
}

func c23DeclareRules(e *c23Env) {
	c := e.c
	c.Rule("C23-T1", "once per row: per iterator that executes trigger logic, every path to a returned row passes exactly one child.Next whose error/EOF was ruled out before the logic is built and is returned as is; the logic is built exactly once (block: once per statement, every statement) and drained to io.EOF", e.floor(4))
	c.Rule("C23-T5", "inside the statement: per iterator that executes trigger logic, a built logic iterator is closed on every path, and errors of build, Next and Close of the logic reach the caller (never discarded, never overwritten by a row return); Close of an executor closes its child on every path and hands on that error", e.floor(9))
	c.Rule("C23-T2", "row flow: the logic is built on / prepended with the child's row (block: its current row), the drain loop keeps the last logic row, and every returned row is the child's row or the row selected from the last logic row", e.floor(8))
	c.Rule("C23-L", "row layouts agree: buildSet writes input||updated and both readers take the upper half; UPDATE rows are old||new for the writer (updateSourceIter), the reader (updateIter: Update(old,new)) and the OLD/NEW scope of getTriggerLogic; planbuilder and analyzer offer the same aliases per event; rows returned to an AFTER executor have the width of the event's scope", e.floor(17))
	c.Rule("C23-T3", "placement: applyTrigger wraps the DML node's row source for BEFORE and the node itself for AFTER; detection and placement switches cover exactly the node kinds that open a table editor and agree on the event; every editor operation of a DML iterator belongs to the node's event; the executor's child/logic roles (constructor fields, Children() index, accessors) are the ones the build function, the placing transform's selector and the prepend selector use; triggers are selected by table AND event, and each placement arm tests the trigger's event and table against its node", e.floor(22))
	c.Rule("C23-T4", "order: the application loop ranges over the ordering function's result; OrderTriggers inserts PRECEDES at / FOLLOWS after the referenced trigger and splits the reordered slice by time; exactly the AFTER half is reversed", e.floor(6))
}

// ---- small shared helpers ------------------------------------------------------------------------

func c23Deref(t types.Type) *types.Named {
	if t == nil {
		return nil
	}
	t = types.Unalias(t)
	if p, ok := t.(*types.Pointer); ok {
		t = types.Unalias(p.Elem())
	}
	nt, _ := t.(*types.Named)
	return nt
}

func c23IsNamed(t types.Type, pk *packages.Package, name string) bool {
	nt := c23Deref(t)
	return nt != nil && nt.Obj().Pkg() == pk.Types && nt.Obj().Name() == name
}

func c23Obj(info *types.Info, e ast.Expr) types.Object {
	id, ok := ast.Unparen(e).(*ast.Ident)
	if !ok {
		return nil
	}
	if o := info.Defs[id]; o != nil {
		return o
	}
	return info.Uses[id]
}

func c23RecvObj(info *types.Info, fd *ast.FuncDecl) types.Object {
	if fd.Recv == nil || len(fd.Recv.List) == 0 || len(fd.Recv.List[0].Names) == 0 {
		return nil
	}
	return info.Defs[fd.Recv.List[0].Names[0]]
}

// c23FieldOfRecv reports whether e is recv.f (one selection on the receiver variable).
func c23FieldOfRecv(info *types.Info, e ast.Expr, recv types.Object) bool {
	se, ok := ast.Unparen(e).(*ast.SelectorExpr)
	if !ok || recv == nil {
		return false
	}
	return c23Obj(info, se.X) == recv
}

// c23Calls lists the call expressions inside n in source order, not entering function literals.
func c23Calls(n ast.Node) []*ast.CallExpr {
	var out []*ast.CallExpr
	ast.Inspect(n, func(m ast.Node) bool {
		switch x := m.(type) {
		case *ast.FuncLit:
			return false
		case *ast.CallExpr:
			out = append(out, x)
		}
		return true
	})
	return out
}

func c23IsNilLit(info *types.Info, e ast.Expr) bool { return isNilIdent(info, e) }

// c23MethodsOf lists the declared methods (with bodies) of a named type of pk.
func c23MethodsOf(p *Prog, pk *packages.Package, typeName string) []*ast.FuncDecl {
	var out []*ast.FuncDecl
	for _, f := range pk.Syntax {
		for _, d := range f.Decls {
			if fd, ok := d.(*ast.FuncDecl); ok && fd.Body != nil && fd.Recv != nil {
				if i := len(typeName); len(DeclName(fd)) > i && DeclName(fd)[:i] == typeName && DeclName(fd)[i] == '.' {
					out = append(out, fd)
				}
			}
		}
	}
	return out
}

// c23FixtureWant is what the rules must report on testdata/c23 (one planted defect per construct; every other
// construct of the fixture is a correct sibling the rules must accept).
var c23FixtureWant = []string{
	"C23-T1:triggerIter.Next/logic-once-drained",                     // drain loop stops after the first row
	"C23-T1:triggerBlockIter.Next/logic-once-drained",                // a statement can be skipped
	"C23-T5:triggerIter.Next/close-error-propagated",                 // deferred Close drops its error
	"C23-T5:triggerBlockIter.Next/logic-iter-closed",                 // failing statement's iterator left open
	"C23-T2:triggerIter.Next/logic-input-row",                        // logic built on the (nil) named result
	"C23-L:buildSet/input-then-updated",                              // updated||input
	"C23-L:shouldUseLogicResult/Set",                                 // lower half
	"C23-L:triggerBlockIter.Next/statement-result-upper-half",        // lower half
	"C23-L:updateIter.Next/Update(lower,upper)",                      // Update(new, old)
	"C23-L:getTriggerLogic/UpdateTrigger/NewTableAlias",              // CrossJoin(new, old)
	"C23-L:aliases/DeleteTrigger",                                    // planbuilder offers NEW to DELETE triggers
	"C23-L:insertIter.Next/row-width:doubled-make",                   // doubled row to a one-table scope
	"C23-T3:dml-kind/Merge",                                          // editor-opening node kind without trigger arms
	"C23-T3:event/DeleteFrom",                                        // detection says UPDATE, placement DELETE
	"C23-T3:deleteIter/RowDeleter.Delete",                            // … so the delete operation is not covered
	"C23-T3:insertIter/RowDeleter.Delete",                            // replace path deletes under an INSERT-only match
	"C23-T3:applyTrigger/Update/after",                               // AFTER executor under the node
	"C23-T3:applyTrigger/Update/trigger-matches-node",                // arm places any selected trigger on the node
	"C23-T3:applyTrigger/selector-skips-logic-child",                 // selector skips child 0, not the logic
	"C23-T3:prependRowForTriggerExecutionSelector/skips-logic-child", // prepend selector skips the wrapped child
	"C23-T3:applyTriggers/selects-by-table-and-event",                // selected by event only
	"C23-T5:triggerIter.Close/closes-child",                          // child's Close error dropped
	"C23-T4:applyTriggers/applies-ordered-slice",                     // catalog order applied
	"C23-T4:OrderTriggers/FOLLOWS",                                   // re-inserted at the referenced index
	"C23-T4:OrderTriggers/splits-reordered-slice",                    // split ranges over the input
	"C23-T4:orderTriggersAndReverseAfter/reverses-after-half",        // BEFORE half reversed
}
