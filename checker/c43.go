package main

import (
	"fmt"
	"go/ast"
	"go/constant"
	"go/token"
	"go/types"
	"os"
	"sort"
	"strings"

	"golang.org/x/tools/go/packages"
)

func init() {
	register(&Property{
		ID:        "C43",
		Patterns:  []string{"./sql/information_schema", "./sql/rowexec"},
		Technique: "shape reading of sql.Row / sql.Schema builders (composite literals, NewRow, append chains, returns of resolved callees) under flag/type-switch guards, compared column by column; registry table extraction from the map literal; who-may-write over package variables and table fields; required-source tables over the package-local call closure; must-reach-a-return of catalog errors on go/cfg; definite assignment of loop-carried row variables; boolean-equivalence folding of run-scan tests; accumulator cross-append scan",
		Explanation: "Structural necessary conditions for information_schema and SHOW to reflect the catalog. " +
			"(L1) layout arity: every output row a table's reader (and its package-local callees) or a SHOW executor (its helpers and the Next method of the iterator it constructs) builds — sql.Row literals, sql.NewRow calls, rows extended by append under a node flag — has exactly as many elements as the sql.Schema the table declares / the plan node's Schema() returns under the same flag or type-switch arm; " +
			"(L2) layout kinds: where the static Go type of element i is a string, integer, float, bool or time.Time, column i is declared with a SQL type of that kind (string←string, integer←integer, float←float|integer, datetime←time.Time, enum/set←string|integer), so a definition cannot land under the column of another attribute; " +
			"(R1) registration: every entry of the information_schema registry (map literal of GetInformationSchemaTables plus the constant-key overrides in NewInformationSchemaDatabase) has key == table name, a readable non-empty schema whose columns all carry that table as Source, and a non-nil reader; every declared schema variable and every reader function is registered by exactly one entry (the shared empty reader excepted); " +
			"(M1) live reads: no function of the information_schema package or of the SHOW executors assigns a package-level variable; the only fields of information_schema table objects written after construction are the frozen set (catalog handle, ROUTINES' per-statement procedure map, COLUMNS' column memo, partition cursor); a table type that memoises catalog objects in a field is constructed afresh by the database's GetTableInsensitive instead of being served from the long-lived registry; " +
			"(E1) common enumeration: each of the ten tables of the property and each catalog-reading SHOW executor calls, inside its loop over all databases, the catalog interfaces that own the listed objects (GetTableNames/DBTableIter, ViewsInDatabase = ViewDatabase.AllViews + session view registry, GetIndexes, GetDeclaredForeignKeys, GetChecks, GetTriggers, GetStoredProcedures), the databases coming from AllDatabasesWithNames; and, for table-, view-, index-, foreign-key- and check-level listings, the loop over the enumerated objects (or the DBTableIter callback) builds output rows; (E2) every reader passes the same privilege-unwrapping argument to AllDatabasesWithNames, so TABLES, COLUMNS, STATISTICS… apply one visibility filter; " +
			"(X1) error discipline: the error result of every catalog enumeration call in a reader or SHOW executor is bound and reaches a return statement that propagates it (named exceptions: the dropped referenced table in REFERENTIAL_CONSTRAINTS, the no-auto-increment sentinel); " +
			"(S1) no carry-over between listed objects: a variable that is declared outside an enumeration loop/callback, assigned inside it and placed in an output row is assigned on every path of the iteration before the row is built, so one object's row never shows the previous object's value. " +
			"(N1) run extraction: where a reader cuts the elements of one object out of a list of all objects' elements with a two-phase scan (`s < 0 && P` starts the run, `s >= 0 && Q` ends it), Q is the negation of P on every assignment of their atoms (a != b normalised to not a == b), so the run holds exactly that object's elements (COLUMNS: SchemaForTable). " +
			"(S2) accumulators are not crossed: where a reader sorts the enumerated objects into several slices grown by self-append (TRIGGERS: before/after x insert/update/delete), no assignment `a = append(b, ...)` takes one accumulator from another.",
		NotCovered: "That the listed contents equal a catalog model after arbitrary DDL histories (values of names, definitions, ordinal positions, privileges filtering of individual rows); elements of static type interface{} and literal nil (skipped by L2, counted in a note); whether a string element holds the right attribute among several string columns; rows built by forms outside the read subset (reported as notes); who fills ShowIndexes.IndexesToShow / ShowTriggers.Triggers / ShowCreateTable.Indexes and ROUTINES' procedure map (planbuilder/analyzer, not loaded in the quick tier); type-switch subjects are assumed to be the same child node on both sides; view definitions that fail to re-parse are skipped by the engine on purpose (not an enumeration error); concurrency of the shared table objects.",
		Run: func(c *Ctx) {
			runC43(c, c43RepoCfg())
			c.Rule("C43-N1", "run extraction (two-phase scan over a position variable: `s < 0 && P` starts the run, `s >= 0 && Q` ends it): Q is the negation of P on every assignment of their atoms, so the run holds exactly the elements of the object it was started for", 1)
			ruleRunComplement(c, "C43-N1", []string{"sql/information_schema", "sql/rowexec"})
			c.Rule("C43-S2", "accumulators are not crossed: in a reader that grows several slices by self-append, no `a = append(b, ...)` assigns one accumulator from another", 3)
			ruleAccumulatorsNotCrossed(c, "C43-S2", []string{"sql/information_schema", "sql/rowexec"})
		},
		Fixture: func(c *Ctx, fx *Prog) {
			expectFixture(c, fx, "c43: short row, swapped kinds, flag-dependent arity, unregistered schema, key/name mismatch, nil reader, shared reader, package cache, new field write, memo served from the registry, missing source, deviating visibility argument, swallowed error, carried-over variable must be reported",
				c43FixtureWant, func(fc *Ctx) { runC43(fc, c43FixtureCfg()) })
			expectFixture(c, fx, "c43 run: the end test of a run forgets one of the conjuncts of the start test",
				[]string{"C43-N1:RunBad/run over start"},
				func(fc *Ctx) { ruleRunComplement(fc, "C43-N1", []string{"testdata/c43/is"}) })
			expectFixture(c, fx, "c43 append: one class accumulator assigned from another",
				[]string{"C43-S2:SortBad/afterU = append(beforeU, ...)"},
				func(fc *Ctx) { ruleAccumulatorsNotCrossed(fc, "C43-S2", []string{"testdata/c43/is"}) })
		},
		FixturePkgs: []string{"./testdata/c43/is", "./testdata/c43/exec"},
	})
}

type c43Need struct {
	what    string   // what the reader must enumerate
	anyOf   []string // FullName-style suffixes (pkgRel.Type.Method / pkgRel.Func) of which one must be called
	perDB   bool     // must occur inside the loop over the databases
	emits   bool     // the loop over the enumerated objects (or the DBTableIter callback) must build output rows
	comment string
}

type c43Cfg struct {
	isRel, sqlRel, planRel, execRel string
	registryFunc, ctorFunc          string
	dbType, lookupMethod            string
	dbEnum                          string // package-level function variable enumerating databases
	emptyReader                     string
	execFiles                       []string // files of execRel holding the SHOW executors ("" = all)
	execPrefix                      string   // executor methods are named <prefix>Show…
	execRecv                        string
	needs                           map[string][]c43Need // reader / executor function -> required sources
	sources                         []string             // catalog enumeration calls subject to X1
	x1Exc                           map[string]string    // fn/callee -> reason
	l2Exc                           map[string]string    // owner (table / node) -> reason
	s1Exc                           map[string]string    // fn/var -> reason
	fieldWrites                     map[string]string    // Type.field -> reason (frozen set for M1)
	floors                          map[string]int
}

func c43RepoCfg() c43Cfg {
	dbs := c43Need{what: "all databases", anyOf: []string{"sql/information_schema.AllDatabasesWithNames"}}
	tables := c43Need{what: "table names of each database", anyOf: []string{"sql.DBTableIter", "sql.Database.GetTableNames"}, perDB: true, emits: true}
	views := c43Need{what: "views of each database (persisted + session registry)", anyOf: []string{"sql/information_schema.ViewsInDatabase"}, perDB: true, emits: true}
	indexes := c43Need{what: "indexes of each table", anyOf: []string{"sql.IndexAddressable.GetIndexes"}, perDB: true, emits: true}
	fks := c43Need{what: "declared foreign keys of each table", anyOf: []string{"sql.ForeignKeyTable.GetDeclaredForeignKeys"}, perDB: true, emits: true}
	checks := c43Need{what: "check constraints of each table", anyOf: []string{"sql.CheckTable.GetChecks"}, perDB: true, emits: true}
	triggers := c43Need{what: "triggers of each database", anyOf: []string{"sql.TriggerDatabase.GetTriggers"}, perDB: true}
	return c43Cfg{
		isRel: "sql/information_schema", sqlRel: "sql", planRel: "sql/plan", execRel: "sql/rowexec",
		registryFunc: "GetInformationSchemaTables", ctorFunc: "NewInformationSchemaDatabase",
		dbType: "informationSchemaDatabase", lookupMethod: "GetTableInsensitive",
		dbEnum: "AllDatabasesWithNames", emptyReader: "emptyReader",
		execFiles: []string{"sql/rowexec/show.go", "sql/rowexec/show_iters.go"}, execPrefix: "buildShow", execRecv: "BaseBuilder",
		needs: map[string][]c43Need{
			"tablesRowIter":                 {dbs, tables, views},
			"columnsRowIter":                {dbs, tables, views},
			"statisticsRowIter":             {dbs, tables, indexes},
			"keyColumnUsageRowIter":         {dbs, tables, indexes, fks},
			"tableConstraintsRowIter":       {dbs, tables, checks, indexes, fks},
			"referentialConstraintsRowIter": {dbs, tables, fks},
			"checkConstraintsRowIter":       {dbs, tables, checks},
			"triggersRowIter":               {dbs, triggers},
			"viewsRowIter":                  {dbs, views},
			"routinesRowIter":               {{what: "the database of each routine group", anyOf: []string{"sql.DatabaseProvider.Database", "sql.Catalog.Database"}}},
			"allDatabasesWithNames": {{what: "all databases of the catalog", anyOf: []string{"sql.DatabaseProvider.AllDatabases", "sql.Catalog.AllDatabases"}}},
			"DBTableIter": {
				{what: "table names of the database", anyOf: []string{"sql.Database.GetTableNames"}},
				{what: "each named table", anyOf: []string{"sql.Database.GetTableInsensitive"}},
			},
			"ViewsInDatabase": {
				{what: "views persisted by the database", anyOf: []string{"sql.ViewDatabase.AllViews"}},
				{what: "views of the session registry", anyOf: []string{"sql.ViewRegistry.ViewsInDatabase"}},
			},
			"BaseBuilder.buildShowTables": {
				{what: "table names of the database", anyOf: []string{"sql.Database.GetTableNames"}, emits: true},
				{what: "views persisted by the database", anyOf: []string{"sql.ViewDatabase.AllViews"}, emits: true},
				{what: "views of the session registry", anyOf: []string{"sql.ViewRegistry.ViewsInDatabase"}, emits: true},
			},
			"BaseBuilder.buildShowTableStatus":     {{what: "table names of the database", anyOf: []string{"sql.Database.GetTableNames"}, emits: true}},
			"BaseBuilder.buildShowCreateTable":     {{what: "declared foreign keys of the table", anyOf: []string{"sql.ForeignKeyTable.GetDeclaredForeignKeys"}}},
			"BaseBuilder.buildShowCreateTrigger":   {{what: "triggers of the database", anyOf: []string{"sql.TriggerDatabase.GetTriggers"}}},
			"BaseBuilder.buildShowCreateProcedure": {{what: "stored procedures of the database", anyOf: []string{"sql.StoredProcedureDatabase.GetStoredProcedures"}}},
			"BaseBuilder.buildShowDatabases":       {{what: "all databases", anyOf: []string{"sql.DatabaseProvider.AllDatabases", "sql.Catalog.AllDatabases"}}},
		},
		sources: []string{
			"sql/information_schema.AllDatabasesWithNames", "sql/information_schema.ViewsInDatabase", "sql.DBTableIter",
			"sql.Database.GetTableNames", "sql.Database.GetTableInsensitive", "sql.VersionedDatabase.GetTableNamesAsOf",
			"sql.Catalog.DatabaseTable", "sql.Catalog.Table", "sql.TableProvider.Table", "sql.TableProvider.DatabaseTable", "sql.DatabaseProvider.Database", "sql.Catalog.Database",
			"sql.IndexAddressable.GetIndexes", "sql.ForeignKeyTable.GetDeclaredForeignKeys", "sql.CheckTable.GetChecks",
			"sql.TriggerDatabase.GetTriggers", "sql.ViewDatabase.AllViews", "sql.StoredProcedureDatabase.GetStoredProcedures", "sql.EventDatabase.GetEvents",
			"sql.StatisticsTable.RowCount", "sql.StatisticsTable.DataLength", "sql.AutoIncrementGetter.PeekNextAutoIncrementValue", "sql.AutoIncrementTable.PeekNextAutoIncrementValue",
		},
		x1Exc: map[string]string{
			"BaseBuilder.buildShowDatabases/DatabaseProvider.Database": "existence probe for the mysql database (`if _, err := Database(\"mysql\"); err == nil`): an error means the database is not listed",
		},
		l2Exc: map[string]string{
			"ShowReplicaStatus": "replication status, not a catalog listing: every column is declared VarChar(64) by design and the numeric Go values are rendered by StringType.Convert",
		},
		s1Exc: map[string]string{
			"tablesRowIter/engine":    "assigned for every database except information_schema, which Catalog.AllDatabases lists first: no earlier value exists to carry over",
			"tablesRowIter/rowFormat": "assigned for every database except information_schema, which Catalog.AllDatabases lists first: no earlier value exists to carry over",
		},
		fieldWrites: map[string]string{
			"InformationSchemaTable.catalog":       "live catalog handle assigned by the analyzer (AssignCatalog), not catalog objects",
			"ColumnsTable.catalog":                 "live catalog handle assigned by the analyzer (AssignCatalog), not catalog objects",
			"routineTable.catalog":                 "live catalog handle assigned by the analyzer (AssignCatalog), not catalog objects",
			"routineTable.procedures":              "per-statement procedure map: overwritten by analyzer.assignRoutines for every statement that resolves ROUTINES/PARAMETERS, never read back as a memo",
			"ColumnsTable.allColsWithDefaultValue": "per-statement column memo; M1 requires ColumnsTable to be constructed afresh by GetTableInsensitive",
			"informationSchemaPartitionIter.pos":   "cursor of the single-partition iterator",
		},
		floors: map[string]int{"L1": 71, "R1": 150, "R2": 32, "M1": 90, "E1": 64, "E2": 16, "X1": 65, "S1": 6},
	}
}

func c43FixtureCfg() c43Cfg {
	return c43Cfg{
		isRel: "testdata/c43/is", sqlRel: "testdata/c43/sql", planRel: "testdata/c43/plan", execRel: "testdata/c43/exec",
		registryFunc: "GetTables", ctorFunc: "NewDatabase", dbType: "isDatabase", lookupMethod: "GetTableInsensitive",
		dbEnum: "AllDatabasesWithNames", emptyReader: "emptyReader", execPrefix: "buildShow", execRecv: "Builder",
		needs: map[string][]c43Need{
			"tablesRowIter": {
				{what: "all databases", anyOf: []string{"testdata/c43/is.AllDatabasesWithNames"}},
				{what: "table names of each database", anyOf: []string{"testdata/c43/sql.Database.GetTableNames"}, perDB: true, emits: true},
			},
			"emptiedRowIter": {
				{what: "table names of each database", anyOf: []string{"testdata/c43/sql.Database.GetTableNames"}, perDB: true, emits: true},
			},
			"indexesRowIter": {
				{what: "all databases", anyOf: []string{"testdata/c43/is.AllDatabasesWithNames"}},
				{what: "indexes of each table", anyOf: []string{"testdata/c43/sql.IndexAddressable.GetIndexes"}, perDB: true},
			},
			"currentOnlyRowIter": {
				{what: "all databases", anyOf: []string{"testdata/c43/is.AllDatabasesWithNames"}},
				{what: "table names of each database", anyOf: []string{"testdata/c43/sql.Database.GetTableNames"}, perDB: true},
			},
		},
		sources: []string{"testdata/c43/is.AllDatabasesWithNames", "testdata/c43/sql.Database.GetTableNames", "testdata/c43/sql.Database.GetTableInsensitive", "testdata/c43/sql.IndexAddressable.GetIndexes"},
		x1Exc:   map[string]string{},
		s1Exc:   map[string]string{},
		fieldWrites: map[string]string{
			"Table.catalog":     "catalog handle",
			"memoTable.catalog": "catalog handle",
			"memoTable.cols":    "memo (must be constructed afresh)",
			"goodMemo.catalog":  "catalog handle",
			"goodMemo.cols":     "memo (constructed afresh)",
		},
		floors: map[string]int{},
	}
}

var c43FixtureWant = []string{
	"C43-L1:short/shortRowIter[db.Database.Name()…]",
	"C43-L2:swapped/swappedRowIter[db.Database.Name()…]",
	"C43-L1:ShowThings/Builder.buildShowThings[name…] when Full",
	"C43-L2:ShowIdx/idxIter.Next[i.name…]",
	"C43-R1:schema/orphanSchema",
	"C43-R1:misnamed",
	"C43-R1:noreader",
	"C43-R1:wrongsource",
	"C43-R2:reader/sharedRowIter",
	"C43-R2:reader/orphanRowIter",
	"C43-M1:var/nameCache",
	"C43-M1:var/showCache",
	"C43-M1:field/Table.lastRows",
	"C43-M1:memo/memoTable.cols",
	"C43-E1:indexesRowIter/indexes of each table",
	"C43-E1:currentOnlyRowIter/table names of each database",
	"C43-E1:emptiedRowIter/table names of each database: rows",
	"C43-E2:currentOnlyRowIter/AllDatabasesWithNames(true)",
	"C43-X1:indexesRowIter/Database.GetTableInsensitive",
	"C43-X1:swallowRowIter/IndexAddressable.GetIndexes",
	"C43-S1:tablesRowIter/nrows",
}

// c43Entry is one registry entry.
type c43Entry struct {
	key       string
	pos       token.Pos
	typ       *types.TypeName
	name      ast.Expr
	schema    ast.Expr
	reader    ast.Expr
	via       string
	readerFn  *types.Func
	schemaVar *types.Var
	info      *types.Info
	readable  string // "" or why not
}

type c43Run struct {
	c     *Ctx
	cfg   c43Cfg
	lay   *c43Layout
	isPk  *packages.Package
	sqlPk *packages.Package
	plPk  *packages.Package
	exPk  *packages.Package
	row   *c43Seq
	sch   *c43Seq
	r2i   *types.Func // RowsToRowIter
	iter  *types.Interface
}

func (r *c43Run) floor(k string) int {
	if r.c.fixtureMode {
		return 0
	}
	return r.cfg.floors[k]
}

func runC43(c *Ctx, cfg c43Cfg) {
	r := &c43Run{c: c, cfg: cfg, lay: newC43Layout(c.P)}
	c.Rule("C43-L1", "every output row built for an information_schema table / SHOW node has as many elements as the declared schema has columns under the same flag / type-switch arm", r.floor("L1"))
	c.Rule("C43-L2", "every output row element of a known static Go kind sits under a column declared with a SQL type of that kind", r.floor("L1"))
	c.Rule("C43-R1", "registry entries: key == table name, readable non-empty schema with Source == key, non-nil reader; every schema variable registered exactly once", r.floor("R1"))
	c.Rule("C43-R2", "every reader function is registered by exactly one entry (the shared empty reader excepted); no unregistered reader", r.floor("R2"))
	c.Rule("C43-M1", "no package-level variable is assigned by a function; table-object fields written after construction are the frozen set; memoising table types are constructed afresh by GetTableInsensitive", r.floor("M1"))
	c.Rule("C43-E1", "readers / SHOW executors call the catalog interface that owns the listed objects, per database", r.floor("E1"))
	c.Rule("C43-E2", "all readers pass the same privilege-unwrapping argument to the database enumeration", r.floor("E2"))
	c.Rule("C43-X1", "the error of every catalog enumeration call is bound and reaches a return that propagates it", r.floor("X1"))
	c.Rule("C43-S1", "row variables declared outside an enumeration loop/callback and assigned inside it are assigned on every path of the iteration before the row is built", r.floor("S1"))

	r.isPk, r.sqlPk, r.plPk, r.exPk = c.P.Pkg(cfg.isRel), c.P.Pkg(cfg.sqlRel), c.P.Pkg(cfg.planRel), c.P.Pkg(cfg.execRel)
	if r.isPk == nil || r.sqlPk == nil || r.plPk == nil || r.exPk == nil {
		c.Undecided("C43-L1", "packages", 0, "anchor packages not loaded")
		return
	}
	rowTN, _ := r.sqlPk.Types.Scope().Lookup("Row").(*types.TypeName)
	schTN, _ := r.sqlPk.Types.Scope().Lookup("Schema").(*types.TypeName)
	newRow, _ := r.sqlPk.Types.Scope().Lookup("NewRow").(*types.Func)
	r.r2i, _ = r.sqlPk.Types.Scope().Lookup("RowsToRowIter").(*types.Func)
	itTN, _ := r.sqlPk.Types.Scope().Lookup("RowIter").(*types.TypeName)
	if rowTN == nil || schTN == nil || newRow == nil || r.r2i == nil || itTN == nil {
		c.Undecided("C43-L1", "sql.Row/Schema/NewRow/RowsToRowIter/RowIter", 0, "anchor declarations not found in "+cfg.sqlRel)
		return
	}
	r.iter, _ = itTN.Type().Underlying().(*types.Interface)
	r.row = &c43Seq{named: rowTN, ctor: newRow}
	r.sch = &c43Seq{named: schTN}

	entries := r.readRegistry()
	r.ruleRegistry(entries)
	r.ruleLayoutIS(entries)
	execs := r.execFuncs()
	r.ruleLayoutShow(execs)
	var readers []*types.Func
	seenR := map[*types.Func]bool{}
	for _, e := range entries {
		if e.readerFn != nil && !seenR[e.readerFn] {
			seenR[e.readerFn] = true
			readers = append(readers, e.readerFn)
		}
	}
	r.ruleLive(entries, readers, execs)
	r.ruleEnumeration(readers, execs)
	r.ruleErrors(readers, execs)
	r.ruleCarry(readers, execs)
	if os.Getenv("C43_DEBUG") != "" && !c.fixtureMode {
		for _, o := range c.Obs {
			fmt.Fprintf(os.Stderr, "C43DBG %s|%s|%s|%s|%s\n", o.Rule, o.Key, o.Status, o.Pos, o.Msg)
		}
	}
}

// ---- registry ----------------------------------------------------------------------------------------------

// resolveTableLit follows a registry value to the composite literal of the table object.
func (r *c43Run) resolveTableLit(info *types.Info, e ast.Expr, depth int) (*ast.CompositeLit, *types.Info, string) {
	e = ast.Unparen(e)
	if depth > 6 {
		return nil, nil, "too deep"
	}
	if u, ok := e.(*ast.UnaryExpr); ok && u.Op == token.AND {
		e = ast.Unparen(u.X)
	}
	switch x := e.(type) {
	case *ast.CompositeLit:
		if _, ok := info.TypeOf(x).Underlying().(*types.Struct); ok {
			return x, info, ""
		}
		return nil, nil, "literal is not a struct"
	case *ast.CallExpr:
		fn := Callee(info, x)
		if fn == nil {
			fn = c43FuncVarTarget(r.c.P, info, x.Fun)
		}
		if fn == nil {
			return nil, nil, "constructor call not resolvable: " + types.ExprString(x.Fun)
		}
		fd, pk := r.c.P.Decl(fn), r.c.P.PkgOf(fn)
		if fd == nil || fd.Body == nil || pk == nil {
			return nil, nil, "constructor " + fn.Name() + " has no body"
		}
		var rets []*ast.ReturnStmt
		c43InspectOwn(fd.Body, func(n ast.Node) {
			if rs, ok := n.(*ast.ReturnStmt); ok {
				rets = append(rets, rs)
			}
		})
		if len(rets) != 1 || len(rets[0].Results) < 1 {
			return nil, nil, "constructor " + fn.Name() + " does not have a single return"
		}
		return r.resolveTableLit(pk.TypesInfo, rets[0].Results[0], depth+1)
	}
	return nil, nil, "value is not a table literal or constructor call: " + types.ExprString(e)
}

func (r *c43Run) fillEntry(en *c43Entry, lit *ast.CompositeLit, info *types.Info, outer bool) {
	if outer {
		if n, ok := types.Unalias(info.TypeOf(lit)).(*types.Named); ok {
			en.typ = n.Obj()
		}
	}
	for _, f := range lit.Elts {
		kv, ok := f.(*ast.KeyValueExpr)
		if !ok {
			en.readable = "positional table literal"
			return
		}
		t := info.TypeOf(kv.Value)
		if t == nil {
			continue
		}
		switch {
		case r.sch.is(t):
			en.schema, en.info = kv.Value, info
		case isNilIdent(info, kv.Value):
			// a nil field: decide by the field's declared type
			if id, ok := kv.Key.(*ast.Ident); ok {
				if fv, ok := info.Uses[id].(*types.Var); ok {
					if _, isSig := fv.Type().Underlying().(*types.Signature); isSig {
						en.reader, en.info = kv.Value, info
					} else if r.sch.is(fv.Type()) {
						en.schema, en.info = kv.Value, info
					}
				}
			}
		default:
			if sig, ok := t.Underlying().(*types.Signature); ok && sig.Results().Len() >= 1 {
				if n, ok := types.Unalias(sig.Results().At(0).Type()).(*types.Named); ok && n.Obj().Name() == "RowIter" {
					en.reader, en.info = kv.Value, info
				}
			} else if b, ok := t.Underlying().(*types.Basic); ok && b.Info()&types.IsString != 0 {
				en.name = kv.Value
				if en.info == nil {
					en.info = info
				}
			} else if inner, iinfo, why := r.resolveTableLit(info, kv.Value, 5); inner != nil && why == "" {
				if _, isStruct := iinfo.TypeOf(inner).Underlying().(*types.Struct); isStruct {
					if n, ok := types.Unalias(iinfo.TypeOf(inner)).(*types.Named); ok && n.Obj().Pkg() == r.isPk.Types {
						r.fillEntry(en, inner, iinfo, false)
					}
				}
			}
		}
	}
}

func (r *c43Run) readRegistry() []*c43Entry {
	c, cfg := r.c, r.cfg
	pk, fd := c.P.FuncDecl(cfg.isRel, cfg.registryFunc)
	if fd == nil || fd.Body == nil {
		c.Undecided("C43-R1", cfg.registryFunc, 0, "registry function not found in "+cfg.isRel)
		return nil
	}
	info := pk.TypesInfo
	var lit *ast.CompositeLit
	c43InspectOwn(fd.Body, func(n ast.Node) {
		if rs, ok := n.(*ast.ReturnStmt); ok && len(rs.Results) == 1 {
			if cl, ok := ast.Unparen(rs.Results[0]).(*ast.CompositeLit); ok {
				if _, isMap := info.TypeOf(cl).Underlying().(*types.Map); isMap {
					lit = cl
				}
			}
		}
	})
	if lit == nil {
		c.Undecided("C43-R1", cfg.registryFunc, fd.Pos(), "registry function does not return a map literal")
		return nil
	}
	byKey := map[string]*c43Entry{}
	var order []string
	addEntry := func(keyE, val ast.Expr, via string) {
		tv, ok := info.Types[keyE]
		if !ok || tv.Value == nil || tv.Value.Kind() != constant.String {
			c.Undecided("C43-R1", via+"/non-constant-key", keyE.Pos(), "registry key is not a constant string")
			return
		}
		key := constant.StringVal(tv.Value)
		en := &c43Entry{key: key, pos: keyE.Pos(), via: via}
		l, linfo, why := r.resolveTableLit(info, val, 0)
		if l == nil {
			en.readable = why
		} else {
			r.fillEntry(en, l, linfo, true)
		}
		if _, dup := byKey[key]; dup && via == "map literal" {
			c.Bad("C43-R1", key+" (duplicate key)", keyE.Pos(), "table name registered twice in the map literal")
		} else if !dup {
			order = append(order, key)
		}
		byKey[key] = en
	}
	for _, el := range lit.Elts {
		kv := el.(*ast.KeyValueExpr)
		addEntry(kv.Key, kv.Value, "map literal")
	}
	// constant-key overrides in the database constructor
	if _, cfd := c.P.FuncDecl(cfg.isRel, cfg.ctorFunc); cfd != nil && cfd.Body != nil {
		ast.Inspect(cfd.Body, func(n ast.Node) bool {
			as, ok := n.(*ast.AssignStmt)
			if !ok || len(as.Lhs) != 1 || len(as.Rhs) != 1 {
				return true
			}
			ix, ok := ast.Unparen(as.Lhs[0]).(*ast.IndexExpr)
			if !ok {
				return true
			}
			if _, isMap := info.TypeOf(ix.X).Underlying().(*types.Map); !isMap {
				return true
			}
			if tv, ok := info.Types[ix.Index]; ok && tv.Value != nil {
				addEntry(ix.Index, as.Rhs[0], "override in "+cfg.ctorFunc)
			} else {
				c.Note("C43-R1", "hook/"+types.ExprString(ix.Index), as.Pos(), "entries added under a non-constant key in "+cfg.ctorFunc+" (hook for other modules): not decided")
			}
			return true
		})
	} else {
		c.Undecided("C43-R1", cfg.ctorFunc, 0, "database constructor not found")
	}
	var out []*c43Entry
	for _, k := range order {
		en := byKey[k]
		if en.info != nil {
			if en.reader != nil && !isNilIdent(en.info, en.reader) {
				switch f := ast.Unparen(en.reader).(type) {
				case *ast.Ident:
					en.readerFn, _ = en.info.Uses[f].(*types.Func)
				case *ast.SelectorExpr:
					en.readerFn, _ = en.info.Uses[f.Sel].(*types.Func)
				}
			}
			if en.schema != nil {
				if id, ok := ast.Unparen(en.schema).(*ast.Ident); ok {
					en.schemaVar, _ = en.info.Uses[id].(*types.Var)
				}
			}
		}
		out = append(out, en)
	}
	return out
}

func (r *c43Run) schemaCols(info *types.Info, pk *packages.Package, e ast.Expr) ([]c43Col, string) {
	fi := &c43FnInfo{pk: pk, fd: &ast.FuncDecl{Name: ast.NewIdent("schema")}, guards: map[ast.Node]c43Guard{}, defs: map[*types.Var][]c43Def{}}
	_ = info
	shs, op := r.lay.eval(r.sch, fi, e, 0)
	if op != nil {
		return nil, op.why
	}
	if len(shs) != 1 {
		return nil, fmt.Sprintf("schema has %d alternative shapes", len(shs))
	}
	var cols []c43Col
	for _, el := range shs[0].elems {
		col, why := c43ReadColumn(el)
		if why != "" {
			return nil, why
		}
		cols = append(cols, col)
	}
	return cols, ""
}

func (r *c43Run) pkgOfInfo(info *types.Info) *packages.Package {
	for _, pk := range r.c.P.Module {
		if pk.TypesInfo == info {
			return pk
		}
	}
	if r.isPk.TypesInfo == info {
		return r.isPk
	}
	return nil
}

func (r *c43Run) ruleRegistry(entries []*c43Entry) {
	c, cfg := r.c, r.cfg
	if len(entries) == 0 {
		return
	}
	schemaUse := map[*types.Var][]string{}
	readerUse := map[*types.Func][]string{}
	for _, en := range entries {
		var bad []string
		if en.readable != "" {
			c.Undecided("C43-R1", en.key, en.pos, "registry value not readable: "+en.readable)
			continue
		}
		// name
		if en.name == nil {
			bad = append(bad, "table object has no name field")
		} else if tv, ok := en.info.Types[en.name]; !ok || tv.Value == nil || tv.Value.Kind() != constant.String {
			bad = append(bad, "table name is not a constant string")
		} else if n := constant.StringVal(tv.Value); n != en.key {
			bad = append(bad, fmt.Sprintf("registered under %q but the table object is named %q: lookups by key find a table that reports another name (partition key, Source of its columns)", en.key, n))
		}
		// schema
		if en.schema == nil || isNilIdent(en.info, en.schema) {
			bad = append(bad, "table object has no schema")
		} else {
			pk := r.pkgOfInfo(en.info)
			cols, why := r.schemaCols(en.info, pk, en.schema)
			if why != "" {
				c.Undecided("C43-R1", en.key, en.pos, "schema not readable: "+why)
				continue
			}
			if len(cols) == 0 {
				bad = append(bad, "schema has no columns")
			}
			var wrong []string
			for _, col := range cols {
				if col.source == nil {
					wrong = append(wrong, col.name+" (no Source)")
					continue
				}
				if tv, ok := col.info.Types[col.source]; !ok || tv.Value == nil || tv.Value.Kind() != constant.String {
					wrong = append(wrong, col.name+" (Source not constant)")
				} else if s := constant.StringVal(tv.Value); s != en.key {
					wrong = append(wrong, fmt.Sprintf("%s (Source %q)", col.name, s))
				}
			}
			if len(wrong) > 0 {
				if len(wrong) > 4 {
					wrong = append(wrong[:4], fmt.Sprintf("… %d more", len(wrong)-4))
				}
				bad = append(bad, "columns whose Source is not the table "+en.key+": "+strings.Join(wrong, ", ")+" (qualified column references resolve by Source)")
			}
			if en.schemaVar != nil {
				schemaUse[en.schemaVar] = append(schemaUse[en.schemaVar], en.key)
			}
		}
		// reader
		if en.reader == nil || isNilIdent(en.info, en.reader) {
			bad = append(bad, "table object has no reader: the table is always empty without saying so (use "+cfg.emptyReader+" for a documented empty table)")
		} else if en.readerFn == nil {
			c.Undecided("C43-R1", en.key, en.pos, "reader is not a named function: "+types.ExprString(en.reader))
			continue
		} else {
			readerUse[en.readerFn] = append(readerUse[en.readerFn], en.key)
		}
		c.Check(len(bad) == 0, "C43-R1", en.key, en.pos, "", strings.Join(bad, "; "))
	}
	// every schema variable of the package is registered exactly once
	info := r.isPk.TypesInfo
	for _, file := range r.isPk.Syntax {
		for _, d := range file.Decls {
			gd, ok := d.(*ast.GenDecl)
			if !ok || gd.Tok != token.VAR {
				continue
			}
			for _, sp := range gd.Specs {
				vs := sp.(*ast.ValueSpec)
				for _, n := range vs.Names {
					v, _ := info.Defs[n].(*types.Var)
					if v == nil || !r.sch.is(v.Type()) {
						continue
					}
					uses := schemaUse[v]
					switch len(uses) {
					case 1:
						c.Ok("C43-R1", "schema/"+v.Name(), n.Pos(), "")
					case 0:
						c.Bad("C43-R1", "schema/"+v.Name(), n.Pos(), "schema variable "+v.Name()+" is declared but no registry entry uses it: the table it describes does not exist in information_schema")
					default:
						c.Bad("C43-R1", "schema/"+v.Name(), n.Pos(), fmt.Sprintf("schema variable %s is used by %v: two table names share one column set (Source can match only one)", v.Name(), uses))
					}
				}
			}
		}
	}
	// readers
	var rfns []*types.Func
	for fn := range readerUse {
		rfns = append(rfns, fn)
	}
	sort.Slice(rfns, func(i, j int) bool { return rfns[i].Name() < rfns[j].Name() })
	sigs := map[string]bool{}
	for _, fn := range rfns {
		sigs[types.TypeString(fn.Type(), nil)] = true
		uses := readerUse[fn]
		if fn.Name() == cfg.emptyReader {
			c.Exc("C43-R2", "reader/"+fn.Name(), fn.Pos(), fmt.Sprintf("documented empty table reader shared by %d tables", len(uses)))
			continue
		}
		c.Check(len(uses) == 1, "C43-R2", "reader/"+fn.Name(), fn.Pos(), "", fmt.Sprintf("reader %s is registered for %v: two table names list the same rows", fn.Name(), uses))
	}
	// unregistered functions with a reader signature
	scope := r.isPk.Types.Scope()
	for _, name := range scope.Names() {
		fn, ok := scope.Lookup(name).(*types.Func)
		if !ok || readerUse[fn] != nil || !sigs[types.TypeString(fn.Type(), nil)] {
			continue
		}
		c.Bad("C43-R2", "reader/"+fn.Name(), fn.Pos(), "function "+fn.Name()+" has a reader signature but no registry entry uses it: its table lists nothing")
	}
}

// ---- layout ------------------------------------------------------------------------------------------------

type c43SchemaAlt struct {
	cols  []c43Col
	guard c43Guard
}

func (r *c43Run) compareShapes(owner string, shapes []c43Shape, alts []c43SchemaAlt) {
	c := r.c
	for _, s := range shapes {
		key := c43ShapeKey(owner, s)
		matched := 0
		var arity, kinds []string
		for _, a := range alts {
			if _, ok := s.guard.and(a.guard); !ok {
				continue
			}
			matched++
			if len(s.elems) != len(a.cols) {
				arity = append(arity, fmt.Sprintf("row built in %s has %d elements, the schema declares %d columns%s: every value after the first difference is shown under the wrong column (or the wire encoder indexes past the row)",
					s.fn, len(s.elems), len(a.cols), c43When(a.guard)))
				continue
			}
			for i, el := range s.elems {
				gc, ts := c43GoClassOf(el)
				if !c43Accepts(a.cols[i].class, gc) {
					kinds = append(kinds, fmt.Sprintf("element %d `%s` (Go %s) is under column %s declared %s (%s)", i+1, types.ExprString(el.e), ts, a.cols[i].name, a.cols[i].typ, c43ClassName[a.cols[i].class]))
				}
			}
		}
		if matched == 0 {
			c.Bad("C43-L1", key, s.pos, fmt.Sprintf("row is built under condition [%s] for which the schema has no alternative", s.guard))
			continue
		}
		c.Check(len(arity) == 0, "C43-L1", key, s.pos, "", strings.Join(arity, "; "))
		if len(arity) == 0 {
			if why, ok := r.cfg.l2Exc[owner]; ok && len(kinds) > 0 {
				c.Exc("C43-L2", key, s.pos, why)
			} else {
				c.Check(len(kinds) == 0, "C43-L2", key, s.pos, "", strings.Join(kinds, "; ")+": the value belongs to another attribute than the column names")
			}
		}
	}
}

func c43When(g c43Guard) string {
	if s := g.String(); s != "always" {
		return " when " + s
	}
	return ""
}

// shapesOf collects the decided shapes of all output sites in the closure of root.
func (r *c43Run) shapesOf(owner string, pk *packages.Package, root *types.Func) ([]c43Shape, int) {
	c := r.c
	var shapes []c43Shape
	seen := map[string]bool{}
	opaque := 0
	for _, fn := range c43Closure(c.P, pk, []*types.Func{root}, r.iter, "Next") {
		fd := c.P.Decl(fn)
		for _, site := range r.lay.sites(r.row, r.r2i, pk, fd) {
			shs, op := r.lay.eval(r.row, site.fi, site.e, 0)
			if op != nil {
				opaque++
				c.Note("C43-L1", fmt.Sprintf("opaque/%s/%s[%s]", owner, DeclName(fd), types.ExprString(site.e)), site.e.Pos(), "output row not readable ("+site.how+"): "+op.why+" — not decided")
				continue
			}
			for _, s := range shs {
				g, ok := s.guard.and(site.guard)
				if !ok {
					continue
				}
				s.guard = g
				id := fmt.Sprintf("%d|%d|%s", s.pos, len(s.elems), g)
				if seen[id] {
					continue
				}
				seen[id] = true
				shapes = append(shapes, s)
			}
		}
	}
	return shapes, opaque
}

func (r *c43Run) ruleLayoutIS(entries []*c43Entry) {
	c := r.c
	for _, en := range entries {
		if en.readable != "" || en.readerFn == nil || en.schema == nil || en.info == nil || isNilIdent(en.info, en.schema) {
			continue
		}
		pk := c.P.PkgOf(en.readerFn)
		if pk == nil || c.P.Decl(en.readerFn) == nil {
			c.Undecided("C43-L1", en.key, en.pos, "reader "+en.readerFn.Name()+" has no body in the loaded packages")
			continue
		}
		cols, why := r.schemaCols(en.info, r.pkgOfInfo(en.info), en.schema)
		if why != "" {
			continue // reported by R1
		}
		shapes, opaque := r.shapesOf(en.key, pk, en.readerFn)
		if len(shapes) == 0 {
			if en.readerFn.Name() == r.cfg.emptyReader {
				continue
			}
			if opaque == 0 {
				c.Undecided("C43-L1", en.key, en.readerFn.Pos(), "reader "+en.readerFn.Name()+" builds no row in a readable form and is not the documented empty reader")
			} else {
				c.Undecided("C43-L1", en.key, en.readerFn.Pos(), "no output row of reader "+en.readerFn.Name()+" is readable")
			}
			continue
		}
		r.compareShapes(en.key, shapes, []c43SchemaAlt{{cols: cols, guard: c43Guard{}.clone()}})
	}
}

type c43Exec struct {
	fn   *types.Func
	node *types.TypeName // plan node type of the second parameter
}

// execFuncs: the SHOW executors: methods <recv>.<prefix>* whose parameters include a node of package plan.
func (r *c43Run) execFuncs() []c43Exec {
	c, cfg := r.c, r.cfg
	var out []c43Exec
	files := map[string]bool{}
	for _, f := range cfg.execFiles {
		files[f] = true
	}
	c.P.EachFuncDecl([]string{cfg.execRel}, func(pk *packages.Package, fd *ast.FuncDecl) {
		if fd.Recv == nil || !strings.HasPrefix(fd.Name.Name, cfg.execPrefix) || !strings.HasPrefix(DeclName(fd), cfg.execRecv+".") {
			return
		}
		if len(files) > 0 && !files[c.P.RelFile(fd.Pos())] {
			return
		}
		fn, _ := pk.TypesInfo.Defs[fd.Name].(*types.Func)
		if fn == nil {
			return
		}
		sig := fn.Type().(*types.Signature)
		var node *types.TypeName
		for i := 0; i < sig.Params().Len(); i++ {
			t := sig.Params().At(i).Type()
			if p, ok := types.Unalias(t).(*types.Pointer); ok {
				t = p.Elem()
			}
			if n, ok := types.Unalias(t).(*types.Named); ok && n.Obj().Pkg() == r.plPk.Types {
				node = n.Obj()
				break
			}
		}
		if node != nil {
			out = append(out, c43Exec{fn, node})
		}
	})
	sort.Slice(out, func(i, j int) bool { return out[i].fn.Name() < out[j].fn.Name() })
	if len(out) == 0 {
		c.Undecided("C43-L1", "show executors", 0, "no "+cfg.execRecv+"."+cfg.execPrefix+"* method found in "+cfg.execRel)
	}
	return out
}

func (r *c43Run) ruleLayoutShow(execs []c43Exec) {
	c := r.c
	for _, ex := range execs {
		owner := ex.node.Name()
		obj, _, _ := types.LookupFieldOrMethod(types.NewPointer(ex.node.Type()), true, r.plPk.Types, "Schema")
		sm, _ := obj.(*types.Func)
		if sm == nil || c.P.Decl(sm) == nil {
			c.Undecided("C43-L1", owner, ex.fn.Pos(), "plan node "+owner+" has no Schema method with a body")
			continue
		}
		shapes, _ := r.shapesOf(owner, r.exPk, ex.fn)
		if len(shapes) == 0 {
			c.Note("C43-L1", "norows/"+owner, ex.fn.Pos(), "executor "+FuncName(ex.fn)+" builds no row itself (delegates to the node or a child): not decided")
			continue
		}
		sshs, op := r.lay.returnShapes(r.sch, sm, 0, sm.Pos())
		if op != nil {
			c.Note("C43-L1", "schema/"+owner, op.pos, owner+".Schema is not readable ("+op.why+"): rows of "+FuncName(ex.fn)+" not decided")
			continue
		}
		var alts []c43SchemaAlt
		bad := ""
		for _, s := range sshs {
			var cols []c43Col
			for _, el := range s.elems {
				col, why := c43ReadColumn(el)
				if why != "" {
					bad = why
					break
				}
				cols = append(cols, col)
			}
			alts = append(alts, c43SchemaAlt{cols: cols, guard: s.guard})
		}
		if bad != "" || len(alts) == 0 {
			c.Note("C43-L1", "schema/"+owner, sm.Pos(), owner+".Schema columns not readable ("+bad+"): not decided")
			continue
		}
		r.compareShapes(owner, shapes, alts)
	}
}
