package main

// C37-K1 — exact addressing of KILL: the connection id that reaches ProcessList.Kill /
// Context.KillConnection is the statement's operand, unchanged.
//
//   (conv)   every narrowing integer conversion in the functions on the path (planbuilder buildKill,
//            plan.NewKill, the executor's buildKill and its closures) whose result flows to the
//            connection id is exact where it is consumed: every consuming use of the converted value
//            is reached only on paths on which the source value was proven to fit the target type —
//            by comparisons of the source with constants (interval facts on the taken edges) or by
//            the round-trip test T'(T(x)) == x (T' value-preserving), which holds iff x fits T.
//            Calls of functions that cannot return (Builder.handleErr panics) end a path.
//   (source) the id handed to plan.NewKill derives (conversions/phis only) from the evaluation of
//            the parsed statement's ConnID operand; Kill.ConnID is stored only by NewKill from its
//            parameter; the executor passes n.ConnID of its own node to ProcessList.Kill and
//            KillConnection; plan.NewKill is called only by the statement builder.

import (
	"fmt"
	"go/token"
	"go/types"
	"math/big"
	"strings"

	"golang.org/x/tools/go/packages"
	"golang.org/x/tools/go/ssa"
)

type c37KillCfg struct {
	builderRel, builderFn string // planbuilder, "Builder.buildKill"
	planRel, ctor         string // sql/plan, "NewKill"
	nodeType, idField     string // "Kill", "ConnID"
	execRel, execFn       string // sql/rowexec, "BaseBuilder.buildKill"
	operandField          string // field of the parsed statement holding the operand: "ConnID"
	sinks                 []string
	floor                 int
}

func runC37Kill(c *Ctx, cf c37KillCfg) {
	const R = "C37-K1"
	c.Rule(R, "exact addressing of KILL: every narrowing conversion of the KILL operand on its way to plan.NewKill / ProcessList.Kill is consumed only where the operand was proven to fit (range comparisons or round-trip test on every path; no-return error calls end a path), and the connection id reaching ProcessList.Kill / KillConnection derives only from the statement's operand", cf.floor)
	bp, pp, ep := c.P.Pkg(cf.builderRel), c.P.Pkg(cf.planRel), c.P.Pkg(cf.execRel)
	if bp == nil || pp == nil || ep == nil {
		c.Undecided(R, "packages", 0, "planbuilder, plan or rowexec not loaded")
		return
	}
	prog := orgBuildSSA(c.P, []*packages.Package{bp, pp, ep})
	bfn := prog.FuncValue(LookupFunc(bp, cf.builderFn))
	ctor := prog.FuncValue(LookupFunc(pp, cf.ctor))
	efn := prog.FuncValue(LookupFunc(ep, cf.execFn))
	if bfn == nil || ctor == nil || efn == nil || len(bfn.Blocks) == 0 || len(efn.Blocks) == 0 {
		c.Undecided(R, "anchors", 0, fmt.Sprintf("%s, %s or %s not found", cf.builderFn, cf.ctor, cf.execFn))
		return
	}
	isInt := func(t types.Type) bool { _, i, ok := ivTypeRange(t); return ok && i }
	// ---- (source 1) the ids handed to the constructor in the statement builder
	idParam := -1
	for i, p := range ctor.Params {
		if isInt(p.Type()) && !strings.Contains(p.Type().String(), "KillType") {
			idParam = i
		}
	}
	if idParam < 0 {
		c.Undecided(R, cf.ctor, ctor.Pos(), "no integer connection-id parameter")
		return
	}
	// every caller of the constructor in the three packages (and the module's syntax: type-resolved)
	ctorObj := LookupFunc(pp, cf.ctor)
	for _, mp := range c.P.Module {
		for id, obj := range mp.TypesInfo.Uses {
			if obj == ctorObj && mp != bp {
				c.Bad(R, "callers of "+cf.ctor+"/"+c.P.RelFile(id.Pos()), id.Pos(), cf.ctor+" is referenced outside the statement builder: a KILL node can be built with an id that is not the statement's operand")
			}
		}
	}
	type convUse struct {
		conv *ssa.Convert
		fn   *ssa.Function
	}
	var convs []convUse
	seenConv := map[*ssa.Convert]bool{}
	// backward slice of an id value: conversions and phis; must end in a call one of whose
	// arguments is the operand field of the parsed statement parameter
	var origin func(v ssa.Value, fn *ssa.Function, seen map[ssa.Value]bool) (ok bool, why string)
	origin = func(v ssa.Value, fn *ssa.Function, seen map[ssa.Value]bool) (bool, string) {
		if seen[v] {
			return true, ""
		}
		seen[v] = true
		switch x := v.(type) {
		case *ssa.Convert:
			if isInt(x.Type()) && isInt(x.X.Type()) {
				src, _, _ := ivTypeRange(x.X.Type())
				dst, _, _ := ivTypeRange(x.Type())
				if !src.Within(dst) && !seenConv[x] {
					seenConv[x] = true
					convs = append(convs, convUse{x, fn})
				}
				return origin(x.X, fn, seen)
			}
			return false, "conversion from " + x.X.Type().String()
		case *ssa.ChangeType:
			return origin(x.X, fn, seen)
		case *ssa.Phi:
			for _, e := range x.Edges {
				if ok, why := origin(e, fn, seen); !ok {
					return false, why
				}
			}
			return true, ""
		case *ssa.Call:
			for _, a := range x.Common().Args {
				if c37IsOperandLoad(a, fn, cf.operandField) {
					return true, ""
				}
			}
			return false, "result of " + x.Common().Value.String() + ", which is not given the statement's " + cf.operandField + " operand"
		case *ssa.Const:
			return false, "the constant " + x.String()
		}
		return false, v.String() + " (" + fmt.Sprintf("%T", v) + ")"
	}
	ncalls := 0
	for _, b := range bfn.Blocks {
		for _, in := range b.Instrs {
			call, ok := in.(*ssa.Call)
			if !ok || call.Common().StaticCallee() != ctor {
				continue
			}
			ncalls++
			var others []string
			for i, a := range call.Common().Args {
				if i != idParam {
					d := a.String()
					if k := strings.LastIndex(d, "/"); k >= 0 {
						d = d[k+1:]
					}
					others = append(others, d)
				}
			}
			key := fmt.Sprintf("%s/%s(%s)/id", cf.builderFn, cf.ctor, strings.Join(others, ","))
			ok2, why := origin(call.Common().Args[idParam], bfn, map[ssa.Value]bool{})
			c.Check(ok2, R, key, call.Pos(), "the id derives (integer conversions only) from the evaluation of the statement's "+cf.operandField+" operand",
				"the connection id handed to "+cf.ctor+" is "+why+": the KILL no longer addresses the connection the statement names")
		}
	}
	if ncalls == 0 {
		c.Undecided(R, cf.builderFn, bfn.Pos(), "no call of "+cf.ctor)
	}
	// ---- (conv) narrowing conversions on the path
	if len(convs) == 0 {
		c.Ok(R, cf.builderFn+"/conversions", bfn.Pos(), "no narrowing conversion between the operand and "+cf.ctor)
	}
	for _, cu := range convs {
		key := fmt.Sprintf("%s/%s(%s)", cf.builderFn, cu.conv.Type().String(), cu.conv.X.Type().String())
		if bad := c37ConvGuarded(cu.conv, cu.fn); bad != "" {
			c.Bad(R, key, cu.conv.Pos(), fmt.Sprintf("the KILL operand is narrowed by %s(%s) and the result is used %s: an id outside the target type is truncated and the KILL hits a connection that was not addressed (KILL 4294967297 -> connection 1)", cu.conv.Type(), cu.conv.X.Type(), bad))
		} else {
			c.Ok(R, key, cu.conv.Pos(), "every consuming use of the narrowed operand is reached only where the operand fits the target type")
		}
	}
	// narrowing conversions elsewhere on the path (constructor, executor and its closures)
	for _, f := range append([]*ssa.Function{ctor, efn}, efn.AnonFuncs...) {
		n := 0
		for _, op := range ivCollectOps(f) {
			if op.Kind != "CONV" {
				continue
			}
			cv := op.Instr.(*ssa.Convert)
			n++
			key := fmt.Sprintf("%s.%s/%s(%s)", f.Pkg.Pkg.Name(), f.Name(), cv.Type(), cv.X.Type())
			if bad := c37ConvGuarded(cv, f); bad != "" {
				c.Bad(R, key, cv.Pos(), "narrowing conversion on the KILL path whose result is used "+bad)
			} else {
				c.Ok(R, key, cv.Pos(), "guarded on every path to its uses")
			}
		}
		if n == 0 {
			c.Ok(R, f.Pkg.Pkg.Name()+"."+f.Name()+"/conversions", f.Pos(), "no narrowing integer conversion")
		}
	}
	// ---- (source 2) Kill.ConnID is stored only by the constructor, from its parameter
	nodeObj := pp.Types.Scope().Lookup(cf.nodeType)
	if nodeObj == nil {
		c.Undecided(R, cf.nodeType, 0, "node type not found")
		return
	}
	stores := 0
	for _, pk := range []*packages.Package{bp, pp, ep} {
		sp := prog.Package(pk.Types)
		if sp == nil {
			continue
		}
		var fns []*ssa.Function
		for _, m := range sp.Members {
			if f, ok := m.(*ssa.Function); ok {
				fns = append(fns, f)
			}
			if t, ok := m.(*ssa.Type); ok {
				for _, recv := range []types.Type{t.Type(), types.NewPointer(t.Type())} {
					ms := prog.MethodSets.MethodSet(recv)
					for i := 0; i < ms.Len(); i++ {
						if f := prog.MethodValue(ms.At(i)); f != nil && f.Pkg == sp {
							fns = append(fns, f)
						}
					}
				}
			}
		}
		seenF := map[*ssa.Function]bool{}
		var visit func(f *ssa.Function)
		visit = func(f *ssa.Function) {
			if seenF[f] {
				return
			}
			seenF[f] = true
			for _, b := range f.Blocks {
				for _, in := range b.Instrs {
					st, ok := in.(*ssa.Store)
					if !ok {
						continue
					}
					fa, ok := st.Addr.(*ssa.FieldAddr)
					if !ok {
						continue
					}
					pt, ok := fa.X.Type().Underlying().(*types.Pointer)
					if !ok {
						continue
					}
					nt, ok := types.Unalias(pt.Elem()).(*types.Named)
					if !ok || nt.Obj() != nodeObj {
						continue
					}
					if nt.Underlying().(*types.Struct).Field(fa.Field).Name() != cf.idField {
						continue
					}
					stores++
					key := f.Name() + "/" + cf.nodeType + "." + cf.idField + "="
					p, isParam := st.Val.(*ssa.Parameter)
					c.Check(f == ctor && isParam && p == ctor.Params[idParam], R, key, st.Pos(), "stored by the constructor from its id parameter",
						fmt.Sprintf("%s.%s is stored in %s from %s: the id the executor kills is no longer the one the statement builder validated", cf.nodeType, cf.idField, f.String(), st.Val.String()))
				}
			}
			for _, a := range f.AnonFuncs {
				visit(a)
			}
		}
		for _, f := range fns {
			visit(f)
		}
	}
	if stores == 0 {
		c.Undecided(R, cf.nodeType+"."+cf.idField, nodeObj.Pos(), "no store of the id field found (constructor changed shape)")
	}
	// ---- (source 3) the executor passes its own node's id to the sinks
	nsink := 0
	for _, f := range append([]*ssa.Function{efn}, efn.AnonFuncs...) {
		for _, b := range f.Blocks {
			for _, in := range b.Instrs {
				call, ok := in.(*ssa.Call)
				if !ok {
					continue
				}
				cm := call.Common()
				name := ""
				if cm.IsInvoke() {
					name = cm.Method.Name()
				} else if sc := cm.StaticCallee(); sc != nil {
					name = sc.Name()
				}
				if !contains(cf.sinks, name) {
					continue
				}
				for _, a := range cm.Args {
					if !isInt(a.Type()) {
						continue
					}
					nsink++
					key := cf.execFn + "/" + name + "(id)"
					c.Check(c37IsNodeIDLoad(a, efn, nodeObj, cf.idField), R, key, call.Pos(), "the id is "+cf.idField+" of the executed "+cf.nodeType+" node",
						"the connection id passed to "+name+" is "+a.String()+", not "+cf.idField+" of the executed node")
				}
			}
		}
	}
	if nsink == 0 {
		c.Undecided(R, cf.execFn, efn.Pos(), "the executor calls none of "+strings.Join(cf.sinks, ", "))
	}
}

// c37IsOperandLoad: v is (a load of / the address of) field `field` of a parameter of fn.
func c37IsOperandLoad(v ssa.Value, fn *ssa.Function, field string) bool {
	for i := 0; i < 6; i++ {
		switch x := v.(type) {
		case *ssa.UnOp:
			if x.Op != token.MUL {
				return false
			}
			v = x.X
		case *ssa.MakeInterface:
			v = x.X
		case *ssa.ChangeInterface:
			v = x.X
		case *ssa.FieldAddr:
			pt, ok := x.X.Type().Underlying().(*types.Pointer)
			if !ok {
				return false
			}
			st, ok := pt.Elem().Underlying().(*types.Struct)
			if !ok || st.Field(x.Field).Name() != field {
				return false
			}
			_, isParam := x.X.(*ssa.Parameter)
			return isParam
		case *ssa.Field:
			st, ok := x.X.Type().Underlying().(*types.Struct)
			if !ok || st.Field(x.Field).Name() != field {
				return false
			}
			v = x.X
			if u, ok := v.(*ssa.UnOp); ok && u.Op == token.MUL {
				_, isParam := u.X.(*ssa.Parameter)
				return isParam
			}
			return false
		default:
			return false
		}
	}
	return false
}

// c37IsNodeIDLoad: v is a load of nodeType.idField of the executor's node parameter (directly or
// as captured by a closure).
func c37IsNodeIDLoad(v ssa.Value, efn *ssa.Function, nodeObj types.Object, idField string) bool {
	u, ok := v.(*ssa.UnOp)
	if !ok || u.Op != token.MUL {
		return false
	}
	fa, ok := u.X.(*ssa.FieldAddr)
	if !ok {
		return false
	}
	pt, ok := fa.X.Type().Underlying().(*types.Pointer)
	if !ok {
		return false
	}
	nt, ok := types.Unalias(pt.Elem()).(*types.Named)
	if !ok || nt.Obj() != nodeObj || nt.Underlying().(*types.Struct).Field(fa.Field).Name() != idField {
		return false
	}
	base := fa.X
	if l, ok := base.(*ssa.UnOp); ok && l.Op == token.MUL { // captured by reference
		base = l.X
	}
	switch b := base.(type) {
	case *ssa.Parameter:
		return b.Parent() == efn
	case *ssa.FreeVar:
		// bound from the executor's parameter (or its cell)
		par := b.Parent()
		for _, blk := range efn.Blocks {
			for _, in := range blk.Instrs {
				mc, ok := in.(*ssa.MakeClosure)
				if !ok || mc.Fn != par {
					continue
				}
				for i, fv := range par.FreeVars {
					if fv != b || i >= len(mc.Bindings) {
						continue
					}
					bind := mc.Bindings[i]
					if p, ok := bind.(*ssa.Parameter); ok && p.Parent() == efn {
						return true
					}
					if al, ok := bind.(*ssa.Alloc); ok {
						good := false
						for _, ref := range *al.Referrers() {
							if st, ok := ref.(*ssa.Store); ok && st.Addr == al {
								if p, ok := st.Val.(*ssa.Parameter); ok && p.Parent() == efn {
									good = true
								} else {
									return false
								}
							}
						}
						return good
					}
				}
			}
		}
	}
	return false
}

// c37NoReturn: the function has a body and no return instruction (every exit panics).
func c37NoReturn(f *ssa.Function) bool {
	if f == nil || len(f.Blocks) == 0 {
		return false
	}
	for _, b := range f.Blocks {
		if _, ok := b.Instrs[len(b.Instrs)-1].(*ssa.Return); ok {
			return false
		}
	}
	return true
}

// c37ConvGuarded decides the conversion c = T(x): "" if every consuming use of c lies in a block
// that is reached, from the function's entry, only with "x fits T" established; otherwise a
// description of the unguarded use. Forward must-analysis over the CFG with no-return calls
// cutting their block's out-edges: state = (interval of x, round-trip proven).
func c37ConvGuarded(conv *ssa.Convert, fn *ssa.Function) string {
	x := conv.X
	tr, _, ok1 := ivTypeRange(conv.Type())
	xr, _, ok2 := ivTypeRange(x.Type())
	if !ok1 || !ok2 {
		return "with a non-integer operand"
	}
	// the engine's own (dominance based) answer first: covers operands bounded by construction
	e := newIvEngine(fn)
	if r, ok := e.Range(x, conv.Block()); ok && r.Within(tr) {
		return ""
	}
	cut := map[*ssa.BasicBlock]bool{}
	for _, b := range fn.Blocks {
		for _, in := range b.Instrs {
			if call, ok := in.(*ssa.Call); ok && c37NoReturn(call.Common().StaticCallee()) {
				cut[b] = true
			}
		}
		if _, ok := b.Instrs[len(b.Instrs)-1].(*ssa.Panic); ok {
			cut[b] = true
		}
	}
	sameX := func(v ssa.Value) bool { return v == x }
	// is v a value-preserving widening of conv (possibly conv itself)?
	isBack := func(v ssa.Value) bool {
		for i := 0; i < 4; i++ {
			if v == ssa.Value(conv) {
				return true
			}
			cv, ok := v.(*ssa.Convert)
			if !ok {
				return false
			}
			src, _, ok1 := ivTypeRange(cv.X.Type())
			dst, _, ok2 := ivTypeRange(cv.Type())
			if !ok1 || !ok2 || !src.Within(dst) {
				return false
			}
			v = cv.X
		}
		return false
	}
	type state struct {
		reach bool
		iv    ivInterval
		rt    bool
	}
	constOf := func(v ssa.Value) (*big.Float, bool) {
		if k, ok := v.(*ssa.Const); ok {
			if r, ok := ivConst(k); ok && r.Lo.Cmp(r.Hi) == 0 {
				return r.Lo, true
			}
		}
		if cv, ok := v.(*ssa.Convert); ok {
			if k, ok := cv.X.(*ssa.Const); ok {
				if r, ok := ivConst(k); ok && r.Lo.Cmp(r.Hi) == 0 {
					return r.Lo, true
				}
			}
		}
		return nil, false
	}
	one := ivF(1)
	// fact of taking edge b -> succ[i]
	edge := func(b *ssa.BasicBlock, i int, s state) state {
		iff, ok := b.Instrs[len(b.Instrs)-1].(*ssa.If)
		if !ok {
			return s
		}
		cond := iff.Cond
		taken := i == 0
		for {
			u, ok := cond.(*ssa.UnOp)
			if !ok || u.Op != token.NOT {
				break
			}
			cond = u.X
			taken = !taken
		}
		bo, ok := cond.(*ssa.BinOp)
		if !ok {
			return s
		}
		op := bo.Op
		if !taken {
			op = ivNegate(op)
		}
		// round trip: back(conv) == x
		if (isBack(bo.X) && sameX(bo.Y)) || (isBack(bo.Y) && sameX(bo.X)) {
			// the comparison must be made in x's type (both operands have it)
			if op == token.EQL && types.Identical(bo.X.Type(), x.Type()) {
				s.rt = true
			}
			return s
		}
		// x op const
		l, r := bo.X, bo.Y
		if !sameX(l) {
			l, r = r, l
			op = ivFlip(op)
		}
		if !sameX(l) {
			return s
		}
		k, ok := constOf(r)
		if !ok {
			return s
		}
		switch op {
		case token.LSS:
			s.iv = ivMeet(s.iv, ivInterval{ivInf(true), new(big.Float).SetPrec(ivPrec).Sub(k, one)})
		case token.LEQ:
			s.iv = ivMeet(s.iv, ivInterval{ivInf(true), k})
		case token.GTR:
			s.iv = ivMeet(s.iv, ivInterval{new(big.Float).SetPrec(ivPrec).Add(k, one), ivInf(false)})
		case token.GEQ:
			s.iv = ivMeet(s.iv, ivInterval{k, ivInf(false)})
		case token.EQL:
			s.iv = ivMeet(s.iv, ivInterval{k, k})
		}
		return s
	}
	st := map[*ssa.BasicBlock]state{fn.Blocks[0]: {reach: true, iv: xr}}
	for changed, rounds := true, 0; changed && rounds < 64; rounds++ {
		changed = false
		for _, b := range fn.Blocks {
			s, ok := st[b]
			if !ok || !s.reach || cut[b] {
				continue
			}
			for i, succ := range b.Succs {
				ns := edge(b, i, s)
				if ns.iv.Empty() {
					continue // infeasible edge
				}
				old, had := st[succ]
				if !had {
					st[succ] = ns
					changed = true
					continue
				}
				m := state{reach: true, iv: ivHull(old.iv, ns.iv), rt: old.rt && ns.rt}
				if m.rt != old.rt || m.iv.Lo.Cmp(old.iv.Lo) != 0 || m.iv.Hi.Cmp(old.iv.Hi) != 0 {
					st[succ] = m
					changed = true
				}
			}
		}
	}
	refs := conv.Referrers()
	if refs == nil {
		return ""
	}
	for _, u := range *refs {
		if _, ok := u.(*ssa.DebugRef); ok {
			continue
		}
		if uv, ok := u.(ssa.Value); ok && ivOnlyFeedsComparisons(uv, 0) {
			continue
		}
		b := u.Block()
		if phi, ok := u.(*ssa.Phi); ok {
			// the use happens on the incoming edge
			for i, ed := range phi.Edges {
				if ed == ssa.Value(conv) {
					b = phi.Block().Preds[i]
				}
			}
		}
		s, ok := st[b]
		if !ok || !s.reach {
			continue // unreachable
		}
		if s.rt || s.iv.Within(tr) {
			continue
		}
		return fmt.Sprintf("(%s) where the operand is only known to lie in %s, target range %s, and no round-trip test %s(%s(x)) == x holds on every path", strings.TrimSpace(u.String()), s.iv, tr, x.Type(), conv.Type())
	}
	return ""
}
