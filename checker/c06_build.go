package main

import (
	"fmt"
	"go/ast"
	"go/constant"
	"go/types"
	"strings"
)

// C06-PB: the planbuilder maps each comparison operator of the SQL text to the expression whose
// table C06-CMP/IN/SQ/BTW read, with the operands in position: a BETWEEN whose bounds are exchanged
// at construction, or IN built as NOT IN, breaks every equivalence above without touching the tables.

func c06Build(w *c06World) {
	c := w.c
	if w.pb == nil {
		c.Undecided("C06-PB", "planbuilder", 0, "planbuilder package not loaded")
		return
	}
	var parser *types.Package
	for _, imp := range w.pb.Types.Imports() {
		if imp.Name() == "sqlparser" {
			parser = imp
		}
	}
	buildScalar := LookupFunc(w.pb, "Builder.buildScalar")
	buildCmp := LookupFunc(w.pb, "Builder.buildComparison")
	expand := LookupFunc(w.pb, "Builder.typeExpandComparisonLiteral")
	sfd, cfd := c.P.Decl(buildScalar), c.P.Decl(buildCmp)
	if parser == nil || sfd == nil || cfd == nil {
		c.Undecided("C06-PB", "Builder.buildComparison", 0, "sqlparser import / Builder.buildScalar / Builder.buildComparison not found")
		return
	}
	constStr := func(name string) (constant.Value, bool) {
		k, _ := parser.Scope().Lookup(name).(*types.Const)
		if k == nil {
			return nil, false
		}
		return k.Val(), true
	}
	ptr := func(pkg *types.Package, name string) types.Type {
		tn, _ := pkg.Scope().Lookup(name).(*types.TypeName)
		if tn == nil {
			return nil
		}
		return types.NewPointer(tn.Type())
	}
	tupleT, _ := w.ex.Types.Scope().Lookup("Tuple").(*types.TypeName)
	sqT := c06PtrTo(w.pl, "Subquery")
	rangeT, cmpT := ptr(parser, "RangeCond"), ptr(parser, "ComparisonExpr")
	if tupleT == nil || sqT == nil || rangeT == nil || cmpT == nil {
		c.Undecided("C06-PB", "Builder.buildComparison", cfd.Pos(), "Tuple / Subquery / RangeCond / ComparisonExpr types not found")
		return
	}
	t := w.terms()
	// further constructors: name of the node they build, index of the first operand
	type ctor struct {
		name string
		off  int
	}
	extra := map[*types.Func]ctor{}
	add := func(fn *types.Func, name string, off int) {
		if fn != nil {
			extra[fn] = ctor{name, off}
		}
	}
	add(LookupFunc(w.ex, "NewInTuple"), "InTuple", 0)
	add(LookupFunc(w.ex, "NewNotInTuple"), "NotInTuple", 0)
	add(LookupFunc(w.ex, "NewNullSafeEquals"), "NullSafeEquals", 0)
	add(LookupFunc(w.pl, "NewInSubquery"), "InSubquery", 1)
	add(LookupFunc(w.pl, "NewNotInSubquery"), "NotInSubquery", 1)

	render := func(v MV) string {
		var r func(v MV) string
		r = func(v MV) string {
			s, ok := v.(*MSym)
			if !ok || s == nil {
				return "?"
			}
			if s.Nil {
				return "nil"
			}
			switch {
			case s.Fields == nil || len(s.Fields) == 0:
				return s.Name
			case s.Fields["Child"] != nil:
				return "Not(" + r(s.Fields["Child"]) + ")"
			case s.Fields["Val"] != nil:
				return "Between(" + r(s.Fields["Val"]) + "," + r(s.Fields["Lower"]) + "," + r(s.Fields["Upper"]) + ")"
			case s.Fields["LeftChild"] != nil:
				return s.Name + "(" + r(s.Fields["LeftChild"]) + "," + r(s.Fields["RightChild"]) + ")"
			}
			return s.Name
		}
		return r(v)
	}

	var lastBuilt MV
	fold := func(pos ast.Node, body []ast.Stmt, fdType *ast.FuncType, recvName *ast.Ident, node *MSym, operands map[MV]MV) (string, error) {
		lastBuilt = nil
		m := w.mini(w.pb)
		m.Call = func(m *Mini, call *ast.CallExpr, fn *types.Func, recv MV, args []MV) ([]MV, bool) {
			if fn == nil {
				return nil, false
			}
			if fn == buildScalar && len(args) == 2 {
				if v, ok := operands[args[1]]; ok {
					return []MV{v}, true
				}
				return nil, false
			}
			if fn == expand && expand != nil && len(args) == 2 {
				return []MV{args[0], args[1]}, true // literal widening keeps the operands in position (not read here)
			}
			if fn.Pkg() != nil && fn.Pkg().Path() == "strings" && fn.Name() == "ToLower" && len(args) == 1 {
				if cv, ok := args[0].(constant.Value); ok && cv.Kind() == constant.String {
					return []MV{constant.MakeString(strings.ToLower(constant.StringVal(cv)))}, true
				}
			}
			if r, ok := t.call(fn, recv, args); ok {
				return r, true
			}
			if k, ok := extra[fn]; ok && len(args) == k.off+2 {
				return []MV{&MSym{Name: k.name, Fields: map[string]MV{"LeftChild": args[k.off], "RightChild": args[k.off+1]}}}, true
			}
			sig := fn.Type().(*types.Signature)
			if sig.Results().Len() == 0 {
				return []MV{}, true // flag setters and error sinks do not shape the returned expression
			}
			if r, ok := w.errCall(fn, recv, args); ok {
				return r, true
			}
			return nil, false
		}
		bind := map[types.Object]MV{}
		if recvName != nil {
			bind[w.pb.TypesInfo.Defs[recvName]] = &MSym{Name: "b", Fields: map[string]MV{"ctx": &MSym{Name: "ctx"}}}
		}
		n := 0
		for _, f := range fdType.Params.List {
			for _, id := range f.Names {
				var v MV = &MSym{Name: id.Name}
				if n == 1 {
					v = node
				}
				bind[w.pb.TypesInfo.Defs[id]] = v
				n++
			}
		}
		res, returned, panicked, _, err := m.RunBlock(body, bind)
		if err != nil {
			return "", err
		}
		if !returned || panicked || len(res) != 1 {
			return "", fmt.Errorf("does not return an expression")
		}
		lastBuilt = res[0]
		return render(res[0]), nil
	}
	skipDefers := func(list []ast.Stmt) []ast.Stmt {
		for len(list) > 0 {
			if _, ok := list[0].(*ast.DeferStmt); !ok {
				break
			}
			list = list[1:]
		}
		return list
	}
	recvOf := func(fd *ast.FuncDecl) *ast.Ident {
		if fd.Recv != nil && len(fd.Recv.List[0].Names) > 0 {
			return fd.Recv.List[0].Names[0]
		}
		return nil
	}

	// comparison operators
	type row struct {
		op, want string
		right    string // "", "tuple", "subquery"
		sem      func(t *c06Terms, l, r *MSym) *MSym
	}
	bin := func(tn string) func(t *c06Terms, l, r *MSym) *MSym {
		return func(t *c06Terms, l, r *MSym) *MSym { return t.mk(tn, l, r) }
	}
	rows := []row{
		{"EqualStr", "Equals(l,r)", "", bin("Equals")}, {"LessThanStr", "LessThan(l,r)", "", bin("LessThan")}, {"LessEqualStr", "LessThanOrEqual(l,r)", "", bin("LessThanOrEqual")},
		{"GreaterThanStr", "GreaterThan(l,r)", "", bin("GreaterThan")}, {"GreaterEqualStr", "GreaterThanOrEqual(l,r)", "", bin("GreaterThanOrEqual")},
		{"NullSafeEqualStr", "NullSafeEquals(l,r)", "", nil},
		{"NotEqualStr", "Not(Equals(l,r))", "", func(t *c06Terms, l, r *MSym) *MSym { return t.mk("Not", t.mk("Equals", l, r)) }},
		{"InStr", "InTuple(l,r)", "tuple", nil}, {"InStr", "InSubquery(l,r)", "subquery", nil},
		{"NotInStr", "NotInTuple(l,r)", "tuple", nil}, {"NotInStr", "NotInSubquery(l,r)", "subquery", nil},
	}
	for _, rw := range rows {
		key := "buildComparison/" + rw.op
		if rw.right != "" {
			key += "/" + rw.right
		}
		opv, ok := constStr(rw.op)
		if !ok {
			c.Undecided("C06-PB", key, cfd.Pos(), "operator constant not found in the parser package")
			continue
		}
		astL, astR := &MSym{Name: "c.Left"}, &MSym{Name: "c.Right"}
		l, r := &MSym{Name: "l"}, &MSym{Name: "r"}
		switch rw.right {
		case "tuple":
			r.Dyn = tupleT.Type()
		case "subquery":
			r.Dyn = sqT
		default:
			r.Dyn = c06PtrTo(w.ex, "Equals") // some scalar expression
		}
		node := &MSym{Name: "c", Dyn: cmpT, Fields: map[string]MV{"Left": astL, "Right": astR, "Escape": w.nilSym, "Operator": opv}}
		got, err := fold(cfd, cfd.Body.List, cfd.Type, recvOf(cfd), node, map[MV]MV{astL: l, astR: r})
		if err != nil {
			c.Undecided("C06-PB", key, cfd.Pos(), err.Error())
			continue
		}
		same := got == rw.want
		if !same && rw.sem != nil {
			// an equivalent spelling (e.g. b >= a for a <= b) has the same table over the outcomes of comparing l with r
			same = true
			wantTerm := rw.sem(t, l, r)
			for _, o := range []c06Out{c06Lt, c06Eq, c06Gt, c06Null} {
				asg := c06Asg{cmp: map[[2]*MSym]c06Out{{l, r}: o}}
				vw, err1 := t.eval(wantTerm, asg)
				vg, err2 := t.eval(lastBuilt, asg)
				if err1 != nil || err2 != nil || vw != vg {
					same = false
				}
			}
		}
		c.Check(same, "C06-PB", key, cfd.Pos(), got, fmt.Sprintf("operator %s (%s) builds %s; it must build %s", rw.op, constant.StringVal(opv), got, rw.want))
	}
	// BETWEEN / NOT BETWEEN
	for _, rw := range []row{{"BetweenStr", "Between(val,lower,upper)", "", nil}, {"NotBetweenStr", "Not(Between(val,lower,upper))", "", nil}} {
		key := "buildScalar/RangeCond/" + rw.op
		opv, ok := constStr(rw.op)
		if !ok {
			c.Undecided("C06-PB", key, sfd.Pos(), "operator constant not found in the parser package")
			continue
		}
		aL, aF, aT := &MSym{Name: "v.Left"}, &MSym{Name: "v.From"}, &MSym{Name: "v.To"}
		node := &MSym{Name: "v", Dyn: rangeT, Fields: map[string]MV{"Left": aL, "From": aF, "To": aT, "Operator": opv}}
		got, err := fold(sfd, skipDefers(sfd.Body.List), sfd.Type, recvOf(sfd), node,
			map[MV]MV{aL: &MSym{Name: "val"}, aF: &MSym{Name: "lower"}, aT: &MSym{Name: "upper"}})
		if err != nil {
			c.Undecided("C06-PB", key, sfd.Pos(), err.Error())
			continue
		}
		c.Check(got == rw.want, "C06-PB", key, sfd.Pos(), got, fmt.Sprintf("%s builds %s; it must build %s (value, lower bound, upper bound in this order)", constant.StringVal(opv), got, rw.want))
	}
}
