package main

import (
	"go/ast"
	"go/token"
	"go/types"
	"sort"
	"unicode"
	"unicode/utf8"

	"golang.org/x/tools/go/cfg"
	"golang.org/x/tools/go/packages"
)

// C51-A (attachment of the full-text editor in the backend) and C51-R (rebuild after bulk mutations).

func c51Exported(name string) bool {
	r, _ := utf8.DecodeRuneInString(name)
	return unicode.IsUpper(r)
}

// c51LenEdge: block b ends in a comparison of len(v) with a constant that decides "v is empty";
// it returns v's object and whether v is empty on successor succ.
func c51LenEdge(info *types.Info, b *cfg.Block, succ int) (types.Object, bool, bool) {
	if len(b.Nodes) == 0 || len(b.Succs) != 2 {
		return nil, false, false
	}
	e, ok := b.Nodes[len(b.Nodes)-1].(ast.Expr)
	if !ok {
		return nil, false, false
	}
	neg := false
	e = ast.Unparen(e)
	for {
		u, ok := e.(*ast.UnaryExpr)
		if !ok || u.Op != token.NOT {
			break
		}
		neg = !neg
		e = ast.Unparen(u.X)
	}
	be, ok := e.(*ast.BinaryExpr)
	if !ok {
		return nil, false, false
	}
	lenOf := func(x ast.Expr) types.Object {
		call, ok := ast.Unparen(x).(*ast.CallExpr)
		if !ok || !IsBuiltinCall(info, call, "len") || len(call.Args) != 1 {
			return nil
		}
		if id, ok := ast.Unparen(call.Args[0]).(*ast.Ident); ok {
			return info.Uses[id]
		}
		return nil
	}
	val := func(x ast.Expr) (int64, bool) {
		if tv, ok := info.Types[x]; ok && tv.Value != nil {
			if s := tv.Value.ExactString(); s == "0" {
				return 0, true
			} else if s == "1" {
				return 1, true
			}
		}
		return 0, false
	}
	op := be.Op
	o := lenOf(be.X)
	k, isK := val(be.Y)
	if o == nil {
		o = lenOf(be.Y)
		k, isK = val(be.X)
		flip := map[token.Token]token.Token{token.LSS: token.GTR, token.GTR: token.LSS, token.LEQ: token.GEQ, token.GEQ: token.LEQ, token.EQL: token.EQL, token.NEQ: token.NEQ}
		op = flip[op]
	}
	if o == nil || !isK {
		return nil, false, false
	}
	// truth of the condition means "non-empty" (1), "empty" (0) or unknown (-1)
	meaning := -1
	switch {
	case (op == token.GTR && k == 0) || (op == token.NEQ && k == 0) || (op == token.GEQ && k == 1):
		meaning = 1
	case (op == token.EQL && k == 0) || (op == token.LSS && k == 1) || (op == token.LEQ && k == 0):
		meaning = 0
	}
	if meaning < 0 {
		return nil, false, false
	}
	condTrue := succ == 0
	if neg {
		condTrue = !condTrue
	}
	empty := (meaning == 0) == condTrue
	return o, empty, true
}

func c51Attach(c *Ctx, p c51Params, ftPk *packages.Package) {
	memPk := c.P.Pkg(p.memRel)
	if memPk == nil {
		c.Undecided("C51-A", "packages", 0, "package "+p.memRel+" not loaded")
		return
	}
	info := memPk.TypesInfo
	bareTn, _ := memPk.Types.Scope().Lookup(p.bareEditor).(*types.TypeName)
	setTn, _ := ftPk.Types.Scope().Lookup(p.tableSet).(*types.TypeName)
	createEd := LookupFunc(ftPk, p.createEditor)
	createMulti := LookupFunc(ftPk, p.createMulti)
	idxIface := dmlLookupIface(c.P, p.sqlRel, p.indexIface)
	if bareTn == nil || setTn == nil || createEd == nil || createMulti == nil || idxIface == nil {
		c.Undecided("C51-A", "anchors", 0, "one of "+p.memRel+"."+p.bareEditor+", "+p.ftRel+"."+p.tableSet+"/"+p.createEditor+"/"+p.createMulti+", "+p.sqlRel+"."+p.indexIface+" not found")
		return
	}
	isSetSlice := func(t types.Type) bool {
		sl, ok := t.Underlying().(*types.Slice)
		if !ok {
			return false
		}
		nt := dmlNamedOf(sl.Elem())
		return nt != nil && nt.Obj() == setTn
	}
	containsCallTo := func(n ast.Node, fns map[*types.Func]bool) bool {
		return ContainsCall(info, n, func(fn *types.Func, _ *ast.CallExpr) bool { return fns[fn.Origin()] })
	}

	// classify the functions of the backend
	bareCtors := map[*types.Func]*ast.FuncDecl{}
	wrapFns := map[*types.Func]bool{}
	setFns := map[*types.Func]*ast.FuncDecl{}
	var allDecls []*ast.FuncDecl
	c.P.EachFuncDecl([]string{p.memRel}, func(_ *packages.Package, fd *ast.FuncDecl) {
		fn, _ := info.Defs[fd.Name].(*types.Func)
		if fn == nil {
			return
		}
		allDecls = append(allDecls, fd)
		sig := fn.Type().(*types.Signature)
		if sig.Results().Len() > 0 && isSetSlice(sig.Results().At(0).Type()) {
			setFns[fn] = fd
		}
		if containsCallTo(fd.Body, map[*types.Func]bool{createEd: true}) && containsCallTo(fd.Body, map[*types.Func]bool{createMulti: true}) {
			wrapFns[fn] = true
		}
		ast.Inspect(fd.Body, func(n ast.Node) bool {
			cl, ok := n.(*ast.CompositeLit)
			if !ok {
				return true
			}
			if nt := dmlNamedOf(info.TypeOf(cl)); nt == nil || nt.Obj() != bareTn {
				return true
			}
			key := DeclName(fd) + "/bare editor"
			switch {
			case !c51Exported(fd.Name.Name):
				if bareCtors[fn] == nil {
					bareCtors[fn] = fd
					c.Ok("C51-A", key, cl.Pos(), "built in an unexported constructor; its callers are checked")
				}
			case p.aExc[key] != "" && !c.fixtureMode:
				c.Exc("C51-A", key, cl.Pos(), p.aExc[key])
			default:
				c.Bad("C51-A", key, cl.Pos(), DeclName(fd)+" builds a bare "+p.bareEditor+" and is exported: rows written through it never reach the full-text index tables of the table")
			}
			return true
		})
	})
	if len(wrapFns) == 0 {
		c.Undecided("C51-A", "wrap function", 0, "no function of "+p.memRel+" calls both "+p.createEditor+" and "+p.createMulti)
	}
	if len(bareCtors) == 0 {
		c.Undecided("C51-A", "bare constructors", 0, "no unexported constructor of "+p.bareEditor+" found")
	}

	// callers of the bare constructors must wrap
	for _, fd := range allDecls {
		for _, call := range dmlCallsIn(fd.Body, false) {
			callee := Callee(info, call)
			if callee == nil || bareCtors[callee.Origin()] == nil {
				continue
			}
			f := c51NewFn(info, fd)
			key := DeclName(fd) + "/wrap after " + callee.Name()
			g := c.P.CFG(info, fd.Body)
			from, ok := FindNode(g, call)
			if !ok {
				c.Undecided("C51-A", key, call.Pos(), "call not found in the CFG")
				continue
			}
			edgeOK := func(b *cfg.Block, succ int) bool {
				o, empty, ok := c51LenEdge(info, b, succ)
				if !ok || !empty {
					return true
				}
				ds := f.defs[o]
				if len(ds) == 0 {
					return true
				}
				for _, d := range ds {
					dc, isCall := ast.Unparen(d.rhs).(*ast.CallExpr)
					if !isCall {
						return true
					}
					if dfn := Callee(info, dc); dfn == nil || setFns[dfn.Origin()] == nil {
						return true
					}
				}
				return false // "this table has no FULLTEXT index": nothing to attach
			}
			hit := func(n ast.Node) bool { return containsCallTo(n, wrapFns) }
			if _, isRet := from.B.Nodes[from.I].(*ast.ReturnStmt); isRet && !hit(from.B.Nodes[from.I]) {
				c.Bad("C51-A", key, call.Pos(), DeclName(fd)+" returns the bare editor of "+callee.Name()+" directly", c.P.DescribePath([]ast.Node{from.B.Nodes[from.I]})...)
				continue
			}
			bad := PathAvoiding(g, from, hit, nil, edgeOK)
			if bad != nil {
				c.Bad("C51-A", key, call.Pos(), DeclName(fd)+" can return the editor built by "+callee.Name()+" without attaching the full-text editor although the table has FULLTEXT indexes: rows written through it never reach the index tables", c.P.DescribePath(bad)...)
				continue
			}
			// the wrapped value is what is returned
			used := false
			ast.Inspect(fd.Body, func(n ast.Node) bool {
				switch x := n.(type) {
				case *ast.ReturnStmt:
					if hit(x) {
						used = true
					}
				case *ast.AssignStmt:
					if len(x.Rhs) == 1 && hit(x.Rhs[0]) && len(x.Lhs) >= 1 {
						if id, ok := x.Lhs[0].(*ast.Ident); ok {
							o := info.Uses[id]
							if o == nil {
								o = info.Defs[id]
							}
							ast.Inspect(fd.Body, func(m ast.Node) bool {
								if r, ok := m.(*ast.ReturnStmt); ok && o != nil && dmlMentions(info, r, o, false) {
									used = true
								}
								return true
							})
						}
					}
				}
				return true
			})
			c.Check(used, "C51-A", key, call.Pos(), "every path with FULLTEXT indexes passes the wrap call and the wrapped editor is returned",
				DeclName(fd)+" calls the wrap function but does not return its result: the bare editor is handed out")
		}
	}

	// the wrap function: CreateEditor's result is a secondary of CreateMultiTableEditor, the parent editor its primary
	var wfs []*types.Func
	for fn := range wrapFns {
		wfs = append(wfs, fn)
	}
	sort.Slice(wfs, func(i, j int) bool { return wfs[i].Pos() < wfs[j].Pos() })
	for _, fn := range wfs {
		fd := c.P.Decl(fn)
		f := c51NewFn(info, fd)
		g := c.P.CFG(info, fd.Body)
		key := DeclName(fd) + "/wraps"
		why := ""
		for _, target := range []*types.Func{createEd, createMulti} {
			t := target
			if bad := PathAvoiding(g, EntryPoint(g), func(n ast.Node) bool { return containsCallTo(n, map[*types.Func]bool{t: true}) }, nil, nil); bad != nil {
				why = "a path returns without calling " + t.Name()
			}
		}
		shape := false
		for _, call := range dmlCallsIn(fd.Body, false) {
			if cf := Callee(info, call); cf == nil || cf.Origin() != createMulti {
				continue
			}
			primary, secondary := false, false
			for i, a := range call.Args {
				s := f.Norm(a)
				if i >= 1 && len(s) > 1 && s[0] == '$' && !primary && !secondary {
					primary = true
					continue
				}
				if primary && c51OriginCall(c.P, memPk, f, a, 0) == createEd {
					secondary = true
				}
			}
			shape = primary && secondary
		}
		if why == "" && !shape {
			why = p.createMulti + " is not called with the parent editor parameter as primary and the result of " + p.createEditor + " as a secondary"
		}
		if why == "" {
			c.Ok("C51-A", key, fd.Pos(), "parent editor is the primary, the "+p.createEditor+" result a secondary of "+p.createMulti)
		} else {
			c.Bad("C51-A", key, fd.Pos(), DeclName(fd)+": "+why)
		}
	}

	// the table-set listing functions
	var sfs []*types.Func
	for fn := range setFns {
		sfs = append(sfs, fn)
	}
	sort.Slice(sfs, func(i, j int) bool { return sfs[i].Pos() < sfs[j].Pos() })
	isSetLit := func(n ast.Node) bool {
		found := false
		ast.Inspect(n, func(m ast.Node) bool {
			if cl, ok := m.(*ast.CompositeLit); ok {
				if nt := dmlNamedOf(info.TypeOf(cl)); nt != nil && nt.Obj() == setTn {
					found = true
				}
			}
			return !found
		})
		return found
	}
	for _, fn := range sfs {
		fd := setFns[fn]
		key := DeclName(fd) + "/skips only non-FULLTEXT"
		if !isSetLit(fd.Body) {
			// delegation: every return hands on the result of another listing function
			deleg := true
			ast.Inspect(fd.Body, func(n ast.Node) bool {
				if r, ok := n.(*ast.ReturnStmt); ok {
					if !ContainsCall(info, r, func(cf *types.Func, _ *ast.CallExpr) bool { return setFns[cf.Origin()] != nil && cf.Origin() != fn }) {
						deleg = false
					}
				}
				return true
			})
			c.Check(deleg, "C51-A", key, fd.Pos(), "delegates to another listing function", DeclName(fd)+" returns table sets it neither builds nor gets from a listing function")
			continue
		}
		g := c.P.CFG(info, fd.Body)
		lf := c51NewFn(info, fd)
		var verdict []ast.Node
		decided := false
		ast.Inspect(fd.Body, func(n ast.Node) bool {
			rs, ok := n.(*ast.RangeStmt)
			if !ok || !isSetLit(rs.Body) || decided {
				return true
			}
			var body, loop, done *cfg.Block
			for _, b := range g.Blocks {
				if b.Stmt != ast.Stmt(rs) {
					continue
				}
				switch b.Kind {
				case cfg.KindRangeBody:
					body = b
				case cfg.KindRangeLoop:
					loop = b
				case cfg.KindRangeDone:
					done = b
				}
			}
			if body == nil || loop == nil || done == nil {
				return true
			}
			decided = true
			edgeOK := func(b *cfg.Block, succ int) bool {
				if len(b.Nodes) == 0 || len(b.Succs) != 2 {
					return true
				}
				e, ok := b.Nodes[len(b.Nodes)-1].(ast.Expr)
				if !ok {
					return true
				}
				neg := false
				e = ast.Unparen(e)
				for {
					u, ok := e.(*ast.UnaryExpr)
					if !ok || u.Op != token.NOT {
						break
					}
					neg = !neg
					e = ast.Unparen(u.X)
				}
				if id, isId := e.(*ast.Ident); isId {
					// a local holding the test result (isFT := idx.IsFullText())
					if ds := lf.defs[info.Uses[id]]; len(ds) == 1 && ds[0].idx < 0 {
						e = ast.Unparen(ds[0].rhs)
					}
				}
				call, ok := e.(*ast.CallExpr)
				if !ok {
					return true
				}
				cf := Callee(info, call)
				x, isM := dmlMethodCallOn(call, p.isFullText)
				if cf == nil || !isM || !dmlImplements(info.TypeOf(x), idxIface) {
					return true
				}
				isFT := succ == 0
				if neg {
					isFT = !isFT
				}
				return isFT // the not-FULLTEXT edge may skip
			}
			verdict = c51BodyEscapes(body, loop, done, func(n ast.Node) bool { return isSetLit(n) }, edgeOK)
			return true
		})
		switch {
		case !decided:
			c.Undecided("C51-A", key, fd.Pos(), "no range loop building "+p.tableSet+" values found")
		case verdict == nil:
			c.Ok("C51-A", key, fd.Pos(), "every FULLTEXT index yields a table set")
		default:
			c.Bad("C51-A", key, fd.Pos(), DeclName(fd)+": an iteration over the indexes can end without appending a "+p.tableSet+" although the index is FULLTEXT: that index gets no editor and is never maintained", c.P.DescribePath(verdict)...)
		}
	}
	if len(sfs) == 0 {
		c.Undecided("C51-A", "listing functions", 0, "no function of "+p.memRel+" returns []"+p.tableSet)
	}

	// every TableSet literal names all tables
	sst, _ := setTn.Type().Underlying().(*types.Struct)
	for _, pk := range []*packages.Package{ftPk, memPk} {
		pinfo := pk.TypesInfo
		c.P.EachFuncDecl([]string{dmlRelOfPkg(pk.PkgPath)}, func(_ *packages.Package, fd *ast.FuncDecl) {
			ast.Inspect(fd.Body, func(n ast.Node) bool {
				cl, ok := n.(*ast.CompositeLit)
				if !ok || sst == nil {
					return true
				}
				if nt := dmlNamedOf(pinfo.TypeOf(cl)); nt == nil || nt.Obj() != setTn {
					return true
				}
				if len(cl.Elts) == 0 {
					return true // zero value used as an error result
				}
				set := map[string]bool{}
				for i, el := range cl.Elts {
					if kv, ok := el.(*ast.KeyValueExpr); ok {
						if id, ok := kv.Key.(*ast.Ident); ok {
							set[id.Name] = true
						}
					} else if i < sst.NumFields() {
						set[sst.Field(i).Name()] = true
					}
				}
				missing := ""
				for i := 0; i < sst.NumFields(); i++ {
					if !set[sst.Field(i).Name()] {
						missing += " " + sst.Field(i).Name()
					}
				}
				key := DeclName(fd) + "/" + p.tableSet + "{}"
				c.Check(missing == "", "C51-A", key, cl.Pos(), "all fields set", DeclName(fd)+": "+p.tableSet+" literal leaves"+missing+" unset: CreateEditor gets a nil table for that part of the index")
				return true
			})
		})
	}
}

// ---- R -----------------------------------------------------------------------------------------

func c51Rebuild(c *Ctx, p c51Params, ftPk *packages.Package) {
	execPk, sqlPk := c.P.Pkg(p.execRel), c.P.Pkg(p.sqlRel)
	if execPk == nil {
		c.Undecided("C51-R", "packages", 0, "package "+p.execRel+" not loaded")
		return
	}
	info := execPk.TypesInfo
	rebuild := LookupFunc(ftPk, p.rebuild)
	idxIface := dmlLookupIface(c.P, p.sqlRel, p.indexIface)
	if rebuild == nil || idxIface == nil {
		c.Undecided("C51-R", "anchors", 0, p.ftRel+"."+p.rebuild+" or "+p.sqlRel+"."+p.indexIface+" not found")
		return
	}
	bulk := map[*types.Func]string{}
	for in, ms := range p.bulk {
		tn, _ := sqlPk.Types.Scope().Lookup(in).(*types.TypeName)
		if tn == nil {
			c.Undecided("C51-R", in, 0, "interface "+p.sqlRel+"."+in+" not found")
			continue
		}
		for _, m := range ms {
			obj, _, _ := types.LookupFieldOrMethod(tn.Type(), true, sqlPk.Types, m)
			fn, _ := obj.(*types.Func)
			if fn == nil {
				c.Undecided("C51-R", in+"."+m, tn.Pos(), "method not found")
				continue
			}
			bulk[fn] = in + "." + m
		}
	}
	// rebuild closure (two levels of wrappers) and the has-FULLTEXT predicates
	reb := map[*types.Func]bool{rebuild: true}
	preds := map[*types.Func]bool{}
	for round := 0; round < 2; round++ {
		for _, pk := range []*packages.Package{ftPk, execPk} {
			pinfo := pk.TypesInfo
			c.P.EachFuncDecl([]string{dmlRelOfPkg(pk.PkgPath)}, func(_ *packages.Package, fd *ast.FuncDecl) {
				fn, _ := pinfo.Defs[fd.Name].(*types.Func)
				if fn == nil || reb[fn] {
					return
				}
				if ContainsCall(pinfo, fd.Body, func(cf *types.Func, _ *ast.CallExpr) bool { return reb[cf.Origin()] }) {
					reb[fn] = true
				}
			})
		}
	}
	c.P.EachFuncDecl([]string{p.execRel}, func(_ *packages.Package, fd *ast.FuncDecl) {
		fn, _ := info.Defs[fd.Name].(*types.Func)
		if fn == nil {
			return
		}
		sig := fn.Type().(*types.Signature)
		if sig.Results().Len() != 1 {
			return
		}
		if b, ok := sig.Results().At(0).Type().Underlying().(*types.Basic); !ok || b.Kind() != types.Bool {
			return
		}
		if ContainsCall(info, fd.Body, func(cf *types.Func, call *ast.CallExpr) bool {
			x, ok := dmlMethodCallOn(call, p.isFullText)
			return ok && dmlImplements(info.TypeOf(x), idxIface)
		}) {
			preds[fn] = true
		}
	})
	if len(preds) == 0 {
		c.Undecided("C51-R", "has-FULLTEXT predicate", 0, "no bool function of "+p.execRel+" tests "+p.indexIface+"."+p.isFullText)
	}
	isErrCtor := func(e ast.Expr) bool {
		call, ok := ast.Unparen(e).(*ast.CallExpr)
		if !ok {
			return false
		}
		fn := Callee(info, call)
		if fn == nil {
			return false
		}
		switch FullName(fn) {
		case "fmt.Errorf", "errors.New":
			return true
		}
		if fn.Pkg() != nil && fn.Pkg().Path() == "gopkg.in/src-d/go-errors.v1" && (fn.Name() == "New" || fn.Name() == "Wrap") {
			return true
		}
		return false
	}

	c.P.EachFuncDecl([]string{p.execRel}, func(_ *packages.Package, fd *ast.FuncDecl) {
		fn, _ := info.Defs[fd.Name].(*types.Func)
		if fn == nil {
			return
		}
		sig := fn.Type().(*types.Signature)
		var f *c51Fn
		for _, call := range dmlCallsIn(fd.Body, true) {
			callee := Callee(info, call)
			if callee == nil || bulk[callee.Origin()] == "" {
				continue
			}
			key := DeclName(fd) + "/" + callee.Name()
			if f == nil {
				f = c51NewFn(info, fd)
			}
			g := c.P.CFG(info, fd.Body)
			from, ok := FindNode(g, call)
			if !ok {
				c.Undecided("C51-R", key, call.Pos(), "call not found in the CFG of the declaration (inside a function literal?)")
				continue
			}
			isPred := func(e ast.Expr) bool {
				switch x := ast.Unparen(e).(type) {
				case *ast.CallExpr:
					cf := Callee(info, x)
					return cf != nil && preds[cf.Origin()]
				case *ast.Ident:
					o := info.Uses[x]
					ds := f.defs[o]
					if len(ds) == 0 {
						return false
					}
					for _, d := range ds {
						dc, ok := ast.Unparen(d.rhs).(*ast.CallExpr)
						if !ok {
							return false
						}
						if cf := Callee(info, dc); cf == nil || !preds[cf.Origin()] {
							return false
						}
					}
					return true
				}
				return false
			}
			errEdge := c51ErrEdge(info)
			edgeOK := func(b *cfg.Block, succ int) bool {
				if !errEdge(b, succ) {
					return false
				}
				if len(b.Nodes) == 0 || len(b.Succs) != 2 {
					return true
				}
				e, ok := b.Nodes[len(b.Nodes)-1].(ast.Expr)
				if !ok {
					return true
				}
				neg := false
				e = ast.Unparen(e)
				for {
					u, ok := e.(*ast.UnaryExpr)
					if !ok || u.Op != token.NOT {
						break
					}
					neg = !neg
					e = ast.Unparen(u.X)
				}
				if !isPred(e) {
					return true
				}
				has := succ == 0
				if neg {
					has = !has
				}
				return has // the no-FULLTEXT edge needs no rebuild
			}
			hit := func(n ast.Node) bool {
				if ContainsCall(info, n, func(cf *types.Func, _ *ast.CallExpr) bool { return reb[cf.Origin()] }) {
					return true
				}
				if r, ok := n.(*ast.ReturnStmt); ok {
					if e := dmlErrOperand(info, sig, r); e != nil && isErrCtor(e) {
						return true // an error exit, not a successful path
					}
				}
				return false
			}
			var bad []ast.Node
			if r, isRet := from.B.Nodes[from.I].(*ast.ReturnStmt); isRet {
				bad = []ast.Node{r}
			} else {
				bad = PathAvoiding(g, from, hit, nil, edgeOK)
			}
			switch {
			case bad == nil:
				c.Ok("C51-R", key, call.Pos(), "followed by a full-text rebuild on every successful path (or the table has no FULLTEXT index)")
			case p.rExc[key] != "" && !c.fixtureMode:
				c.Exc("C51-R", key, call.Pos(), p.rExc[key])
			default:
				c.Bad("C51-R", key, call.Pos(), DeclName(fd)+": after "+bulk[callee.Origin()]+" a successful return is reachable without rebuilding the full-text index tables although the table has FULLTEXT indexes: the index tables keep describing the table as it was before", c.P.DescribePath(bad)...)
			}
		}
	})
}
