package main

import (
	"fmt"
	"go/ast"
	"go/constant"
	"go/token"
	"go/types"
	"strings"

	"golang.org/x/tools/go/packages"
)

func init() {
	register(&Property{
		ID:       "C04",
		Patterns: []string{"./sql/sorters", "./sql/iters", "./sql/analyzer", "./sql/planbuilder", "./sql/rowexec", "./memory"},
		Explanation: "Decided: (O1) the one row comparator every ordering executor uses, sorters.RowSorter.CompareRows, folded over {a NULL?} x {b NULL?} x {ASC,DESC} x {sign of the type comparison} " +
			"with MySQL's NullsFirst ordering, places NULL first under ASC and last under DESC, inverts the sign under DESC and defers to the next sort key exactly on a tie; " +
			"(O1b) IsLesserRow is 'CompareRows < 0', the top-N max-heap's Less is the inverted comparator, the single-row top iterator replaces its candidate exactly when the new row is lesser; " +
			"(O2) every planbuilder function that builds both clauses applies Offset first and Limit on top of it (Limit(Offset(x)): skip m then take n); " +
			"(O3) analyzer.insertTopNNodes gives TopN the count limit+offset when an Offset is present and re-applies the Offset above the TopN; " +
			"(O6) the in-memory backend keeps its secondary index storage ordered by a comparator that, per key column, sends two NULLs to the next column, sorts NULL before values and otherwise follows the type comparison (the order an index scan serves ORDER BY from); (O7) every executor function that composes an OFFSET iterator with sort/top-N/LIMIT iterators (set operations build all of them inline) sorts first, then skips, then limits; (O4) the top-N heap evicts its maximum exactly when it holds more than n rows; (O5) LimitIter stops exactly when pos >= limit and counts a row only after reading it; offsetIter discards while skip > 0; " +
			"(O8) sort elimination by index order: the arm of the analyzer's node type switch that captures a *plan.Sort node for replacement by an index scan (replaceIdxSortHelper, with isValidSortOrder and any other helper inlined), folded over {1,2,3 sort keys} x {ASC,DESC per key}, captures the node only when all keys have the same direction (an index scan, forward or reversed, serves every key column in one direction).",
		NotCovered: "stability/tie order, the rest of replaceIdxSort (that the sort keys are the index columns at the same positions — sortExprsMatchIdxColExprs compares rendered expression strings and consults an alias map, not folded —, non-overlapping ranges, that the scan direction chosen equals the keys' direction, lists of more than 3 sort keys), collation-specific key order (C29), the type comparison itself (C26), NullsLast orderings used by other dialects (reported as information)",
		Technique:  "finite-domain abstract interpretation of the comparator (AST folding) + constructor-operand dataflow and CFG ordering",
		Run:        runC04,
	})
}

func runC04(c *Ctx) {
	c.Rule("C04-O1", "CompareRows over (aNull,bNull,order,sign) under NullsFirst: NULL first for ASC / last for DESC, sign inverted for DESC, tie -> next key", 12)
	c.Rule("C04-O1b", "IsLesserRow == (CompareRows < 0); maxRowsHeap.Less == (CompareRows > 0) off ties; topRowIter keeps the lesser row", 6)
	c.Rule("C04-O2", "in every function that constructs both plan.NewOffset and plan.NewLimit on the same node variable, the Offset is constructed first and the Limit wraps it", 4)
	c.Rule("C04-O3", "insertTopNNodes: under an Offset the TopN count combines limit.Limit and offset.Offset and the Offset is re-applied on the TopN; without it the count is limit.Limit", 3)
	c.Rule("C04-O4", "GetTopNRows pops the heap maximum exactly when Len() > n", 1)
	c.Rule("C04-O6", "memory backend index order (what an index scan returns): per key column both NULL -> next column, NULL sorts before values, otherwise the sign of the type comparison, tie -> next column", 6)
	c.Rule("C04-O7", "executor composition: in every rowexec function that builds an OFFSET iterator, no sort / top-N iterator is built after it (ORDER BY orders the rows before OFFSET skips any), and no OFFSET iterator is built after a LIMIT iterator", 2)
	c.Rule("C04-O8", "sort elimination by index order: the arm that captures a *plan.Sort node for replacement by an index scan (replaceIdxSortHelper / isValidSortOrder), folded over {1,2,3 sort keys} x {ASC,DESC per key}, captures the node only when all keys have the same direction", 14)
	c.Rule("C04-O5", "LimitIter.Next returns EOF exactly when currentPos >= Limit and increments only after a successful child read; offsetIter.Next discards rows while skip > 0 and decrements per discarded row", 4)

	so := c.P.Pkg("sql/sorters")
	if so == nil {
		c.Undecided("C04-O1", "sql/sorters", 0, "package not loaded")
		return
	}
	sqlT := c.P.Pkg("sql")
	cmpFn := LookupFunc(so, "RowSorter.CompareRows")
	cmpFd := c.P.Decl(cmpFn)
	if cmpFd == nil || sqlT == nil {
		c.Undecided("C04-O1", "RowSorter.CompareRows", 0, "function not found")
		return
	}
	constOf := func(name string) constant.Value {
		if k, ok := sqlT.Types.Scope().Lookup(name).(*types.Const); ok {
			return k.Val()
		}
		return nil
	}
	asc, desc, nf, nl := constOf("Ascending"), constOf("Descending"), constOf("NullsFirst"), constOf("NullsLast")
	if asc == nil || desc == nil || nf == nil || nl == nil {
		c.Undecided("C04-O1", "sort-constants", 0, "sql.Ascending/Descending/NullsFirst/NullsLast not found")
		return
	}
	// CompareNulls table (used when a NULL reaches the type comparison, i.e. under NullsLast)
	for _, ord := range []struct {
		name string
		v    constant.Value
	}{{"ASC", asc}, {"DESC", desc}} {
		for _, nullOrd := range []struct {
			name string
			v    constant.Value
		}{{"NullsFirst", nf}, {"NullsLast", nl}} {
			for _, aNil := range []bool{false, true} {
				for _, bNil := range []bool{false, true} {
					for _, sg := range []int{-1, 0, 1} {
						if (aNil || bNil) && sg != 0 {
							continue
						}
						key := fmt.Sprintf("%s/%s/a=%s,b=%s/cmp=%d", ord.name, nullOrd.name, nilStr(aNil), nilStr(bNil), sg)
						got, err := c04FoldCompare(c, so, cmpFd, ord.v, nullOrd.v, aNil, bNil, sg)
						if err != nil {
							if nullOrd.name == "NullsFirst" {
								c.Undecided("C04-O1", key, cmpFd.Pos(), err.Error())
							}
							continue
						}
						if nullOrd.name != "NullsFirst" {
							c.Note("C04-O1", key, cmpFd.Pos(), "NullsLast ordering (not MySQL): result "+got)
							continue
						}
						// expected
						var want string
						switch {
						case aNil && bNil:
							want = "next"
						case aNil:
							want = map[string]string{"ASC": "-1", "DESC": "1"}[ord.name]
						case bNil:
							want = map[string]string{"ASC": "1", "DESC": "-1"}[ord.name]
						case sg == 0:
							want = "next"
						default:
							s := sg
							if ord.name == "DESC" {
								s = -sg
							}
							want = fmt.Sprint(s)
						}
						c.Check(got == want, "C04-O1", key, cmpFd.Pos(), got, fmt.Sprintf("CompareRows yields %s, ORDER BY %s requires %s (NULLs first for ASC, last for DESC; DESC inverts; ties fall to the next key)", got, ord.name, want))
					}
				}
			}
		}
	}

	// ---- O1b ---------------------------------------------------------------------------------
	signFold := func(pk *packages.Package, fname string, calleeName string) (map[int]MV, *ast.FuncDecl, error) {
		fd := c.P.Decl(LookupFunc(pk, fname))
		if fd == nil {
			return nil, nil, fmt.Errorf("%s not found", fname)
		}
		out := map[int]MV{}
		for _, sg := range []int{-1, 0, 1} {
			m := &Mini{P: c.P, Info: pk.TypesInfo}
			m.Call = func(m *Mini, call *ast.CallExpr, fn *types.Func, recv MV, args []MV) ([]MV, bool) {
				if fn != nil && fn.Origin() == cmpFn {
					return []MV{constant.MakeInt64(int64(sg))}, true
				}
				return nil, false
			}
			m.Sel = func(m *Mini, sel *ast.SelectorExpr, base MV) (MV, bool) { return &MSym{Name: sel.Sel.Name}, true }
			bind := map[types.Object]MV{}
			if fd.Recv != nil && len(fd.Recv.List[0].Names) > 0 {
				bind[pk.TypesInfo.Defs[fd.Recv.List[0].Names[0]]] = &MSym{Name: "self"}
			}
			for _, fl := range fd.Type.Params.List {
				for _, n := range fl.Names {
					if o := pk.TypesInfo.Defs[n]; o != nil {
						bind[o] = &MSym{Name: n.Name}
					}
				}
			}
			res, panicked, err := m.RunFunc(fd, bind)
			if err != nil {
				if sg == 0 {
					continue // tie-break is outside the abstraction
				}
				return nil, fd, err
			}
			if panicked || len(res) != 1 {
				return nil, fd, fmt.Errorf("unexpected result shape")
			}
			out[sg] = res[0]
		}
		return out, fd, nil
	}
	if tab, fd, err := signFold(so, "RowSorter.IsLesserRow", ""); err != nil {
		c.Undecided("C04-O1b", "RowSorter.IsLesserRow", 0, err.Error())
	} else {
		for _, sg := range []int{-1, 0, 1} {
			b, ok := MBool(tab[sg])
			c.Check(ok && b == (sg < 0), "C04-O1b", fmt.Sprintf("IsLesserRow/cmp=%d", sg), fd.Pos(), "", fmt.Sprintf("IsLesserRow is %v when CompareRows=%d; must be %v", b, sg, sg < 0))
		}
	}
	if tab, fd, err := signFold(so, "maxRowsHeap.Less", ""); err != nil {
		c.Undecided("C04-O1b", "maxRowsHeap.Less", 0, err.Error())
	} else {
		for _, sg := range []int{-1, 1} {
			b, ok := MBool(tab[sg])
			c.Check(ok && b == (sg > 0), "C04-O1b", fmt.Sprintf("maxRowsHeap.Less/cmp=%d", sg), fd.Pos(), "", fmt.Sprintf("max-heap Less is %v when CompareRows=%d; a top-N max-heap must order the larger row first (%v) so that Pop evicts the maximum", b, sg, sg > 0))
		}
	}
	// topRowIter: `if sorter.IsLesserRow(row, topRow) { topRow = row }`
	if it := c.P.Pkg("sql/iters"); it != nil {
		fd := c.P.Decl(LookupFunc(it, "topRowIter.Next"))
		if fd == nil {
			c.Undecided("C04-O1b", "topRowIter.Next", 0, "not found")
		} else {
			ok, found := false, false
			ast.Inspect(fd.Body, func(n ast.Node) bool {
				is, isIf := n.(*ast.IfStmt)
				if !isIf {
					return true
				}
				call, isCall := ast.Unparen(is.Cond).(*ast.CallExpr)
				if !isCall || len(call.Args) != 2 {
					return true
				}
				fn := Callee(it.TypesInfo, call)
				if fn == nil || fn.Name() != "IsLesserRow" || fn.Pkg() != so.Types {
					return true
				}
				found = true
				for _, st := range is.Body.List {
					if as, isAs := st.(*ast.AssignStmt); isAs && len(as.Lhs) == 1 && len(as.Rhs) == 1 {
						// candidate := new row: lhs is 2nd arg, rhs is 1st arg
						if types.ExprString(as.Lhs[0]) == types.ExprString(call.Args[1]) && types.ExprString(as.Rhs[0]) == types.ExprString(call.Args[0]) {
							ok = true
						}
					}
				}
				return true
			})
			if !found {
				c.Undecided("C04-O1b", "topRowIter.Next/replace", fd.Pos(), "no `if sorter.IsLesserRow(x, top)` found")
			} else {
				c.Check(ok, "C04-O1b", "topRowIter.Next/replace", fd.Pos(), "", "the LIMIT 1 iterator must replace its candidate with the new row exactly when IsLesserRow(new, candidate)")
			}
		}
	}

	// ---- O2 -------------------------------------------------------------------------------------
	planPk := c.P.Pkg("sql/plan")
	newOffset, newLimit := LookupFunc(planPk, "NewOffset"), LookupFunc(planPk, "NewLimit")
	if newOffset == nil || newLimit == nil {
		c.Undecided("C04-O2", "plan.NewOffset/NewLimit", 0, "constructors not found")
	} else {
		c.P.EachModuleFuncDecl(func(pk *packages.Package, fd *ast.FuncDecl) {
			var offs, lims []*ast.CallExpr
			ast.Inspect(fd.Body, func(n ast.Node) bool {
				if call, ok := n.(*ast.CallExpr); ok {
					switch Callee(pk.TypesInfo, call) {
					case newOffset:
						offs = append(offs, call)
					case newLimit:
						lims = append(lims, call)
					}
				}
				return true
			})
			if len(offs) == 0 || len(lims) == 0 || pk.Types == planPk.Types {
				return
			}
			g := c.P.CFG(pk.TypesInfo, fd.Body)
			for _, o := range offs {
				for _, l := range lims {
					if len(o.Args) != 2 || len(l.Args) != 2 || types.ExprString(o.Args[1]) != types.ExprString(l.Args[1]) {
						continue
					}
					key := pkRel(pk) + "." + DeclName(fd) + "/" + types.ExprString(o.Args[1])
					op, ok1 := FindNode(g, o)
					lp, ok2 := FindNode(g, l)
					if !ok1 || !ok2 {
						c.Undecided("C04-O2", key, o.Pos(), "constructor call not found in the CFG")
						continue
					}
					isL := func(n ast.Node) bool { return n.Pos() <= l.Pos() && l.End() <= n.End() }
					isO := func(n ast.Node) bool { return n.Pos() <= o.Pos() && o.End() <= n.End() }
					limitAfterOffset := PathAvoiding(g, op, nil, isL, nil) != nil
					offsetAfterLimit := PathAvoiding(g, lp, nil, isO, nil) != nil
					c.Check(limitAfterOffset && !offsetAfterLimit, "C04-O2", key, l.Pos(), "Limit(Offset(x))",
						fmt.Sprintf("the Limit node must wrap the Offset node (skip m, then take n); here limit-after-offset=%v offset-after-limit=%v: Offset(Limit(x)) returns n-m rows", limitAfterOffset, offsetAfterLimit))
				}
			}
		})
	}

	// ---- O3 ---------------------------------------------------------------------------------------
	if an := c.P.Pkg("sql/analyzer"); an != nil {
		c04SortGuard(c, an)
	} else {
		c.Undecided("C04-O8", "sql/analyzer", 0, "package not loaded")
	}
	if an := c.P.Pkg("sql/analyzer"); an != nil {
		fd := c.P.Decl(LookupFunc(an, "insertTopNNodes"))
		newTopN := LookupFunc(planPk, "NewTopN")
		if fd == nil || newTopN == nil {
			c.Undecided("C04-O3", "insertTopNNodes", 0, "function or plan.NewTopN not found")
		} else {
			c04TopN(c, an, fd, newTopN)
		}
	}

	// ---- O4 ---------------------------------------------------------------------------------------
	if fd := c.P.Decl(LookupFunc(so, "GetTopNRows")); fd == nil {
		c.Undecided("C04-O4", "GetTopNRows", 0, "not found")
	} else {
		found := false
		ast.Inspect(fd.Body, func(n ast.Node) bool {
			is, ok := n.(*ast.IfStmt)
			if !ok {
				return true
			}
			pops := false
			for _, st := range is.Body.List {
				if es, ok := st.(*ast.ExprStmt); ok {
					if call, ok := es.X.(*ast.CallExpr); ok {
						if fn := Callee(so.TypesInfo, call); fn != nil && FullName(fn) == "container/heap.Pop" {
							pops = true
						}
					}
				}
			}
			if !pops {
				return true
			}
			found = true
			be, ok := ast.Unparen(is.Cond).(*ast.BinaryExpr)
			okShape := false
			if ok {
				lenLeft := strings.Contains(types.ExprString(be.X), ".Len()")
				lenRight := strings.Contains(types.ExprString(be.Y), ".Len()")
				// accepted differences d = Len - n in {-1,0,1}
				acc := []int{}
				for _, d := range []int64{-1, 0, 1} {
					l, r := constant.MakeInt64(d), constant.MakeInt64(0)
					if lenRight && !lenLeft {
						l, r = r, l
					}
					if constant.Compare(l, be.Op, r) {
						acc = append(acc, int(d))
					}
				}
				okShape = (lenLeft != lenRight) && len(acc) == 1 && acc[0] == 1
			}
			c.Check(okShape, "C04-O4", "GetTopNRows/evict", is.Pos(), "", "the heap must evict its maximum exactly when it holds more than n rows (Len() > n); otherwise LIMIT n returns n-1 or n+1 rows")
			return true
		})
		if !found {
			c.Undecided("C04-O4", "GetTopNRows/evict", fd.Pos(), "no `if … { heap.Pop(h) }` found")
		}
	}

	// ---- O5 ---------------------------------------------------------------------------------------
	if it := c.P.Pkg("sql/iters"); it != nil {
		if fd := c.P.Decl(LookupFunc(it, "LimitIter.Next")); fd == nil {
			c.Undecided("C04-O5", "LimitIter.Next", 0, "not found")
		} else {
			c04LimitIter(c, it, fd)
		}
	}
	if re := c.P.Pkg("sql/rowexec"); re != nil {
		c04ExecComposition(c, re)
	}
	if mem := c.P.Pkg("memory"); mem != nil {
		c04IndexOrder(c, mem)
	} else {
		c.Undecided("C04-O6", "memory", 0, "package not loaded")
	}
	if re := c.P.Pkg("sql/rowexec"); re != nil {
		if fd := c.P.Decl(LookupFunc(re, "offsetIter.Next")); fd == nil {
			c.Undecided("C04-O5", "offsetIter.Next", 0, "not found")
		} else {
			c04OffsetIter(c, re, fd)
		}
	}
}

func nilStr(b bool) string {
	if b {
		return "NULL"
	}
	return "v"
}

func pkRel(pk *packages.Package) string {
	return strings.TrimPrefix(strings.TrimPrefix(pk.PkgPath, modPath), "/")
}

// c04FoldCompare folds one iteration of CompareRows' loop.
func c04FoldCompare(c *Ctx, so *packages.Package, fd *ast.FuncDecl, order, nullOrd constant.Value, aNil, bNil bool, sg int) (string, error) {
	valA, valB := &MSym{Name: "av", Nil: aNil}, &MSym{Name: "bv", Nil: bNil}
	var rowA, rowB *MSym
	bind := map[types.Object]MV{}
	if fd.Recv != nil && len(fd.Recv.List[0].Names) > 0 {
		bind[so.TypesInfo.Defs[fd.Recv.List[0].Names[0]]] = &MSym{Name: "s"}
	}
	i := 0
	for _, fl := range fd.Type.Params.List {
		for _, n := range fl.Names {
			s := &MSym{Name: n.Name}
			if i == 0 {
				rowA = s
			} else {
				rowB = s
			}
			bind[so.TypesInfo.Defs[n]] = s
			i++
		}
	}
	m := &Mini{P: c.P, Info: so.TypesInfo}
	m.Range = func(m *Mini, rs *ast.RangeStmt) (MV, MV, bool) {
		return &MSym{Name: "i"}, &MSym{Name: "sc", Fields: map[string]MV{"Order": order, "NullOrdering": nullOrd, "Expr": &MSym{Name: "expr"}}}, true
	}
	m.Sel = func(m *Mini, sel *ast.SelectorExpr, base MV) (MV, bool) {
		if s, ok := base.(*MSym); ok && s.Fields != nil {
			if v, ok := s.Fields[sel.Sel.Name]; ok {
				return v, true
			}
		}
		return &MSym{Name: sel.Sel.Name}, true
	}
	var foldErr error
	m.Call = func(m *Mini, call *ast.CallExpr, fn *types.Func, recv MV, args []MV) ([]MV, bool) {
		if fn == nil {
			return nil, false
		}
		sig := fn.Type().(*types.Signature)
		nilErr := &MSym{Name: "nil", Nil: true}
		switch {
		case sig.Results().Len() == 2 && IsErrorType(sig.Results().At(1).Type()) && len(args) == 2 && (args[1] == MV(rowA) || args[1] == MV(rowB)):
			// sc.Expr.Eval(ctx, row)
			if args[1] == MV(rowA) {
				return []MV{valA, nilErr}, true
			}
			return []MV{valB, nilErr}, true
		case sig.Results().Len() == 2 && IsErrorType(sig.Results().At(1).Type()) && len(args) == 3:
			// typ.Compare(ctx, x, y)
			x, y := args[1], args[2]
			xs, _ := x.(*MSym)
			ys, _ := y.(*MSym)
			if xs == nil || ys == nil {
				return nil, false
			}
			if xs.Nil || ys.Nil {
				// Type.Compare on NULL follows types.CompareNulls: NULL compares greater (see C26 finding)
				switch {
				case xs.Nil && ys.Nil:
					return []MV{constant.MakeInt64(0), nilErr}, true
				case xs.Nil:
					return []MV{constant.MakeInt64(1), nilErr}, true
				default:
					return []MV{constant.MakeInt64(-1), nilErr}, true
				}
			}
			s := 0
			switch {
			case xs == valA && ys == valB:
				s = sg
			case xs == valB && ys == valA:
				s = -sg
			default:
				foldErr = fmt.Errorf("type comparison on unexpected operands")
			}
			return []MV{constant.MakeInt64(int64(s)), nilErr}, true
		case sig.Results().Len() == 1 && sig.Recv() != nil:
			return []MV{&MSym{Name: fn.Name()}}, true // sc.Expr.Type(ctx)
		}
		return nil, false
	}
	res, panicked, err := m.RunFunc(fd, bind)
	if err != nil {
		return "", err
	}
	if foldErr != nil {
		return "", foldErr
	}
	if panicked || len(res) != 1 {
		return "", fmt.Errorf("unexpected result shape")
	}
	if _, ok := res[0].(MNext); ok {
		return "next", nil
	}
	n, ok := MInt(res[0])
	if !ok {
		return "", fmt.Errorf("non-constant result")
	}
	return fmt.Sprint(n), nil
}

func c04TopN(c *Ctx, an *packages.Package, fd *ast.FuncDecl, newTopN *types.Func) {
	info := an.TypesInfo
	// classify NewTopN calls by the enclosing `if offset != nil` branch
	var stack []ast.Node
	seenWith, seenWithout := false, false
	ast.Inspect(fd.Body, func(n ast.Node) bool {
		if n == nil {
			stack = stack[:len(stack)-1]
			return true
		}
		stack = append(stack, n)
		call, ok := n.(*ast.CallExpr)
		if !ok || Callee(info, call) != newTopN || len(call.Args) < 2 {
			return true
		}
		// enclosing if comparing an *plan.Offset variable with nil
		var offVar types.Object
		inThen := false
		for i := len(stack) - 2; i >= 0; i-- {
			is, ok := stack[i].(*ast.IfStmt)
			if !ok {
				continue
			}
			be, ok := ast.Unparen(is.Cond).(*ast.BinaryExpr)
			if !ok || !isNilIdent(info, be.Y) {
				continue
			}
			id := identOf(be.X)
			if id == nil {
				continue
			}
			o := info.Uses[id]
			if o == nil || !strings.HasSuffix(o.Type().String(), "plan.Offset") {
				continue
			}
			offVar = o
			within := func(b ast.Node) bool { return b != nil && b.Pos() <= call.Pos() && call.End() <= b.End() }
			inThen = (be.Op == token.NEQ && within(is.Body)) || (be.Op == token.EQL && is.Else != nil && within(is.Else))
			// the Offset must be re-applied on the result in the same branch
			if inThen {
				branch := ast.Node(is.Body)
				if be.Op == token.EQL {
					branch = is.Else
				}
				reapplied := false
				ast.Inspect(branch, func(m ast.Node) bool {
					if wc, ok := m.(*ast.CallExpr); ok {
						if se, ok := wc.Fun.(*ast.SelectorExpr); ok && se.Sel.Name == "WithChildren" {
							if rid := identOf(se.X); rid != nil && info.Uses[rid] == offVar {
								reapplied = true
							}
						}
					}
					return true
				})
				c.Check(reapplied, "C04-O3", "insertTopNNodes/offset-reapplied", is.Pos(), "", "with an OFFSET the TopN keeps limit+offset rows, so the Offset node must be re-applied above it (offset.WithChildren(topN)); otherwise the first m rows are not skipped")
			}
			break
		}
		count := types.ExprString(call.Args[1])
		mentionsLimit := strings.Contains(count, ".Limit")
		mentionsOffset := strings.Contains(count, ".Offset")
		if inThen {
			seenWith = true
			sum := false
			if cc, ok := call.Args[1].(*ast.CallExpr); ok {
				if fn := Callee(info, cc); fn != nil && fn.Name() == "NewPlus" {
					sum = true
				}
			}
			c.Check(mentionsLimit && mentionsOffset && sum, "C04-O3", "insertTopNNodes/count-with-offset", call.Pos(), count,
				fmt.Sprintf("TopN count under an OFFSET is `%s`; it must be the sum of limit.Limit and offset.Offset (the heap must keep the first m+n rows)", count))
		} else {
			seenWithout = true
			c.Check(mentionsLimit && !mentionsOffset, "C04-O3", "insertTopNNodes/count-without-offset", call.Pos(), count,
				fmt.Sprintf("TopN count without OFFSET is `%s`; it must be limit.Limit", count))
		}
		return true
	})
	if !seenWith {
		c.Undecided("C04-O3", "insertTopNNodes/count-with-offset", fd.Pos(), "no NewTopN call under `if offset != nil`")
	}
	if !seenWithout {
		c.Undecided("C04-O3", "insertTopNNodes/count-without-offset", fd.Pos(), "no NewTopN call on the no-offset path")
	}
}

func c04LimitIter(c *Ctx, it *packages.Package, fd *ast.FuncDecl) {
	info := it.TypesInfo
	// (a) first statement: if currentPos <op> Limit { … return nil, io.EOF }
	okGate := false
	if len(fd.Body.List) > 0 {
		if is, ok := fd.Body.List[0].(*ast.IfStmt); ok {
			if be, ok := ast.Unparen(is.Cond).(*ast.BinaryExpr); ok {
				l, r := types.ExprString(be.X), types.ExprString(be.Y)
				posLeft := strings.HasSuffix(l, "currentPos") && strings.HasSuffix(r, "Limit")
				posRight := strings.HasSuffix(r, "currentPos") && strings.HasSuffix(l, "Limit")
				var acc []int
				for _, d := range []int64{-1, 0, 1} { // d = pos - limit
					a, b := constant.MakeInt64(d), constant.MakeInt64(0)
					if posRight {
						a, b = b, a
					}
					if constant.Compare(a, be.Op, b) {
						acc = append(acc, int(d))
					}
				}
				returnsEOF := false
				if n := len(is.Body.List); n > 0 {
					if rs, ok := is.Body.List[n-1].(*ast.ReturnStmt); ok && len(rs.Results) == 2 && types.ExprString(rs.Results[1]) == "io.EOF" {
						returnsEOF = true
					}
				}
				okGate = (posLeft || posRight) && len(acc) == 2 && acc[0] == 0 && acc[1] == 1 && returnsEOF
			}
		}
	}
	c.Check(okGate, "C04-O5", "LimitIter.Next/gate", fd.Pos(), "", "LimitIter must return io.EOF exactly when currentPos >= Limit (LIMIT n yields exactly n rows)")
	// (b) on the emitting path: child read, error check, then currentPos++ before returning the row
	g := c.P.CFG(info, fd.Body)
	var readCall ast.Node
	for _, st := range fd.Body.List[1:] {
		if as, ok := st.(*ast.AssignStmt); ok && len(as.Rhs) == 1 {
			if call, ok := as.Rhs[0].(*ast.CallExpr); ok {
				if fn := Callee(info, call); fn != nil && fn.Name() == "Next" {
					readCall = as
				}
			}
		}
	}
	if readCall == nil {
		c.Undecided("C04-O5", "LimitIter.Next/count", fd.Pos(), "child read not found")
		return
	}
	pt, _ := FindNode(g, readCall)
	isInc := func(n ast.Node) bool {
		inc, ok := n.(*ast.IncDecStmt)
		return ok && inc.Tok == token.INC && strings.HasSuffix(types.ExprString(inc.X), "currentPos")
	}
	isRowReturn := func(n ast.Node) bool {
		rs, ok := n.(*ast.ReturnStmt)
		return ok && len(rs.Results) == 2 && isNilIdent(info, rs.Results[1])
	}
	path := PathAvoiding(g, pt, isInc, isRowReturn, nil)
	c.Check(path == nil, "C04-O5", "LimitIter.Next/count", readCall.Pos(), "", "a row is returned without counting it (currentPos++ missing on a path): LIMIT n returns more than n rows")
}

func c04OffsetIter(c *Ctx, re *packages.Package, fd *ast.FuncDecl) {
	// a loop `for i.skip > 0 { child.Next; …; i.skip-- }` precedes the emitting read
	okLoop, okDec := false, false
	ast.Inspect(fd.Body, func(n ast.Node) bool {
		fs, ok := n.(*ast.ForStmt)
		if !ok || fs.Cond == nil {
			return true
		}
		be, ok := ast.Unparen(fs.Cond).(*ast.BinaryExpr)
		if !ok || !strings.HasSuffix(types.ExprString(be.X), "skip") {
			return true
		}
		tv := re.TypesInfo.Types[be.Y]
		if tv.Value == nil {
			return true
		}
		// accepted skip values among {0,1}: must loop for 1 and stop at 0
		loops := func(v int64) bool { return constant.Compare(constant.MakeInt64(v), be.Op, tv.Value) }
		okLoop = loops(1) && !loops(0)
		reads := false
		ast.Inspect(fs.Body, func(m ast.Node) bool {
			switch x := m.(type) {
			case *ast.IncDecStmt:
				if x.Tok == token.DEC && strings.HasSuffix(types.ExprString(x.X), "skip") {
					okDec = true
				}
			case *ast.CallExpr:
				if fn := Callee(re.TypesInfo, x); fn != nil && fn.Name() == "Next" {
					reads = true
				}
			}
			return true
		})
		okDec = okDec && reads
		return true
	})
	c.Check(okLoop, "C04-O5", "offsetIter.Next/skip-loop", fd.Pos(), "", "offsetIter must discard rows while skip > 0 and stop at 0 (OFFSET m skips exactly m rows)")
	c.Check(okDec, "C04-O5", "offsetIter.Next/skip-dec", fd.Pos(), "", "each discarded row must decrement skip (and be read from the child)")
}


// c04IndexOrder folds the less-function that memory.TableData.sortSecondaryIndexes passes to
// sort.SliceStable: the order in which an index scan returns rows.
func c04IndexOrder(c *Ctx, mem *packages.Package) {
	fd := c.P.Decl(LookupFunc(mem, "TableData.sortSecondaryIndexes"))
	if fd == nil {
		c.Undecided("C04-O6", "TableData.sortSecondaryIndexes", 0, "not found")
		return
	}
	info := mem.TypesInfo
	var lit *ast.FuncLit
	ast.Inspect(fd.Body, func(n ast.Node) bool {
		if call, ok := n.(*ast.CallExpr); ok && lit == nil {
			if fn := Callee(info, call); fn != nil && fn.Pkg() != nil && fn.Pkg().Path() == "sort" && (fn.Name() == "SliceStable" || fn.Name() == "Slice") && len(call.Args) == 2 {
				lit, _ = call.Args[1].(*ast.FuncLit)
			}
		}
		return true
	})
	if lit == nil || len(lit.Type.Params.List) == 0 {
		c.Undecided("C04-O6", "TableData.sortSecondaryIndexes/less", fd.Pos(), "no sort.Slice/SliceStable with a less-function literal found")
		return
	}
	var params []types.Object
	for _, fl := range lit.Type.Params.List {
		for _, n := range fl.Names {
			params = append(params, info.Defs[n])
		}
	}
	if len(params) != 2 {
		c.Undecided("C04-O6", "TableData.sortSecondaryIndexes/less", lit.Pos(), "less-function does not have two index parameters")
		return
	}
	for _, lNil := range []bool{false, true} {
		for _, rNil := range []bool{false, true} {
			for _, sg := range []int{-1, 0, 1} {
				if (lNil || rNil) && sg != 0 {
					continue
				}
				key := fmt.Sprintf("index-less/l=%s,r=%s/cmp=%d", nilStr(lNil), nilStr(rNil), sg)
				left, right := &MSym{Name: "left", Nil: lNil}, &MSym{Name: "right", Nil: rNil}
				m := &Mini{P: c.P, Info: info}
				m.Range = func(m *Mini, rs *ast.RangeStmt) (MV, MV, bool) { return &MSym{Name: "t"}, &MSym{Name: "typ"}, true }
				m.Index = func(m *Mini, x *ast.IndexExpr) (MV, bool) {
					// storage[i][t] / storage[j][t]: which row is decided by the less-function parameter used
					var who types.Object
					ast.Inspect(x, func(n ast.Node) bool {
						if id, ok := n.(*ast.Ident); ok {
							if o := info.Uses[id]; o == params[0] || o == params[1] {
								who = o
							}
						}
						return true
					})
					switch who {
					case params[0]:
						return left, true
					case params[1]:
						return right, true
					}
					return nil, false
				}
				foldErr := ""
				m.Call = func(m *Mini, call *ast.CallExpr, fn *types.Func, recv MV, args []MV) ([]MV, bool) {
					if fn == nil || len(args) != 3 {
						return nil, false
					}
					sig := fn.Type().(*types.Signature)
					if sig.Results().Len() != 2 || !IsErrorType(sig.Results().At(1).Type()) {
						return nil, false
					}
					s := 0
					switch {
					case args[1] == MV(left) && args[2] == MV(right):
						s = sg
					case args[1] == MV(right) && args[2] == MV(left):
						s = -sg
					default:
						foldErr = "type comparison on unexpected operands"
					}
					if lNil || rNil {
						foldErr = "a NULL reaches the type comparison (Compare does not order NULLs first)"
					}
					return []MV{constant.MakeInt64(int64(s)), &MSym{Name: "nil", Nil: true}}, true
				}
				bind := map[types.Object]MV{params[0]: &MSym{Name: "i"}, params[1]: &MSym{Name: "j"}}
				res, returned, panicked, _, err := m.RunBlock(lit.Body.List, bind)
				if err != nil || panicked || !returned || len(res) != 1 {
					c.Undecided("C04-O6", key, lit.Pos(), fmt.Sprintf("not foldable: %v", err))
					continue
				}
				got := ""
				if _, ok := res[0].(MNext); ok {
					got = "next"
				} else if b, ok := MBool(res[0]); ok {
					got = fmt.Sprint(b)
				}
				want := ""
				switch {
				case lNil && rNil:
					want = "next"
				case lNil:
					want = "true"
				case rNil:
					want = "false"
				case sg == 0:
					want = "next"
				default:
					want = fmt.Sprint(sg < 0)
				}
				if foldErr != "" {
					c.Bad("C04-O6", key, lit.Pos(), foldErr)
					continue
				}
				c.Check(got == want, "C04-O6", key, lit.Pos(), got, fmt.Sprintf("index order: less yields %s, must be %s (NULLs first, both NULL / tie defer to the next key column; otherwise rows served in index order are not ordered by the later key columns)", got, want))
			}
		}
	}
}


// c04ExecComposition: order of iterator construction in rowexec functions that build an
// offsetIter. Later constructions wrap earlier ones (each takes the running `iter`), so a sort or
// top-N iterator built after the OFFSET iterator sorts rows of which the first m (in arrival
// order) are already gone.
func c04ExecComposition(c *Ctx, re *packages.Package) {
	info := re.TypesInfo
	offT, _ := re.Types.Scope().Lookup("offsetIter").(*types.TypeName)
	if offT == nil {
		c.Undecided("C04-O7", "rowexec.offsetIter", 0, "type not found")
		return
	}
	isLitOf := func(n ast.Node, match func(t types.Type) bool) bool {
		found := false
		ast.Inspect(n, func(m ast.Node) bool {
			if _, ok := m.(*ast.FuncLit); ok {
				return false
			}
			if cl, ok := m.(*ast.CompositeLit); ok {
				if tv, ok := info.Types[cl]; ok && match(tv.Type) {
					found = true
				}
			}
			return !found
		})
		return found
	}
	isOffset := func(n ast.Node) bool {
		return isLitOf(n, func(t types.Type) bool { return types.Identical(t, offT.Type()) })
	}
	isLimit := func(n ast.Node) bool {
		return isLitOf(n, func(t types.Type) bool {
			nt, ok := t.(*types.Named)
			return ok && nt.Obj().Name() == "LimitIter" && nt.Obj().Pkg() != nil && strings.HasSuffix(nt.Obj().Pkg().Path(), "sql/iters")
		})
	}
	isSort := func(n ast.Node) bool {
		return ContainsCall(info, n, func(fn *types.Func, call *ast.CallExpr) bool {
			return fn.Pkg() != nil && strings.HasSuffix(fn.Pkg().Path(), "sql/iters") && (fn.Name() == "NewSortIter" || fn.Name() == "NewTopRowsIter")
		})
	}
	for _, file := range re.Syntax {
		for _, d := range file.Decls {
			fd, ok := d.(*ast.FuncDecl)
			if !ok || fd.Body == nil || !isOffset(fd.Body) {
				continue
			}
			g := c.P.CFG(info, fd.Body)
			key := "rowexec." + DeclName(fd)
			var viol []string
			var pos ast.Node
			for _, b := range g.Blocks {
				for i, n := range b.Nodes {
					if isOffset(n) {
						if p := PathAvoiding(g, CFGPoint{b, i}, nil, isSort, nil); p != nil {
							viol = append(viol, "a sort/top-N iterator is built after the OFFSET iterator (rows are skipped in arrival order, before ORDER BY)")
							pos = p[len(p)-1]
						}
					}
					if isLimit(n) {
						if p := PathAvoiding(g, CFGPoint{b, i}, nil, isOffset, nil); p != nil {
							viol = append(viol, "an OFFSET iterator is built after the LIMIT iterator (Offset(Limit(x)) returns n-m rows)")
							pos = p[len(p)-1]
						}
					}
				}
			}
			if len(viol) > 0 {
				c.Bad("C04-O7", key, pos.Pos(), strings.Join(viol, "; "))
			} else {
				c.Ok("C04-O7", key, fd.Pos(), "sort, then offset, then limit")
			}
		}
	}
}
