package main

import (
	"fmt"
	"go/ast"
	"go/constant"
	"go/token"
	"go/types"
)

// E9: finite-domain interpretation of small functions.
//
// Mini folds the *syntax* of a small function for one point of a finite abstraction of its
// inputs: integer/boolean/enum constants are go/constant values; everything else is an
// opaque symbol that carries only what the abstraction tracks (is it nil, what is its
// dynamic type, named fields). Calls and selectors the abstraction gives meaning to are
// answered by the rule's handlers (e.g. "typ.Compare(x, y) is the sign of an uninterpreted
// antisymmetric key comparison"); any construct outside the supported subset makes the
// fold fail, and the rule reports the table as not readable (never a pass).
// Nothing from /repo is executed: this is constant folding over a finite lattice.

type MV any // constant.Value | *MSym | MNext

// MSym is an opaque value.
type MSym struct {
	Name   string
	Nil    bool
	Dyn    types.Type // dynamic type, when the abstraction tracks it
	Fields map[string]MV
}

// MNext is the result "this loop iteration decided nothing; the next one decides".
type MNext struct{}

type miniCtl int

const (
	ctlNormal miniCtl = iota
	ctlReturn
	ctlPanic
	ctlBreak
	ctlContinue
)

type Mini struct {
	P    *Prog
	Info *types.Info
	// Call gives meaning to a call; ok=false means "not mine" (then small module functions are inlined).
	Call func(m *Mini, call *ast.CallExpr, fn *types.Func, recv MV, args []MV) (res []MV, ok bool)
	// Sel gives meaning to a field selection on an opaque value.
	Sel func(m *Mini, sel *ast.SelectorExpr, base MV) (MV, bool)
	// Index gives meaning to an index expression x[i].
	Index func(m *Mini, x *ast.IndexExpr) (MV, bool)
	// Range gives the (key, value) of the single symbolic iteration of a range loop.
	Range func(m *Mini, rs *ast.RangeStmt) (k, v MV, ok bool)
	// Unroll (optional, consulted before Range) unrolls a range loop over a finite abstract sequence:
	// n iterations, item(i) yields the key and value of iteration i (and lets the rule note which
	// abstract element is current). break/continue/return have their Go meaning; after the last
	// iteration control continues behind the loop.
	// eval folds an expression in the loop's environment (opaque symbol when outside the abstraction).
	Unroll func(m *Mini, rs *ast.RangeStmt, eval func(ast.Expr) MV) (n int, item func(i int) (k, v MV), ok bool)
	// Store (optional) gives meaning to an assignment whose target is not an identifier (x.f = v,
	// x[i] = v); i is the index of the target in s.Lhs, v the folded value (nil when the right-hand
	// side is a multi-value call), eval folds further expressions. Unhandled stores stay no-ops.
	Store func(m *Mini, s *ast.AssignStmt, i int, v MV, eval func(ast.Expr) MV) bool
	// Counters: x++ / x-- / x += c on an integer variable whose value is known are folded
	// (default: counters are ignored).
	Counters bool
	// IndexV (optional, consulted before Index) gives meaning to x[i] from the folded base and index
	// (either may be an opaque symbol when it is outside the abstraction).
	IndexV func(m *Mini, x *ast.IndexExpr, base, idx MV) (MV, bool)
	// Equal (optional, consulted first by ==, != and switch-case matching) decides the equality of two
	// folded values the rule's abstraction distinguishes (e.g. a singleton such as types.Null against
	// any other type symbol); ok=false leaves the decision to the built-in rules.
	Equal func(m *Mini, a, b MV) (eq, ok bool)
	// Lookup (optional) gives meaning to the two-value map lookup `v, ok := x[i]`.
	Lookup func(m *Mini, x *ast.IndexExpr, base, idx MV) (v MV, present, ok bool)
	steps  int
	depth  int
}

type miniErr struct{ s string }

func (e miniErr) Error() string { return e.s }

func (m *Mini) fail(n ast.Node, format string, a ...any) {
	panic(miniErr{fmt.Sprintf(format, a...) + " at " + m.P.Rel(n.Pos())})
}

type menv struct {
	vars   map[types.Object]MV
	parent *menv
}

func (e *menv) get(o types.Object) (MV, bool) {
	for x := e; x != nil; x = x.parent {
		if v, ok := x.vars[o]; ok {
			return v, true
		}
	}
	return nil, false
}
func (e *menv) set(o types.Object, v MV) {
	for x := e; x != nil; x = x.parent {
		if _, ok := x.vars[o]; ok {
			x.vars[o] = v
			return
		}
	}
	e.vars[o] = v
}
func (e *menv) def(o types.Object, v MV) { e.vars[o] = v }

// RunFunc folds fd with the given bindings for receiver/parameters (by object).
// It returns the returned values, or panicked=true, or an error if not foldable.
func (m *Mini) RunFunc(fd *ast.FuncDecl, bind map[types.Object]MV) (res []MV, panicked bool, err error) {
	defer func() {
		if r := recover(); r != nil {
			if me, ok := r.(miniErr); ok {
				err = me
				return
			}
			panic(r)
		}
	}()
	env := &menv{vars: map[types.Object]MV{}}
	for o, v := range bind {
		env.vars[o] = v
	}
	// named results start at their zero value
	if fd.Type.Results != nil {
		for _, f := range fd.Type.Results.List {
			for _, n := range f.Names {
				if o := m.Info.Defs[n]; o != nil {
					env.vars[o] = m.zero(o.Type())
				}
			}
		}
	}
	ctl, vals := m.block(fd.Body.List, env)
	switch ctl {
	case ctlReturn:
		return vals, false, nil
	case ctlPanic:
		return nil, true, nil
	}
	return nil, false, nil // fell off the end (no results)
}

// RunBlock folds a statement list under the given bindings and returns the control outcome
// plus a lookup for the final values of the bound (and newly defined outer) variables.
func (m *Mini) RunBlock(list []ast.Stmt, bind map[types.Object]MV) (ret []MV, returned, panicked bool, get func(types.Object) (MV, bool), err error) {
	defer func() {
		if r := recover(); r != nil {
			if me, ok := r.(miniErr); ok {
				err = me
				return
			}
			panic(r)
		}
	}()
	env := &menv{vars: map[types.Object]MV{}}
	for o, v := range bind {
		env.vars[o] = v
	}
	ctl, vals := ctlNormal, []MV(nil)
	for _, s := range list {
		if ctl, vals = m.stmt(s, env); ctl != ctlNormal {
			break
		}
	}
	return vals, ctl == ctlReturn, ctl == ctlPanic, env.get, nil
}

func (m *Mini) zero(t types.Type) MV {
	switch u := t.Underlying().(type) {
	case *types.Basic:
		switch {
		case u.Info()&types.IsBoolean != 0:
			return constant.MakeBool(false)
		case u.Info()&types.IsInteger != 0:
			return constant.MakeInt64(0)
		case u.Info()&types.IsString != 0:
			return constant.MakeString("")
		}
	case *types.Interface, *types.Pointer, *types.Slice, *types.Map:
		return &MSym{Name: "nil", Nil: true}
	}
	return &MSym{Name: "zero"}
}

func (m *Mini) block(list []ast.Stmt, env *menv) (miniCtl, []MV) {
	inner := &menv{vars: map[types.Object]MV{}, parent: env}
	for _, s := range list {
		if ctl, v := m.stmt(s, inner); ctl != ctlNormal {
			return ctl, v
		}
	}
	return ctlNormal, nil
}

func (m *Mini) stmt(s ast.Stmt, env *menv) (miniCtl, []MV) {
	m.steps++
	if m.steps > 100000 {
		m.fail(s, "step budget exceeded")
	}
	switch s := s.(type) {
	case *ast.BlockStmt:
		return m.block(s.List, env)
	case *ast.EmptyStmt:
		return ctlNormal, nil
	case *ast.ReturnStmt:
		var out []MV
		if len(s.Results) == 1 {
			if call, ok := ast.Unparen(s.Results[0]).(*ast.CallExpr); ok {
				return ctlReturn, m.call(call, env)
			}
		}
		for _, r := range s.Results {
			out = append(out, m.expr(r, env))
		}
		return ctlReturn, out
	case *ast.ExprStmt:
		if call, ok := s.X.(*ast.CallExpr); ok {
			if IsBuiltinCall(m.Info, call, "panic") {
				return ctlPanic, nil
			}
			m.call(call, env)
			return ctlNormal, nil
		}
		m.fail(s, "unsupported expression statement")
	case *ast.DeclStmt:
		gd, ok := s.Decl.(*ast.GenDecl)
		if !ok || gd.Tok != token.VAR {
			m.fail(s, "unsupported declaration")
		}
		for _, sp := range gd.Specs {
			vs := sp.(*ast.ValueSpec)
			for i, n := range vs.Names {
				o := m.Info.Defs[n]
				if i < len(vs.Values) {
					env.def(o, m.expr(vs.Values[i], env))
				} else {
					env.def(o, m.zero(o.Type()))
				}
			}
		}
		return ctlNormal, nil
	case *ast.AssignStmt:
		m.assign(s, env)
		return ctlNormal, nil
	case *ast.IncDecStmt:
		if m.Counters {
			if id, ok := ast.Unparen(s.X).(*ast.Ident); ok {
				if o := m.Info.Uses[id]; o != nil {
					if cur, ok := env.get(o); ok {
						if iv, ok := MInt(cur); ok {
							if s.Tok == token.INC {
								env.set(o, constant.MakeInt64(iv+1))
							} else {
								env.set(o, constant.MakeInt64(iv-1))
							}
							return ctlNormal, nil
						}
					}
				}
			}
			m.fail(s, "counter outside the abstraction")
		}
		return ctlNormal, nil // counters are outside the abstraction
	case *ast.IfStmt:
		scope := &menv{vars: map[types.Object]MV{}, parent: env}
		if s.Init != nil {
			if ctl, v := m.stmt(s.Init, scope); ctl != ctlNormal {
				return ctl, v
			}
		}
		if m.truth(s.Cond, scope) {
			return m.block(s.Body.List, scope)
		}
		if s.Else != nil {
			return m.stmt(s.Else, scope)
		}
		return ctlNormal, nil
	case *ast.SwitchStmt:
		scope := &menv{vars: map[types.Object]MV{}, parent: env}
		if s.Init != nil {
			m.stmt(s.Init, scope)
		}
		var tag MV
		if s.Tag != nil {
			tag = m.expr(s.Tag, scope)
		}
		var chosen *ast.CaseClause
		var deflt *ast.CaseClause
	outer:
		for _, cs := range s.Body.List {
			cc := cs.(*ast.CaseClause)
			if cc.List == nil {
				deflt = cc
				continue
			}
			for _, x := range cc.List {
				if tag != nil {
					if m.equal(x, tag, m.expr(x, scope)) {
						chosen = cc
						break outer
					}
				} else if m.truth(x, scope) {
					chosen = cc
					break outer
				}
			}
		}
		if chosen == nil {
			chosen = deflt
		}
		if chosen == nil {
			return ctlNormal, nil
		}
		ctl, v := m.block(chosen.Body, scope)
		if ctl == ctlBreak {
			return ctlNormal, nil
		}
		return ctl, v
	case *ast.TypeSwitchStmt:
		scope := &menv{vars: map[types.Object]MV{}, parent: env}
		if s.Init != nil {
			m.stmt(s.Init, scope)
		}
		var x ast.Expr
		var bindName *ast.Ident
		switch a := s.Assign.(type) {
		case *ast.ExprStmt:
			x = a.X.(*ast.TypeAssertExpr).X
		case *ast.AssignStmt:
			x = a.Rhs[0].(*ast.TypeAssertExpr).X
			bindName = a.Lhs[0].(*ast.Ident)
		}
		v := m.expr(x, scope)
		sym, _ := v.(*MSym)
		if sym == nil || (sym.Dyn == nil && !sym.Nil) {
			m.fail(s, "type switch on a value whose dynamic type the abstraction does not track")
		}
		var chosen, deflt *ast.CaseClause
	outer2:
		for _, cs := range s.Body.List {
			cc := cs.(*ast.CaseClause)
			if cc.List == nil {
				deflt = cc
				continue
			}
			for _, tx := range cc.List {
				if isNilIdent(m.Info, tx) {
					if sym.Nil {
						chosen = cc
						break outer2
					}
					continue
				}
				t := m.Info.Types[tx].Type
				if !sym.Nil && m.dynMatches(sym.Dyn, t) {
					chosen = cc
					break outer2
				}
			}
		}
		if chosen == nil {
			chosen = deflt
		}
		if chosen == nil {
			return ctlNormal, nil
		}
		cscope := &menv{vars: map[types.Object]MV{}, parent: scope}
		if bindName != nil {
			if o := m.Info.Implicits[chosen]; o != nil {
				cscope.def(o, v)
			}
		}
		ctl, r := m.block(chosen.Body, cscope)
		if ctl == ctlBreak {
			return ctlNormal, nil
		}
		return ctl, r
	case *ast.RangeStmt:
		if m.Unroll != nil {
			if n, item, ok := m.Unroll(m, s, func(x ast.Expr) MV { return m.tryExpr(x, env) }); ok {
				for i := 0; i < n; i++ {
					k, v := item(i)
					scope := &menv{vars: map[types.Object]MV{}, parent: env}
					for j, e := range []ast.Expr{s.Key, s.Value} {
						id, isID := e.(*ast.Ident)
						if e == nil || (isID && id.Name == "_") {
							continue
						}
						if !isID {
							m.fail(s, "range loop assigns to a non-identifier")
						}
						val := k
						if j == 1 {
							val = v
						}
						if o := m.Info.Defs[id]; o != nil {
							scope.def(o, val)
						} else if o := m.Info.Uses[id]; o != nil {
							env.set(o, val)
						}
					}
					ctl, r := m.block(s.Body.List, scope)
					switch ctl {
					case ctlBreak:
						return ctlNormal, nil
					case ctlReturn, ctlPanic:
						return ctl, r
					}
				}
				return ctlNormal, nil
			}
		}
		if m.Range == nil {
			m.fail(s, "range loop outside the abstraction")
		}
		k, v, ok := m.Range(m, s)
		if !ok {
			m.fail(s, "range loop outside the abstraction")
		}
		scope := &menv{vars: map[types.Object]MV{}, parent: env}
		if id, ok := s.Key.(*ast.Ident); ok && id.Name != "_" {
			if o := m.Info.Defs[id]; o != nil {
				scope.def(o, k)
			}
		}
		if id, ok := s.Value.(*ast.Ident); ok && id.Name != "_" {
			if o := m.Info.Defs[id]; o != nil {
				scope.def(o, v)
			}
		}
		ctl, r := m.block(s.Body.List, scope)
		switch ctl {
		case ctlNormal, ctlContinue:
			return ctlReturn, []MV{MNext{}} // this iteration decided nothing
		case ctlBreak:
			return ctlNormal, nil
		}
		return ctl, r
	case *ast.ForStmt:
		if s.Cond != nil || s.Init != nil || s.Post != nil {
			if !m.Counters {
				m.fail(s, "for loop with a condition is outside the abstraction")
			}
			// counted loop over known integers: executed concretely on the abstract values
			// (init; cond; post fold to constants or the fold fails), bounded.
			scope := &menv{vars: map[types.Object]MV{}, parent: env}
			if s.Init != nil {
				if ctl, v := m.stmt(s.Init, scope); ctl != ctlNormal {
					return ctl, v
				}
			}
			for iter := 0; ; iter++ {
				if iter > 64 {
					m.fail(s, "counted loop does not terminate within the abstraction's bound")
				}
				if s.Cond != nil && !m.truth(s.Cond, scope) {
					return ctlNormal, nil
				}
				ctl, r := m.block(s.Body.List, scope)
				switch ctl {
				case ctlBreak:
					return ctlNormal, nil
				case ctlReturn, ctlPanic:
					return ctl, r
				}
				if s.Post != nil {
					m.stmt(s.Post, scope)
				}
			}
		}
		// `for { … }`: one symbolic iteration; falling through means "the next iteration decides"
		ctl, r := m.block(s.Body.List, &menv{vars: map[types.Object]MV{}, parent: env})
		switch ctl {
		case ctlNormal, ctlContinue:
			return ctlReturn, []MV{MNext{}}
		case ctlBreak:
			return ctlNormal, nil
		}
		return ctl, r
	case *ast.BranchStmt:
		if s.Label != nil {
			m.fail(s, "labelled branch")
		}
		switch s.Tok {
		case token.BREAK:
			return ctlBreak, nil
		case token.CONTINUE:
			return ctlContinue, nil
		}
		m.fail(s, "unsupported branch")
	}
	m.fail(s, "unsupported statement %T", s)
	return ctlNormal, nil
}

func (m *Mini) dynMatches(dyn, t types.Type) bool {
	if dyn == nil {
		return false
	}
	if types.Identical(dyn, t) {
		return true
	}
	if it, ok := t.Underlying().(*types.Interface); ok {
		return types.Implements(dyn, it)
	}
	return false
}

func (m *Mini) assign(s *ast.AssignStmt, env *menv) {
	var vals []MV
	if len(s.Rhs) == 1 && len(s.Lhs) > 1 {
		switch r := ast.Unparen(s.Rhs[0]).(type) {
		case *ast.CallExpr:
			vals = m.call(r, env)
		case *ast.TypeAssertExpr:
			v := m.expr(r.X, env)
			if cv, isConst := v.(constant.Value); isConst {
				// constant held in an interface: the assertion succeeds iff the asserted type has the constant's kind
				ok := false
				if b, isBasic := m.Info.Types[r.Type].Type.Underlying().(*types.Basic); isBasic {
					switch cv.Kind() {
					case constant.Bool:
						ok = b.Info()&types.IsBoolean != 0
					case constant.Int:
						ok = b.Info()&types.IsInteger != 0
					case constant.String:
						ok = b.Info()&types.IsString != 0
					}
				}
				if ok {
					vals = []MV{v, constant.MakeBool(true)}
				} else {
					vals = []MV{m.zero(m.Info.Types[r.Type].Type), constant.MakeBool(false)}
				}
				break
			}
			sym, _ := v.(*MSym)
			if sym == nil || (sym.Dyn == nil && !sym.Nil) {
				m.fail(s, "type assertion on a value whose dynamic type the abstraction does not track")
			}
			ok := !sym.Nil && m.dynMatches(sym.Dyn, m.Info.Types[r.Type].Type)
			if ok {
				vals = []MV{v, constant.MakeBool(true)}
			} else {
				vals = []MV{m.zero(m.Info.Types[r.Type].Type), constant.MakeBool(false)}
			}
		case *ast.IndexExpr:
			if m.Lookup == nil || len(s.Lhs) != 2 {
				m.fail(s, "two-value index expression outside the abstraction")
			}
			v, present, ok := m.Lookup(m, r, m.tryExpr(r.X, env), m.tryExpr(r.Index, env))
			if !ok {
				m.fail(s, "two-value index expression outside the abstraction")
			}
			vals = []MV{v, constant.MakeBool(present)}
		default:
			m.fail(s, "unsupported multi-value assignment")
		}
		if len(vals) != len(s.Lhs) {
			m.fail(s, "assignment arity mismatch (%d values for %d targets)", len(vals), len(s.Lhs))
		}
	} else {
		for _, r := range s.Rhs {
			vals = append(vals, m.tryExpr(r, env))
		}
	}
	for i, l := range s.Lhs {
		id, ok := ast.Unparen(l).(*ast.Ident)
		if !ok {
			// stores into fields/elements are outside the abstraction (e.g. s.lastError = err)
			// unless the rule gives them meaning
			if m.Store != nil {
				var v MV
				if i < len(vals) {
					v = vals[i]
				}
				m.Store(m, s, i, v, func(x ast.Expr) MV { return m.tryExpr(x, env) })
			}
			continue
		}
		if id.Name == "_" {
			continue
		}
		if s.Tok == token.DEFINE {
			if o := m.Info.Defs[id]; o != nil {
				env.def(o, vals[i])
				continue
			}
		}
		if m.Counters && s.Tok != token.ASSIGN && s.Tok != token.DEFINE {
			// x op= c on a known integer counter
			binop := map[token.Token]token.Token{token.ADD_ASSIGN: token.ADD, token.SUB_ASSIGN: token.SUB, token.MUL_ASSIGN: token.MUL}
			o := m.Info.Uses[id]
			cur, _ := env.get(o)
			cv, ok1 := cur.(constant.Value)
			rv, ok2 := vals[i].(constant.Value)
			if op, ok := binop[s.Tok]; ok && o != nil && ok1 && ok2 && cv.Kind() == constant.Int && rv.Kind() == constant.Int {
				env.set(o, constant.BinaryOp(cv, op, rv))
			} else if o != nil {
				env.set(o, &MSym{Name: "opaque:" + id.Name})
			}
			continue
		}
		if o := m.Info.Uses[id]; o != nil {
			env.set(o, vals[i])
		}
	}
}

func (m *Mini) truth(x ast.Expr, env *menv) bool {
	v := m.expr(x, env)
	cv, ok := v.(constant.Value)
	if !ok || cv.Kind() != constant.Bool {
		m.fail(x, "condition does not fold to a boolean (%s)", types.ExprString(x))
	}
	return constant.BoolVal(cv)
}

func (m *Mini) equal(at ast.Node, a, b MV) bool {
	if m.Equal != nil {
		if eq, ok := m.Equal(m, a, b); ok {
			return eq
		}
	}
	ca, ok1 := a.(constant.Value)
	cb, ok2 := b.(constant.Value)
	if ok1 && ok2 {
		return constant.Compare(ca, token.EQL, cb)
	}
	sa, ok1s := a.(*MSym)
	sb, ok2s := b.(*MSym)
	// a folded Go constant (bool/int/string held in an interface) is never nil
	if ok1 && ok2s && sb.Nil {
		return false
	}
	if ok2 && ok1s && sa.Nil {
		return false
	}
	ok1, ok2 = ok1s, ok2s
	if ok1 && ok2 {
		if sa.Nil || sb.Nil {
			return sa.Nil && sb.Nil
		}
		if sa == sb {
			return true
		}
		// two tracked struct values: equal iff same dynamic type and pairwise identical field symbols
		if sa.Dyn != nil && sb.Dyn != nil {
			if !types.Identical(sa.Dyn, sb.Dyn) {
				return false
			}
			if sa.Fields != nil && sb.Fields != nil && len(sa.Fields) == len(sb.Fields) {
				all := true
				for k, v := range sa.Fields {
					w, ok := sb.Fields[k]
					if !ok {
						all = false
						break
					}
					vs, ok1 := v.(*MSym)
					ws, ok2 := w.(*MSym)
					if !(ok1 && ok2 && vs == ws) {
						all = false
					}
				}
				return all
			}
		}
	}
	m.fail(at, "comparison outside the abstraction")
	return false
}

func (m *Mini) expr(x ast.Expr, env *menv) MV {
	if tv, ok := m.Info.Types[x]; ok && tv.Value != nil {
		return tv.Value
	}
	switch x := x.(type) {
	case *ast.ParenExpr:
		return m.expr(x.X, env)
	case *ast.Ident:
		o := m.Info.Uses[x]
		if o == nil {
			o = m.Info.Defs[x]
		}
		if _, isNil := o.(*types.Nil); isNil {
			return &MSym{Name: "nil", Nil: true}
		}
		if v, ok := env.get(o); ok {
			return v
		}
		if c, ok := o.(*types.Const); ok {
			return c.Val()
		}
		m.fail(x, "identifier %s is outside the abstraction", x.Name)
	case *ast.UnaryExpr:
		if x.Op == token.AND {
			return m.expr(x.X, env)
		}
		v := m.expr(x.X, env)
		cv, ok := v.(constant.Value)
		if !ok {
			m.fail(x, "unary operator on opaque value")
		}
		if x.Op == token.NOT {
			return constant.MakeBool(!constant.BoolVal(cv))
		}
		return constant.UnaryOp(x.Op, cv, 0)
	case *ast.StarExpr:
		return m.expr(x.X, env)
	case *ast.BinaryExpr:
		switch x.Op {
		case token.LAND:
			if !m.truth(x.X, env) {
				return constant.MakeBool(false)
			}
			return constant.MakeBool(m.truth(x.Y, env))
		case token.LOR:
			if m.truth(x.X, env) {
				return constant.MakeBool(true)
			}
			return constant.MakeBool(m.truth(x.Y, env))
		}
		l, r := m.expr(x.X, env), m.expr(x.Y, env)
		switch x.Op {
		case token.EQL:
			return constant.MakeBool(m.equal(x, l, r))
		case token.NEQ:
			return constant.MakeBool(!m.equal(x, l, r))
		}
		cl, ok1 := l.(constant.Value)
		cr, ok2 := r.(constant.Value)
		if !ok1 || !ok2 {
			m.fail(x, "binary operator on opaque values")
		}
		switch x.Op {
		case token.LSS, token.LEQ, token.GTR, token.GEQ:
			return constant.MakeBool(constant.Compare(cl, x.Op, cr))
		}
		return constant.BinaryOp(cl, x.Op, cr)
	case *ast.CallExpr:
		r := m.call(x, env)
		if len(r) != 1 {
			m.fail(x, "call used as a single value returns %d values", len(r))
		}
		return r[0]
	case *ast.SelectorExpr:
		// qualified identifier (pkg.Const) is handled by the constant case above
		if _, isPkg := m.Info.Uses[identOf(x.X)].(*types.PkgName); isPkg {
			if c, ok := m.Info.Uses[x.Sel].(*types.Const); ok {
				return c.Val()
			}
			if m.Sel != nil {
				if v, ok := m.Sel(m, x, nil); ok {
					return v
				}
			}
			m.fail(x, "package-level %s is outside the abstraction", x.Sel.Name)
		}
		base := m.expr(x.X, env)
		if m.Sel != nil {
			if v, ok := m.Sel(m, x, base); ok {
				return v
			}
		}
		if sym, ok := base.(*MSym); ok && sym.Fields != nil {
			if v, ok := sym.Fields[x.Sel.Name]; ok {
				return v
			}
		}
		m.fail(x, "field %s is outside the abstraction", x.Sel.Name)
	case *ast.CompositeLit:
		sym := &MSym{Name: types.ExprString(x.Type), Fields: map[string]MV{}}
		if tv, ok := m.Info.Types[x]; ok {
			sym.Dyn = tv.Type
		}
		st, _ := sym.Dyn.Underlying().(*types.Struct)
		for i, el := range x.Elts {
			if kv, ok := el.(*ast.KeyValueExpr); ok {
				if id, ok := kv.Key.(*ast.Ident); ok {
					sym.Fields[id.Name] = m.tryExpr(kv.Value, env)
				}
			} else if st != nil && i < st.NumFields() {
				sym.Fields[st.Field(i).Name()] = m.tryExpr(el, env)
			}
		}
		return sym
	case *ast.TypeAssertExpr:
		v := m.expr(x.X, env)
		return v
	case *ast.IndexExpr:
		if m.IndexV != nil {
			if v, ok := m.IndexV(m, x, m.tryExpr(x.X, env), m.tryExpr(x.Index, env)); ok {
				return v
			}
		}
		if m.Index != nil {
			if v, ok := m.Index(m, x); ok {
				return v
			}
		}
		m.fail(x, "index expression outside the abstraction")
	case *ast.FuncLit:
		return &MSym{Name: "func"}
	}
	m.fail(x, "unsupported expression %T", x)
	return nil
}

// tryExpr evaluates x, mapping anything outside the abstraction to an opaque symbol.
func (m *Mini) tryExpr(x ast.Expr, env *menv) (v MV) {
	defer func() {
		if r := recover(); r != nil {
			if _, ok := r.(miniErr); ok {
				v = &MSym{Name: "opaque:" + types.ExprString(x)}
				return
			}
			panic(r)
		}
	}()
	return m.expr(x, env)
}

func identOf(x ast.Expr) *ast.Ident {
	id, _ := ast.Unparen(x).(*ast.Ident)
	return id
}

func (m *Mini) call(call *ast.CallExpr, env *menv) []MV {
	// conversion
	if tv, ok := m.Info.Types[call.Fun]; ok && tv.IsType() && len(call.Args) == 1 {
		return []MV{m.expr(call.Args[0], env)}
	}
	fn := Callee(m.Info, call)
	var recv MV
	if sel, ok := ast.Unparen(call.Fun).(*ast.SelectorExpr); ok {
		if s := m.Info.Selections[sel]; s != nil {
			recv = m.tryExpr(sel.X, env)
		}
	}
	args := make([]MV, len(call.Args))
	for i, a := range call.Args {
		args[i] = m.tryExpr(a, env)
	}
	if m.Call != nil {
		if r, ok := m.Call(m, call, fn, recv, args); ok {
			return r
		}
	}
	// inline small module functions
	if fn != nil {
		if fd := m.P.Decl(fn); fd != nil && fd.Body != nil && m.depth < 8 {
			pk := m.P.PkgOf(fn)
			sub := &Mini{P: m.P, Info: pk.TypesInfo, Call: m.Call, Sel: m.Sel, Range: m.Range, Index: m.Index, Unroll: m.Unroll, IndexV: m.IndexV, Store: m.Store, Counters: m.Counters, Equal: m.Equal, Lookup: m.Lookup, depth: m.depth + 1}
			bind := map[types.Object]MV{}
			if fd.Recv != nil && len(fd.Recv.List) > 0 && len(fd.Recv.List[0].Names) > 0 {
				bind[pk.TypesInfo.Defs[fd.Recv.List[0].Names[0]]] = recv
			}
			i := 0
			for _, fl := range fd.Type.Params.List {
				for _, n := range fl.Names {
					if i < len(args) {
						bind[pk.TypesInfo.Defs[n]] = args[i]
					}
					i++
				}
				if len(fl.Names) == 0 {
					i++
				}
			}
			res, panicked, err := sub.RunFunc(fd, bind)
			if err != nil {
				panic(err.(miniErr))
			}
			if panicked {
				m.fail(call, "callee %s panics", fn.Name())
			}
			return res
		}
	}
	m.fail(call, "call %s is outside the abstraction", types.ExprString(call.Fun))
	return nil
}

// MInt extracts an int64 from a folded value.
func MInt(v MV) (int64, bool) {
	cv, ok := v.(constant.Value)
	if !ok || cv.Kind() != constant.Int {
		return 0, false
	}
	return constant.Int64Val(cv)
}

// MBool extracts a bool from a folded value.
func MBool(v MV) (bool, bool) {
	cv, ok := v.(constant.Value)
	if !ok || cv.Kind() != constant.Bool {
		return false, false
	}
	return constant.BoolVal(cv), true
}
