package main

import (
	"fmt"
	"go/ast"
	"go/constant"
	"go/token"
	"go/types"
	"sort"
	"strings"

	"golang.org/x/tools/go/cfg"
	"golang.org/x/tools/go/packages"
)

// C17 — transactions: entry / exit protocol clauses.

type c17Follow struct {
	method string // ctx method that must follow a successful primary call
	arg    string // "nil" | "true" | "false" | "<result>"
}

type c17Exec struct {
	rel, fn string // package and function ("BaseBuilder.buildCommit")
	primary string // session method: CommitTransaction / Rollback / StartTransaction
	follow  []c17Follow
	// precommit: a CommitTransaction of the open transaction must precede the primary call whenever
	// the variable holding the open transaction may be non-nil (START TRANSACTION)
	precommit string
}

type c17Params struct {
	sqlRel     string // package declaring Context, TransactionSession
	engineRel  string // package of the Engine ("" = module root)
	beginFn    string // "Engine.beginTransaction"
	clearFn    string // "clearAutocommitOnError"
	unsetFn    string // "clearAutocommitTransaction"
	ignoreM    string // "GetIgnoreAutoCommit"
	autocommit string // function whose bool result says autocommit is on: "IsSessionAutocommit" (any package)
	iterRel    string // "sql/rowexec"
	iterType   string // "TransactionCommittingIter"
	autoField  string // "autoCommit"
	implField  string // "implicitCommit"
	execs      []c17Exec
	sessRel    string   // "memory"
	sessType   string   // "Session"
	sessPair   []string // {"StartTransaction","Rollback"}
	floors     map[string]int
}

var c17Repo = c17Params{
	sqlRel: "sql", engineRel: "", beginFn: "Engine.beginTransaction", clearFn: "clearAutocommitOnError", unsetFn: "clearAutocommitTransaction",
	ignoreM: "GetIgnoreAutoCommit", autocommit: "IsSessionAutocommit",
	iterRel: "sql/rowexec", iterType: "TransactionCommittingIter", autoField: "autoCommit", implField: "implicitCommit",
	execs: []c17Exec{
		{rel: "sql/rowexec", fn: "BaseBuilder.buildCommit", primary: "CommitTransaction", follow: []c17Follow{{"SetTransaction", "nil"}, {"SetIgnoreAutoCommit", "false"}}},
		{rel: "sql/rowexec", fn: "BaseBuilder.buildRollback", primary: "Rollback", follow: []c17Follow{{"SetTransaction", "nil"}, {"SetIgnoreAutoCommit", "false"}}},
		{rel: "sql/rowexec", fn: "BaseBuilder.buildStartTransaction", primary: "StartTransaction", follow: []c17Follow{{"SetTransaction", "<result>"}, {"SetIgnoreAutoCommit", "true"}}, precommit: "CommitTransaction"},
		{rel: "", fn: "Engine.beginTransaction", primary: "StartTransaction", follow: []c17Follow{{"SetTransaction", "<result>"}}},
	},
	sessRel: "memory", sessType: "Session", sessPair: []string{"StartTransaction", "Rollback"},
	floors: map[string]int{"C17-P1": 10, "C17-P2": 7, "C17-P2w": 4, "C17-P3": 12, "C17-P4": 2},
}

func init() {
	register(&Property{
		ID:       "C17",
		Patterns: []string{".", "./memory"},
		Explanation: "Entry/exit protocol of transactions. Decided: (P1) every function of the engine package that calls Engine.beginTransaction has a named error result with `defer clearAutocommitOnError(ctx, &err)` registered on every path before the call, assigns the call's error and returns it before doing anything else; clearAutocommitOnError reaches clearAutocommitTransaction whenever *err != nil, and that function unsets the context transaction except for the frozen escapes (explicit transaction, autocommit off, error reading autocommit); " +
			"(P2) TransactionCommittingIter.Close: a child-close error returns before any commit; a successful CommitTransaction is followed on every path by ctx.SetTransaction(nil); a failed one is returned; and the commit decision, folded over the three flags (implicit commit, explicit transaction = GetIgnoreAutoCommit, autocommit) under the normal-case assumptions, is: implicit ⇒ commit, autocommit ∧ ¬explicit ⇒ commit, ¬implicit ∧ explicit ⇒ no commit, ¬implicit ∧ ¬autocommit ⇒ no commit; " +
			"(P2w) that table is the decision actually taken: the iterator fields whose value can influence a branch of Close (forward slice over go/ssa) are only the two flags and the child iterator — so the decision does not depend on what Next returned: " +
			"after a statement that failed during execution an autocommit session still commits what the statement wrote and clears the implicit transaction (ctx.SetTransaction(nil)), exactly as after a successful one, and the next statement starts a " +
			"new transaction with fresh table snapshots — and those fields are written only into freshly constructed iterators (composite literal, copy-and-modify, result of a constructor): every store to them, every whole-struct store through a " +
			"*TransactionCommittingIter and every escape of their address in the declaring package (the module, were a field exported) targets an object allocated by the storing function; " +
			"(P3) the COMMIT / ROLLBACK / START TRANSACTION executors and Engine.beginTransaction call the session's CommitTransaction / Rollback / StartTransaction, return its error, and after success always update the context (SetTransaction(nil|tx), SetIgnoreAutoCommit(false|true)); START TRANSACTION commits an open transaction first; " +
			"(P4) memory.Session.StartTransaction and Rollback reset the same set of session-local stores.",
		NotCovered: "writes to the iterator through reflection or unsafe, decision state kept outside the iterator (context, session), isolation / visibility between sessions (aliasing of TableData), serial equivalence of overlapping transactions, savepoints, that plan-returning entry points (PrepareParsedQuery, BoundQueryPlan) leave the implicit transaction open on success for the caller's next request",
		Technique:  "CFG must-pass-through with abstract error state + finite-domain folding of the commit decision + sibling agreement on written fields + who-may-write over go/ssa (forward slice of field loads to branches; stores classified by freshness of the target object)",
		Run:        func(c *Ctx) { runC17(c, c17Repo) },
		Fixture: func(c *Ctx, fx *Prog) {
			p := c17Params{sqlRel: "testdata/c17/sql", engineRel: "testdata/c17/engine", beginFn: "Engine.beginTransaction", clearFn: "clearAutocommitOnError", unsetFn: "clearAutocommitTransaction",
				ignoreM: "GetIgnoreAutoCommit", autocommit: "IsSessionAutocommit",
				iterRel: "testdata/c17/engine", iterType: "TransactionCommittingIter", autoField: "autoCommit", implField: "implicitCommit",
				execs: []c17Exec{
					{rel: "testdata/c17/engine", fn: "buildCommit", primary: "CommitTransaction", follow: []c17Follow{{"SetTransaction", "nil"}, {"SetIgnoreAutoCommit", "false"}}},
					{rel: "testdata/c17/engine", fn: "buildStartTransaction", primary: "StartTransaction", follow: []c17Follow{{"SetTransaction", "<result>"}, {"SetIgnoreAutoCommit", "true"}}, precommit: "CommitTransaction"},
					{rel: "testdata/c17/engine", fn: "Engine.beginTransaction", primary: "StartTransaction", follow: []c17Follow{{"SetTransaction", "<result>"}}},
				},
				sessRel: "testdata/c17/engine", sessType: "Session", sessPair: []string{"StartTransaction", "Rollback"}, floors: map[string]int{}}
			expectFixture(c, fx, "c17: broken transaction protocol must be reported", []string{
				"C17-P1:Engine.Prepare/defer-clear",
				"C17-P1:Engine.Prepare/begin-error",
				"C17-P2:TransactionCommittingIter.Close/commit-then-clear",
				"C17-P2:TransactionCommittingIter.Close/decision explicit-transaction-not-committed",
				"C17-P2w:TransactionCommittingIter.Next/autoCommit",
				"C17-P2w:TransactionCommittingIter.Reset/*",
				"C17-P2w:TransactionCommittingIter.implicitFlag/implicitCommit/address",
				"C17-P3:buildCommit/then SetIgnoreAutoCommit(false)",
				"C17-P3:buildStartTransaction/precommit",
				"C17-P4:Session/Rollback",
			}, func(fc *Ctx) { runC17(fc, p) })
		},
		FixturePkgs: []string{"./testdata/c17/sql", "./testdata/c17/engine"},
	})
}

type c17 struct {
	c     *Ctx
	p     c17Params
	sqlPk *packages.Package
}

func runC17(c *Ctx, p c17Params) {
	c.Rule("C17-P1", "every caller of Engine.beginTransaction defers clearAutocommitOnError(ctx, &err) on its named error result before the call and returns the begin error at once; the clear helpers unset the implicit transaction", p.floors["C17-P1"])
	c.Rule("C17-P2", "TransactionCommittingIter.Close: child error first, commit ⇒ SetTransaction(nil), commit error returned, commit decision table over (implicit, explicit, autocommit)", p.floors["C17-P2"])
	c.Rule("C17-P3", "COMMIT / ROLLBACK / START TRANSACTION executors and beginTransaction: session call, error returned, context updated after success; START TRANSACTION commits the open transaction first", p.floors["C17-P3"])
	c.Rule("C17-P4", "memory.Session.StartTransaction and Rollback reset the same session-local stores", p.floors["C17-P4"])
	a := &c17{c: c, p: p, sqlPk: c.P.Pkg(p.sqlRel)}
	if a.sqlPk == nil {
		c.Undecided("C17-P1", "packages", 0, "package "+p.sqlRel+" not loaded")
		return
	}
	a.entry()
	a.committingIter()
	a.decisionWriters()
	for _, ex := range p.execs {
		a.executor(ex)
	}
	a.sessionSiblings()
}

// isSQLMethod: call resolves to a method named `name` declared in the sql package (concrete or interface).
func (a *c17) isSQLMethod(info *types.Info, call *ast.CallExpr, name string) bool {
	fn := Callee(info, call)
	return fn != nil && fn.Name() == name && fn.Pkg() == a.sqlPk.Types && fn.Type().(*types.Signature).Recv() != nil
}

func (a *c17) nodeCalls(info *types.Info, n ast.Node, name string, arg func(*ast.CallExpr) bool) *ast.CallExpr {
	for _, call := range dmlCallsIn(n, false) {
		if a.isSQLMethod(info, call, name) && (arg == nil || arg(call)) {
			return call
		}
	}
	return nil
}

// ---- P1 -----------------------------------------------------------------------------------

func (a *c17) entry() {
	c, p := a.c, a.p
	pk := c.P.Pkg(p.engineRel)
	if pk == nil {
		c.Undecided("C17-P1", "engine-package", 0, "engine package not loaded")
		return
	}
	info := pk.TypesInfo
	begin, clear, unset := LookupFunc(pk, p.beginFn), LookupFunc(pk, p.clearFn), LookupFunc(pk, p.unsetFn)
	if begin == nil || clear == nil || unset == nil {
		c.Undecided("C17-P1", "anchors", 0, fmt.Sprintf("%s / %s / %s not found in the engine package", p.beginFn, p.clearFn, p.unsetFn))
		return
	}
	c.P.EachFuncDecl([]string{dmlRelOfPkg(pk.PkgPath)}, func(_ *packages.Package, fd *ast.FuncDecl) {
		if pk.PkgPath == modPath && false {
			return
		}
		var beginCalls []*ast.CallExpr
		for _, call := range dmlCallsIn(fd.Body, true) {
			if fn := Callee(info, call); fn != nil && fn.Origin() == begin {
				beginCalls = append(beginCalls, call)
			}
		}
		if len(beginCalls) == 0 {
			return
		}
		name := DeclName(fd)
		fn := info.Defs[fd.Name].(*types.Func)
		sig := fn.Type().(*types.Signature)
		g := c.P.CFG(info, fd.Body)
		// named error result
		var named types.Object
		if n := sig.Results().Len(); n > 0 && IsErrorType(sig.Results().At(n-1).Type()) && sig.Results().At(n-1).Name() != "" && sig.Results().At(n-1).Name() != "_" {
			named = sig.Results().At(n - 1)
		}
		isDefer := func(n ast.Node) bool {
			d, ok := n.(*ast.DeferStmt)
			if !ok || named == nil {
				return false
			}
			if cf := Callee(info, d.Call); cf == nil || cf.Origin() != clear || len(d.Call.Args) != 2 {
				return false
			}
			u, ok := ast.Unparen(d.Call.Args[1]).(*ast.UnaryExpr)
			if !ok || u.Op != token.AND {
				return false
			}
			id, ok := ast.Unparen(u.X).(*ast.Ident)
			return ok && info.Uses[id] == named
		}
		for _, bc := range beginCalls {
			isBegin := func(n ast.Node) bool { return n.Pos() <= bc.Pos() && bc.End() <= n.End() }
			switch {
			case named == nil:
				c.Bad("C17-P1", name+"/defer-clear", bc.Pos(), name+" begins the implicit transaction but has no named error result that a deferred "+p.clearFn+" could observe: a failing statement leaves the autocommit transaction (and the session's table snapshot) in place for the next statement")
			default:
				if path := PathAvoiding(g, EntryPoint(g), isDefer, isBegin, nil); path != nil {
					c.Bad("C17-P1", name+"/defer-clear", bc.Pos(), name+": "+p.beginFn+" is reachable without `defer "+p.clearFn+"(ctx, &"+named.Name()+")` having been registered: a failing statement leaves the autocommit transaction in place", c.P.DescribePath(path)...)
				} else {
					c.Ok("C17-P1", name+"/defer-clear", bc.Pos(), "defer "+p.clearFn+"(ctx, &"+named.Name()+") precedes the call")
				}
			}
			// the begin error
			pt, ok := FindNode(g, bc)
			if !ok {
				c.Undecided("C17-P1", name+"/begin-error", bc.Pos(), "call not found in the CFG")
				continue
			}
			node := pt.B.Nodes[pt.I]
			ev := c19ErrVarOf(info, node, bc)
			if ev == nil {
				if r, isRet := node.(*ast.ReturnStmt); isRet && len(r.Results) > 0 && ast.Unparen(r.Results[len(r.Results)-1]) == ast.Expr(bc) {
					c.Ok("C17-P1", name+"/begin-error", bc.Pos(), "returned directly")
				} else {
					c.Bad("C17-P1", name+"/begin-error", bc.Pos(), name+" drops the error of "+p.beginFn+": a session that cannot start a transaction goes on executing the statement without one")
				}
				continue
			}
			path := dmlSearch(g, pt, dmlErrAny, func(n ast.Node, st int) (int, dmlVerdict) {
				if st&dmlErrNil != 0 && st != dmlErrAny {
					return st, dmlStop // established nil
				}
				if r, isRet := n.(*ast.ReturnStmt); isRet {
					if e := dmlErrOperand(info, sig, r); e == nil || isNilIdent(info, e) {
						if st&^dmlErrNil != 0 {
							return st, dmlHit
						}
					}
					return st, dmlStop
				}
				if _, isExpr := n.(ast.Expr); isExpr {
					return st, dmlGo // branch condition
				}
				if st&^dmlErrNil != 0 {
					return st, dmlHit // work goes on while the begin error may be pending
				}
				return st, dmlGo
			}, func(b *cfg.Block, si int, st int) (int, bool) { return dmlRefineErr(info, b, si, ev, st) }, func(st int) bool { return st&^dmlErrNil != 0 })
			if path != nil {
				c.Bad("C17-P1", name+"/begin-error", bc.Pos(), name+": the error of "+p.beginFn+" is not returned before the function goes on", c.P.DescribePath(path)...)
			} else {
				c.Ok("C17-P1", name+"/begin-error", bc.Pos(), "begin error returned at once")
			}
		}
		// informational: who ends the implicit transaction on success
		returnsIter := false
		ri := dmlLookupIface(c.P, p.sqlRel, "RowIter")
		for i := 0; i < sig.Results().Len(); i++ {
			if nt := dmlNamedOf(sig.Results().At(i).Type()); nt != nil && ri != nil && nt.Underlying() == types.Type(ri) {
				returnsIter = true
			}
		}
		if !returnsIter {
			c.Note("C17-P1", name+"/success-leaves-transaction", fd.Pos(), name+" returns no row iterator: on success the implicit transaction it began stays open until the caller's next request ends it (not decided)")
		}
	})

	// clearAutocommitOnError: reaches the unset function unless *err == nil
	_, clearFd := c.P.FuncDecl(dmlRelOfPkg(pk.PkgPath), p.clearFn)
	_, unsetFd := c.P.FuncDecl(dmlRelOfPkg(pk.PkgPath), p.unsetFn)
	if clearFd == nil || unsetFd == nil {
		c.Undecided("C17-P1", p.clearFn+"/shape", 0, "declaration not found")
		return
	}
	{
		g := c.P.CFG(info, clearFd.Body)
		var ptr types.Object
		if ps := info.Defs[clearFd.Name].(*types.Func).Type().(*types.Signature).Params(); ps.Len() == 2 {
			ptr = ps.At(1)
		}
		derefNil := func(e ast.Expr) (eq bool, ok bool) {
			be, isBin := ast.Unparen(e).(*ast.BinaryExpr)
			if !isBin || (be.Op != token.EQL && be.Op != token.NEQ) || !isNilIdent(info, be.Y) {
				return false, false
			}
			st, isStar := ast.Unparen(be.X).(*ast.StarExpr)
			if !isStar {
				return false, false
			}
			id, isID := ast.Unparen(st.X).(*ast.Ident)
			return be.Op == token.EQL, isID && info.Uses[id] == ptr
		}
		path := PathAvoiding(g, EntryPoint(g), func(n ast.Node) bool {
			for _, call := range dmlCallsIn(n, false) {
				if fn := Callee(info, call); fn != nil && fn.Origin() == unset {
					return true
				}
			}
			return false
		}, nil, func(b *cfg.Block, si int) bool {
			if len(b.Nodes) == 0 || len(b.Succs) != 2 {
				return true
			}
			e, isExpr := b.Nodes[len(b.Nodes)-1].(ast.Expr)
			if !isExpr {
				return true
			}
			if eq, ok := derefNil(e); ok {
				// prune the edge on which *err == nil
				return (si == 0) != eq
			}
			return true
		})
		if path != nil {
			c.Bad("C17-P1", p.clearFn+"/clears", clearFd.Pos(), p.clearFn+" can return without calling "+p.unsetFn+" although *err != nil", c.P.DescribePath(path)...)
		} else {
			c.Ok("C17-P1", p.clearFn+"/clears", clearFd.Pos(), "calls "+p.unsetFn+" whenever *err != nil")
		}
	}
	{
		uinfo := info
		g := c.P.CFG(uinfo, unsetFd.Body)
		// frozen escapes: ctx.GetIgnoreAutoCommit() true, error of the autocommit query, autocommit false
		var autoVar, autoErr types.Object
		ast.Inspect(unsetFd.Body, func(n ast.Node) bool {
			if as, ok := n.(*ast.AssignStmt); ok && len(as.Rhs) == 1 && len(as.Lhs) == 2 {
				if call, ok := ast.Unparen(as.Rhs[0]).(*ast.CallExpr); ok {
					if fn := Callee(uinfo, call); fn != nil && fn.Name() == p.autocommit {
						autoVar, autoErr = c17Obj(uinfo, as.Lhs[0]), c17Obj(uinfo, as.Lhs[1])
					}
				}
			}
			return true
		})
		isUnset := func(n ast.Node) bool {
			return a.nodeCalls(uinfo, n, "SetTransaction", func(call *ast.CallExpr) bool { return len(call.Args) == 1 && isNilIdent(uinfo, call.Args[0]) }) != nil
		}
		path := PathAvoiding(g, EntryPoint(g), isUnset, nil, func(b *cfg.Block, si int) bool {
			if len(b.Nodes) == 0 || len(b.Succs) != 2 {
				return true
			}
			e, isExpr := b.Nodes[len(b.Nodes)-1].(ast.Expr)
			if !isExpr {
				return true
			}
			e = ast.Unparen(e)
			if call, ok := e.(*ast.CallExpr); ok && a.isSQLMethod(uinfo, call, p.ignoreM) {
				return si != 0 // explicit transaction: escape on the true edge
			}
			if id, ok := e.(*ast.Ident); ok && autoVar != nil && uinfo.Uses[id] == autoVar {
				return si != 1 // autocommit off: escape on the false edge
			}
			if autoErr != nil {
				if st, feasible := dmlRefineErr(uinfo, b, si, autoErr, dmlErrAny); feasible && st&dmlErrNil == 0 {
					return false // error reading autocommit
				}
			}
			return true
		})
		if autoVar == nil {
			c.Undecided("C17-P1", p.unsetFn+"/unsets", unsetFd.Pos(), "no `autocommit, err := "+p.autocommit+"(ctx)` found")
		} else if path != nil {
			c.Bad("C17-P1", p.unsetFn+"/unsets", unsetFd.Pos(), p.unsetFn+" can return without ctx.SetTransaction(nil) on an autocommit session outside an explicit transaction", c.P.DescribePath(path)...)
		} else {
			c.Ok("C17-P1", p.unsetFn+"/unsets", unsetFd.Pos(), "SetTransaction(nil) unless explicit transaction / autocommit off / error")
		}
	}
}

func c17Obj(info *types.Info, e ast.Expr) types.Object {
	id, ok := e.(*ast.Ident)
	if !ok || id.Name == "_" {
		return nil
	}
	if o := info.Defs[id]; o != nil {
		return o
	}
	return info.Uses[id]
}

// ---- P2 -----------------------------------------------------------------------------------

func (a *c17) committingIter() {
	c, p := a.c, a.p
	pk, fd := c.P.FuncDecl(p.iterRel, p.iterType+".Close")
	if fd == nil {
		c.Undecided("C17-P2", p.iterType+".Close", 0, "method not found in "+p.iterRel)
		return
	}
	info := pk.TypesInfo
	name := DeclName(fd)
	g := c.P.CFG(info, fd.Body)
	recv := dmlRecvObj(info, fd)
	sig := info.Defs[fd.Name].(*types.Func).Type().(*types.Signature)
	isCommit := func(n ast.Node) bool { return a.nodeCalls(info, n, "CommitTransaction", nil) != nil }
	isClear := func(n ast.Node) bool {
		return a.nodeCalls(info, n, "SetTransaction", func(call *ast.CallExpr) bool { return len(call.Args) == 1 && isNilIdent(info, call.Args[0]) }) != nil
	}
	// child close: `err = recv.<child>.Close(ctx)`
	ri := dmlLookupIface(c.P, p.sqlRel, "RowIter")
	var childPt CFGPoint
	var childErr types.Object
	var commitPt CFGPoint
	var commitErr types.Object
	haveChild, haveCommit := false, false
	for _, b := range g.Blocks {
		for i, n := range b.Nodes {
			for _, call := range dmlCallsIn(n, false) {
				if x, ok := dmlMethodCallOn(call, "Close"); ok {
					if sel, ok := ast.Unparen(x).(*ast.SelectorExpr); ok && dmlIsFieldSel(info, sel, recv, sel.Sel.Name) {
						if nt := dmlNamedOf(info.TypeOf(x)); nt != nil && ri != nil && nt.Underlying() == types.Type(ri) {
							childPt, childErr, haveChild = CFGPoint{b, i}, c19ErrVarOf(info, n, call), true
						}
					}
				}
				if a.isSQLMethod(info, call, "CommitTransaction") {
					commitPt, commitErr, haveCommit = CFGPoint{b, i}, c19ErrVarOf(info, n, call), true
				}
			}
		}
	}
	if !haveChild || childErr == nil {
		c.Bad("C17-P2", name+"/child-error-first", fd.Pos(), name+" does not keep the error of the child iterator's Close")
	} else {
		path := dmlSearch(g, childPt, dmlErrAny, func(n ast.Node, st int) (int, dmlVerdict) {
			if isCommit(n) && st&^dmlErrNil != 0 {
				return st, dmlHit
			}
			if dmlAssigns(info, n, childErr) {
				if st&^dmlErrNil != 0 {
					return st, dmlHit
				}
				return st, dmlStop
			}
			if r, ok := n.(*ast.ReturnStmt); ok {
				if e := dmlErrOperand(info, sig, r); (e == nil || isNilIdent(info, e)) && st&dmlErrNil == 0 {
					return st, dmlHit
				}
				return st, dmlStop
			}
			return st, dmlGo
		}, func(b *cfg.Block, si int, st int) (int, bool) { return dmlRefineErr(info, b, si, childErr, st) }, nil)
		if path != nil {
			c.Bad("C17-P2", name+"/child-error-first", path[len(path)-1].Pos(), name+": after a failed child Close the transaction can still be committed, or the error is lost", c.P.DescribePath(path)...)
		} else {
			c.Ok("C17-P2", name+"/child-error-first", fd.Pos(), "a child-close error returns before any commit")
		}
	}
	if !haveCommit {
		c.Bad("C17-P2", name+"/commit-then-clear", fd.Pos(), name+" never calls CommitTransaction: autocommit statements are never committed")
		return
	}
	if commitErr == nil {
		c.Bad("C17-P2", name+"/commit-error-returned", fd.Pos(), name+" drops the error of CommitTransaction")
	} else {
		// success ⇒ SetTransaction(nil) on every path to an exit
		path := dmlSearch(g, commitPt, dmlErrAny, func(n ast.Node, st int) (int, dmlVerdict) {
			if isClear(n) {
				return st, dmlStop
			}
			if _, ok := n.(*ast.ReturnStmt); ok {
				if st&dmlErrNil != 0 {
					return st, dmlHit
				}
				return st, dmlStop
			}
			return st, dmlGo
		}, func(b *cfg.Block, si int, st int) (int, bool) { return dmlRefineErr(info, b, si, commitErr, st) }, func(st int) bool { return st&dmlErrNil != 0 })
		if path != nil {
			pos := fd.Pos()
			if l := path[len(path)-1]; l != nil {
				pos = l.Pos()
			}
			c.Bad("C17-P2", name+"/commit-then-clear", pos, name+": after a successful CommitTransaction an exit is reachable without ctx.SetTransaction(nil): the next statement of the session reuses the committed transaction and its stale snapshot", c.P.DescribePath(path)...)
		} else {
			c.Ok("C17-P2", name+"/commit-then-clear", fd.Pos(), "SetTransaction(nil) after every successful commit")
		}
		// failure ⇒ returned
		path = dmlSearch(g, commitPt, dmlErrAny, func(n ast.Node, st int) (int, dmlVerdict) {
			if r, ok := n.(*ast.ReturnStmt); ok {
				if e := dmlErrOperand(info, sig, r); (e == nil || isNilIdent(info, e)) && st&dmlErrNil == 0 {
					return st, dmlHit
				}
				return st, dmlStop
			}
			if isClear(n) && st&dmlErrNil == 0 {
				return st, dmlHit
			}
			return st, dmlGo
		}, func(b *cfg.Block, si int, st int) (int, bool) { return dmlRefineErr(info, b, si, commitErr, st) }, func(st int) bool { return st&dmlErrNil == 0 })
		if path != nil {
			c.Bad("C17-P2", name+"/commit-error-returned", fd.Pos(), name+": a failed CommitTransaction is not returned (or the transaction is cleared anyway)", c.P.DescribePath(path)...)
		} else {
			c.Ok("C17-P2", name+"/commit-error-returned", fd.Pos(), "commit error returned")
		}
	}

	// decision table
	type req struct {
		key    string
		want   bool
		filter func(impl, expl, auto bool) bool
		text   string
	}
	reqs := []req{
		{"implicit-commit-statement-commits", true, func(i, e, au bool) bool { return i }, "a statement with implicit commit (DDL) must commit"},
		{"autocommit-statement-commits", true, func(i, e, au bool) bool { return au && !e }, "with autocommit on and no explicit transaction a successful statement must be committed on its own"},
		{"explicit-transaction-not-committed", false, func(i, e, au bool) bool { return !i && e }, "inside START TRANSACTION … a statement must not commit (ROLLBACK could no longer discard it)"},
		{"autocommit-off-not-committed", false, func(i, e, au bool) bool { return !i && !au }, "with autocommit off a statement must not commit"},
	}
	results := map[[3]bool]int{}
	for _, impl := range []bool{false, true} {
		for _, expl := range []bool{false, true} {
			for _, auto := range []bool{false, true} {
				results[[3]bool{impl, expl, auto}] = a.foldCommit(info, g, recv, impl, expl, auto, isCommit)
			}
		}
	}
	for _, r := range reqs {
		key := name + "/decision " + r.key
		bad := ""
		for k, v := range results {
			if !r.filter(k[0], k[1], k[2]) {
				continue
			}
			if v < 0 {
				bad = fmt.Sprintf("the commit decision could not be folded for implicit=%v explicit=%v autocommit=%v (a branch condition is not readable)", k[0], k[1], k[2])
				break
			}
			if (v == 1) != r.want {
				bad = fmt.Sprintf("for implicit=%v explicit=%v autocommit=%v Close %s, but %s", k[0], k[1], k[2], map[bool]string{true: "commits", false: "does not commit"}[v == 1], r.text)
			}
		}
		if bad != "" {
			if strings.HasPrefix(bad, "the commit decision could not") {
				c.Undecided("C17-P2", key, fd.Pos(), bad)
			} else {
				c.Bad("C17-P2", key, fd.Pos(), name+": "+bad)
			}
		} else {
			c.Ok("C17-P2", key, fd.Pos(), r.text)
		}
	}
}

// foldCommit walks Close deterministically under one assignment of the three flags and the
// normal-case assumptions (error variables nil, other nilable values non-nil, comma-ok results
// true). Returns 1 if a CommitTransaction node is reached, 0 if an exit is reached first, -1 if
// a branch condition cannot be evaluated.
func (a *c17) foldCommit(info *types.Info, g *cfg.CFG, recv types.Object, impl, expl, auto bool, isCommit func(ast.Node) bool) int {
	p := a.p
	var eval func(e ast.Expr) int
	eval = func(e ast.Expr) int {
		e = ast.Unparen(e)
		switch x := e.(type) {
		case *ast.UnaryExpr:
			if x.Op == token.NOT {
				if r := eval(x.X); r >= 0 {
					return 1 - r
				}
			}
			return -1
		case *ast.BinaryExpr:
			switch x.Op {
			case token.LAND:
				l, r := eval(x.X), eval(x.Y)
				if l == 0 || r == 0 {
					return 0
				}
				if l == 1 && r == 1 {
					return 1
				}
				return -1
			case token.LOR:
				l, r := eval(x.X), eval(x.Y)
				if l == 1 || r == 1 {
					return 1
				}
				if l == 0 && r == 0 {
					return 0
				}
				return -1
			case token.EQL, token.NEQ:
				var other ast.Expr
				if isNilIdent(info, x.Y) {
					other = x.X
				} else if isNilIdent(info, x.X) {
					other = x.Y
				}
				if other == nil {
					return -1
				}
				isNil := IsErrorType(info.TypeOf(other)) // normal case: errors are nil, everything else is set
				if (x.Op == token.EQL) == isNil {
					return 1
				}
				return 0
			}
		case *ast.SelectorExpr:
			if dmlIsFieldSel(info, x, recv, p.autoField) {
				return b2i(auto)
			}
			if dmlIsFieldSel(info, x, recv, p.implField) {
				return b2i(impl)
			}
		case *ast.CallExpr:
			if a.isSQLMethod(info, x, p.ignoreM) {
				return b2i(expl)
			}
		case *ast.Ident:
			if tv, ok := info.Types[x]; ok && tv.Value != nil && tv.Value.Kind() == constant.Bool {
				return b2i(constant.BoolVal(tv.Value))
			}
			if v, ok := info.Uses[x].(*types.Var); ok && types.Identical(v.Type(), types.Typ[types.Bool]) {
				return 1 // comma-ok result: the session is transactional
			}
		}
		return -1
	}
	b := g.Blocks[0]
	for steps := 0; steps < 1000; steps++ {
		for _, n := range b.Nodes {
			if isCommit(n) {
				return 1
			}
			if _, ok := n.(*ast.ReturnStmt); ok {
				return 0
			}
		}
		switch len(b.Succs) {
		case 0:
			return 0
		case 1:
			b = b.Succs[0]
		case 2:
			if len(b.Nodes) == 0 {
				return -1
			}
			cond, ok := b.Nodes[len(b.Nodes)-1].(ast.Expr)
			if !ok {
				return -1
			}
			switch eval(cond) {
			case 1:
				b = b.Succs[0]
			case 0:
				b = b.Succs[1]
			default:
				return -1
			}
		default:
			return -1
		}
	}
	return -1
}

func b2i(b bool) int {
	if b {
		return 1
	}
	return 0
}

// ---- P3 -----------------------------------------------------------------------------------

func (a *c17) executor(ex c17Exec) {
	c := a.c
	pk, fd := c.P.FuncDecl(ex.rel, ex.fn)
	if fd == nil {
		c.Undecided("C17-P3", ex.fn, 0, "function not found in package "+ex.rel)
		return
	}
	info := pk.TypesInfo
	name := DeclName(fd)
	g := c.P.CFG(info, fd.Body)
	sig := info.Defs[fd.Name].(*types.Func).Type().(*types.Signature)
	// the primary call: the last one in source order (START TRANSACTION also commits first)
	var pt CFGPoint
	var pcall *ast.CallExpr
	var pnode ast.Node
	for _, b := range g.Blocks {
		for i, n := range b.Nodes {
			if call := a.nodeCalls(info, n, ex.primary, nil); call != nil && (pcall == nil || call.Pos() > pcall.Pos()) {
				pt, pcall, pnode = CFGPoint{b, i}, call, n
			}
		}
	}
	if pcall == nil {
		c.Bad("C17-P3", name+"/calls "+ex.primary, fd.Pos(), name+" never calls the session's "+ex.primary)
		return
	}
	c.Ok("C17-P3", name+"/calls "+ex.primary, pcall.Pos(), "")
	ev := c19ErrVarOf(info, pnode, pcall)
	var result types.Object
	if as, ok := pnode.(*ast.AssignStmt); ok && len(as.Lhs) == 2 {
		result = c17Obj(info, as.Lhs[0])
	}
	if ev == nil {
		c.Bad("C17-P3", name+"/error-returned", pcall.Pos(), name+" drops the error of "+ex.primary)
	} else {
		path := dmlSearch(g, pt, dmlErrAny, func(n ast.Node, st int) (int, dmlVerdict) {
			if r, ok := n.(*ast.ReturnStmt); ok {
				if e := dmlErrOperand(info, sig, r); (e == nil || isNilIdent(info, e)) && st&dmlErrNil == 0 {
					return st, dmlHit
				}
				return st, dmlStop
			}
			if dmlAssigns(info, n, ev) && st&^dmlErrNil != 0 {
				return st, dmlHit
			}
			for _, f := range ex.follow {
				if a.nodeCalls(info, n, f.method, nil) != nil && st&dmlErrNil == 0 {
					return st, dmlHit
				}
			}
			return st, dmlGo
		}, func(b *cfg.Block, si int, st int) (int, bool) { return dmlRefineErr(info, b, si, ev, st) }, func(st int) bool { return st&dmlErrNil == 0 })
		if path != nil {
			c.Bad("C17-P3", name+"/error-returned", pcall.Pos(), name+": a failed "+ex.primary+" is not returned as an error (or the context is updated anyway)", c.P.DescribePath(path)...)
		} else {
			c.Ok("C17-P3", name+"/error-returned", pcall.Pos(), "")
		}
	}
	for _, f := range ex.follow {
		key := fmt.Sprintf("%s/then %s(%s)", name, f.method, strings.Trim(f.arg, "<>"))
		argOK := func(call *ast.CallExpr) bool {
			if len(call.Args) != 1 {
				return false
			}
			switch f.arg {
			case "nil":
				return isNilIdent(info, call.Args[0])
			case "true", "false":
				tv, ok := info.Types[call.Args[0]]
				return ok && tv.Value != nil && tv.Value.Kind() == constant.Bool && constant.BoolVal(tv.Value) == (f.arg == "true")
			case "<result>":
				id, ok := ast.Unparen(call.Args[0]).(*ast.Ident)
				return ok && result != nil && info.Uses[id] == result
			}
			return false
		}
		path := dmlSearch(g, pt, dmlErrAny, func(n ast.Node, st int) (int, dmlVerdict) {
			if a.nodeCalls(info, n, f.method, argOK) != nil {
				return st, dmlStop
			}
			if _, ok := n.(*ast.ReturnStmt); ok {
				if st&dmlErrNil != 0 {
					return st, dmlHit
				}
				return st, dmlStop
			}
			return st, dmlGo
		}, func(b *cfg.Block, si int, st int) (int, bool) {
			if ev == nil {
				return st, true
			}
			return dmlRefineErr(info, b, si, ev, st)
		}, func(st int) bool { return st&dmlErrNil != 0 })
		if path != nil {
			pos := pcall.Pos()
			c.Bad("C17-P3", key, pos, fmt.Sprintf("%s: after a successful %s an exit is reachable without ctx.%s(%s)", name, ex.primary, f.method, strings.Trim(f.arg, "<>")), c.P.DescribePath(path)...)
		} else {
			c.Ok("C17-P3", key, pcall.Pos(), "")
		}
	}
	if ex.precommit != "" {
		// the variable that holds the open transaction: `cur := ctx.GetTransaction()`
		var cur types.Object
		var curPt CFGPoint
		for _, b := range g.Blocks {
			for i, n := range b.Nodes {
				if as, ok := n.(*ast.AssignStmt); ok && len(as.Lhs) == 1 && a.nodeCalls(info, as, "GetTransaction", nil) != nil {
					cur, curPt = c17Obj(info, as.Lhs[0]), CFGPoint{b, i}
				}
			}
		}
		key := name + "/precommit"
		if cur == nil {
			c.Bad("C17-P3", key, fd.Pos(), name+" does not read the open transaction (ctx.GetTransaction) before "+ex.primary+": pending work of the previous transaction is neither committed nor detected")
			return
		}
		path := dmlSearch(g, curPt, dmlErrAny, func(n ast.Node, st int) (int, dmlVerdict) {
			if call := a.nodeCalls(info, n, ex.precommit, nil); call != nil {
				return st, dmlStop
			}
			if n == pnode {
				if st&^dmlErrNil != 0 {
					return st, dmlHit
				}
				return st, dmlStop
			}
			return st, dmlGo
		}, func(b *cfg.Block, si int, st int) (int, bool) { return dmlRefineErr(info, b, si, cur, st) }, nil)
		if path != nil {
			c.Bad("C17-P3", key, pcall.Pos(), name+": "+ex.primary+" is reachable while a transaction may be open without "+ex.precommit+" of it: START TRANSACTION must commit pending work first", c.P.DescribePath(path)...)
		} else {
			c.Ok("C17-P3", key, pcall.Pos(), "an open transaction is committed first")
		}
	}
}

// ---- P4 -----------------------------------------------------------------------------------

func (a *c17) sessionSiblings() {
	c, p := a.c, a.p
	pk := c.P.Pkg(p.sessRel)
	if pk == nil {
		c.Undecided("C17-P4", "package "+p.sessRel, 0, "package not loaded")
		return
	}
	info := pk.TypesInfo
	sets := map[string]map[string]bool{}
	pos := map[string]token.Pos{}
	for _, m := range p.sessPair {
		_, fd := c.P.FuncDecl(p.sessRel, p.sessType+"."+m)
		if fd == nil {
			c.Undecided("C17-P4", p.sessType+"/"+m, 0, "method not found")
			return
		}
		recv := dmlRecvObj(info, fd)
		sets[m] = map[string]bool{}
		pos[m] = fd.Pos()
		ast.Inspect(fd.Body, func(n ast.Node) bool {
			if as, ok := n.(*ast.AssignStmt); ok {
				for _, l := range as.Lhs {
					if sel, ok := ast.Unparen(l).(*ast.SelectorExpr); ok && dmlIsFieldSel(info, sel, recv, sel.Sel.Name) {
						sets[m][sel.Sel.Name] = true
					}
				}
			}
			return true
		})
	}
	union := map[string]bool{}
	for _, s := range sets {
		for f := range s {
			union[f] = true
		}
	}
	var all []string
	for f := range union {
		all = append(all, f)
	}
	sort.Strings(all)
	for _, m := range p.sessPair {
		var missing []string
		for _, f := range all {
			if !sets[m][f] {
				missing = append(missing, f)
			}
		}
		key := p.sessType + "/" + m
		if len(all) == 0 {
			c.Bad("C17-P4", key, pos[m], p.sessType+"."+m+" resets no session-local store")
		} else if len(missing) > 0 {
			c.Bad("C17-P4", key, pos[m], fmt.Sprintf("%s.%s does not reset %s, which its sibling resets: state of the abandoned transaction survives into the next one", p.sessType, m, strings.Join(missing, ", ")))
		} else {
			c.Ok("C17-P4", key, pos[m], "resets "+strings.Join(all, ", "))
		}
	}
}
