package main

import (
	"fmt"
	"go/ast"
	"go/constant"
	"go/token"
	"go/types"
	"sort"
	"strings"

	"golang.org/x/tools/go/cfg"
)

// ---- N2: the handler-choosing function -------------------------------------------------------------

// foldDispatch folds the choosing function for an iterator of type it with the given field facts
// and flag value; it returns the outcomes (returned value + final state).
func (e *c13Env) foldDispatch(it *types.Named, fields map[string]bool, flag bool) (outs []c13CallRes, iter c13Ref, err error) {
	ev := &c13Ev{p: e.c.P, rowT: e.rowT, schemaT: e.schemaT, okT: e.okT, dispatch: e.dispFn, tables: 2}
	st := &c13St{vars: map[types.Object]c13V{}}
	iter = ev.newObj(st, it)
	for k := range st.objs[iter.i].fields {
		st.objs[iter.i].fields[k] = c13Unk{tag: k}
	}
	for k, nonNil := range fields {
		if _, ok := st.objs[iter.i].fields[k]; !ok {
			return nil, iter, fmt.Errorf("%s has no field %s", it.Obj().Name(), k)
		}
		if nonNil {
			st.objs[iter.i].fields[k] = c13Unk{nonNil: true, tag: k}
		} else {
			st.objs[iter.i].fields[k] = c13Nil{}
		}
	}
	defer func() {
		if r := recover(); r != nil {
			if f, ok := r.(c13Fail); ok {
				err = fmt.Errorf("%s", f.s)
				return
			}
			panic(r)
		}
	}()
	st.vars[e.flagPar] = constant.MakeBool(flag)
	st.vars[e.iterPar] = iter
	for _, o := range ev.block(e.info, e.disp.Body.List, st) {
		if o.ctl != c13Return || len(o.vals) != 1 {
			return nil, iter, fmt.Errorf("a path of %s does not return a handler", e.nm.dispatchFn)
		}
		outs = append(outs, c13CallRes{st: o.st, vals: o.vals})
	}
	return outs, iter, nil
}

func c13Outcome(o c13CallRes) string {
	switch v := o.vals[0].(type) {
	case c13Ref:
		return o.st.objs[v.i].typ.(*types.Named).Obj().Name()
	case c13Nil:
		return "nil"
	case c13Unk:
		return v.tag
	}
	return c13Show(o.vals[0])
}

// configFlags lists the bool fields of a handler that none of its methods assigns.
func (e *c13Env) configFlags(nt *types.Named) []string {
	sT, ok := nt.Underlying().(*types.Struct)
	if !ok {
		return nil
	}
	written := map[string]bool{}
	for _, fd := range dmlMethodDecls(e.pk, nt) {
		if fd.Body == nil {
			continue
		}
		ast.Inspect(fd.Body, func(n ast.Node) bool {
			var targets []ast.Expr
			switch s := n.(type) {
			case *ast.AssignStmt:
				targets = s.Lhs
			case *ast.IncDecStmt:
				targets = []ast.Expr{s.X}
			}
			for _, t := range targets {
				if sel, ok := ast.Unparen(t).(*ast.SelectorExpr); ok {
					written[sel.Sel.Name] = true
				}
			}
			return true
		})
	}
	var out []string
	for i := 0; i < sT.NumFields(); i++ {
		f := sT.Field(i)
		if b, ok := f.Type().Underlying().(*types.Basic); ok && b.Kind() == types.Bool && !written[f.Name()] {
			out = append(out, f.Name())
		}
	}
	return out
}

func c13RunN2(e *c13Env) {
	c := e.c
	// the type switch of the choosing function
	var ts *ast.TypeSwitchStmt
	ast.Inspect(e.disp.Body, func(n ast.Node) bool {
		if t, ok := n.(*ast.TypeSwitchStmt); ok && ts == nil {
			ts = t
		}
		return ts == nil
	})
	if ts == nil {
		c.Undecided("C13-N2", e.nm.dispatchFn, e.disp.Pos(), "no type switch over the iterator")
		return
	}
	caseTypes := map[*types.Named]*ast.CaseClause{}
	for _, cs := range ts.Body.List {
		cc := cs.(*ast.CaseClause)
		for _, tx := range cc.List {
			if nt := dmlNamedOf(e.info.Types[tx].Type); nt != nil {
				caseTypes[nt] = cc
			}
		}
	}
	// (a) choice per iterator kind
	produced := map[string]bool{}
	var itNames []string
	for n := range e.nm.arms {
		itNames = append(itNames, n)
	}
	sort.Strings(itNames)
	for _, itName := range itNames {
		it := c13Named(c.P, e.nm.execRel, itName)
		if it == nil {
			c.Undecided("C13-N2", "choice/"+itName, e.disp.Pos(), "iterator type not found")
			continue
		}
		for _, arm := range e.nm.arms[itName] {
			key := "choice/" + itName
			var conds []string
			for _, f := range c13SortedKeys(arm.fields) {
				if arm.fields[f] {
					conds = append(conds, f+"!=nil")
				} else {
					conds = append(conds, f+"==nil")
				}
			}
			if len(conds) > 0 {
				key += "[" + strings.Join(conds, ",") + "]"
			}
			pos := e.disp.Pos()
			if cc := caseTypes[it]; cc != nil {
				pos = cc.Pos()
			}
			byFlag := map[bool][]c13CallRes{}
			var iters = map[bool]c13Ref{}
			var ferr error
			for _, flag := range []bool{false, true} {
				outs, iter, err := e.foldDispatch(it, arm.fields, flag)
				if err != nil {
					ferr = err
					break
				}
				byFlag[flag], iters[flag] = outs, iter
			}
			if ferr != nil {
				c.Undecided("C13-N2", key, pos, "choice not readable: "+ferr.Error())
				continue
			}
			got := map[string]bool{}
			for _, o := range byFlag[false] {
				got[c13Outcome(o)] = true
			}
			gl := c13SortedKeys(got)
			wl := append([]string{}, arm.want...)
			sort.Strings(wl)
			for _, g := range gl {
				produced[g] = true
			}
			if strings.Join(gl, ",") != strings.Join(wl, ",") {
				c.Bad("C13-N2", key, pos, fmt.Sprintf("%s gives a %s {%s}; the statement kind requires {%s}", e.nm.dispatchFn, itName, strings.Join(gl, ", "), strings.Join(wl, ", ")))
				continue
			}
			c.Ok("C13-N2", key, pos, strings.Join(gl, ","))
			// (b) flag and coupling, per returned handler
			seenHandler := map[string]bool{}
			for idx, o := range byFlag[false] {
				r, isRef := o.vals[0].(c13Ref)
				if !isRef {
					continue
				}
				hT := o.st.objs[r.i].typ.(*types.Named)
				if seenHandler[hT.Obj().Name()] {
					continue // the same handler on another fork of the arm
				}
				seenHandler[hT.Obj().Name()] = true
				for _, ff := range e.configFlags(hT) {
					fkey := "flag/" + hT.Obj().Name()
					okFlag := false
					if idx < len(byFlag[true]) {
						if rt, ok := byFlag[true][idx].vals[0].(c13Ref); ok {
							vF, vT := o.st.objs[r.i].fields[ff], byFlag[true][idx].st.objs[rt.i].fields[ff]
							bF, isF := vF.(constant.Value)
							bT, isT := vT.(constant.Value)
							okFlag = isF && isT && bF.Kind() == constant.Bool && bT.Kind() == constant.Bool && !constant.BoolVal(bF) && constant.BoolVal(bT)
						}
					}
					c.Check(okFlag, "C13-N2", fkey, pos, ff+" = flag parameter",
						fmt.Sprintf("%s builds a %s whose flag %s does not follow the CLIENT_FOUND_ROWS parameter: the handler counts as if the capability were never set", e.nm.dispatchFn, hT.Obj().Name(), ff))
				}
				// an iterator that keeps a pointer to its handler must be given the returned one
				if sT, ok := it.Underlying().(*types.Struct); ok {
					for i := 0; i < sT.NumFields(); i++ {
						f := sT.Field(i)
						if p, isPtr := f.Type().(*types.Pointer); isPtr && dmlNamedOf(p.Elem()) == hT {
							held, same := o.st.objs[iters[false].i].fields[f.Name()].(c13Ref)
							c.Check(same && held.i == r.i, "C13-N2", "coupled/"+itName+"."+f.Name(), pos, "the iterator holds the returned handler",
								fmt.Sprintf("%s returns a %s but does not store it in %s.%s: what the iterator reports through that field (matched rows) never reaches the result", e.nm.dispatchFn, hT.Obj().Name(), itName, f.Name()))
						}
					}
				}
			}
		}
	}
	// every handler type is the choice of some arm
	for _, nt := range e.handlers() {
		c.Check(produced[nt.Obj().Name()], "C13-N2", "chosen/"+nt.Obj().Name(), nt.Obj().Pos(), "chosen by an arm",
			fmt.Sprintf("%s implements %s but no DML iterator kind is given it", nt.Obj().Name(), e.nm.handlerIface))
	}
	// (c) recursive calls through wrappers forward the flag
	for _, cs := range ts.Body.List {
		cc := cs.(*ast.CaseClause)
		for _, call := range dmlCallsIn(cc, false) {
			if Callee(e.info, call) != e.dispFn {
				continue
			}
			label := "default"
			if len(cc.List) > 0 {
				if nt := dmlNamedOf(e.info.Types[cc.List[0]].Type); nt != nil {
					label = nt.Obj().Name()
				}
			}
			sig := e.dispFn.Type().(*types.Signature)
			ok := false
			for i := 0; i < sig.Params().Len() && i < len(call.Args); i++ {
				if sig.Params().At(i) == e.flagPar {
					if id, isID := ast.Unparen(call.Args[i]).(*ast.Ident); isID && e.info.Uses[id] == e.flagPar {
						ok = true
					}
				}
			}
			c.Check(ok, "C13-N2", "forward/"+label, call.Pos(), "flag forwarded",
				fmt.Sprintf("the %s arm of %s calls itself without forwarding its flag parameter: below this wrapper the statement counts without CLIENT_FOUND_ROWS", label, e.nm.dispatchFn))
		}
	}
	// (d) totality over the iterators wrapped in a table editor iterator
	wrapped := map[*types.Named]token.Pos{}
	ctors := map[*types.Func]bool{}
	if ppk := c.P.Pkg(e.nm.planRel); ppk != nil {
		for _, n := range e.nm.editorCtors {
			if fn := LookupFunc(ppk, n); fn != nil {
				ctors[fn] = true
			}
		}
	}
	if len(ctors) == 0 {
		c.Undecided("C13-N2", "total", e.disp.Pos(), "table editor iterator constructors not found")
	}
	for _, f := range e.pk.Syntax {
		ast.Inspect(f, func(n ast.Node) bool {
			call, ok := n.(*ast.CallExpr)
			if !ok || len(call.Args) == 0 || !ctors[Callee(e.info, call)] {
				return true
			}
			if nt := dmlNamedOf(e.info.Types[call.Args[0]].Type); nt != nil {
				if _, isStruct := nt.Underlying().(*types.Struct); isStruct {
					if _, seen := wrapped[nt]; !seen {
						wrapped[nt] = call.Pos()
					}
				}
			}
			return true
		})
	}
	var wl []*types.Named
	for nt := range wrapped {
		wl = append(wl, nt)
	}
	sort.Slice(wl, func(i, j int) bool { return wl[i].Obj().Name() < wl[j].Obj().Name() })
	for _, nt := range wl {
		_, hasArm := caseTypes[nt]
		_, inTable := e.nm.arms[nt.Obj().Name()]
		c.Check(hasArm && inTable, "C13-N2", "total/"+nt.Obj().Name(), wrapped[nt], "has an arm",
			fmt.Sprintf("%s is wrapped in a table editor iterator but %s has no arm for it (or the rule's table does not know its statement kind): the statement returns raw rows instead of an OkResult", nt.Obj().Name(), e.nm.dispatchFn))
	}
}

// ---- N3: accumulatorIter.Next ----------------------------------------------------------------------

type c13PathSt struct {
	eof, nonNil, ign int8 // facts about the child's error: +1 yes, -1 no, 0 unknown
	stale            bool // the error variable was re-assigned (now a handler error)
	handled, emitted uint8
}

func c13RunN3(e *c13Env) {
	c := e.c
	acc := c13Named(c.P, e.nm.execRel, e.nm.accIter)
	if acc == nil {
		c.Undecided("C13-N3", e.nm.accIter, 0, "type not found")
		return
	}
	var fd *ast.FuncDecl
	for _, m := range dmlMethodDecls(e.pk, acc) {
		if m.Name.Name == "Next" && m.Body != nil {
			fd = m
		}
	}
	fname := e.nm.accIter + ".Next"
	if fd == nil {
		c.Undecided("C13-N3", fname, acc.Obj().Pos(), "method not found")
		return
	}
	info := e.info
	recv := dmlRecvObj(info, fd)
	rowIterT := c13Named(c.P, e.nm.sqlRel, e.nm.rowIter)
	ifaceM := func(rel, iface, name string) *types.Func {
		it := dmlLookupIface(c.P, rel, iface)
		if it == nil {
			return nil
		}
		for i := 0; i < it.NumMethods(); i++ {
			if it.Method(i).Name() == name {
				return it.Method(i)
			}
		}
		return nil
	}
	handleM, okM := ifaceM(e.nm.execRel, e.nm.handlerIface, e.nm.handleFn), ifaceM(e.nm.execRel, e.nm.handlerIface, e.nm.okFn)
	ignoreM := ifaceM(e.nm.execRel, e.nm.ignoreIface, e.nm.ignoreFn)
	if handleM == nil || okM == nil || rowIterT == nil || recv == nil {
		c.Undecided("C13-N3", fname, fd.Pos(), "handler interface methods not found")
		return
	}
	// the pull: `row, err := a.<field>.Next(ctx)` on a RowIter-typed field of the receiver
	var pull *ast.AssignStmt
	npull := 0
	ast.Inspect(fd.Body, func(n ast.Node) bool {
		if _, isLit := n.(*ast.FuncLit); isLit {
			return false
		}
		as, ok := n.(*ast.AssignStmt)
		if !ok || len(as.Rhs) != 1 || len(as.Lhs) != 2 {
			return true
		}
		call, ok := ast.Unparen(as.Rhs[0]).(*ast.CallExpr)
		if !ok {
			return true
		}
		sel, ok := ast.Unparen(call.Fun).(*ast.SelectorExpr)
		if !ok || sel.Sel.Name != "Next" {
			return true
		}
		if id := dmlBaseIdent(sel.X); id == nil || info.Uses[id] != recv {
			return true
		}
		if dmlNamedOf(info.Types[sel.X].Type) != rowIterT {
			return true
		}
		pull = as
		npull++
		return true
	})
	if npull != 1 {
		c.Undecided("C13-N3", fname, fd.Pos(), fmt.Sprintf("expected one pull of the child iterator, found %d", npull))
		return
	}
	objOf := func(x ast.Expr) types.Object {
		id, _ := ast.Unparen(x).(*ast.Ident)
		if id == nil {
			return nil
		}
		if o := info.Defs[id]; o != nil {
			return o
		}
		return info.Uses[id]
	}
	rowObj, errObj := objOf(pull.Lhs[0]), objOf(pull.Lhs[1])
	if rowObj == nil || errObj == nil {
		c.Undecided("C13-N3", fname, pull.Pos(), "the pull does not bind the row and the error")
		return
	}
	// the comma-ok variable of `err.(IgnorableError)`
	var ignObj types.Object
	ast.Inspect(fd.Body, func(n ast.Node) bool {
		as, ok := n.(*ast.AssignStmt)
		if !ok || len(as.Rhs) != 1 || len(as.Lhs) != 2 {
			return true
		}
		if ta, ok := ast.Unparen(as.Rhs[0]).(*ast.TypeAssertExpr); ok && objOf(ta.X) == errObj {
			ignObj = objOf(as.Lhs[1])
		}
		return true
	})
	g := c.P.CFG(info, fd.Body)
	from, ok := FindNode(g, pull)
	if !ok {
		c.Undecided("C13-N3", fname, pull.Pos(), "pull not in the CFG")
		return
	}
	sig := info.Defs[fd.Name].(*types.Func).Type().(*types.Signature)
	sat := func(x uint8) uint8 {
		if x < 2 {
			return x + 1
		}
		return 2
	}
	type finding struct{ key, msg string }
	var cur finding
	run := func(key string, nodeF func(n ast.Node, s c13PathSt) (c13PathSt, pathAct), exitF func(s c13PathSt, ret *ast.ReturnStmt) bool) {
		cur = finding{}
		node := func(n ast.Node, s c13PathSt) (c13PathSt, pathAct) {
			if n == ast.Node(pull) {
				// the next pull: the previous row must have been handled exactly once
				ns, act := nodeF(n, s)
				if act == pathBad {
					return ns, act
				}
				return ns, pathStop
			}
			for _, call := range dmlCallsIn(n, false) {
				switch Callee(info, call) {
				case handleM:
					s.handled = sat(s.handled)
					if s.handled > 1 {
						cur = finding{key, "a row pulled from the child reaches the row handler a second time before the next pull: it is counted twice"}
						if key == "handle-once" {
							return s, pathBad
						}
					} else if s.stale || s.nonNil != -1 {
						cur = finding{key, "the row handler is reached on a path that has not ruled out the child's error"}
						if key == "handle-once" {
							return s, pathBad
						}
					}
					if len(call.Args) < 2 || objOf(call.Args[1]) != rowObj {
						cur = finding{key, "the row handler is not given the row pulled from the child"}
						if key == "handle-once" {
							return s, pathBad
						}
					}
				case ignoreM:
					if ignoreM != nil {
						s.handled = sat(s.handled)
						if s.ign != 1 {
							cur = finding{key, "the ignore variant of the handler is reached for an error that is not known to be ignorable"}
							if key == "handle-once" {
								return s, pathBad
							}
						}
					}
				case okM:
					s.emitted = sat(s.emitted)
					if s.stale || s.eof != 1 {
						cur = finding{key, "the result is built on a path that is not the child's io.EOF"}
						if key == "result-at-eof" {
							return s, pathBad
						}
					}
				}
			}
			if as, ok := n.(*ast.AssignStmt); ok {
				for _, l := range as.Lhs {
					if objOf(l) == errObj {
						s.stale = true
					}
				}
			}
			return nodeF(n, s)
		}
		edge := func(b *cfg.Block, succ int, s c13PathSt) (c13PathSt, bool) {
			if s.stale {
				return s, true
			}
			if obj, what, equal, ok := dmlCondEdge(info, b, succ); ok && obj == errObj {
				switch {
				case what == "nil":
					v := int8(1)
					if equal {
						v = -1
					}
					if s.nonNil != 0 && s.nonNil != v {
						return s, false
					}
					s.nonNil = v
					if v == -1 {
						if s.eof == 1 || s.ign == 1 {
							return s, false
						}
						s.eof, s.ign = -1, -1
					}
				case strings.HasSuffix(what, ".EOF"):
					v := int8(-1)
					if equal {
						v = 1
					}
					if s.eof != 0 && s.eof != v {
						return s, false
					}
					s.eof = v
					if v == 1 {
						if s.nonNil == -1 {
							return s, false
						}
						s.nonNil = 1
					}
				}
				return s, true
			}
			if ignObj != nil && len(b.Succs) == 2 && len(b.Nodes) > 0 {
				if x, isExpr := b.Nodes[len(b.Nodes)-1].(ast.Expr); isExpr {
					neg := false
					x = ast.Unparen(x)
					for {
						u, isU := x.(*ast.UnaryExpr)
						if !isU || u.Op != token.NOT {
							break
						}
						neg = !neg
						x = ast.Unparen(u.X)
					}
					if objOf(x) == ignObj {
						v := int8(1)
						if (succ == 0) == neg {
							v = -1
						}
						if s.ign != 0 && s.ign != v {
							return s, false
						}
						s.ign = v
						if v == 1 {
							if s.nonNil == -1 {
								return s, false
							}
							s.nonNil = 1
						}
					}
				}
			}
			return s, true
		}
		path := pathExplore(g, from, c13PathSt{}, node, edge, exitF)
		if path != nil {
			msg := cur.msg
			if msg == "" {
				msg = "offending path"
			}
			c.Bad("C13-N3", fname+"/"+key, fd.Pos(), msg, c.P.DescribePath(path)...)
		} else {
			c.Ok("C13-N3", fname+"/"+key, fd.Pos(), "holds on every path from the pull")
		}
	}
	goOn := func(n ast.Node, s c13PathSt) (c13PathSt, pathAct) { return s, pathGo }

	// (1) every row is handled exactly once before the next pull / a successful return
	run("handle-once", func(n ast.Node, s c13PathSt) (c13PathSt, pathAct) {
		if n == ast.Node(pull) {
			switch {
			case s.emitted > 0:
				cur = finding{"handle-once", "the child is pulled again after the result was built"}
				return s, pathBad
			case s.nonNil == -1 && s.handled != 1:
				cur = finding{"handle-once", fmt.Sprintf("a row pulled with a nil error reaches the handler %d times before the next pull (must be exactly once)", s.handled)}
				return s, pathBad
			case s.handled > 1:
				cur = finding{"handle-once", "a row is counted more than once before the next pull"}
				return s, pathBad
			}
		}
		return s, pathGo
	}, nil)
	// (2) the result is built only at EOF
	run("result-at-eof", goOn, nil)
	// (3) exits
	run("exits", goOn, func(s c13PathSt, ret *ast.ReturnStmt) bool {
		var errOp ast.Expr
		if ret != nil {
			errOp = dmlErrOperand(info, sig, ret)
		}
		errIsNil := errOp != nil && isNilIdent(info, errOp)
		if !s.stale && s.eof == 1 {
			if s.emitted != 1 {
				cur = finding{"exits", fmt.Sprintf("the io.EOF path returns after building the result %d times (must be exactly once)", s.emitted)}
				return true
			}
			if !errIsNil {
				cur = finding{"exits", "the io.EOF path does not return the result with a nil error"}
				return true
			}
			return false
		}
		if s.emitted > 0 {
			cur = finding{"exits", "a path that is not the child's io.EOF returns after building a result"}
			return true
		}
		if errIsNil || ret == nil {
			cur = finding{"exits", "a path that did not see the child's io.EOF returns without an error: the statement ends without a result, or an error is swallowed"}
			return true
		}
		return false
	})
	// (4) a second call of Next cannot pull again: sync.Once on every path to the pull, and an io.EOF return before it
	onceDo := func(n ast.Node) bool {
		return ContainsCall(info, n, func(fn *types.Func, call *ast.CallExpr) bool {
			return fn != nil && FullName(fn) == "sync.Once.Do"
		})
	}
	pathNoOnce := PathAvoiding(g, EntryPoint(g), onceDo, func(n ast.Node) bool { return n == ast.Node(pull) }, nil)
	eofReturn := false
	for _, n := range ReachableNodes(g, EntryPoint(g), func(n ast.Node) bool { return n == ast.Node(pull) }, nil) {
		if ret, ok := n.(*ast.ReturnStmt); ok {
			if op := dmlErrOperand(info, sig, ret); op != nil {
				if sel, ok := ast.Unparen(op).(*ast.SelectorExpr); ok {
					if v, ok := info.Uses[sel.Sel].(*types.Var); ok && v.Pkg() != nil && v.Pkg().Path() == "io" && v.Name() == "EOF" {
						eofReturn = true
					}
				}
			}
		}
	}
	switch {
	case pathNoOnce != nil:
		c.Bad("C13-N3", fname+"/once", fd.Pos(), "the child can be pulled on a path that does not pass the sync.Once guard: a second call of Next drains the (exhausted) child again and emits a second result", c.P.DescribePath(pathNoOnce)...)
	case !eofReturn:
		c.Bad("C13-N3", fname+"/once", fd.Pos(), "no io.EOF return before the pull: calls of Next after the first emit further results")
	default:
		c.Ok("C13-N3", fname+"/once", fd.Pos(), "sync.Once guard and io.EOF return precede the pull")
	}
	// (5) the error of the row handler is tested before the next pull / any return
	{
		var bad ast.Node
		var badPath []ast.Node
		nCalls := 0
		ast.Inspect(fd.Body, func(n ast.Node) bool {
			if _, isLit := n.(*ast.FuncLit); isLit {
				return false
			}
			call, ok := n.(*ast.CallExpr)
			if !ok {
				return true
			}
			if fn := Callee(info, call); fn == nil || (fn != handleM && fn != ignoreM) {
				return true
			}
			nCalls++
			pt, ok := FindNode(g, call)
			if !ok {
				bad = call
				return true
			}
			var v types.Object
			if as, isAs := pt.B.Nodes[pt.I].(*ast.AssignStmt); isAs && len(as.Lhs) == 1 && len(as.Rhs) == 1 && ast.Unparen(as.Rhs[0]) == ast.Expr(call) {
				v = objOf(as.Lhs[0])
			}
			if v == nil {
				if bad == nil {
					bad = call
				}
				return true
			}
			tested := func(x ast.Node) bool {
				be, ok := x.(*ast.BinaryExpr)
				if !ok || (be.Op != token.NEQ && be.Op != token.EQL) {
					return false
				}
				return (objOf(be.X) == v && isNilIdent(info, be.Y)) || (objOf(be.Y) == v && isNilIdent(info, be.X))
			}
			target := func(x ast.Node) bool {
				if x == ast.Node(pull) {
					return true
				}
				_, isRet := x.(*ast.ReturnStmt)
				return isRet
			}
			if path := PathAvoiding(g, pt, tested, target, nil); path != nil && bad == nil {
				bad, badPath = call, path
			}
			return true
		})
		switch {
		case nCalls == 0:
			c.Undecided("C13-N3", fname+"/handler-error", fd.Pos(), "no call of the row handler")
		case bad != nil:
			c.Bad("C13-N3", fname+"/handler-error", bad.Pos(), "the error returned by the row handler is dropped or not tested before the next row: a failing comparison (Row.Equals error) is lost and the statement reports counts as if it had succeeded", c.P.DescribePath(badPath)...)
		default:
			c.Ok("C13-N3", fname+"/handler-error", fd.Pos(), "every handler error is tested")
		}
	}
	// (6) the emitted row carries the handler's result, with its counts untouched
	{
		var resObj types.Object
		var okCall *ast.CallExpr
		ast.Inspect(fd.Body, func(n ast.Node) bool {
			if as, ok := n.(*ast.AssignStmt); ok && len(as.Lhs) == 1 && len(as.Rhs) == 1 {
				if call, ok := ast.Unparen(as.Rhs[0]).(*ast.CallExpr); ok && Callee(info, call) == okM {
					resObj, okCall = objOf(as.Lhs[0]), call
				}
			}
			return true
		})
		key := fname + "/result-flow"
		if resObj == nil {
			c.Undecided("C13-N3", key, fd.Pos(), "the handler's result is not bound to a variable")
		} else {
			msg := ""
			// variables that (may) carry the result: the bound variable and everything computed from it
			carries := map[types.Object]bool{resObj: true}
			for changed := true; changed; {
				changed = false
				ast.Inspect(fd.Body, func(n ast.Node) bool {
					if as, ok := n.(*ast.AssignStmt); ok {
						from := false
						for _, r := range as.Rhs {
							for o := range carries {
								if dmlMentions(info, r, o, false) {
									from = true
								}
							}
						}
						if from {
							for _, l := range as.Lhs {
								if o := objOf(l); o != nil && !carries[o] {
									carries[o] = true
									changed = true
								}
							}
						}
					}
					return true
				})
			}
			mentionsResult := func(x ast.Expr) bool {
				for o := range carries {
					if dmlMentions(info, x, o, false) {
						return true
					}
				}
				return false
			}
			ast.Inspect(fd.Body, func(n ast.Node) bool {
				switch x := n.(type) {
				case *ast.AssignStmt:
					for i, l := range x.Lhs {
						if objOf(l) == resObj && !(len(x.Rhs) == 1 && i == 0 && ast.Unparen(x.Rhs[0]) == ast.Expr(okCall)) {
							msg = "the variable holding the handler's result is overwritten at " + c.P.Rel(x.Pos())
						}
						if sel, ok := ast.Unparen(l).(*ast.SelectorExpr); ok && objOf(sel.X) == resObj && (sel.Sel.Name == e.nm.okAffected || sel.Sel.Name == e.nm.okInfo) {
							msg = "the handler's " + sel.Sel.Name + " is overwritten at " + c.P.Rel(x.Pos())
						}
					}
				case *ast.ReturnStmt:
					if pt, ok := FindNode(g, okCall); ok && len(x.Results) == 2 && isNilIdent(info, x.Results[1]) {
						// a successful return reachable from the result: it must hand on the result variable
						reach := false
						for _, rn := range ReachableNodes(g, pt, nil, nil) {
							if rn == ast.Node(x) {
								reach = true
							}
						}
						if reach && !mentionsResult(x.Results[0]) {
							msg = "the successful return at " + c.P.Rel(x.Pos()) + " does not hand on the handler's result"
						}
					}
				}
				return true
			})
			c.Check(msg == "", "C13-N3", key, okCall.Pos(), "the emitted row is built from the handler's result", msg+": the client sees counts that are not the handler's")
		}
	}
}

// ---- N2 (source of the flag): the callers of the choosing function ---------------------------------

func c13RunN2Source(e *c13Env) {
	c := e.c
	sig := e.dispFn.Type().(*types.Signature)
	flagIdx := -1
	for i := 0; i < sig.Params().Len(); i++ {
		if sig.Params().At(i) == e.flagPar {
			flagIdx = i
		}
	}
	n := 0
	for _, f := range e.pk.Syntax {
		for _, d := range f.Decls {
			fd, ok := d.(*ast.FuncDecl)
			if !ok || fd.Body == nil || fd == e.disp {
				continue
			}
			for _, call := range dmlCallsIn(fd.Body, true) {
				if Callee(e.info, call) != e.dispFn || flagIdx < 0 || flagIdx >= len(call.Args) {
					continue
				}
				n++
				key := "flag-source/" + DeclName(fd)
				x := ast.Unparen(call.Args[flagIdx])
				if id, isID := x.(*ast.Ident); isID {
					// the single definition of the variable in the caller
					obj := e.info.Uses[id]
					var def ast.Expr
					defs := 0
					ast.Inspect(fd.Body, func(m ast.Node) bool {
						if as, ok := m.(*ast.AssignStmt); ok {
							for i, l := range as.Lhs {
								if lid, ok := l.(*ast.Ident); ok && (e.info.Defs[lid] == obj || e.info.Uses[lid] == obj) && obj != nil {
									defs++
									if len(as.Rhs) == len(as.Lhs) {
										def = as.Rhs[i]
									}
								}
							}
						}
						return true
					})
					if defs == 1 && def != nil {
						x = ast.Unparen(def)
					}
				}
				// (caps & CLIENT_FOUND_ROWS) > 0   |   != 0
				okShape, why := false, "the flag is not computed as (capabilities & CLIENT_FOUND_ROWS) > 0"
				if be, ok := x.(*ast.BinaryExpr); ok && (be.Op == token.GTR || be.Op == token.NEQ) {
					if zv := e.info.Types[be.Y].Value; zv != nil && zv.Kind() == constant.Int && constant.Sign(zv) == 0 {
						if and, ok := ast.Unparen(be.X).(*ast.BinaryExpr); ok && and.Op == token.AND {
							for _, op := range []ast.Expr{and.X, and.Y} {
								if v := e.info.Types[op].Value; v != nil && v.Kind() == constant.Int {
									if iv, exact := constant.Int64Val(v); exact && iv == 2 {
										okShape = true
									} else {
										why = fmt.Sprintf("the capability mask is %s; CLIENT_FOUND_ROWS is bit 0x2 of the MySQL handshake capabilities", v.ExactString())
									}
								}
							}
						}
					}
				}
				c.Check(okShape, "C13-N2", key, call.Pos(), "flag = capabilities & 0x2 (CLIENT_FOUND_ROWS) != 0", why+": UPDATE and INSERT … ON DUPLICATE KEY UPDATE report the wrong affected-rows variant")
			}
		}
	}
	if n == 0 {
		c.Undecided("C13-N2", "flag-source", e.disp.Pos(), "the choosing function has no caller in the package")
	}
}

// ---- N4: REPLACE deletes at most one row per emitted row -------------------------------------------

func c13RunN4(e *c13Env) {
	c := e.c
	it := c13Named(c.P, e.nm.execRel, e.nm.replaceIter)
	repl := c13Named(c.P, e.nm.sqlRel, e.nm.replacerIface)
	rowIterT := c13Named(c.P, e.nm.sqlRel, e.nm.rowIter)
	if it == nil || repl == nil || rowIterT == nil {
		c.Undecided("C13-N4", e.nm.replaceIter, 0, "iterator / replacer interface not found")
		return
	}
	var fd *ast.FuncDecl
	for _, m := range dmlMethodDecls(e.pk, it) {
		if m.Name.Name == "Next" && m.Body != nil {
			fd = m
		}
	}
	if fd == nil {
		c.Undecided("C13-N4", e.nm.replaceIter+".Next", it.Obj().Pos(), "method not found")
		return
	}
	info := e.info
	g := c.P.CFG(info, fd.Body)
	isPull := func(n ast.Node) bool {
		found := false
		for _, call := range dmlCallsIn(n, false) {
			if sel, ok := ast.Unparen(call.Fun).(*ast.SelectorExpr); ok && sel.Sel.Name == "Next" && dmlNamedOf(info.Types[sel.X].Type) == rowIterT {
				found = true
			}
		}
		return found
	}
	n := 0
	for _, call := range dmlCallsIn(fd.Body, false) {
		sel, ok := ast.Unparen(call.Fun).(*ast.SelectorExpr)
		if !ok || sel.Sel.Name != e.nm.deleteMethod || dmlNamedOf(info.Types[sel.X].Type) != repl {
			continue
		}
		n++
		key := e.nm.replaceIter + ".Next/" + types.ExprString(sel.X)
		if id := dmlBaseIdent(sel.X); id != nil {
			if s, ok := ast.Unparen(sel.X).(*ast.SelectorExpr); ok {
				key = e.nm.replaceIter + ".Next/" + s.Sel.Name + "." + e.nm.deleteMethod
			}
		}
		if n > 1 {
			key += fmt.Sprintf("#%d", n) // further deletes in the same function (the first keeps the plain key)
		}
		pt, ok := FindNode(g, call)
		if !ok {
			c.Undecided("C13-N4", key, call.Pos(), "call not in the CFG")
			continue
		}
		self := pt.B.Nodes[pt.I]
		path := PathAvoiding(g, pt, isPull, func(x ast.Node) bool { return x == self }, nil)
		if path != nil {
			c.Bad("C13-N4", key, call.Pos(), "the delete of an existing row lies on a loop that does not pull a new source row: one emitted deleted||inserted row can stand for several deleted rows, but the REPLACE handler counts at most one (MySQL: affected rows = rows deleted + rows inserted)", c.P.DescribePath(path)...)
		} else {
			c.Ok("C13-N4", key, call.Pos(), "at most one delete per emitted row")
		}
	}
	if n == 0 {
		c.Undecided("C13-N4", e.nm.replaceIter+".Next", fd.Pos(), "no delete through the replacer found: the REPLACE producer has changed shape")
	}
}

// ---- N5: UPDATE … JOIN counts a table row as matched once, when it is first seen ---------------------

func c13RunN5(e *c13Env) {
	c := e.c
	it := c13Named(c.P, e.nm.execRel, e.nm.joinIter)
	cacheT := c13Named(c.P, e.nm.sqlRel, e.nm.cacheIface)
	if it == nil || cacheT == nil {
		c.Undecided("C13-N5", e.nm.joinIter, 0, "join iterator / cache interface not found")
		return
	}
	var fd *ast.FuncDecl
	for _, m := range dmlMethodDecls(e.pk, it) {
		if m.Name.Name == "Next" && m.Body != nil {
			fd = m
		}
	}
	fname := e.nm.joinIter + ".Next"
	if fd == nil {
		c.Undecided("C13-N5", fname, it.Obj().Pos(), "method not found")
		return
	}
	info := e.info
	// the handler type: the iterator's field of type *handler (coupled by N2)
	var hT *types.Named
	if sT, ok := it.Underlying().(*types.Struct); ok {
		for i := 0; i < sT.NumFields(); i++ {
			if p, isPtr := sT.Field(i).Type().(*types.Pointer); isPtr {
				if nt := dmlNamedOf(p.Elem()); nt != nil && dmlImplements(nt, e.iface) {
					hT = nt
				}
			}
		}
	}
	if hT == nil {
		c.Undecided("C13-N5", fname, fd.Pos(), "the join iterator holds no row-count handler")
		return
	}
	has := func(n ast.Node, pred func(call *ast.CallExpr, sel *ast.SelectorExpr) bool) bool {
		for _, call := range dmlCallsIn(n, false) {
			if sel, ok := ast.Unparen(call.Fun).(*ast.SelectorExpr); ok && pred(call, sel) {
				return true
			}
		}
		return false
	}
	onCache := func(name string) func(ast.Node) bool {
		return func(n ast.Node) bool {
			return has(n, func(call *ast.CallExpr, sel *ast.SelectorExpr) bool {
				return sel.Sel.Name == name && dmlNamedOf(info.Types[sel.X].Type) == cacheT
			})
		}
	}
	isGet, isPut := onCache(e.nm.cacheGet), onCache(e.nm.cachePut)
	isM := func(n ast.Node) bool {
		return has(n, func(call *ast.CallExpr, sel *ast.SelectorExpr) bool {
			return sel.Sel.Name == e.nm.matchedFn && dmlNamedOf(info.Types[sel.X].Type) == hT
		})
	}
	g := c.P.CFG(info, fd.Body)
	var gets, ms []CFGPoint
	for _, b := range g.Blocks {
		for i, n := range b.Nodes {
			if isGet(n) {
				gets = append(gets, CFGPoint{b, i})
			}
			if isM(n) {
				ms = append(ms, CFGPoint{b, i})
			}
		}
	}
	if len(gets) == 0 || len(ms) == 0 {
		c.Undecided("C13-N5", fname, fd.Pos(), fmt.Sprintf("expected the seen-rows cache lookup and the %s call (found %d / %d)", e.nm.matchedFn, len(gets), len(ms)))
		return
	}
	// Between two cache lookups (or a lookup and a return) the put and the matched count go together,
	// in either order: state = (put seen, matched calls, on the "iterator has no handler" edge).
	type n5St struct {
		put, noHandler bool
		m              uint8
	}
	hField := func(n ast.Node) bool {
		be, ok := n.(*ast.BinaryExpr)
		if !ok || (be.Op != token.NEQ && be.Op != token.EQL) {
			return false
		}
		for _, pair := range [][2]ast.Expr{{be.X, be.Y}, {be.Y, be.X}} {
			if isNilIdent(info, pair[1]) {
				if p, isPtr := info.Types[pair[0]].Type.(*types.Pointer); isPtr && dmlNamedOf(p.Elem()) == hT {
					return true
				}
			}
		}
		return false
	}
	check := func(key, okMsg, badMsg string, wrong func(s n5St) bool) {
		var bad []ast.Node
		for _, gp := range gets {
			start := gp.B.Nodes[gp.I]
			node := func(n ast.Node, s n5St) (n5St, pathAct) {
				if isGet(n) && n != start || isGet(n) && s != (n5St{}) {
					if wrong(s) {
						return s, pathBad
					}
					return s, pathStop
				}
				if isPut(n) {
					s.put = true
				}
				if isM(n) && s.m < 2 {
					s.m++
				}
				return s, pathGo
			}
			edge := func(bb *cfg.Block, succ int, s n5St) (n5St, bool) {
				if len(bb.Nodes) > 0 && len(bb.Succs) == 2 && hField(bb.Nodes[len(bb.Nodes)-1]) {
					be := bb.Nodes[len(bb.Nodes)-1].(*ast.BinaryExpr)
					nilEdge := 1
					if be.Op == token.EQL {
						nilEdge = 0
					}
					if succ == nilEdge {
						s.noHandler = true
					}
				}
				return s, true
			}
			exit := func(s n5St, ret *ast.ReturnStmt) bool { return wrong(s) }
			if p := pathExplore(g, gp, n5St{}, node, edge, exit); p != nil && bad == nil {
				bad = p
			}
		}
		if bad != nil {
			c.Bad("C13-N5", fname+"/"+key, fd.Pos(), badMsg, c.P.DescribePath(bad)...)
		} else {
			c.Ok("C13-N5", fname+"/"+key, fd.Pos(), okMsg)
		}
	}
	check("matched-on-miss", "matched is counted only for a row that is recorded as seen",
		"a table row is counted as matched on a path that does not record it in the seen-rows cache: a row that joins with several rows of the other table is counted once per join row",
		func(s n5St) bool { return s.m > 0 && !s.put })
	check("matched-once", "one count per lookup", "a table row can be counted as matched twice for one cache lookup",
		func(s n5St) bool { return s.m > 1 })
	check("first-seen-counted", "every first-seen row is counted",
		"a table row is recorded as seen but, with a handler present, not counted as matched",
		func(s n5St) bool { return s.put && s.m == 0 && !s.noHandler })
}
