package main

// C43 layout engine: reads "sequence" values (sql.Row / sql.Schema) out of the syntax of the functions that build
// them, as a finite set of *shapes* (ordered element lists) each under a *guard* (a conjunction of recognised
// conditions: a bool field of a struct being true/false, a type-switch arm). No code is executed: the shapes are
// read from composite literals, variadic constructor calls, append chains of local variables and the return
// statements of statically resolved callees. Anything outside this subset is *opaque* (reported as not decided,
// never as agreeing).

import (
	"fmt"
	"go/ast"
	"go/token"
	"go/types"
	"sort"
	"strings"

	"golang.org/x/tools/go/packages"
)

// c43Guard is a conjunction of recognised conditions.
type c43Guard struct {
	flags map[*types.Var]bool      // bool struct field -> required value
	typs  map[*types.TypeName]bool // type-switch arm: the dynamic type is one of these (empty = unconstrained)
}

func (g c43Guard) clone() c43Guard {
	n := c43Guard{flags: map[*types.Var]bool{}, typs: map[*types.TypeName]bool{}}
	for k, v := range g.flags {
		n.flags[k] = v
	}
	for k := range g.typs {
		n.typs[k] = true
	}
	return n
}

func (g c43Guard) withFlag(f *types.Var, v bool) c43Guard {
	n := g.clone()
	n.flags[f] = v
	return n
}

// and returns g ∧ h and whether the conjunction is satisfiable.
func (g c43Guard) and(h c43Guard) (c43Guard, bool) {
	n := g.clone()
	for k, v := range h.flags {
		if old, ok := n.flags[k]; ok && old != v {
			return n, false
		}
		n.flags[k] = v
	}
	if len(h.typs) > 0 {
		if len(n.typs) == 0 {
			for k := range h.typs {
				n.typs[k] = true
			}
		} else {
			inter := map[*types.TypeName]bool{}
			for k := range n.typs {
				if h.typs[k] {
					inter[k] = true
				}
			}
			if len(inter) == 0 {
				return n, false
			}
			n.typs = inter
		}
	}
	return n, true
}

func (g c43Guard) String() string {
	var parts []string
	for k, v := range g.flags {
		if v {
			parts = append(parts, k.Name())
		} else {
			parts = append(parts, "!"+k.Name())
		}
	}
	var ts []string
	for k := range g.typs {
		ts = append(ts, k.Name())
	}
	sort.Strings(ts)
	if len(ts) > 0 {
		parts = append(parts, "type∈{"+strings.Join(ts, ",")+"}")
	}
	sort.Strings(parts)
	if len(parts) == 0 {
		return "always"
	}
	return strings.Join(parts, " ∧ ")
}

// c43Elem is one element expression together with the type information of the package it was read from.
type c43Elem struct {
	e    ast.Expr
	info *types.Info
}

type c43Shape struct {
	elems []c43Elem
	guard c43Guard
	pos   token.Pos // where the base of the shape was built
	fn    string    // function the base was read from
}

// c43Seq describes which named type is the sequence (Row or Schema) and how it may be constructed.
type c43Seq struct {
	named *types.TypeName // sql.Row / sql.Schema
	ctor  *types.Func     // sql.NewRow (variadic constructor) or nil
}

func (s *c43Seq) is(t types.Type) bool {
	if t == nil {
		return false
	}
	t = types.Unalias(t)
	if n, ok := t.(*types.Named); ok {
		return n.Obj() == s.named
	}
	return false
}

func (s *c43Seq) isSliceOf(t types.Type) bool {
	if t == nil {
		return false
	}
	switch u := types.Unalias(t).Underlying().(type) {
	case *types.Slice:
		return s.is(u.Elem())
	case *types.Array:
		return s.is(u.Elem())
	}
	return false
}

// c43FnInfo is the per-function pre-pass: the guard of every statement / call / literal, and all definitions of
// local sequence variables.
type c43FnInfo struct {
	pk     *packages.Package
	fd     *ast.FuncDecl
	guards map[ast.Node]c43Guard
	defs   map[*types.Var][]c43Def
}

type c43Def struct {
	rhs   ast.Expr // nil: not readable (multi-value call, range variable…)
	guard c43Guard
	pos   token.Pos
}

type c43Layout struct {
	P      *Prog
	fns    map[*ast.FuncDecl]*c43FnInfo
	active map[string]bool // recursion guard for return-shape evaluation
}

func newC43Layout(p *Prog) *c43Layout {
	return &c43Layout{P: p, fns: map[*ast.FuncDecl]*c43FnInfo{}, active: map[string]bool{}}
}

func (l *c43Layout) fnInfo(pk *packages.Package, fd *ast.FuncDecl) *c43FnInfo {
	if fi, ok := l.fns[fd]; ok {
		return fi
	}
	fi := &c43FnInfo{pk: pk, fd: fd, guards: map[ast.Node]c43Guard{}, defs: map[*types.Var][]c43Def{}}
	l.fns[fd] = fi
	if fd.Body != nil {
		fi.walkBlock(fd.Body.List, c43Guard{}.clone())
	}
	return fi
}

// c43FlagOf recognises `x.F` / `!x.F` where F is a bool struct field.
func c43FlagOf(info *types.Info, cond ast.Expr) (*types.Var, bool, bool) {
	cond = ast.Unparen(cond)
	neg := false
	if u, ok := cond.(*ast.UnaryExpr); ok && u.Op == token.NOT {
		neg = true
		cond = ast.Unparen(u.X)
	}
	sel, ok := cond.(*ast.SelectorExpr)
	if !ok {
		return nil, false, false
	}
	s := info.Selections[sel]
	if s == nil || s.Kind() != types.FieldVal {
		return nil, false, false
	}
	f, _ := s.Obj().(*types.Var)
	if f == nil || !f.IsField() {
		return nil, false, false
	}
	if b, ok := f.Type().Underlying().(*types.Basic); !ok || b.Kind() != types.Bool {
		return nil, false, false
	}
	return f, !neg, true
}

func c43Terminates(list []ast.Stmt) bool {
	if len(list) == 0 {
		return false
	}
	switch s := list[len(list)-1].(type) {
	case *ast.ReturnStmt:
		return true
	case *ast.BranchStmt:
		return s.Tok == token.CONTINUE || s.Tok == token.BREAK || s.Tok == token.GOTO
	case *ast.ExprStmt:
		if call, ok := s.X.(*ast.CallExpr); ok {
			if id, ok := call.Fun.(*ast.Ident); ok && id.Name == "panic" {
				return true
			}
		}
	case *ast.BlockStmt:
		return c43Terminates(s.List)
	}
	return false
}

func (fi *c43FnInfo) walkBlock(list []ast.Stmt, g c43Guard) {
	info := fi.pk.TypesInfo
	for _, st := range list {
		fi.walkStmt(st, g)
		// an `if F { …; return }` without else makes the rest of the block run under !F (and symmetrically)
		if is, ok := st.(*ast.IfStmt); ok && is.Init == nil {
			if f, val, ok := c43FlagOf(info, is.Cond); ok {
				if is.Else == nil && c43Terminates(is.Body.List) {
					if _, has := g.flags[f]; !has {
						g = g.withFlag(f, !val)
					}
				} else if eb, ok := is.Else.(*ast.BlockStmt); ok && c43Terminates(eb.List) && !c43Terminates(is.Body.List) {
					if _, has := g.flags[f]; !has {
						g = g.withFlag(f, val)
					}
				}
			}
		}
	}
}

func (fi *c43FnInfo) recordExprs(n ast.Node, g c43Guard) {
	if n == nil {
		return
	}
	ast.Inspect(n, func(m ast.Node) bool {
		switch x := m.(type) {
		case *ast.FuncLit:
			fi.guards[x] = g
			fi.walkBlock(x.Body.List, g)
			return false
		case *ast.CallExpr, *ast.CompositeLit:
			fi.guards[x] = g
		}
		return true
	})
}

func (fi *c43FnInfo) addDef(lhs ast.Expr, rhs ast.Expr, g c43Guard, pos token.Pos) {
	id, ok := ast.Unparen(lhs).(*ast.Ident)
	if !ok {
		return
	}
	info := fi.pk.TypesInfo
	var v *types.Var
	if o, ok := info.Defs[id].(*types.Var); ok {
		v = o
	} else if o, ok := info.Uses[id].(*types.Var); ok {
		v = o
	}
	if v == nil || v.IsField() {
		return
	}
	fi.defs[v] = append(fi.defs[v], c43Def{rhs: rhs, guard: g, pos: pos})
}

func (fi *c43FnInfo) walkStmt(st ast.Stmt, g c43Guard) {
	if st == nil {
		return
	}
	info := fi.pk.TypesInfo
	fi.guards[st] = g
	switch s := st.(type) {
	case *ast.BlockStmt:
		fi.walkBlock(s.List, g)
	case *ast.IfStmt:
		fi.walkStmt(s.Init, g)
		fi.recordExprs(s.Cond, g)
		gt, ge := g, g
		if f, val, ok := c43FlagOf(info, s.Cond); ok && s.Init == nil {
			if old, has := g.flags[f]; !has {
				gt, ge = g.withFlag(f, val), g.withFlag(f, !val)
			} else {
				_ = old
			}
		}
		fi.walkBlock(s.Body.List, gt)
		if s.Else != nil {
			fi.walkStmt(s.Else, ge)
		}
	case *ast.TypeSwitchStmt:
		fi.walkStmt(s.Init, g)
		fi.walkStmt(s.Assign, g)
		for _, cc := range s.Body.List {
			cl := cc.(*ast.CaseClause)
			gc := g
			var tns []*types.TypeName
			all := len(cl.List) > 0
			for _, te := range cl.List {
				t := info.TypeOf(te)
				if t == nil {
					all = false
					break
				}
				if p, ok := types.Unalias(t).(*types.Pointer); ok {
					t = p.Elem()
				}
				if n, ok := types.Unalias(t).(*types.Named); ok {
					tns = append(tns, n.Obj())
				} else {
					all = false
				}
			}
			if all && len(g.typs) == 0 {
				gc = g.clone()
				for _, tn := range tns {
					gc.typs[tn] = true
				}
			}
			fi.guards[cl] = gc
			fi.walkBlock(cl.Body, gc)
		}
	case *ast.SwitchStmt:
		fi.walkStmt(s.Init, g)
		fi.recordExprs(s.Tag, g)
		for _, cc := range s.Body.List {
			cl := cc.(*ast.CaseClause)
			for _, e := range cl.List {
				fi.recordExprs(e, g)
			}
			fi.walkBlock(cl.Body, g)
		}
	case *ast.SelectStmt:
		for _, cc := range s.Body.List {
			cl := cc.(*ast.CommClause)
			fi.walkStmt(cl.Comm, g)
			fi.walkBlock(cl.Body, g)
		}
	case *ast.ForStmt:
		fi.walkStmt(s.Init, g)
		fi.recordExprs(s.Cond, g)
		fi.walkStmt(s.Post, g)
		fi.walkBlock(s.Body.List, g)
	case *ast.RangeStmt:
		fi.recordExprs(s.X, g)
		if s.Key != nil {
			fi.addDef(s.Key, nil, g, s.Pos())
		}
		if s.Value != nil {
			fi.addDef(s.Value, nil, g, s.Pos())
		}
		fi.walkBlock(s.Body.List, g)
	case *ast.LabeledStmt:
		fi.walkStmt(s.Stmt, g)
	case *ast.AssignStmt:
		for _, r := range s.Rhs {
			fi.recordExprs(r, g)
		}
		for _, lh := range s.Lhs {
			fi.recordExprs(lh, g)
		}
		if len(s.Lhs) == len(s.Rhs) {
			for i := range s.Lhs {
				if s.Tok == token.ASSIGN || s.Tok == token.DEFINE {
					fi.addDef(s.Lhs[i], s.Rhs[i], g, s.Pos())
				} else {
					fi.addDef(s.Lhs[i], nil, g, s.Pos())
				}
			}
		} else {
			for i := range s.Lhs {
				if i == 0 && len(s.Rhs) == 1 {
					// v, err := f(): readable through f's return statements
					fi.addDef(s.Lhs[i], s.Rhs[0], g, s.Pos())
				} else {
					fi.addDef(s.Lhs[i], nil, g, s.Pos())
				}
			}
		}
	case *ast.DeclStmt:
		if gd, ok := s.Decl.(*ast.GenDecl); ok {
			for _, sp := range gd.Specs {
				vs, ok := sp.(*ast.ValueSpec)
				if !ok {
					continue
				}
				for _, v := range vs.Values {
					fi.recordExprs(v, g)
				}
				if len(vs.Values) == len(vs.Names) {
					for i := range vs.Names {
						fi.addDef(vs.Names[i], vs.Values[i], g, vs.Pos())
					}
				}
				// `var v T` without a value: the nil sequence is never an output row; not a definition
			}
		}
	case *ast.ReturnStmt:
		for _, r := range s.Results {
			fi.recordExprs(r, g)
		}
	case *ast.ExprStmt:
		fi.recordExprs(s.X, g)
	case *ast.GoStmt:
		fi.recordExprs(s.Call, g)
	case *ast.DeferStmt:
		fi.recordExprs(s.Call, g)
	case *ast.SendStmt:
		fi.recordExprs(s.Chan, g)
		fi.recordExprs(s.Value, g)
	case *ast.IncDecStmt:
		fi.recordExprs(s.X, g)
	}
}

// c43Opaque explains why an expression could not be read.
type c43Opaque struct {
	pos token.Pos
	why string
}

// eval reads the shapes an expression of sequence type may evaluate to. ok=false: opaque.
func (l *c43Layout) eval(seq *c43Seq, fi *c43FnInfo, e ast.Expr, depth int) ([]c43Shape, *c43Opaque) {
	info := fi.pk.TypesInfo
	e = ast.Unparen(e)
	fname := DeclName(fi.fd)
	if depth > 12 {
		return nil, &c43Opaque{e.Pos(), "evaluation too deep"}
	}
	switch x := e.(type) {
	case *ast.CompositeLit:
		if !seq.is(info.TypeOf(x)) {
			return nil, &c43Opaque{x.Pos(), "composite literal of another type"}
		}
		sh := c43Shape{guard: c43Guard{}.clone(), pos: x.Pos(), fn: fname}
		for _, el := range x.Elts {
			if _, kv := el.(*ast.KeyValueExpr); kv {
				return nil, &c43Opaque{x.Pos(), "indexed slice literal"}
			}
			sh.elems = append(sh.elems, c43Elem{el, info})
		}
		return []c43Shape{sh}, nil
	case *ast.UnaryExpr:
		if x.Op == token.AND {
			return l.eval(seq, fi, x.X, depth+1)
		}
	case *ast.CallExpr:
		if IsBuiltinCall(info, x, "append") && len(x.Args) >= 1 && seq.is(info.TypeOf(x.Args[0])) {
			if x.Ellipsis.IsValid() {
				return nil, &c43Opaque{x.Pos(), "append(seq, other...) : length of the appended slice is not known"}
			}
			base, op := l.eval(seq, fi, x.Args[0], depth+1)
			if op != nil {
				return nil, op
			}
			var out []c43Shape
			for _, b := range base {
				nb := b
				nb.elems = append(append([]c43Elem{}, b.elems...), c43ElemsOf(x.Args[1:], info)...)
				out = append(out, nb)
			}
			return out, nil
		}
		callee := Callee(info, x)
		if callee != nil && seq.ctor != nil && callee.Origin() == seq.ctor {
			if x.Ellipsis.IsValid() {
				return nil, &c43Opaque{x.Pos(), "variadic constructor called with a slice"}
			}
			return []c43Shape{{elems: c43ElemsOf(x.Args, info), guard: c43Guard{}.clone(), pos: x.Pos(), fn: fname}}, nil
		}
		if callee != nil {
			// package-level function variable (var NewX = newX): follow the initializer
			return l.returnShapes(seq, callee, depth+1, x.Pos())
		}
		if fv := c43FuncVarTarget(l.P, info, x.Fun); fv != nil {
			return l.returnShapes(seq, fv, depth+1, x.Pos())
		}
		return nil, &c43Opaque{x.Pos(), "call of a function value"}
	case *ast.Ident:
		v, _ := info.Uses[x].(*types.Var)
		if v == nil {
			if isNilIdent(info, x) {
				return nil, nil // nil sequence: no row
			}
			return nil, &c43Opaque{x.Pos(), "not a variable"}
		}
		if v.Parent() == v.Pkg().Scope() {
			return l.pkgVarShapes(seq, v, depth+1, x.Pos())
		}
		return l.varShapes(seq, fi, v, depth+1, x.Pos())
	case *ast.SelectorExpr:
		if v, ok := info.Uses[x.Sel].(*types.Var); ok && !v.IsField() && v.Pkg() != nil && v.Parent() == v.Pkg().Scope() {
			return l.pkgVarShapes(seq, v, depth+1, x.Pos())
		}
	}
	return nil, &c43Opaque{e.Pos(), "expression form not readable: " + types.ExprString(e)}
}

func c43ElemsOf(args []ast.Expr, info *types.Info) []c43Elem {
	out := make([]c43Elem, 0, len(args))
	for _, a := range args {
		out = append(out, c43Elem{a, info})
	}
	return out
}

// c43FuncVarTarget resolves a call through a package-level function variable whose initializer names a function
// (`var NewColumnsTable = newMySQLColumnsTable`) to that function, provided the variable is never assigned in the
// loaded module packages (a hook another module may set; noted by the caller).
func c43FuncVarTarget(p *Prog, info *types.Info, fun ast.Expr) *types.Func {
	var v *types.Var
	switch f := ast.Unparen(fun).(type) {
	case *ast.Ident:
		v, _ = info.Uses[f].(*types.Var)
	case *ast.SelectorExpr:
		v, _ = info.Uses[f.Sel].(*types.Var)
	}
	if v == nil || v.IsField() || v.Pkg() == nil || v.Parent() != v.Pkg().Scope() {
		return nil
	}
	init, pk := c43PkgVarInit(p, v)
	if init == nil {
		return nil
	}
	switch f := ast.Unparen(init).(type) {
	case *ast.Ident:
		fn, _ := pk.TypesInfo.Uses[f].(*types.Func)
		return fn
	case *ast.SelectorExpr:
		fn, _ := pk.TypesInfo.Uses[f.Sel].(*types.Func)
		return fn
	}
	return nil
}

// c43PkgVarInit returns the initializer expression of a package-level variable of a loaded module package.
func c43PkgVarInit(p *Prog, v *types.Var) (ast.Expr, *packages.Package) {
	pk := p.PkgOf(v)
	if pk == nil {
		return nil, nil
	}
	for _, file := range pk.Syntax {
		for _, d := range file.Decls {
			gd, ok := d.(*ast.GenDecl)
			if !ok || gd.Tok != token.VAR {
				continue
			}
			for _, sp := range gd.Specs {
				vs := sp.(*ast.ValueSpec)
				for i, n := range vs.Names {
					if pk.TypesInfo.Defs[n] == v {
						if len(vs.Values) == len(vs.Names) {
							return vs.Values[i], pk
						}
						return nil, pk
					}
				}
			}
		}
	}
	return nil, pk
}

func (l *c43Layout) pkgVarShapes(seq *c43Seq, v *types.Var, depth int, at token.Pos) ([]c43Shape, *c43Opaque) {
	init, pk := c43PkgVarInit(l.P, v)
	if init == nil || pk == nil {
		return nil, &c43Opaque{at, "package variable " + v.Name() + " has no readable initializer"}
	}
	// a pseudo function context for the initializer
	fi := &c43FnInfo{pk: pk, fd: &ast.FuncDecl{Name: ast.NewIdent("var " + v.Name())}, guards: map[ast.Node]c43Guard{}, defs: map[*types.Var][]c43Def{}}
	return l.eval(seq, fi, init, depth)
}

// returnShapes: the shapes returned (as first result of sequence type) by a module function.
func (l *c43Layout) returnShapes(seq *c43Seq, fn *types.Func, depth int, at token.Pos) ([]c43Shape, *c43Opaque) {
	fd := l.P.Decl(fn)
	pk := l.P.PkgOf(fn)
	if fd == nil || fd.Body == nil || pk == nil {
		return nil, &c43Opaque{at, "callee " + FuncName(fn) + " has no body in the loaded packages"}
	}
	key := FullName(fn)
	if l.active[key] {
		return nil, &c43Opaque{at, "recursive callee " + FuncName(fn)}
	}
	l.active[key] = true
	defer delete(l.active, key)
	sig := fn.Type().(*types.Signature)
	idx := -1
	for i := 0; i < sig.Results().Len(); i++ {
		if seq.is(sig.Results().At(i).Type()) {
			idx = i
			break
		}
	}
	if idx < 0 {
		return nil, &c43Opaque{at, "callee " + FuncName(fn) + " does not return the sequence type"}
	}
	fi := l.fnInfo(pk, fd)
	var out []c43Shape
	var opq *c43Opaque
	c43InspectOwn(fd.Body, func(n ast.Node) {
		ret, ok := n.(*ast.ReturnStmt)
		if !ok || opq != nil {
			return
		}
		if len(ret.Results) != sig.Results().Len() {
			if len(ret.Results) == 0 {
				opq = &c43Opaque{ret.Pos(), "naked return in " + FuncName(fn)}
			} else {
				opq = &c43Opaque{ret.Pos(), "return of a multi-value call in " + FuncName(fn)}
			}
			return
		}
		r := ret.Results[idx]
		if isNilIdent(pk.TypesInfo, r) {
			return
		}
		shs, op := l.eval(seq, fi, r, depth+1)
		if op != nil {
			opq = op
			return
		}
		for _, s := range shs {
			g, ok := s.guard.and(fi.guards[ret])
			if !ok {
				continue
			}
			s.guard = g
			out = append(out, s)
		}
	})
	if opq != nil {
		return nil, opq
	}
	return out, nil
}

// c43InspectOwn visits the nodes of a body without descending into function literals.
func c43InspectOwn(body ast.Node, f func(ast.Node)) {
	ast.Inspect(body, func(n ast.Node) bool {
		if n == nil {
			return false
		}
		if _, ok := n.(*ast.FuncLit); ok {
			return false
		}
		f(n)
		return true
	})
}

// varShapes: the shapes a local variable may hold: every base definition, split/extended by every
// `v = append(v, …)` definition in source order.
func (l *c43Layout) varShapes(seq *c43Seq, fi *c43FnInfo, v *types.Var, depth int, at token.Pos) ([]c43Shape, *c43Opaque) {
	info := fi.pk.TypesInfo
	defs := fi.defs[v]
	if len(defs) == 0 {
		return nil, &c43Opaque{at, "variable " + v.Name() + " has no readable definition in " + DeclName(fi.fd) + " (parameter or zero value)"}
	}
	isExt := func(d c43Def) (*ast.CallExpr, bool) {
		call, ok := ast.Unparen(d.rhs).(*ast.CallExpr)
		if !ok || !IsBuiltinCall(info, call, "append") || len(call.Args) == 0 {
			return nil, false
		}
		id, ok := ast.Unparen(call.Args[0]).(*ast.Ident)
		if !ok || info.Uses[id] != v {
			return nil, false
		}
		return call, true
	}
	var shapes []c43Shape
	var exts []c43Def
	for _, d := range defs {
		if d.rhs == nil {
			return nil, &c43Opaque{d.pos, "variable " + v.Name() + " is assigned from a form that is not readable"}
		}
		if _, ok := isExt(d); ok {
			exts = append(exts, d)
			continue
		}
		if isNilIdent(info, d.rhs) {
			continue
		}
		shs, op := l.eval(seq, fi, d.rhs, depth+1)
		if op != nil {
			return nil, op
		}
		for _, s := range shs {
			g, ok := s.guard.and(d.guard)
			if !ok {
				continue
			}
			s.guard = g
			shapes = append(shapes, s)
		}
	}
	sort.SliceStable(exts, func(i, j int) bool { return exts[i].pos < exts[j].pos })
	for _, d := range exts {
		call, _ := isExt(d)
		if call.Ellipsis.IsValid() {
			return nil, &c43Opaque{call.Pos(), "append(" + v.Name() + ", other...): appended length not known"}
		}
		add := c43ElemsOf(call.Args[1:], info)
		var next []c43Shape
		for _, s := range shapes {
			both, ok := s.guard.and(d.guard)
			if !ok {
				next = append(next, s) // the extension never runs for this shape
				continue
			}
			// which conditions does the extension add beyond what the shape already assumes?
			var extra []*types.Var
			for f := range d.guard.flags {
				if _, has := s.guard.flags[f]; !has {
					extra = append(extra, f)
				}
			}
			extraTyp := len(d.guard.typs) > 0 && len(s.guard.typs) == 0
			switch {
			case len(extra) == 0 && !extraTyp:
				ns := s
				ns.elems = append(append([]c43Elem{}, s.elems...), add...)
				ns.guard = both
				next = append(next, ns)
			case len(extra) == 1 && !extraTyp:
				ns := s
				ns.elems = append(append([]c43Elem{}, s.elems...), add...)
				ns.guard = both
				rest := s
				rest.guard = s.guard.withFlag(extra[0], !d.guard.flags[extra[0]])
				next = append(next, ns, rest)
			default:
				return nil, &c43Opaque{call.Pos(), "append to " + v.Name() + " under a compound condition: shapes not separable"}
			}
		}
		shapes = next
	}
	return shapes, nil
}

// c43Site is an expression whose value leaves the function as an output sequence.
type c43Site struct {
	e     ast.Expr
	fi    *c43FnInfo
	guard c43Guard
	how   string
}

// sites collects the output sites of one function declaration (closures included).
func (l *c43Layout) sites(seq *c43Seq, rowIterCtor *types.Func, pk *packages.Package, fd *ast.FuncDecl) []c43Site {
	fi := l.fnInfo(pk, fd)
	info := pk.TypesInfo
	var out []c43Site
	add := func(e ast.Expr, at ast.Node, how string) {
		if e == nil || isNilIdent(info, e) {
			return
		}
		g, ok := fi.guards[at]
		if !ok {
			g = c43Guard{}.clone()
		}
		out = append(out, c43Site{e: e, fi: fi, guard: g, how: how})
	}
	// result positions of sequence type per function body (decl and literals)
	var visit func(body *ast.BlockStmt, sig *types.Signature)
	visit = func(body *ast.BlockStmt, sig *types.Signature) {
		ast.Inspect(body, func(n ast.Node) bool {
			switch x := n.(type) {
			case *ast.FuncLit:
				if s, ok := info.TypeOf(x).(*types.Signature); ok {
					visit(x.Body, s)
				}
				return false
			case *ast.ReturnStmt:
				if sig != nil && len(x.Results) == sig.Results().Len() {
					for i, r := range x.Results {
						if seq.is(sig.Results().At(i).Type()) {
							add(r, x, "return")
						}
					}
				}
			case *ast.CallExpr:
				if IsBuiltinCall(info, x, "append") && len(x.Args) >= 1 && seq.isSliceOf(info.TypeOf(x.Args[0])) && !x.Ellipsis.IsValid() {
					for _, a := range x.Args[1:] {
						add(a, x, "append to the result rows")
					}
				} else if cal := Callee(info, x); cal != nil && rowIterCtor != nil && cal.Origin() == rowIterCtor && !x.Ellipsis.IsValid() {
					for _, a := range x.Args {
						add(a, x, "argument of "+rowIterCtor.Name())
					}
				}
			case *ast.CompositeLit:
				if seq.isSliceOf(info.TypeOf(x)) {
					for _, el := range x.Elts {
						if kv, ok := el.(*ast.KeyValueExpr); ok {
							el = kv.Value
						}
						add(el, x, "element of a rows literal")
					}
				}
			case *ast.AssignStmt:
				if len(x.Lhs) == len(x.Rhs) {
					for i, lh := range x.Lhs {
						if ix, ok := ast.Unparen(lh).(*ast.IndexExpr); ok && seq.isSliceOf(info.TypeOf(ix.X)) {
							add(x.Rhs[i], x, "store into the result rows")
						}
					}
				} else if len(x.Rhs) == 1 && len(x.Lhs) >= 1 {
					if ix, ok := ast.Unparen(x.Lhs[0]).(*ast.IndexExpr); ok && seq.isSliceOf(info.TypeOf(ix.X)) {
						add(x.Rhs[0], x, "store into the result rows")
					}
				}
			}
			return true
		})
	}
	var sig *types.Signature
	if fn, ok := info.Defs[fd.Name].(*types.Func); ok {
		sig = fn.Type().(*types.Signature)
	}
	if fd.Body != nil {
		visit(fd.Body, sig)
	}
	return out
}

// c43Closure returns the functions of the same package statically reachable from the roots (calls, method calls,
// package-level function variables with a function initializer), plus the Next methods of the package's iterator
// types (pointer implements iterIface) constructed in a reached function.
func c43Closure(p *Prog, pk *packages.Package, roots []*types.Func, iterIface *types.Interface, iterMethod string) []*types.Func {
	order, _ := c43ClosureEdges(p, pk, roots, iterIface, iterMethod)
	return order
}

// c43ClosureEdges also returns, per reached function, the reached functions it calls or whose iterator it constructs.
func c43ClosureEdges(p *Prog, pk *packages.Package, roots []*types.Func, iterIface *types.Interface, iterMethod string) ([]*types.Func, map[*types.Func][]*types.Func) {
	seen := map[*types.Func]bool{}
	edges := map[*types.Func][]*types.Func{}
	var order []*types.Func
	var work []*types.Func
	var cur *types.Func
	push := func(fn *types.Func) {
		if fn == nil {
			return
		}
		fn = fn.Origin()
		if fn.Pkg() != pk.Types || p.Decl(fn) == nil {
			return
		}
		if cur != nil {
			edges[cur] = append(edges[cur], fn)
		}
		if seen[fn] {
			return
		}
		seen[fn] = true
		order = append(order, fn)
		work = append(work, fn)
	}
	for _, r := range roots {
		push(r)
	}
	info := pk.TypesInfo
	for len(work) > 0 {
		fn := work[len(work)-1]
		work = work[:len(work)-1]
		fd := p.Decl(fn)
		if fd.Body == nil {
			continue
		}
		cur = fn
		ast.Inspect(fd.Body, func(n ast.Node) bool {
			switch x := n.(type) {
			case *ast.CallExpr:
				if cal := Callee(info, x); cal != nil {
					push(cal)
				} else if fv := c43FuncVarTarget(p, info, x.Fun); fv != nil {
					push(fv)
				}
			case *ast.CompositeLit:
				if iterIface == nil {
					return true
				}
				t := info.TypeOf(x)
				if t == nil {
					return true
				}
				if n, ok := types.Unalias(t).(*types.Named); ok && n.Obj().Pkg() == pk.Types {
					if types.Implements(types.NewPointer(n), iterIface) || types.Implements(n, iterIface) {
						obj, _, _ := types.LookupFieldOrMethod(types.NewPointer(n), true, pk.Types, iterMethod)
						if m, ok := obj.(*types.Func); ok {
							push(m)
						}
					}
				}
			}
			return true
		})
	}
	return order, edges
}

// ---- column classes -------------------------------------------------------------------------------------------

type c43Class int

const (
	c43ColOther c43Class = iota
	c43ColStr
	c43ColInt
	c43ColFloat
	c43ColTime
	c43ColEnum
	c43ColSet
	c43ColJSON
	c43ColDec
)

var c43ClassName = map[c43Class]string{c43ColOther: "other", c43ColStr: "string", c43ColInt: "integer", c43ColFloat: "float", c43ColTime: "datetime", c43ColEnum: "enum", c43ColSet: "set", c43ColJSON: "json", c43ColDec: "decimal"}

type c43Col struct {
	name     string
	class    c43Class
	typ      string
	pos      token.Pos
	source   ast.Expr
	nullable ast.Expr
	info     *types.Info
}

// c43ReadColumn reads one element of a schema literal (`{Name:…, Type:…}` or `&sql.Column{…}`).
func c43ReadColumn(el c43Elem) (c43Col, string) {
	e := ast.Unparen(el.e)
	if u, ok := e.(*ast.UnaryExpr); ok && u.Op == token.AND {
		e = ast.Unparen(u.X)
	}
	lit, ok := e.(*ast.CompositeLit)
	if !ok {
		return c43Col{pos: e.Pos()}, "schema element is not a column literal: " + types.ExprString(e)
	}
	col := c43Col{pos: lit.Pos(), name: "?", info: el.info}
	var typ ast.Expr
	for _, f := range lit.Elts {
		kv, ok := f.(*ast.KeyValueExpr)
		if !ok {
			return col, "positional column literal"
		}
		id, _ := kv.Key.(*ast.Ident)
		if id == nil {
			continue
		}
		switch id.Name {
		case "Name":
			if tv, ok := el.info.Types[kv.Value]; ok && tv.Value != nil {
				col.name = strings.Trim(tv.Value.ExactString(), `"`)
			} else {
				col.name = "(" + types.ExprString(kv.Value) + ")"
			}
		case "Type":
			typ = kv.Value
		case "Source":
			col.source = kv.Value
		case "Nullable":
			col.nullable = kv.Value
		}
	}
	if typ == nil {
		return col, "column literal without Type"
	}
	col.typ = types.ExprString(typ)
	col.class = c43ClassOfTypeExpr(el.info, typ)
	return col, ""
}

// c43ClassOfTypeExpr classifies the declared SQL type of a column from the static Go type of the expression
// (the sql.XxxType interface the constructor/variable is declared with) and, for number types, the variable name.
func c43ClassOfTypeExpr(info *types.Info, e ast.Expr) c43Class {
	t := info.TypeOf(e)
	if t == nil {
		return c43ColOther
	}
	name := ""
	if n, ok := types.Unalias(t).(*types.Named); ok {
		name = n.Obj().Name()
	}
	vname := ""
	switch x := ast.Unparen(e).(type) {
	case *ast.Ident:
		vname = x.Name
	case *ast.SelectorExpr:
		vname = x.Sel.Name
	}
	switch name {
	case "StringType":
		return c43ColStr
	case "EnumType":
		return c43ColEnum
	case "SetType":
		return c43ColSet
	case "DatetimeType":
		return c43ColTime
	case "DecimalType":
		return c43ColDec
	case "NumberType":
		if strings.HasPrefix(vname, "Float") {
			return c43ColFloat
		}
		if strings.HasPrefix(vname, "Int") || strings.HasPrefix(vname, "Uint") || vname == "Boolean" {
			return c43ColInt
		}
		return c43ColOther
	case "Type":
		if vname == "JSON" {
			return c43ColJSON
		}
	case "JsonType":
		return c43ColJSON
	}
	return c43ColOther
}

// Go value classes of row elements.
type c43GoClass int

const (
	c43GoIface c43GoClass = iota
	c43GoNil
	c43GoStr
	c43GoInt
	c43GoFloat
	c43GoBool
	c43GoTime
	c43GoOther
)

var c43GoName = map[c43GoClass]string{c43GoIface: "interface", c43GoNil: "nil", c43GoStr: "string", c43GoInt: "integer", c43GoFloat: "float", c43GoBool: "bool", c43GoTime: "time.Time", c43GoOther: "other"}

func c43GoClassOf(el c43Elem) (c43GoClass, string) {
	if isNilIdent(el.info, el.e) {
		return c43GoNil, "nil"
	}
	t := el.info.TypeOf(el.e)
	if t == nil {
		return c43GoIface, "?"
	}
	ts := types.TypeString(t, func(p *types.Package) string { return p.Name() })
	if n, ok := types.Unalias(t).(*types.Named); ok && n.Obj().Pkg() != nil && n.Obj().Pkg().Path() == "time" && n.Obj().Name() == "Time" {
		return c43GoTime, ts
	}
	switch u := t.Underlying().(type) {
	case *types.Interface:
		return c43GoIface, ts
	case *types.Basic:
		switch {
		case u.Kind() == types.UntypedNil:
			return c43GoNil, ts
		case u.Info()&types.IsString != 0:
			return c43GoStr, ts
		case u.Info()&types.IsInteger != 0:
			return c43GoInt, ts
		case u.Info()&types.IsFloat != 0:
			return c43GoFloat, ts
		case u.Info()&types.IsBoolean != 0:
			return c43GoBool, ts
		}
	}
	return c43GoOther, ts
}

// c43Accepts: which Go value classes a column class takes without the value landing under a column of another
// kind. nil and interface-typed elements are not decided here.
func c43Accepts(col c43Class, v c43GoClass) bool {
	if v == c43GoNil || v == c43GoIface || col == c43ColOther {
		return true
	}
	switch col {
	case c43ColStr:
		return v == c43GoStr
	case c43ColInt:
		return v == c43GoInt || v == c43GoBool // the number types convert bool to 0/1
	case c43ColFloat:
		return v == c43GoFloat || v == c43GoInt
	case c43ColTime:
		return v == c43GoTime || v == c43GoStr // the datetime types parse formatted strings
	case c43ColEnum, c43ColSet:
		return v == c43GoStr || v == c43GoInt // member name or member index / bit field
	case c43ColJSON:
		return v == c43GoOther || v == c43GoStr
	case c43ColDec:
		return v == c43GoOther || v == c43GoInt || v == c43GoFloat || v == c43GoStr
	}
	return true
}

func c43ShapeKey(owner string, s c43Shape) string {
	first := "∅"
	if len(s.elems) > 0 {
		first = types.ExprString(s.elems[0].e)
	}
	k := fmt.Sprintf("%s/%s[%s…]", owner, s.fn, first)
	if g := s.guard.String(); g != "always" {
		k += " when " + g
	}
	return k
}
