package main

import (
	"fmt"
	"go/ast"
	"go/types"
	"sort"
	"strings"

	"golang.org/x/tools/go/ssa"
)

// C25 — integer arithmetic is exact or reports out-of-range: no unguarded fixed-width
// + - * neg / narrowing conversion in the arithmetic kernel.

type c25Config struct {
	Rel     string
	Kernel  []string          // kernel functions ("plus", "UnaryMinus.Eval", …)
	Callers map[string]string // kernel function -> the only function allowed to call it
	Floor   int
}

func init() {
	register(&Property{
		ID:       "C25",
		Patterns: []string{"./sql/expression", "./sql/expression/function", "./sql/expression/function/aggregation"},
		Explanation: "Unguarded-operation clause of 'integer arithmetic is exact or out-of-range'. Inside the arithmetic kernel of package sql/expression (plus, minus, mult, " +
			"UnaryMinus.Eval, intDiv, mod) every SSA operation that can lose the exact integer value - + - * on a fixed-width integer type, unary minus, signed division " +
			"(MinInt / -1), and every conversion to an integer type that cannot hold all values of its source type (narrowing, sign change, float->int) - is decided: it is exact " +
			"for every operand value allowed by the operand types and the dominating branch conditions (one-variable interval domain: width extension, `n == math.MinInt64` " +
			"style exclusions, range tests against constants), or it is protected by a two-operand overflow guard whose failing edge returns an error. Anything else silently " +
			"wraps for some operands. (K2) the kernel functions are called only from their evaluation entry points, which is what makes the narrow-width arms unreachable. " +
			"(K3) coercion-choice soundness: every call of convertValueToType (it keeps what typ.Convert returns even when Convert reports out-of-range: a negative value coerced to BIGINT UNSIGNED " +
			"comes out as its two's complement, a fractional one coerced to an integer type comes out rounded) is a coercion site; its value operand is traced back to the child expression X it was " +
			"evaluated from, its type operand is sliced back to its alternatives (phi edges, Type()/getReturnType of the same receiver, the cached field and its writers); for every alternative that " +
			"is an integer type constant of sql/types, EVERY acyclic path selecting it must cross a positive type predicate about X's own type: IsUnsigned/IsYear for an unsigned type, an integer-like " +
			"predicate for a signed one. `IsUnsigned(lTyp) || IsUnsigned(rTyp)` selects Uint64 on a path that knows nothing about one operand. Sites: IntDiv, Arithmetic (+ - *) decided; Div and Mod " +
			"coerce to float only; BitOp is excluded (two's-complement wrap is the specified result of bit operations). " +
			"(M1) DECIMAL operations produce new values (destination freshness): apd.Decimal is a mutable object and the engine's DECIMAL values are shared *apd.Decimal pointers (the stored rows of the in-memory table, a Literal's value, an operand used by two operators of one expression). " +
			"The writers of cockroachdb/apd are derived from its own source (a function writes its parameter d iff its body, transitively, stores through it: Decimal.Neg/Abs/Set*/..., Context.Add/Sub/Mul/Quo/Rem/Quantize/Ceil/Floor/Round/...; a frozen list of names confirmed by reading guards the derivation); " +
			"module functions that pass their own parameter on to a writer are writers too (whatever the static type of the parameter: plus(lval, rval interface{})) and are decided at their static call sites. Every decimal write - call of a writer, direct field store into a Decimal - in the loaded module must have a destination whose every origin " +
			"(phi edges, local variables flow-sensitively, type switches/assertions, struct fields, results of summarised callees) is an allocation of the writing function: new(apd.Decimal), &apd.Decimal{}, a local variable, apd.New, a callee that returns only fresh decimals; unexported accumulator fields are read off all module stores to the field. " +
			"A destination that is the result of Eval/Type.Convert, a parameter of a dynamically dispatched method, a field set from outside, a global, or a struct copy new(*x) of such a decimal (it shares the heap part of a coefficient above 128 bits, which apd updates in place) is a violation: the write changes the stored row / literal / sibling operand.",
		NotCovered: "DECIMAL exactness (delegated to apd), float arithmetic and NaN, the sign rules of DIV and %, the decimal-scale bookkeeping in Div.div, the correctness of an accepted two-operand guard (only its shape is recognised), arithmetic done outside the kernel (functions, aggregates); for K3: alternatives of the computation type that are not type constants (the operand's own normalised type, DECIMAL types created by a call) are listed but not decided, whether the predicate set of a path is satisfiable, what Convert does for an integer-like operand (unsigned above MaxInt64 coerced to BIGINT), coercions that do not go through convertValueToType; for M1: whether a decimal the function owns later escapes and is written again by someone else (a buffer handing out its accumulator), writes done inside callees whose bodies are not read other than apd's (reflection, encoding), aliases created by storing the address of a local elsewhere, decimals reached through exported fields (treated as not owned), packages outside the loaded patterns in the quick tier (the thorough tier finds the same 21 writes in the whole engine)",
		Technique:  "SSA + one-variable interval domain over dominating branch conditions (interval engine); K3: backward slice of the chosen type to its constant alternatives with per-path predicate sets (acyclic path enumeration over SSA blocks, interprocedural through methods of the same receiver), operand-to-child value tracing; M1: backward origin analysis over go/ssa (freshness engine: identity leaves fresh/param/global/foreign, flow-sensitive local cells, field-content invariants from the module-wide store index, callee result and write summaries incl. the dependency package's bodies, forwarding closure over the static call graph)",
		Run: func(c *Ctx) {
			runC25(c, c25Config{Rel: "sql/expression",
				Kernel:  []string{"plus", "minus", "mult", "UnaryMinus.Eval", "intDiv", "mod"},
				Callers: map[string]string{"plus": "Arithmetic.Eval", "minus": "Arithmetic.Eval", "mult": "Arithmetic.Eval", "intDiv": "IntDiv.Eval", "mod": "Mod.Eval"},
				Floor:   38})
			runC25Coerce(c, c25CoerceCfg{rel: "sql/expression", convert: "convertValueToType", typesPkg: "sql/types",
				uintTypes: []string{"Uint8", "Uint16", "Uint24", "Uint32", "Uint64"},
				intTypes:  []string{"Int8", "Int16", "Int24", "Int32", "Int64"},
				uintPreds: []string{"IsUnsigned", "IsYear"},
				intPreds:  []string{"IsSigned", "IsInteger", "IsUnsigned", "IsYear", "IsBit", "IsTime", "IsDateType", "IsDatetimeType"},
				floatPred: "IsFloat", evalM: "Eval", typeM: "Type",
				skip:  map[string]string{"BitOp.convertLeftRight": "bit operations are defined on the 64-bit two's complement pattern: wrapping a negative operand into BIGINT UNSIGNED is their specified result, not a lost value (outside C25's arithmetic operators)"},
				floor: 8})
			runC25Mut(c, c25MutCfg{decPath: "github.com/cockroachdb/apd/v3", decType: "Decimal",
				confirmed: []string{"Decimal.Neg/d", "Decimal.Abs/d", "Decimal.Set/d", "Decimal.SetInt64/d", "Decimal.SetFinite/d", "Decimal.SetFloat64/d", "Decimal.SetString/d",
					"Context.Add/d", "Context.Sub/d", "Context.Mul/d", "Context.Quo/d", "Context.QuoInteger/d", "Context.Rem/d", "Context.Neg/d", "Context.Abs/d",
					"Context.Quantize/d", "Context.Round/d", "Context.Ceil/d", "Context.Floor/d", "Context.RoundToIntegralValue/d", "Context.Sqrt/d", "Context.Pow/d"},
				floor: 18, exc: c25MutExceptions})
		},
		Fixture: func(c *Ctx, fx *Prog) {
			expectFixture(c, fx, "c25: unguarded add, narrowing before negation, negation of MinInt, float->int, MinInt / -1",
				[]string{
					"C25-K1:add/ADD int64 (int64, int64)",
					"C25-K1:mulHalfChecked/MUL uint64 (a, b)",
					"C25-K1:neg/CONV int8 (uint8)",
					"C25-K1:neg/NEG int64 (int64)",
					"C25-K1:quo/QUO int64 (l, r)",
					"C25-K1:quo/CONV int64 (math.Floor(f))",
					"C25-K2:add<-Other",
				},
				func(fc *Ctx) {
					runC25(fc, c25Config{Rel: "testdata/c25/arith", Kernel: []string{"add", "addChecked", "addPost", "mulPost", "mulHalfChecked", "neg", "negGood", "quo", "quoGood"},
						Callers: map[string]string{"add": "Eval"}})
				})
			expectFixture(c, fx, "c25-K3: unsigned chosen when one operand is unsigned, signed chosen on a one-sided test behind a cached Type()",
				[]string{
					"C25-K3:OrDiv.convertLeftRight/Left->types.Uint64",
					"C25-K3:OrDiv.convertLeftRight/Right->types.Uint64",
					"C25-K3:CachedPlus.convertLeftRight/Right->types.Int64",
				},
				func(fc *Ctx) {
					runC25Coerce(fc, c25CoerceCfg{rel: "testdata/c25/coerce", convert: "convertValueToType", typesPkg: "testdata/c25/tys",
						uintTypes: []string{"Uint64"}, intTypes: []string{"Int64"},
						uintPreds: []string{"IsUnsigned"}, intPreds: []string{"IsSigned", "IsInteger", "IsUnsigned"},
						floatPred: "IsFloat", evalM: "Eval", typeM: "Type"})
				})
			expectFixture(c, fx, "c25-M1: operand negated / ceiled in place, struct copy as destination, helper writing a literal's value, accumulator that stores its operand, global destination, field store on the operand",
				[]string{
					"C25-M1:NegInPlace.Eval/Decimal.Neg(dst e.Child.Eval().(*dec.Decimal))",
					"C25-M1:CeilInPlace.Eval/Context.Ceil(dst e.Child.Eval().(*dec.Decimal))",
					"C25-M1:truncShallow/Context.Ceil(dst c)",
					"C25-M1:Lit.Eval/negInto(dst l.val)",
					"C25-M1:sumBad.Update/Context.Add(dst s.acc)",
					"C25-M1:intoGlobal/Context.Add(dst zero)",
					"C25-M1:fieldStore/store .Neg_(dst e.Eval().(*dec.Decimal))",
				},
				func(fc *Ctx) {
					runC25Mut(fc, c25MutCfg{decPath: "vchk/testdata/c25/dec", decType: "Decimal", confirmed: []string{"Decimal.Neg/d", "Decimal.Set/d", "Context.Add/d", "Context.Ceil/d"}})
				})
		},
		FixturePkgs: []string{"./testdata/c25/arith", "./testdata/c25/coerce", "./testdata/c25/tys", "./testdata/c25/dec", "./testdata/c25/decuse"},
	})
}

// c25MutExceptions: destination -> the non-owned origins that are accepted for it, and why (C25-M1).
// An origin outside the accepted list (e.g. the operand itself stored into the accumulator) is reported.
var c25MutExceptions = map[string]c25MutExc{
	"sumBuffer.PerformSum/Context.Add(dst m.sum.(*apd.Decimal))": {
		origins: []string{
			"field sumBuffer.sum, which sumBuffer.PerformSum sets to the result of dynamic call Float64.Convert",
			"field sumBuffer.sum, which sumBuffer.PerformSum sets to the result of dynamic call InternalDecimalType.Convert",
		},
		why: "accumulator, not an operand: sumBuffer.sum is an unexported field written only by PerformSum (read off the module's stores to the field); every decimal it stores there is one it allocated (apd.New, DecimalFromFloat64, the previous accumulator); " +
			"the two remaining stores are results of Type.Convert that the origin walk cannot see through: Float64.Convert yields a float64 (never a decimal) and InternalDecimalType.Convert sits in the `default` arm of a switch over a field that only ever holds float64 or *apd.Decimal (dead arm; for the integer kinds it could see, DecimalType.Convert builds a new decimal). The operand n is only ever the source of the Add",
	},
}

// c25Exceptions: operation -> reason. Dead arms are tied to side condition K2.
var c25Exceptions = map[string]string{}

func init() {
	dead := "dead arm: the kernel is called only from Arithmetic.Eval (side condition C25-K2), whose operands come from convertLeftRight, i.e. from Arithmetic.Type().Convert - that type is only BIGINT, BIGINT UNSIGNED, DOUBLE, DECIMAL or DATETIME, so no operand of this Go type reaches the arm"
	for _, fn := range []string{"plus", "minus", "mult"} {
		op := map[string]string{"plus": "ADD", "minus": "SUB", "mult": "MUL"}[fn]
		for _, t := range []string{"uint8", "int8", "uint16", "int16", "uint32", "int32"} {
			c25Exceptions[fmt.Sprintf("%s/%s %s (%s, %s)", fn, op, t, t, t)] = dead
		}
	}
	tm := "operands are time.Time.Unix() of SQL datetimes, which types.ValidateTime confines to years 0000-9999 (|Unix()| < 2^38): the int64 sum/difference cannot leave int64; the interval domain has no bound for a call result"
	c25Exceptions["plus/ADD int64 (time.Time.Unix, time.Time.Unix)"] = tm
	c25Exceptions["minus/SUB int64 (time.Time.Unix, time.Time.Unix)"] = tm
	du := "dead arm: no SQL type converts to the Go type uint (NumberType.Convert yields uint8/16/32/64), so UnaryMinus never sees a uint operand"
	c25Exceptions["UnaryMinus.Eval/CONV int (uint)"] = du
	c25Exceptions["UnaryMinus.Eval/NEG int64 (strconv.ParseInt)"] = "dead arm: a child whose type is not numeric is converted to DECIMAL before the type switch (the !types.IsNumber test dominates it), so a string never reaches `case string` (SELECT -'-9223372036854775808' returns 9223372036854775808 through the DECIMAL arm)"
}

func runC25(c *Ctx, cfg c25Config) {
	c.Rule("C25-K1", "every value-losing integer operation of the arithmetic kernel (+ - * neg, signed /, narrowing/sign-changing/float->int conversion) is exact under the operand types and dominating branch conditions, or sits behind a two-operand overflow guard that fails with an error", cfg.Floor)
	c.Rule("C25-K2", "the kernel functions are called only from their evaluation entry point (who-may-call): the dead-arm exceptions of K1 rest on it", len(cfg.Callers))
	pk := c.P.Pkg(cfg.Rel)
	if pk == nil {
		c.Undecided("C25-K1", "package", 0, "kernel package "+cfg.Rel+" not loaded")
		return
	}
	for _, name := range cfg.Kernel {
		fn := LookupFunc(pk, name)
		sf := c.P.SSAFunc(fn)
		if fn == nil || sf == nil || len(sf.Blocks) == 0 {
			c.Undecided("C25-K1", name, 0, "kernel function not found or without SSA body")
			continue
		}
		eng := newIvEngine(sf)
		ops := ivCollectOps(sf)
		used := map[string]int{}
		if len(ops) == 0 {
			c.Note("C25-K1", name, fn.Pos(), "no value-losing integer operation in this kernel function")
		}
		// an inexact conversion already makes its consumer's operand arbitrary: the consumer is not a second defect
		inexactConv := map[ssa.Value]bool{}
		for _, op := range ops {
			if op.Kind == "CONV" {
				if exact, _ := eng.Exact(op); !exact && !ivRelationalGuard(op) {
					inexactConv[op.Instr.(ssa.Value)] = true
				}
			}
		}
		for _, op := range ops {
			var ds []string
			for _, a := range op.Args {
				ds = append(ds, ivDescribe(a, 0))
			}
			tname := types.TypeString(op.Type, func(p *types.Package) string { return p.Name() })
			key := fmt.Sprintf("%s/%s %s (%s)", name, ivKindSymbol(op.Kind), tname, strings.Join(ds, ", "))
			used[key]++
			if used[key] > 1 {
				key = fmt.Sprintf("%s #%d", key, used[key])
			}
			pos := op.Instr.Pos()
			fed := false
			for _, a := range op.Args {
				if inexactConv[a] {
					fed = true
				}
			}
			if fed {
				c.Note("C25-K1", key, pos, "operand is the result of a conversion that is itself reported as inexact; decided there (once that conversion is exact this operation is checked on its real range)")
				continue
			}
			if exact, why := eng.Exact(op); exact {
				c.Ok("C25-K1", key, pos, "exact under the operand types / dominating branch conditions")
			} else if ivRelationalGuard(op) {
				c.Ok("C25-K1", key, pos, "behind a two-operand overflow guard whose failing edge returns an error")
			} else if reason, ok := c25Exceptions[key]; ok && !c.fixtureMode {
				c.Exc("C25-K1", key, pos, reason)
			} else {
				c.Bad("C25-K1", key, pos, fmt.Sprintf("%s: unguarded %s on %s in %s can lose the exact value: %s; no dominating range test and no overflow guard with an error edge - the statement returns a silently wrapped value instead of the exact result or an out-of-range error", c.P.Rel(pos), ivKindSymbol(op.Kind), tname, name, why))
			}
		}
	}
	// K2: who may call the kernel
	var names []string
	for k := range cfg.Callers {
		names = append(names, k)
	}
	sort.Strings(names)
	for _, k := range names {
		target := LookupFunc(pk, k)
		if target == nil {
			c.Undecided("C25-K2", k, 0, "kernel function not found")
			continue
		}
		n := 0
		for _, mp := range c.P.Module {
			for _, file := range mp.Syntax {
				for _, d := range file.Decls {
					fd, ok := d.(*ast.FuncDecl)
					if !ok || fd.Body == nil {
						continue
					}
					ast.Inspect(fd.Body, func(nd ast.Node) bool {
						var callee *types.Func
						switch x := nd.(type) {
						case *ast.CallExpr:
							callee = Callee(mp.TypesInfo, x)
						case *ast.Ident: // function value taken (not called): also a use
							if f, ok := mp.TypesInfo.Uses[x].(*types.Func); ok && f == target {
								callee = nil
								_ = f
							}
						}
						if callee == nil || callee.Origin() != target {
							return true
						}
						n++
						caller := DeclName(fd)
						if caller != cfg.Callers[k] {
							c.Bad("C25-K2", k+"<-"+caller, nd.Pos(), fmt.Sprintf("kernel function %s is called from %s; K1's dead-arm exceptions assume its only caller is %s (operands normalised by convertLeftRight)", k, caller, cfg.Callers[k]))
						}
						return true
					})
				}
			}
		}
		if n == 0 {
			c.Undecided("C25-K2", k, target.Pos(), "no call site of the kernel function found")
		} else {
			c.Ok("C25-K2", k+"<-"+cfg.Callers[k], target.Pos(), fmt.Sprintf("%d call site(s)", n))
		}
	}
}
