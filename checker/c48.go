package main

import (
	"fmt"
	"go/ast"
	"go/token"
	"go/types"

	"golang.org/x/tools/go/cfg"
	"golang.org/x/tools/go/packages"
)

// C48 — guarded goroutines turn panics into errors.
//
// The behaviour ("a panic with any value becomes an error returned by the group; an ordinary
// error is propagated unchanged") is produced by one 10-line function. With Go's defer/recover
// semantics the clauses below are sufficient as well as necessary for it, so each is decided
// exactly on the syntax tree + CFG of that function (and of the helper RecoverAndLog, and of
// every use site of the two helpers in the loaded packages).

type c48Anchors struct {
	pkgRel        string // "errguard"
	goName        string // "Go"
	recoverAndLog string // "RecoverAndLog"
	groupGo       string // full name of the spawning method: golang.org/x/sync/errgroup.Group.Go
	floors        [8]int // R1..R7, G1
}

func init() {
	register(&Property{
		ID:       "C48",
		Patterns: []string{"./errguard", "./sql", "./sql/rowexec"},
		Explanation: "errguard.Go is the only place a goroutine is spawned in an errgroup. Decided on its syntax tree and control-flow graph: (R1) it spawns through " +
			"exactly one errgroup.Group.Go call on its group parameter, on every path, passing a function literal with one named error result; (R2) the literal's " +
			"first statement that can panic is `defer` of a function that calls the builtin recover() directly (only a recover() called by the deferred function " +
			"itself stops a panic) on every one of its paths; (R3) on every path of the deferred function on which the recovered value is non-nil, the named result " +
			"is assigned a provably non-nil error (fmt.Errorf/errors.New/composite) and nothing in it re-panics or exits; (R4) the wrapped fn is used exactly once: " +
			"one call, inside the literal (so the recover frame is below it), on every path, not in a loop; (R5) fn's result is the literal's result unchanged " +
			"(`return fn()` or `err = fn()` with only bare/`err` returns and no other store to err outside the deferred function); (R6) RecoverAndLog calls recover() " +
			"directly on every path and never re-panics; (R7) every use of RecoverAndLog in the loaded packages is the direct operand of a defer statement (wrapped in " +
			"another deferred function its recover() would return nil and the panic would kill the process); (G1) no function other than errguard.Go calls " +
			"errgroup.Group.Go. A violation of R1-R5 lets a panic escape (process crash) or loses/changes the propagated error.",
		NotCovered: "errgroup's own Wait/first-error semantics and Go's defer/recover semantics (trusted base); whether every goroutine in the engine is spawned " +
			"through these helpers (C10); quick tier sees the use sites of ./sql and ./sql/rowexec only (thorough: the whole engine)",
		Technique: "AST shape + CFG must-pass-through on errguard.Go / RecoverAndLog; who-may-call over go/types",
		Run: func(c *Ctx) {
			a := c48Anchors{pkgRel: "errguard", goName: "Go", recoverAndLog: "RecoverAndLog", groupGo: "golang.org/x/sync/errgroup.Group.Go",
				floors: [8]int{1, 1, 1, 1, 1, 1, 3, 1}}
			if c.Tier == "thorough" {
				a.floors[6] = 6
			}
			runC48(c, a)
		},
		Fixture: func(c *Ctx, fx *Prog) {
			fa := func(rel string) c48Anchors {
				return c48Anchors{pkgRel: rel, goName: "Go", recoverAndLog: "RecoverAndLog", groupGo: "vchk/" + rel + ".Group.Go"}
			}
			expectFixture(c, fx, "c48 good: the reference shape (and a pointer-helper variant) is accepted", nil,
				func(fc *Ctx) { runC48(fc, fa("testdata/c48/good")); runC48(fc, fa("testdata/c48/good2")) })
			expectFixture(c, fx, "c48 bad1: recover in a nested literal, fn called from a nested literal, wrapped RecoverAndLog, direct Group.Go",
				[]string{"C48-R2:Go/defer-recover", "C48-R3:Go/panic-sets-error", "C48-R4:Go/fn-called-once", "C48-R5:Go/result-unchanged", "C48-R6:RecoverAndLog/direct-recover",
					"C48-R7:vchk/testdata/c48/bad1.user/RecoverAndLog", "C48-G1:vchk/testdata/c48/bad1.user/Group.Go"},
				func(fc *Ctx) { runC48(fc, fa("testdata/c48/bad1")) })
			expectFixture(c, fx, "c48 bad2: error stored only for error-typed panic values, result wrapped",
				[]string{"C48-R3:Go/panic-sets-error", "C48-R5:Go/result-unchanged"},
				func(fc *Ctx) { runC48(fc, fa("testdata/c48/bad2")) })
			expectFixture(c, fx, "c48 bad3: unnamed result, RecoverAndLog re-panics",
				[]string{"C48-R1:Go/spawn", "C48-R3:Go/panic-sets-error", "C48-R6:RecoverAndLog/direct-recover"},
				func(fc *Ctx) { runC48(fc, fa("testdata/c48/bad3")) })
			expectFixture(c, fx, "c48 bad4: conditional spawn, call before the defer, conditional recover",
				[]string{"C48-R1:Go/spawn", "C48-R2:Go/defer-recover", "C48-R3:Go/panic-sets-error", "C48-R6:RecoverAndLog/direct-recover"},
				func(fc *Ctx) { runC48(fc, fa("testdata/c48/bad4")) })
		},
		FixturePkgs: []string{"./testdata/c48/good", "./testdata/c48/good2", "./testdata/c48/bad1", "./testdata/c48/bad2", "./testdata/c48/bad3", "./testdata/c48/bad4"},
	})
}

func runC48(c *Ctx, a c48Anchors) {
	c.Rule("C48-R1", "errguard.Go spawns through exactly one Group.Go call on its group parameter, on every path, with a function literal that has one named error result", a.floors[0])
	c.Rule("C48-R2", "the literal defers, before any statement that can panic, a function that calls builtin recover() directly on every path", a.floors[1])
	c.Rule("C48-R3", "in the deferred function: recovered value non-nil => named result assigned a provably non-nil error on every path; no re-panic/exit; no possibly-nil store", a.floors[2])
	c.Rule("C48-R4", "fn is used exactly once: a single call in the literal's own body, on every path, not in a loop, not via go/defer", a.floors[3])
	c.Rule("C48-R5", "fn's result is returned unchanged (return fn() | err = fn() + bare/err returns; no other store to the named result)", a.floors[4])
	c.Rule("C48-R6", "RecoverAndLog calls builtin recover() directly on every path and never re-panics/exits", a.floors[5])
	c.Rule("C48-R7", "every use of RecoverAndLog is the direct operand of a defer statement", a.floors[6])
	c.Rule("C48-G1", "only errguard.Go calls errgroup.Group.Go", a.floors[7])

	pk := c.P.Pkg(a.pkgRel)
	if pk == nil {
		c.Undecided("C48-R1", "package", 0, "package "+a.pkgRel+" not loaded")
		return
	}
	info := pk.TypesInfo
	goFn := LookupFunc(pk, a.goName)
	goDecl := c.P.Decl(goFn)
	if goDecl == nil || goDecl.Body == nil {
		c.Undecided("C48-R1", "Go/spawn", 0, "function "+a.goName+" not found")
	} else {
		c48CheckGo(c, a, pk, goDecl)
	}

	// R6: RecoverAndLog
	ralFn := LookupFunc(pk, a.recoverAndLog)
	if d := c.P.Decl(ralFn); d == nil || d.Body == nil {
		c.Undecided("C48-R6", "RecoverAndLog/direct-recover", 0, "function "+a.recoverAndLog+" not found")
	} else {
		rec := c48DirectRecovers(info, d.Body)
		g := c.P.CFG(info, d.Body)
		switch {
		case len(rec) == 0:
			c.Bad("C48-R6", "RecoverAndLog/direct-recover", d.Pos(), a.recoverAndLog+" does not call builtin recover() in its own body: when deferred it would not stop a panic")
		case c48Terminators(info, d.Body) != nil:
			c.Bad("C48-R6", "RecoverAndLog/direct-recover", c48Terminators(info, d.Body).Pos(), a.recoverAndLog+" re-panics or exits the process")
		default:
			path := PathAvoiding(g, EntryPoint(g), func(n ast.Node) bool { return c48HasRecover(info, n) }, nil, nil)
			if path != nil {
				c.Bad("C48-R6", "RecoverAndLog/direct-recover", d.Pos(), "a path through "+a.recoverAndLog+" returns without calling recover()", c.P.DescribePath(path)...)
			} else {
				c.Ok("C48-R6", "RecoverAndLog/direct-recover", d.Pos(), "recover() called directly on every path")
			}
		}
	}

	// R7 / G1: use sites in all loaded module packages
	for _, upk := range c48UsePkgs(c, a) {
		uinfo := upk.TypesInfo
		for _, file := range upk.Syntax {
			for _, decl := range file.Decls {
				fd, ok := decl.(*ast.FuncDecl)
				if !ok || fd.Body == nil {
					continue
				}
				fname := "?"
				if fo, ok := uinfo.Defs[fd.Name].(*types.Func); ok {
					fname = FuncName(fo)
				}
				deferCalls := map[*ast.CallExpr]bool{}
				calledIdents := map[*ast.Ident]bool{}
				ast.Inspect(fd.Body, func(n ast.Node) bool {
					switch x := n.(type) {
					case *ast.DeferStmt:
						deferCalls[x.Call] = true
					case *ast.CallExpr:
						switch f := ast.Unparen(x.Fun).(type) {
						case *ast.Ident:
							calledIdents[f] = true
						case *ast.SelectorExpr:
							calledIdents[f.Sel] = true
						}
						fn := Callee(uinfo, x)
						if fn == nil {
							return true
						}
						if ralFn != nil && fn.Origin() == ralFn {
							key := fname + "/RecoverAndLog"
							if deferCalls[x] {
								c.Ok("C48-R7", key, x.Pos(), "defer "+a.recoverAndLog+"(…) directly")
							} else {
								c.Bad("C48-R7", key, x.Pos(), a.recoverAndLog+" is called, not deferred directly: its recover() is not called by the deferred function and returns nil, the panic continues")
							}
						}
						if FullName(fn) == a.groupGo {
							key := fname + "/Group.Go"
							if goFn != nil && uinfo.Defs[fd.Name] == types.Object(goFn) {
								c.Ok("C48-G1", key, x.Pos(), "the guarded spawn itself")
							} else {
								c.Bad("C48-G1", key, x.Pos(), "direct call of "+a.groupGo+" outside "+a.pkgRel+"."+a.goName+": a panic in that goroutine is not recovered")
							}
						}
					}
					return true
				})
				// uses of RecoverAndLog as a value (not called)
				ast.Inspect(fd.Body, func(n ast.Node) bool {
					if id, ok := n.(*ast.Ident); ok && ralFn != nil && uinfo.Uses[id] == types.Object(ralFn) && !calledIdents[id] {
						c.Undecided("C48-R7", fname+"/RecoverAndLog(value)", id.Pos(), a.recoverAndLog+" used as a function value: whether it ends up as the deferred function is not decided")
					}
					return true
				})
			}
		}
	}
}

func c48UsePkgs(c *Ctx, a c48Anchors) []*packages.Package {
	if c.fixtureMode {
		return []*packages.Package{c.P.Pkg(a.pkgRel)}
	}
	return c.P.Module
}

func c48CheckGo(c *Ctx, a c48Anchors, pk *packages.Package, fd *ast.FuncDecl) {
	info := pk.TypesInfo
	// parameters
	var gObj, fnObj types.Object
	for _, f := range fd.Type.Params.List {
		for _, nm := range f.Names {
			o := info.Defs[nm]
			if o == nil {
				continue
			}
			if sig, ok := o.Type().Underlying().(*types.Signature); ok && sig.Params().Len() == 0 && sig.Results().Len() == 1 && IsErrorType(sig.Results().At(0).Type()) {
				fnObj = o
			} else {
				gObj = o
			}
		}
	}
	if gObj == nil || fnObj == nil {
		c.Undecided("C48-R1", "Go/spawn", fd.Pos(), "parameters (group, fn func() error) not recognised")
		return
	}
	// R1
	var spawns []*ast.CallExpr
	var goStmt *ast.GoStmt
	ast.Inspect(fd.Body, func(n ast.Node) bool {
		switch x := n.(type) {
		case *ast.GoStmt:
			goStmt = x
		case *ast.CallExpr:
			if fn := Callee(info, x); fn != nil && FullName(fn) == a.groupGo {
				spawns = append(spawns, x)
			}
		}
		return true
	})
	g := c.P.CFG(info, fd.Body)
	var lit *ast.FuncLit
	r1 := func() string {
		if len(spawns) != 1 {
			return fmt.Sprintf("%d calls of %s (want exactly 1)", len(spawns), a.groupGo)
		}
		sp := spawns[0]
		sel, ok := ast.Unparen(sp.Fun).(*ast.SelectorExpr)
		if !ok {
			return "spawn call is not a method call on the group parameter"
		}
		if id, ok := ast.Unparen(sel.X).(*ast.Ident); !ok || info.Uses[id] != gObj {
			return "spawn call is not on the group parameter"
		}
		if len(sp.Args) != 1 {
			return "spawn call has no single argument"
		}
		l, ok := ast.Unparen(sp.Args[0]).(*ast.FuncLit)
		if !ok {
			return "the spawned function is not a function literal (fn would run without the recover frame)"
		}
		lit = l
		if p := PathAvoiding(g, EntryPoint(g), func(n ast.Node) bool { return c48Contains(n, sp) }, nil, nil); p != nil {
			return "a path through " + a.goName + " returns without spawning"
		}
		if pt, ok := FindNode(g, sp); ok {
			if p := PathAvoiding(g, pt, nil, func(n ast.Node) bool { return c48Contains(n, sp) }, nil); p != nil {
				return "spawn call is in a loop"
			}
		}
		res := l.Type.Results
		if res == nil || len(res.List) != 1 || len(res.List[0].Names) != 1 || res.List[0].Names[0].Name == "_" || !IsErrorType(info.TypeOf(res.List[0].Type)) {
			return "the literal does not have exactly one *named* error result (a deferred function can only set a named result)"
		}
		if goStmt != nil {
			return "contains a raw go statement at " + c.P.Rel(goStmt.Pos()) + " (a goroutine outside the recover frame)"
		}
		return ""
	}()
	if r1 != "" {
		c.Bad("C48-R1", "Go/spawn", fd.Pos(), r1)
	} else {
		c.Ok("C48-R1", "Go/spawn", spawns[0].Pos(), "one Group.Go(func() (err error) {…}) on every path")
	}
	if lit == nil {
		c.Undecided("C48-R2", "Go/defer-recover", fd.Pos(), "no spawned literal to analyse")
		c.Undecided("C48-R3", "Go/panic-sets-error", fd.Pos(), "no spawned literal to analyse")
		c.Undecided("C48-R4", "Go/fn-called-once", fd.Pos(), "no spawned literal to analyse")
		c.Undecided("C48-R5", "Go/result-unchanged", fd.Pos(), "no spawned literal to analyse")
		return
	}
	var errObj types.Object
	if res := lit.Type.Results; res != nil && len(res.List) == 1 && len(res.List[0].Names) == 1 {
		errObj = info.Defs[res.List[0].Names[0]]
	}

	// R2: the first statement that can panic is the recovering defer
	var deferStmt *ast.DeferStmt
	var pre ast.Stmt
	for _, st := range lit.Body.List {
		if d, ok := st.(*ast.DeferStmt); ok {
			deferStmt = d
			break
		}
		if !c48CannotPanic(st) {
			pre = st
			break
		}
	}
	var dbody *ast.BlockStmt      // body of the deferred function
	var dinfo = info              // its type info
	var isErrLHS func(ast.Expr) bool // recognises a store to the named result inside dbody
	r2 := func() string {
		if pre != nil {
			return "statement at " + c.P.Rel(pre.Pos()) + " can panic before the recovering defer is registered"
		}
		if deferStmt == nil {
			return "the literal has no defer statement"
		}
		switch f := ast.Unparen(deferStmt.Call.Fun).(type) {
		case *ast.FuncLit:
			if len(deferStmt.Call.Args) != 0 {
				return "deferred literal takes arguments (not the recognised shape)"
			}
			dbody = f.Body
			isErrLHS = func(e ast.Expr) bool {
				id, ok := ast.Unparen(e).(*ast.Ident)
				return ok && errObj != nil && info.Uses[id] == errObj
			}
		default:
			// a named helper of the module taking &err: recover() called directly by it works too
			hfn := Callee(info, deferStmt.Call)
			hd := c.P.Decl(hfn)
			if hd == nil || hd.Body == nil {
				return "deferred call is neither a function literal nor a module function with a body"
			}
			hpk := c.P.PkgOf(hfn)
			if hpk == nil {
				return "deferred helper's package not loaded"
			}
			// find the parameter that receives &err
			var pObj types.Object
			idx := 0
			for _, f := range hd.Type.Params.List {
				for _, nm := range f.Names {
					if idx < len(deferStmt.Call.Args) {
						if u, ok := ast.Unparen(deferStmt.Call.Args[idx]).(*ast.UnaryExpr); ok && u.Op == token.AND {
							if id, ok := ast.Unparen(u.X).(*ast.Ident); ok && errObj != nil && info.Uses[id] == errObj {
								pObj = hpk.TypesInfo.Defs[nm]
							}
						}
					}
					idx++
				}
			}
			if pObj == nil {
				return "deferred helper does not receive the address of the named result"
			}
			dbody, dinfo = hd.Body, hpk.TypesInfo
			isErrLHS = func(e ast.Expr) bool {
				st, ok := ast.Unparen(e).(*ast.StarExpr)
				if !ok {
					return false
				}
				id, ok := ast.Unparen(st.X).(*ast.Ident)
				return ok && hpk.TypesInfo.Uses[id] == pObj
			}
		}
		rec := c48DirectRecovers(dinfo, dbody)
		if len(rec) == 0 {
			return "the deferred function does not call builtin recover() in its own body (a recover() in a nested call/literal returns nil)"
		}
		dg := c.P.CFG(dinfo, dbody)
		if p := PathAvoiding(dg, EntryPoint(dg), func(n ast.Node) bool { return c48HasRecover(dinfo, n) }, nil, nil); p != nil {
			return "a path through the deferred function does not call recover()"
		}
		return ""
	}()
	if r2 != "" {
		pos := lit.Pos()
		if deferStmt != nil {
			pos = deferStmt.Pos()
		}
		c.Bad("C48-R2", "Go/defer-recover", pos, r2)
		c.Undecided("C48-R3", "Go/panic-sets-error", pos, "no recognised recovering defer to analyse")
	} else {
		c.Ok("C48-R2", "Go/defer-recover", deferStmt.Pos(), "defer of a function calling recover() directly on every path, before any statement that can panic")
		c48CheckPanicSetsError(c, dinfo, dbody, isErrLHS, errObj != nil)
	}

	// R4: fn used exactly once
	var fnCalls []*ast.CallExpr
	fnUses := 0
	ast.Inspect(fd.Body, func(n ast.Node) bool {
		switch x := n.(type) {
		case *ast.Ident:
			if info.Uses[x] == fnObj {
				fnUses++
			}
		case *ast.CallExpr:
			if id, ok := ast.Unparen(x.Fun).(*ast.Ident); ok && info.Uses[id] == fnObj {
				fnCalls = append(fnCalls, x)
			}
		}
		return true
	})
	lg := c.P.CFG(info, lit.Body)
	var fnCall *ast.CallExpr
	var fnStmt ast.Node // CFG node holding the call
	r4 := func() string {
		if len(fnCalls) != 1 || fnUses != 1 {
			return fmt.Sprintf("fn is used %d times, %d of them calls (want exactly one use: one call)", fnUses, len(fnCalls))
		}
		fnCall = fnCalls[0]
		// directly in the literal's body: not in a nested literal, go or defer statement
		direct := false
		inspectNoLit(lit.Body, func(n ast.Node) bool {
			switch x := n.(type) {
			case *ast.GoStmt, *ast.DeferStmt:
				return false
			case *ast.CallExpr:
				if x == fnCall {
					direct = true
				}
			}
			return true
		})
		if !direct {
			return "fn is not called in the literal's own body (nested literal, go or defer statement: outside the recover frame or result lost)"
		}
		pt, ok := FindNode(lg, fnCall)
		if !ok {
			return "fn call is in unreachable code"
		}
		fnStmt = pt.B.Nodes[pt.I]
		if p := PathAvoiding(lg, EntryPoint(lg), func(n ast.Node) bool { return c48Contains(n, fnCall) }, nil, nil); p != nil {
			return "a path through the literal returns without calling fn"
		}
		if p := PathAvoiding(lg, pt, nil, func(n ast.Node) bool { return c48Contains(n, fnCall) }, nil); p != nil {
			return "fn is called in a loop"
		}
		return ""
	}()
	if r4 != "" {
		c.Bad("C48-R4", "Go/fn-called-once", lit.Pos(), r4)
		c.Undecided("C48-R5", "Go/result-unchanged", lit.Pos(), "no single fn call to follow")
		return
	}
	c.Ok("C48-R4", "Go/fn-called-once", fnCall.Pos(), "single call inside the literal, on every path, not in a loop")

	// R5: result unchanged
	isErrIdent := func(e ast.Expr) bool {
		id, ok := ast.Unparen(e).(*ast.Ident)
		return ok && errObj != nil && info.Uses[id] == errObj
	}
	r5 := func() string {
		viaReturn := false
		switch s := fnStmt.(type) {
		case *ast.ReturnStmt:
			if len(s.Results) == 1 && ast.Unparen(s.Results[0]) == ast.Expr(fnCall) {
				viaReturn = true
			} else {
				return "fn's result is transformed in the return statement"
			}
		case *ast.AssignStmt:
			if !(len(s.Lhs) == 1 && len(s.Rhs) == 1 && ast.Unparen(s.Rhs[0]) == ast.Expr(fnCall) && s.Tok == token.ASSIGN && isErrIdent(s.Lhs[0])) {
				return "fn's result is not assigned directly to the named result"
			}
		default:
			return "fn's result is neither returned nor assigned to the named result"
		}
		bad := ""
		inspectNoLit(lit.Body, func(n ast.Node) bool {
			switch s := n.(type) {
			case *ast.ReturnStmt:
				if ast.Node(s) == fnStmt {
					return true
				}
				if viaReturn {
					// unreachable after R4 (fn on every path) unless dead code; still exact
					bad = "a second return statement at " + c.P.Rel(s.Pos())
				} else if !(len(s.Results) == 0 || (len(s.Results) == 1 && isErrIdent(s.Results[0]))) {
					bad = "return at " + c.P.Rel(s.Pos()) + " does not return the named result"
				}
			case *ast.AssignStmt:
				if ast.Node(s) == fnStmt {
					return true
				}
				for _, l := range s.Lhs {
					if isErrIdent(l) {
						bad = "another store to the named result at " + c.P.Rel(s.Pos())
					}
				}
			case *ast.UnaryExpr:
				if s.Op == token.AND && isErrIdent(s.X) && !(deferStmt != nil && s.Pos() >= deferStmt.Pos() && s.End() <= deferStmt.End()) {
					bad = "address of the named result taken at " + c.P.Rel(s.Pos())
				}
			}
			return true
		})
		return bad
	}()
	if r5 != "" {
		c.Bad("C48-R5", "Go/result-unchanged", fnCall.Pos(), r5)
	} else {
		c.Ok("C48-R5", "Go/result-unchanged", fnCall.Pos(), "fn's result is the literal's result")
	}
}

// c48CheckPanicSetsError decides R3 on the body of the deferred function.
func c48CheckPanicSetsError(c *Ctx, info *types.Info, body *ast.BlockStmt, isErrLHS func(ast.Expr) bool, named bool) {
	const rule, key = "C48-R3", "Go/panic-sets-error"
	if !named {
		c.Bad(rule, key, body.Pos(), "no named result: the deferred function cannot change what the goroutine returns")
		return
	}
	if t := c48Terminators(info, body); t != nil {
		c.Bad(rule, key, t.Pos(), "the deferred function re-panics or exits: the process crashes instead of the group returning an error")
		return
	}
	// the variable holding recover()'s result
	var rObj types.Object
	var recStmt ast.Node
	inspectNoLit(body, func(n ast.Node) bool {
		if as, ok := n.(*ast.AssignStmt); ok && len(as.Lhs) == 1 && len(as.Rhs) == 1 {
			if call, ok := ast.Unparen(as.Rhs[0]).(*ast.CallExpr); ok && IsBuiltinCall(info, call, "recover") {
				if id, ok := as.Lhs[0].(*ast.Ident); ok {
					if o := info.Defs[id]; o != nil {
						rObj = o
					} else {
						rObj = info.Uses[id]
					}
					recStmt = as
				}
			}
		}
		return true
	})
	// every store to the named result must be provably non-nil
	var stores []*ast.AssignStmt
	weak := ""
	inspectNoLit(body, func(n ast.Node) bool {
		if as, ok := n.(*ast.AssignStmt); ok {
			for i, l := range as.Lhs {
				if isErrLHS(l) {
					stores = append(stores, as)
					if len(as.Lhs) != len(as.Rhs) || !c48ProvablyNonNil(info, as.Rhs[i]) {
						weak = "store to the named result at " + c.P.Rel(as.Pos()) + " is not provably non-nil (want fmt.Errorf/errors.New/composite literal)"
					}
				}
			}
		}
		return true
	})
	if weak != "" {
		c.Bad(rule, key, body.Pos(), weak)
		return
	}
	isStore := func(n ast.Node) bool {
		as, ok := n.(*ast.AssignStmt)
		if !ok {
			return false
		}
		for _, s := range stores {
			if s == as {
				return true
			}
		}
		return false
	}
	g := c.P.CFG(info, body)
	from := EntryPoint(g)
	if recStmt != nil {
		if pt, ok := FindNode(g, recStmt); ok {
			from = pt
		}
	}
	// follow every edge except the one on which the recovered value is known to be nil
	edgeOK := func(b *cfg.Block, succ int) bool {
		if len(b.Nodes) == 0 || len(b.Succs) != 2 {
			return true
		}
		be, ok := ast.Unparen(asExpr(b.Nodes[len(b.Nodes)-1])).(*ast.BinaryExpr)
		if !ok || (be.Op != token.NEQ && be.Op != token.EQL) {
			return true
		}
		isR := func(e ast.Expr) bool {
			e = ast.Unparen(e)
			if id, ok := e.(*ast.Ident); ok {
				return rObj != nil && info.Uses[id] == rObj
			}
			if call, ok := e.(*ast.CallExpr); ok {
				return IsBuiltinCall(info, call, "recover")
			}
			return false
		}
		var match bool
		if isNilIdent(info, be.Y) {
			match = isR(be.X)
		} else if isNilIdent(info, be.X) {
			match = isR(be.Y)
		}
		if !match {
			return true
		}
		nonNil := (be.Op == token.NEQ) == (succ == 0)
		return nonNil
	}
	if p := PathAvoiding(g, from, isStore, nil, edgeOK); p != nil {
		c.Bad(rule, key, body.Pos(), "with a non-nil recovered value the deferred function can return without assigning an error to the named result: the panic is swallowed and the group reports success",
			c.P.DescribePath(p)...)
		return
	}
	c.Ok(rule, key, body.Pos(), fmt.Sprintf("recovered != nil => one of %d provably non-nil stores on every path", len(stores)))
}

// c48ProvablyNonNil: expressions whose value as an error interface is never nil.
func c48ProvablyNonNil(info *types.Info, e ast.Expr) bool {
	e = ast.Unparen(e)
	switch x := e.(type) {
	case *ast.CallExpr:
		if fn := Callee(info, x); fn != nil {
			switch FullName(fn) {
			case "fmt.Errorf", "errors.New":
				return true
			}
		}
	case *ast.UnaryExpr:
		if x.Op == token.AND {
			_, ok := ast.Unparen(x.X).(*ast.CompositeLit)
			return ok
		}
	case *ast.CompositeLit:
		t := info.TypeOf(x)
		if t == nil {
			return false
		}
		switch t.Underlying().(type) {
		case *types.Struct, *types.Array:
			return true
		}
	}
	return false
}

// c48DirectRecovers lists builtin recover() calls directly in body (not in nested literals).
func c48DirectRecovers(info *types.Info, body *ast.BlockStmt) []*ast.CallExpr {
	var out []*ast.CallExpr
	inspectNoLit(body, func(n ast.Node) bool {
		if call, ok := n.(*ast.CallExpr); ok && IsBuiltinCall(info, call, "recover") {
			out = append(out, call)
		}
		return true
	})
	return out
}

func c48HasRecover(info *types.Info, n ast.Node) bool {
	found := false
	inspectNoLit(n, func(m ast.Node) bool {
		if call, ok := m.(*ast.CallExpr); ok && IsBuiltinCall(info, call, "recover") {
			found = true
		}
		return !found
	})
	return found
}

// c48Terminators returns a call in body (nested literals excluded) that panics or ends the
// process/goroutine: panic, os.Exit, log.Fatal*, log.Panic*, runtime.Goexit.
func c48Terminators(info *types.Info, body *ast.BlockStmt) ast.Node {
	var hit ast.Node
	inspectNoLit(body, func(n ast.Node) bool {
		call, ok := n.(*ast.CallExpr)
		if !ok || hit != nil {
			return hit == nil
		}
		if IsBuiltinCall(info, call, "panic") {
			hit = call
			return false
		}
		if fn := Callee(info, call); fn != nil {
			switch FullName(fn) {
			case "os.Exit", "log.Fatal", "log.Fatalf", "log.Fatalln", "log.Panic", "log.Panicf", "log.Panicln", "runtime.Goexit":
				hit = call
				return false
			}
		}
		return true
	})
	return hit
}

// c48CannotPanic: declarations and assignments built only from identifiers and literals.
func c48CannotPanic(st ast.Stmt) bool {
	switch st.(type) {
	case *ast.DeclStmt, *ast.AssignStmt, *ast.EmptyStmt:
	default:
		return false
	}
	ok := true
	ast.Inspect(st, func(n ast.Node) bool {
		switch n.(type) {
		case *ast.CallExpr, *ast.IndexExpr, *ast.SliceExpr, *ast.StarExpr, *ast.TypeAssertExpr, *ast.BinaryExpr, *ast.UnaryExpr, *ast.SelectorExpr, *ast.FuncLit:
			ok = false
		}
		return ok
	})
	return ok
}

func c48Contains(n ast.Node, inner ast.Node) bool {
	return n != nil && n.Pos() <= inner.Pos() && inner.End() <= n.End()
}

// inspectNoLit walks n without descending into function literals.
func inspectNoLit(n ast.Node, f func(ast.Node) bool) {
	ast.Inspect(n, func(m ast.Node) bool {
		if m == nil {
			return false
		}
		if _, ok := m.(*ast.FuncLit); ok && m != n {
			return false
		}
		return f(m)
	})
}
