package main

// C42-R5 — rule ordering: the read-only validations judge the statement by the dynamic type of
// its root node. A rule that runs before a validation and can replace the root by a node the
// validation treats more leniently hides the write from it.
//
// Everything is read from the code:
//   - the batch sequences (Builder.Build's batch list over the package-level rule tables, every
//     hand-written batch list returned by getBatchesForNode);
//   - per validation rule, the classes of root types (its type switch on the root parameter, the
//     default arm refined by the plan.IsXxx predicates it calls) and whether an arm can reject
//     (assigns the verdict variable something other than the constant true, directly or through a
//     local closure);
//   - per analyzer rule, the (input type -> result type) pairs of its root result (go/ssa: the
//     concrete types flowing into the first result, through static callees and through closures
//     handed to the sql/transform rewriters; the input type is the type assertion on a node-typed
//     parameter that dominates the construction, or the concrete parameter type of the helper).

import (
	"fmt"
	"go/ast"
	"go/token"
	"go/types"
	"os"
	"sort"
	"strings"

	"golang.org/x/tools/go/packages"
	"golang.org/x/tools/go/ssa"
)

type c42SeqRule struct {
	fn    *types.Func
	batch int    // index of the batch in the sequence
	table string // rule table (package-level variable) or "" for an inline list
	idx   int    // index in its list
	pos   token.Pos
}

type c42Seq struct {
	name  string
	pos   token.Pos
	rules []c42SeqRule
}

// c42Class: how a validation rule treats a root type.
type c42Class struct {
	label   string
	rejects bool // the arm can turn the verdict to "invalid"
}

type c42Retype struct {
	from []types.Type // narrowed input types (empty: unknown)
	to   types.Type
	pos  token.Pos
	in   string
	at   ssa.Instruction
	fn   *ssa.Function
}

// c42Reanalysed: before the construction `rt.at`, the rule hands a node of class `label` (under the
// validation's classes) to Analyzer.Analyze — the full default sequence, validations included —
// and the call dominates the construction: the replaced root was validated in its own right.
func c42Reanalysed(rt c42Retype, class func(types.Type) c42Class, label string) bool {
	if rt.at == nil || rt.fn == nil {
		return false
	}
	for _, b := range rt.fn.Blocks {
		for _, in := range b.Instrs {
			call, ok := in.(*ssa.Call)
			if !ok {
				continue
			}
			callee := call.Common().StaticCallee()
			if callee == nil || callee.Name() != "Analyze" || callee.Signature.Recv() == nil {
				continue
			}
			if !strings.HasSuffix(callee.Signature.Recv().Type().String(), ".Analyzer") {
				continue
			}
			for _, a := range call.Common().Args {
				mi, ok := a.(*ssa.MakeInterface)
				if !ok || !c42ConcreteNode(mi.X.Type()) || class(mi.X.Type()).label != label {
					continue
				}
				if b == rt.at.Block() || b.Dominates(rt.at.Block()) {
					return true
				}
			}
		}
	}
	return false
}

func c42R5(c *Ctx, cf c42Cfg, floor int) {
	const R = "C42-R5"
	c.Rule(R, "rule ordering: in every rule-batch sequence the analyzer can run, no rule that precedes a read-only validation rule can replace the statement's root by a node of a type that the validation treats as non-rejectable while it can reject the type it replaces (processTruncate: DeleteFrom -> Truncate must follow validateReadOnlyTransaction)", floor)
	an := c.P.Pkg(cf.analyzer)
	planPk := c.P.Pkg(cf.planRel)
	if an == nil || planPk == nil {
		c.Undecided(R, "analyzer", 0, "package not loaded")
		return
	}
	seqs := c42Sequences(c, cf, an)
	if len(seqs) == 0 {
		c.Undecided(R, "sequences", 0, "no rule-batch sequence found (Builder.Build / getBatchesForNode)")
		return
	}
	prog := orgBuildSSA(c.P, c.P.Module)
	type vinfo struct {
		fn    *types.Func
		class func(t types.Type) c42Class
	}
	var vals []vinfo
	for _, vn := range cf.validators {
		fn := LookupFunc(an, vn)
		fd := c.P.Decl(fn)
		if fd == nil {
			c.Undecided(R, vn, 0, "validation rule not found")
			return
		}
		cl := c42ValidatorClasses(c, an, planPk, fd)
		if cl == nil {
			c.Undecided(R, vn, fd.Pos(), "the validation rule has no type switch on its root node parameter: its root classes cannot be read")
			return
		}
		vals = append(vals, vinfo{fn, cl})
	}
	tn := func(t types.Type) string {
		if p, ok := t.(*types.Pointer); ok {
			t = p.Elem()
		}
		if nt, ok := types.Unalias(t).(*types.Named); ok {
			return nt.Obj().Name()
		}
		return t.String()
	}
	retypes := map[*types.Func][]c42Retype{}
	opaque := map[*types.Func][]string{}
	results := func(fn *types.Func) []c42Retype {
		if r, ok := retypes[fn]; ok {
			return r
		}
		sf := prog.FuncValue(fn)
		w := &c42RootWalker{c: c, seen: map[ssa.Value]bool{}, seenFn: map[*ssa.Function]bool{}, transformRel: cf.transformRel}
		if sf != nil && len(sf.Params) >= 3 {
			w.results(sf, 0)
		} else {
			w.opaque = append(w.opaque, "no SSA body")
		}
		retypes[fn] = w.out
		opaque[fn] = w.opaque
		if os.Getenv("VCHK_DUMP") != "" && !c.fixtureMode {
			for _, o := range w.out {
				var fr []string
				for _, f := range o.from {
					fr = append(fr, tn(f))
				}
				fmt.Fprintf(os.Stderr, "R5 %s: %v -> %s in %s\n", fn.Name(), fr, tn(o.to), o.in)
			}
			for _, o := range w.opaque {
				fmt.Fprintf(os.Stderr, "R5 %s: opaque %s\n", fn.Name(), o)
			}
		}
		return w.out
	}
	opaqueSeen := map[string]bool{}
	for _, sq := range seqs {
		for _, v := range vals {
			var vpos []c42SeqRule
			for _, r := range sq.rules {
				if r.fn == v.fn {
					vpos = append(vpos, r)
				}
			}
			if len(vpos) == 0 {
				continue // R4 decides whether the sequence must contain the validation
			}
			first := vpos[0]
			for _, r := range sq.rules {
				if r.fn == v.fn || r.fn == nil {
					continue
				}
				// r precedes (or may precede) the first run of the validation?
				precedes := r.batch < first.batch || (r.batch == first.batch && r.table == first.table && r.idx < first.idx)
				unknown := r.batch == first.batch && r.table != first.table
				rs := results(r.fn)
				var down, revalidated []string
				var dpos token.Pos
				for _, rt := range rs {
					to := v.class(rt.to)
					if to.rejects {
						continue
					}
					if len(rt.from) == 0 {
						continue // input type unknown: listed below as a note
					}
					for _, f := range rt.from {
						if fc := v.class(f); fc.rejects && fc.label != to.label {
							if c42Reanalysed(rt, v.class, fc.label) {
								revalidated = append(revalidated, fmt.Sprintf("%s -> %s after Analyzer.Analyze of a %s", tn(f), tn(rt.to), fc.label))
								continue
							}
							down = append(down, fmt.Sprintf("%s (%s) -> %s (%s) in %s at %s", tn(f), fc.label, tn(rt.to), to.label, rt.in, c.P.Rel(rt.pos)))
							dpos = rt.pos
						}
					}
				}
				sort.Strings(down)
				key := sq.name + "/" + r.fn.Name() + "/" + v.fn.Name()
				switch {
				case len(down) == 0:
					if precedes || unknown {
						if len(opaque[r.fn]) > 0 && !opaqueSeen[r.fn.Name()] {
							opaqueSeen[r.fn.Name()] = true
							c.Notef("C42-R5: %s precedes a read-only validation; part of its root result is not resolved (%s) — not decided for that part", r.fn.Name(), strings.Join(c42Head(opaque[r.fn], 3), "; "))
						}
						msg := fmt.Sprintf("precedes the validation; %d resolved root result(s), none moves the root from a rejectable class to a non-rejectable one", len(rs))
						if len(revalidated) > 0 {
							msg += " without having it validated: " + strings.Join(revalidated, "; ")
						}
						c.Ok(R, key, r.pos, msg)
					}
				case precedes || unknown:
					how := "precedes"
					if unknown {
						how = "is in the same batch as (relative order of the two rule tables not readable)"
					}
					if why, ok := c42R5Exceptions[r.fn.Name()+"/"+v.fn.Name()]; ok && !c.fixtureMode {
						c.Exc(R, key, r.pos, why)
						continue
					}
					c.Bad(R, key, dpos, fmt.Sprintf("in batch sequence %s the rule %s %s %s and can replace the statement's root by a node the validation cannot reject: %s — the validation then judges the rewritten root and lets the write pass", sq.name, r.fn.Name(), how, v.fn.Name(), strings.Join(down, "; ")))
				default:
					c.Ok(R, key, r.pos, "can lower the root's class ("+strings.Join(down, "; ")+") and runs after the validation")
				}
			}
		}
	}
}

// c42R5Exceptions: rule/validation pairs that lower the class but cannot hide a write.
var c42R5Exceptions = map[string]string{}

// ---- batch sequences

func c42Sequences(c *Ctx, cf c42Cfg, an *packages.Package) []*c42Seq {
	info := an.TypesInfo
	// package-level rule tables: initializer, or the single `X = []Rule{…}` assignment (init functions)
	tableLit := func(v *types.Var) ast.Expr {
		var lit ast.Expr
		for _, f := range an.Syntax {
			for _, d := range f.Decls {
				switch x := d.(type) {
				case *ast.GenDecl:
					if x.Tok != token.VAR {
						continue
					}
					for _, sp := range x.Specs {
						vs := sp.(*ast.ValueSpec)
						for i, nm := range vs.Names {
							if info.Defs[nm] == v && i < len(vs.Values) {
								lit = vs.Values[i]
							}
						}
					}
				case *ast.FuncDecl:
					if x.Body == nil || x.Recv != nil || x.Name.Name != "init" {
						continue
					}
					ast.Inspect(x.Body, func(n ast.Node) bool {
						as, ok := n.(*ast.AssignStmt)
						if !ok || len(as.Lhs) != 1 || len(as.Rhs) != 1 {
							return true
						}
						if id, ok := as.Lhs[0].(*ast.Ident); ok && info.Uses[id] == v {
							lit = as.Rhs[0]
						}
						return true
					})
				}
			}
		}
		return lit
	}
	// rules of a []Rule literal
	ruleList := func(e ast.Expr, batch int, table string) []c42SeqRule {
		cl, ok := ast.Unparen(e).(*ast.CompositeLit)
		if !ok {
			return nil
		}
		var out []c42SeqRule
		for i, el := range cl.Elts {
			rl, ok := el.(*ast.CompositeLit)
			if !ok {
				continue
			}
			var fn *types.Func
			for _, kv := range rl.Elts {
				k, ok := kv.(*ast.KeyValueExpr)
				if !ok {
					continue
				}
				if kid, ok := k.Key.(*ast.Ident); ok && kid.Name == "Apply" {
					if id, ok := ast.Unparen(k.Value).(*ast.Ident); ok {
						fn, _ = info.Uses[id].(*types.Func)
					}
				}
			}
			out = append(out, c42SeqRule{fn: fn, batch: batch, table: table, idx: i, pos: rl.Pos()})
		}
		return out
	}
	var rulesOf func(e ast.Expr, batch int, local func(*types.Var) []ast.Expr, depth int) []c42SeqRule
	rulesOf = func(e ast.Expr, batch int, local func(*types.Var) []ast.Expr, depth int) []c42SeqRule {
		e = ast.Unparen(e)
		switch x := e.(type) {
		case *ast.CompositeLit:
			return ruleList(x, batch, "")
		case *ast.Ident:
			v, ok := info.Uses[x].(*types.Var)
			if !ok || depth > 3 {
				return nil
			}
			if v.Parent() == an.Types.Scope() {
				if lit := tableLit(v); lit != nil {
					return ruleList(lit, batch, v.Name())
				}
				return nil
			}
			var out []c42SeqRule
			if local != nil {
				for _, src := range local(v) {
					out = append(out, rulesOf(src, batch, local, depth+1)...)
				}
			}
			return out
		}
		return nil
	}
	// a []*Batch literal -> sequence
	batchSeq := func(name string, lit *ast.CompositeLit, field func(sel *ast.SelectorExpr) ast.Expr, local func(*types.Var) []ast.Expr) *c42Seq {
		sq := &c42Seq{name: name, pos: lit.Pos()}
		for bi, el := range lit.Elts {
			bl, ok := el.(*ast.CompositeLit)
			if !ok {
				if u, isU := el.(*ast.UnaryExpr); isU {
					bl, ok = u.X.(*ast.CompositeLit)
				}
				if !ok {
					continue
				}
			}
			for _, kv := range bl.Elts {
				k, ok := kv.(*ast.KeyValueExpr)
				if !ok {
					continue
				}
				if kid, ok := k.Key.(*ast.Ident); !ok || kid.Name != "Rules" {
					continue
				}
				val := ast.Unparen(k.Value)
				if sel, ok := val.(*ast.SelectorExpr); ok && field != nil {
					if fe := field(sel); fe != nil {
						val = fe
					} else {
						continue
					}
				}
				sq.rules = append(sq.rules, rulesOf(val, bi, local, 0)...)
			}
		}
		return sq
	}
	isBatchList := func(e ast.Expr) *ast.CompositeLit {
		cl, ok := ast.Unparen(e).(*ast.CompositeLit)
		if !ok {
			return nil
		}
		tv, has := info.Types[cl]
		if !has {
			return nil
		}
		sl, ok := tv.Type.Underlying().(*types.Slice)
		if !ok {
			return nil
		}
		el := sl.Elem()
		if p, ok := el.(*types.Pointer); ok {
			el = p.Elem()
		}
		if nt, ok := types.Unalias(el).(*types.Named); ok && nt.Obj().Name() == "Batch" {
			return cl
		}
		return nil
	}
	var seqs []*c42Seq
	// (1) the default sequence: Builder.Build's batch list; its fields are filled by NewBuilder
	if _, bd := c.P.FuncDecl(cf.analyzer, "Builder.Build"); bd != nil {
		_, nb := c.P.FuncDecl(cf.analyzer, "NewBuilder")
		fieldInit := map[string]ast.Expr{}
		locals := map[*types.Var][]ast.Expr{}
		if nb != nil {
			ast.Inspect(nb.Body, func(n ast.Node) bool {
				switch x := n.(type) {
				case *ast.CompositeLit:
					if tv, ok := info.Types[x]; ok {
						if nt, ok := types.Unalias(tv.Type).(*types.Named); ok && nt.Obj().Name() == "Builder" {
							for _, kv := range x.Elts {
								if k, ok := kv.(*ast.KeyValueExpr); ok {
									if kid, ok := k.Key.(*ast.Ident); ok {
										fieldInit[kid.Name] = k.Value
									}
								}
							}
						}
					}
				case *ast.CallExpr:
					// copy(local[…], Table) / append(local, Table...)
					if (IsBuiltinCall(info, x, "copy") || IsBuiltinCall(info, x, "append")) && len(x.Args) >= 2 {
						var dst *types.Var
						ast.Inspect(x.Args[0], func(m ast.Node) bool {
							if id, ok := m.(*ast.Ident); ok && dst == nil {
								if v, ok := info.Uses[id].(*types.Var); ok && v.Parent() != an.Types.Scope() {
									dst = v
								}
							}
							return dst == nil
						})
						if dst != nil {
							locals[dst] = append(locals[dst], x.Args[1:]...)
						}
					}
				case *ast.AssignStmt:
					for i, l := range x.Lhs {
						if id, ok := l.(*ast.Ident); ok && i < len(x.Rhs) {
							if v, ok := info.ObjectOf(id).(*types.Var); ok && v.Parent() != an.Types.Scope() {
								if _, isCall := ast.Unparen(x.Rhs[i]).(*ast.CallExpr); !isCall {
									locals[v] = append(locals[v], x.Rhs[i])
								}
							}
						}
					}
				}
				return true
			})
		}
		ast.Inspect(bd.Body, func(n ast.Node) bool {
			e, ok := n.(ast.Expr)
			if !ok {
				return true
			}
			if cl := isBatchList(e); cl != nil {
				seqs = append(seqs, batchSeq("default", cl, func(sel *ast.SelectorExpr) ast.Expr { return fieldInit[sel.Sel.Name] },
					func(v *types.Var) []ast.Expr { return locals[v] }))
				return false
			}
			return true
		})
	}
	// (2) the hand-written fast paths
	if _, fd := c.P.FuncDecl(cf.analyzer, "getBatchesForNode"); fd != nil {
		ast.Inspect(fd.Body, func(n ast.Node) bool {
			ts, ok := n.(*ast.TypeSwitchStmt)
			if !ok {
				return true
			}
			for _, cs := range ts.Body.List {
				cc := cs.(*ast.CaseClause)
				var names []string
				for _, tx := range cc.List {
					name := types.ExprString(tx)
					if k := strings.LastIndex(name, "."); k >= 0 {
						name = name[k+1:]
					}
					names = append(names, name)
				}
				k := 0
				ast.Inspect(cc, func(m ast.Node) bool {
					e, ok := m.(ast.Expr)
					if !ok {
						return true
					}
					if cl := isBatchList(e); cl != nil {
						nm := "getBatchesForNode/" + strings.Join(names, ",")
						if k > 0 {
							nm += fmt.Sprintf("#%d", k+1)
						}
						k++
						seqs = append(seqs, batchSeq(nm, cl, nil, nil))
						return false
					}
					return true
				})
			}
			return false
		})
	}
	return seqs
}

// ---- classes of a validation rule

// c42ValidatorClasses reads the validation rule's type switch on its root-node parameter.
func c42ValidatorClasses(c *Ctx, an, planPk *packages.Package, fd *ast.FuncDecl) func(t types.Type) c42Class {
	info := an.TypesInfo
	// node-typed parameters
	rootObjs := map[types.Object]bool{}
	for _, f := range fd.Type.Params.List {
		for _, nm := range f.Names {
			o := info.Defs[nm]
			if o == nil {
				continue
			}
			if nt, ok := types.Unalias(o.Type()).(*types.Named); ok && nt.Obj().Name() == "Node" {
				rootObjs[o] = true
			}
		}
	}
	var sw *ast.TypeSwitchStmt
	ast.Inspect(fd.Body, func(n ast.Node) bool {
		ts, ok := n.(*ast.TypeSwitchStmt)
		if !ok || sw != nil {
			return sw == nil
		}
		var ta *ast.TypeAssertExpr
		switch a := ts.Assign.(type) {
		case *ast.AssignStmt:
			ta, _ = a.Rhs[0].(*ast.TypeAssertExpr)
		case *ast.ExprStmt:
			ta, _ = a.X.(*ast.TypeAssertExpr)
		}
		if ta == nil {
			return true
		}
		if id, ok := ast.Unparen(ta.X).(*ast.Ident); ok && rootObjs[info.Uses[id]] {
			sw = ts
			return false
		}
		return true
	})
	if sw == nil {
		return nil
	}
	// closures that can reject: local function literals assigning a non-true value to a bool
	// variable of the rule, transitively
	boolLocal := func(id *ast.Ident) bool {
		v, ok := info.ObjectOf(id).(*types.Var)
		if !ok || v.Parent() == an.Types.Scope() {
			return false
		}
		b, ok := v.Type().Underlying().(*types.Basic)
		return ok && b.Kind() == types.Bool
	}
	closures := map[types.Object]*ast.FuncLit{}
	ast.Inspect(fd.Body, func(n ast.Node) bool {
		as, ok := n.(*ast.AssignStmt)
		if !ok {
			return true
		}
		for i, l := range as.Lhs {
			if id, ok := l.(*ast.Ident); ok && i < len(as.Rhs) {
				if fl, ok := as.Rhs[i].(*ast.FuncLit); ok {
					closures[info.ObjectOf(id)] = fl
				}
			}
		}
		return true
	})
	var canReject func(n ast.Node, seen map[types.Object]bool) bool
	canReject = func(n ast.Node, seen map[types.Object]bool) bool {
		found := false
		ast.Inspect(n, func(m ast.Node) bool {
			if found {
				return false
			}
			switch x := m.(type) {
			case *ast.AssignStmt:
				for i, l := range x.Lhs {
					id, ok := l.(*ast.Ident)
					if !ok || !boolLocal(id) || x.Tok == token.DEFINE {
						continue
					}
					if i < len(x.Rhs) {
						if tv, ok := info.Types[x.Rhs[i]]; ok && tv.Value != nil && tv.Value.String() == "true" {
							continue
						}
					}
					found = true
				}
			case *ast.Ident:
				if fl, ok := closures[info.Uses[x]]; ok && !seen[info.Uses[x]] {
					seen[info.Uses[x]] = true
					if canReject(fl.Body, seen) {
						found = true
					}
				}
			}
			return !found
		})
		return found
	}
	type arm struct {
		types   []types.Type
		label   string
		rejects bool
		preds   []*types.Func // default arm: predicates asked of the root, each followed by its own block
		predRej []bool
	}
	var arms []*arm
	var def *arm
	for _, cs := range sw.Body.List {
		cc := cs.(*ast.CaseClause)
		a := &arm{}
		if cc.List == nil {
			a.label = "default"
			def = a
			// `if plan.IsX(root) { … }` refinements
			for _, st := range cc.Body {
				ifs, ok := st.(*ast.IfStmt)
				if !ok {
					continue
				}
				call, ok := ast.Unparen(ifs.Cond).(*ast.CallExpr)
				if !ok || len(call.Args) != 1 {
					continue
				}
				fn := Callee(info, call)
				if fn == nil || fn.Pkg() != planPk.Types {
					continue
				}
				a.preds = append(a.preds, fn)
				a.predRej = append(a.predRej, canReject(ifs.Body, map[types.Object]bool{}))
			}
			// the rest of the default arm
			rest := false
			for _, st := range cc.Body {
				if ifs, ok := st.(*ast.IfStmt); ok {
					if call, ok := ast.Unparen(ifs.Cond).(*ast.CallExpr); ok && len(call.Args) == 1 {
						if ifs.Else != nil && canReject(ifs.Else, map[types.Object]bool{}) {
							rest = true
						}
						continue
					}
				}
				if canReject(st, map[types.Object]bool{}) {
					rest = true
				}
			}
			a.rejects = rest
			continue
		}
		var names []string
		for _, tx := range cc.List {
			if tv, ok := info.Types[tx]; ok && tv.IsType() {
				a.types = append(a.types, tv.Type)
				names = append(names, types.ExprString(tx))
			}
		}
		a.label = "case " + strings.Join(names, ", ")
		for _, st := range cc.Body {
			if canReject(st, map[types.Object]bool{}) {
				a.rejects = true
			}
		}
		arms = append(arms, a)
	}
	// predicate tables: type lists of `switch node.(type) { case …: return true }`
	predTrue := map[*types.Func][]types.Type{}
	if def != nil {
		for _, p := range def.preds {
			pd := c.P.Decl(p)
			pk := c.P.PkgOf(p)
			if pd == nil || pk == nil {
				continue
			}
			ast.Inspect(pd.Body, func(n ast.Node) bool {
				cc, ok := n.(*ast.CaseClause)
				if !ok || cc.List == nil {
					return true
				}
				yes := false
				for _, st := range cc.Body {
					if ret, ok := st.(*ast.ReturnStmt); ok && len(ret.Results) == 1 {
						if tv, ok := pk.TypesInfo.Types[ret.Results[0]]; ok && tv.Value != nil && tv.Value.String() == "true" {
							yes = true
						}
					}
				}
				if yes {
					for _, tx := range cc.List {
						if tv, ok := pk.TypesInfo.Types[tx]; ok && tv.IsType() {
							predTrue[p] = append(predTrue[p], tv.Type)
						}
					}
				}
				return true
			})
		}
	}
	match := func(list []types.Type, t types.Type) bool {
		for _, x := range list {
			if types.Identical(x, t) {
				return true
			}
			if it, ok := x.Underlying().(*types.Interface); ok && types.Implements(t, it) {
				return true
			}
		}
		return false
	}
	return func(t types.Type) c42Class {
		for _, a := range arms {
			if match(a.types, t) {
				return c42Class{a.label, a.rejects}
			}
		}
		if def == nil {
			return c42Class{"no arm", false}
		}
		for i, p := range def.preds {
			if match(predTrue[p], t) {
				return c42Class{"default, " + p.Name() + " = true", def.predRej[i]}
			}
		}
		return c42Class{"default", def.rejects}
	}
}

// ---- root results of a rule (SSA)

type c42RootWalker struct {
	c            *Ctx
	out          []c42Retype
	opaque       []string
	seen         map[ssa.Value]bool
	seenFn       map[*ssa.Function]bool
	transformRel string
}

func (w *c42RootWalker) results(f *ssa.Function, idx int) {
	key := f
	if w.seenFn[key] {
		return
	}
	w.seenFn[key] = true
	if len(f.Blocks) == 0 {
		w.opaque = append(w.opaque, "no body: "+f.String())
		return
	}
	for _, b := range f.Blocks {
		if ret, ok := b.Instrs[len(b.Instrs)-1].(*ssa.Return); ok && idx < len(ret.Results) {
			w.value(ret.Results[idx], f)
		}
	}
}

func c42IsNodeIface(t types.Type) bool {
	nt, ok := types.Unalias(t).(*types.Named)
	if !ok {
		return false
	}
	_, isI := nt.Underlying().(*types.Interface)
	return isI && nt.Obj().Name() == "Node"
}

func c42ConcreteNode(t types.Type) bool {
	p, ok := t.(*types.Pointer)
	if !ok {
		return false
	}
	nt, ok := types.Unalias(p.Elem()).(*types.Named)
	if !ok {
		return false
	}
	if _, isS := nt.Underlying().(*types.Struct); !isS {
		return false
	}
	ms := types.NewMethodSet(p)
	has := func(n string) bool {
		for i := 0; i < ms.Len(); i++ {
			if ms.At(i).Obj().Name() == n {
				return true
			}
		}
		return false
	}
	return has("Children") && has("WithChildren") && has("Resolved")
}

func (w *c42RootWalker) value(v ssa.Value, f *ssa.Function) {
	if w.seen[v] {
		return
	}
	w.seen[v] = true
	switch x := v.(type) {
	case *ssa.Const, *ssa.Parameter, *ssa.FreeVar:
		return // nil / the input itself
	case *ssa.MakeInterface:
		t := x.X.Type()
		if !c42ConcreteNode(t) {
			return
		}
		if c42PassThrough(x.X) {
			return
		}
		w.out = append(w.out, c42Retype{from: c42Narrowed(x, x.X, f), to: t, pos: c42Pos(x.Pos(), f), in: f.String(), at: x, fn: f})
	case *ssa.Phi:
		for _, e := range x.Edges {
			w.value(e, f)
		}
	case *ssa.ChangeInterface:
		w.value(x.X, f)
	case *ssa.TypeAssert:
		w.value(x.X, f)
	case *ssa.Extract:
		if call, ok := x.Tuple.(*ssa.Call); ok {
			w.call(call, x.Index, f)
		} else if ta, ok := x.Tuple.(*ssa.TypeAssert); ok && x.Index == 0 {
			w.value(ta.X, f)
		} else {
			w.opaque = append(w.opaque, fmt.Sprintf("%s in %s", x.Tuple.String(), f.String()))
		}
	case *ssa.Call:
		w.call(x, 0, f)
	case *ssa.UnOp:
		if x.Op == token.MUL {
			if al, ok := x.X.(*ssa.Alloc); ok {
				n := 0
				for _, ref := range *al.Referrers() {
					if st, ok := ref.(*ssa.Store); ok && st.Addr == al {
						w.value(st.Val, f)
						n++
					}
				}
				if n > 0 {
					return
				}
			}
			if fv, ok := x.X.(*ssa.FreeVar); ok {
				_ = fv
				return // a captured variable of the enclosing rule: the input or a value the enclosing function's own results cover
			}
		}
		w.opaque = append(w.opaque, fmt.Sprintf("%s in %s", x.String(), f.String()))
	default:
		w.opaque = append(w.opaque, fmt.Sprintf("%s in %s", v.String(), f.String()))
	}
}

// c42PassThrough: the concrete value is the (type-narrowed) input, not a new node.
func c42PassThrough(v ssa.Value) bool {
	for i := 0; i < 8; i++ {
		switch x := v.(type) {
		case *ssa.Parameter, *ssa.FreeVar:
			return true
		case *ssa.TypeAssert:
			v = x.X
		case *ssa.Extract:
			ta, ok := x.Tuple.(*ssa.TypeAssert)
			if !ok || x.Index != 0 {
				return false
			}
			v = ta.X
		case *ssa.ChangeInterface:
			v = x.X
		default:
			return false
		}
	}
	return false
}

func (w *c42RootWalker) call(call *ssa.Call, idx int, f *ssa.Function) {
	cm := call.Common()
	if cm.IsInvoke() {
		// node.WithChildren / WithExpressions …: same node type as the receiver by the sql.Node contract
		if strings.HasPrefix(cm.Method.Name(), "With") && idx == 0 {
			w.value(cm.Value, f)
			return
		}
		w.opaque = append(w.opaque, fmt.Sprintf("interface call %s in %s", cm.Method.Name(), f.String()))
		return
	}
	callee := cm.StaticCallee()
	if callee == nil {
		w.opaque = append(w.opaque, fmt.Sprintf("dynamic call %s in %s", cm.Value.String(), f.String()))
		return
	}
	// the tree rewriters of sql/transform: result = the node argument with the closure's results substituted (possibly at the root)
	if callee.Pkg != nil && w.transformRel != "" && strings.HasSuffix(callee.Pkg.Pkg.Path(), w.transformRel) && idx == 0 {
		n := 0
		for _, a := range cm.Args {
			for {
				ct, ok := a.(*ssa.ChangeType)
				if !ok {
					break
				}
				a = ct.X
			}
			nodeFn := func(fn *ssa.Function) bool {
				return fn.Signature.Results().Len() > 0 && c42IsNodeIface(fn.Signature.Results().At(0).Type())
			}
			switch y := a.(type) {
			case *ssa.MakeClosure:
				if fn, ok := y.Fn.(*ssa.Function); ok && nodeFn(fn) {
					w.results(fn, 0)
					n++
				}
			case *ssa.Function:
				if nodeFn(y) {
					w.results(y, 0)
					n++
				}
			default:
				if c42IsNodeIface(a.Type()) {
					w.value(a, f)
				}
			}
		}
		_ = n
		return
	}
	// a constructor / helper returning a concrete node type
	sig := callee.Signature
	if idx < sig.Results().Len() && c42ConcreteNode(sig.Results().At(idx).Type()) {
		w.out = append(w.out, c42Retype{from: c42Narrowed(call, nil, f), to: sig.Results().At(idx).Type(), pos: c42Pos(call.Pos(), f), in: f.String(), at: call, fn: f})
		return
	}
	if len(callee.Blocks) == 0 {
		w.opaque = append(w.opaque, fmt.Sprintf("call of %s (no body) in %s", callee.String(), f.String()))
		return
	}
	w.results(callee, idx)
}

// c42Narrowed: the input types under which the instruction runs: successful type assertions of a
// node-typed parameter (or captured variable) that dominate it, else the concrete node-typed
// parameters of the function.
func c42Narrowed(at ssa.Instruction, val ssa.Value, f *ssa.Function) []types.Type {
	var out []types.Type
	isInput := func(v ssa.Value) bool {
		switch v.(type) {
		case *ssa.Parameter, *ssa.FreeVar:
			return c42IsNodeIface(v.Type())
		}
		return false
	}
	// the value itself is a field/derivative of a narrowed input? (not needed: dominance suffices)
	blk := at.Block()
	if ins, ok := val.(ssa.Instruction); ok && ins.Block() != nil && ins.Parent() == f {
		blk = ins.Block()
	}
	for b := blk; b != nil; b = b.Idom() {
		// unconditional assertions in b before `at`
		for _, in := range b.Instrs {
			if ta, ok := in.(*ssa.TypeAssert); ok && !ta.CommaOk && isInput(ta.X) && c42ConcreteNode(ta.AssertedType) {
				out = append(out, ta.AssertedType)
			}
		}
		d := b.Idom()
		if d == nil {
			break
		}
		if ifi, ok := d.Instrs[len(d.Instrs)-1].(*ssa.If); ok && len(d.Succs) == 2 && d.Succs[0] == b && d.Succs[1] != b {
			if ex, ok := ifi.Cond.(*ssa.Extract); ok && ex.Index == 1 {
				if ta, ok := ex.Tuple.(*ssa.TypeAssert); ok && isInput(ta.X) && c42ConcreteNode(ta.AssertedType) {
					out = append(out, ta.AssertedType)
				}
			}
		}
	}
	if len(out) == 0 {
		// a method of a node type (WithChildren, WithX …): the receiver is the input
		for i, p := range f.Params {
			_ = i
			t := p.Type()
			if _, isPtr := t.(*types.Pointer); !isPtr {
				t = types.NewPointer(t) // value receivers (plan.AddColumn)
			}
			if c42ConcreteNode(t) {
				out = append(out, t)
			}
		}
	}
	return out
}

func c42Pos(p token.Pos, f *ssa.Function) token.Pos {
	if p.IsValid() {
		return p
	}
	return f.Pos()
}
