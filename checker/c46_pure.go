package main

import (
	"fmt"
	"go/token"
	"go/types"
	"sort"
	"strings"

	"golang.org/x/tools/go/packages"
	"golang.org/x/tools/go/ssa"
)

// C46-P1 — purity of the range algebra. MySQLRange ([]MySQLRangeColumnExpr) and
// MySQLRangeCollection ([]MySQLRange) are slices with value semantics: every operation returns a
// new range and its callers keep using the operands (MySQLRangeCollection.Intersect pairs each
// left range with every right range; RemoveOverlappingRanges keeps ranges in a tree while it
// splits others). An operation that writes into the backing array of an operand changes the set
// of key tuples the operand denotes, so later uses lose (or gain) keys.
//
//	taint   = receiver / parameter of a range slice type (a slice whose elements are
//	          MySQLRangeColumnExpr or, recursively, such slices), its re-slices, the element
//	          slices loaded from it, phi / conversions / interface boxing / local variables /
//	          captured variables holding one, and the result of append(tainted, …) (may share
//	          the array)
//	sinks   = element store through IndexAddr of a tainted slice; append whose first operand is
//	          tainted and was re-sliced with an upper bound (x[:k], x[i:k]: cells below len of
//	          the operand can be overwritten); copy() into a tainted destination; sort.Slice /
//	          SliceStable / Sort / Stable and slices.Sort* on a tainted slice
//
// append(x, …) onto the *full* operand only writes beyond len(x), which the operand does not
// denote; it is not a sink (RemoveOverlappingRanges grows its variadic work list this way).
type c46Taint struct {
	root  string // receiver / parameter the value derives from
	short bool   // re-sliced with an upper bound: appending overwrites cells of the operand
	how   string
}

func c46Purity(c *Ctx, pk *packages.Package, floor int) {
	const rule = "C46-P1"
	c.Rule(rule, "purity of the range algebra: no function of package sql with a receiver/parameter of a range slice type (MySQLRange, MySQLRangeCollection, []MySQLRange, []MySQLRangeColumnExpr) stores into, appends onto an upper-bounded re-slice of, copies into or sorts that operand (or an element slice / alias of it): results are freshly allocated", floor)
	rce, _ := pk.Types.Scope().Lookup("MySQLRangeColumnExpr").(*types.TypeName)
	if rce == nil {
		c.Undecided(rule, "MySQLRangeColumnExpr", 0, "type not found")
		return
	}
	var isRangeSlice func(t types.Type, depth int) bool
	isRangeSlice = func(t types.Type, depth int) bool {
		if t == nil || depth > 4 {
			return false
		}
		sl, ok := t.Underlying().(*types.Slice)
		if !ok {
			return false
		}
		if types.Identical(sl.Elem(), rce.Type()) {
			return true
		}
		return isRangeSlice(sl.Elem(), depth+1)
	}
	c.P.SSA()
	sp := c.P.ssaPkgs[pk.Types]
	if sp == nil {
		c.Undecided(rule, "ssa", 0, "no SSA for package")
		return
	}
	var fns []*ssa.Function
	seen := map[*ssa.Function]bool{}
	add := func(f *ssa.Function) {
		if f != nil && !seen[f] && f.Blocks != nil && f.Synthetic == "" {
			seen[f] = true
			fns = append(fns, f)
		}
	}
	for _, m := range sp.Members {
		switch x := m.(type) {
		case *ssa.Function:
			add(x)
		case *ssa.Type:
			for _, t := range []types.Type{x.Type(), types.NewPointer(x.Type())} {
				ms := c.P.ssaProg.MethodSets.MethodSet(t)
				for i := 0; i < ms.Len(); i++ {
					if f := c.P.ssaProg.MethodValue(ms.At(i)); f != nil && f.Pkg == sp {
						add(f)
					}
				}
			}
		}
	}
	sort.Slice(fns, func(i, j int) bool { return fns[i].Pos() < fns[j].Pos() })
	for _, f := range fns {
		if strings.HasSuffix(c.P.Fset.Position(f.Pos()).Filename, "_test.go") {
			continue
		}
		init := map[ssa.Value]*c46Taint{}
		for _, p := range f.Params {
			if isRangeSlice(p.Type(), 0) {
				init[p] = &c46Taint{root: p.Name(), how: p.Name()}
			}
		}
		if len(init) == 0 {
			continue
		}
		name := c46FuncName(f)
		type hit struct {
			key, msg string
			pos      token.Pos
		}
		var hits []hit
		c46PurityFunc(f, init, nil, isRangeSlice, func(kind string, t *c46Taint, pos token.Pos) {
			hits = append(hits, hit{name + "/" + kind + " " + t.root, fmt.Sprintf("%s: %s the backing array of its operand `%s` (%s): the operand is a value the callers keep using (collection intersect pairs it with every range of the other side, overlap removal keeps it in the tree), so the key tuples it denotes change under them and ranges/rows are lost",
				name, c46SinkVerb(kind), t.root, t.how), pos})
		})
		if len(hits) == 0 {
			c.Ok(rule, name, f.Pos(), "operands are only read; results are fresh")
			continue
		}
		done := map[string]bool{}
		for _, h := range hits {
			if done[h.key] {
				continue
			}
			done[h.key] = true
			if why := c46PurityExceptions[h.key]; why != "" {
				c.Exc(rule, h.key, h.pos, why)
			} else {
				c.Bad(rule, h.key, h.pos, h.msg)
			}
		}
	}
}

// c46PurityExceptions: one symbol per entry, with the reason read from the code.
var c46PurityExceptions = map[string]string{
	"NewIndexLookup/store into ranges": "in-place reversal for a reverse scan: the only stores are the pairwise swap ranges[i], ranges[j] = ranges[j], ranges[i], a permutation of the collection that changes no range, so the union of key tuples (this property) is unchanged; only the order of the caller's collection changes (its three callers in analyzer/replace_sort.go hand over the Ranges of the lookup they are replacing). Order-aliasing is not decided here",
}

func c46SinkVerb(kind string) string {
	switch kind {
	case "store into":
		return "assigns an element in"
	case "append onto re-slice of":
		return "appends onto a shortened re-slice sharing"
	case "copy into":
		return "copies into"
	case "sort of":
		return "sorts in place"
	}
	return kind
}

func c46FuncName(f *ssa.Function) string {
	if recv := f.Signature.Recv(); recv != nil {
		t := recv.Type()
		if pt, ok := t.(*types.Pointer); ok {
			t = pt.Elem()
		}
		if nt, ok := t.(*types.Named); ok {
			return nt.Obj().Name() + "." + f.Name()
		}
	}
	return f.Name()
}

// c46PurityFunc runs the taint analysis on f (and, recursively, on its anonymous functions with
// the taint of the captured variables).
func c46PurityFunc(f *ssa.Function, init map[ssa.Value]*c46Taint, ptrInit map[ssa.Value]*c46Taint, isRangeSlice func(types.Type, int) bool, report func(kind string, t *c46Taint, pos token.Pos)) {
	taint := map[ssa.Value]*c46Taint{}
	for v, t := range init {
		taint[v] = t
	}
	// cells: addresses (Alloc, FreeVar) that may hold a tainted slice
	cell := map[ssa.Value]*c46Taint{}
	for v, t := range ptrInit {
		cell[v] = t
	}
	set := func(v ssa.Value, t *c46Taint, short bool, how string) bool {
		if t == nil {
			return false
		}
		old := taint[v]
		if old != nil && (old.short || !short && !t.short) {
			return false
		}
		taint[v] = &c46Taint{root: t.root, short: t.short || short, how: how}
		return true
	}
	unbox := func(v ssa.Value) ssa.Value {
		for {
			switch x := v.(type) {
			case *ssa.MakeInterface:
				v = x.X
				continue
			case *ssa.ChangeInterface:
				v = x.X
				continue
			}
			return v
		}
	}
	for changed := true; changed; {
		changed = false
		for _, b := range f.Blocks {
			for _, in := range b.Instrs {
				switch x := in.(type) {
				case *ssa.Slice:
					if t := taint[x.X]; t != nil {
						h := t.how + "[:]"
						if x.High != nil {
							h = t.how + "[:k]"
						}
						changed = set(x, t, x.High != nil, h) || changed
					}
				case *ssa.Phi:
					for _, e := range x.Edges {
						if t := taint[e]; t != nil {
							changed = set(x, t, false, t.how) || changed
						}
					}
				case *ssa.ChangeType:
					if t := taint[x.X]; t != nil {
						changed = set(x, t, false, t.how) || changed
					}
				case *ssa.Convert:
					if t := taint[x.X]; t != nil {
						changed = set(x, t, false, t.how) || changed
					}
				case *ssa.MakeInterface:
					if t := taint[x.X]; t != nil {
						changed = set(x, t, false, t.how) || changed
					}
				case *ssa.UnOp:
					if x.Op != token.MUL {
						break
					}
					switch a := x.X.(type) {
					case *ssa.IndexAddr:
						if t := taint[a.X]; t != nil && isRangeSlice(x.Type(), 0) {
							changed = set(x, &c46Taint{root: t.root}, false, "element slice "+t.how+"[i]") || changed
						}
					default:
						if t := cell[x.X]; t != nil {
							changed = set(x, t, false, t.how) || changed
						}
					}
				case *ssa.Store:
					if t := taint[x.Val]; t != nil {
						switch x.Addr.(type) {
						case *ssa.Alloc, *ssa.FreeVar:
							old := cell[x.Addr]
							if old == nil || (t.short && !old.short) {
								cell[x.Addr] = t
								changed = true
							}
						}
					}
				case *ssa.Call:
					if bi, ok := x.Call.Value.(*ssa.Builtin); ok && bi.Name() == "append" && len(x.Call.Args) > 0 {
						if t := taint[x.Call.Args[0]]; t != nil {
							changed = set(x, t, false, "append("+t.how+", …)") || changed
						}
					}
				}
			}
		}
	}
	// sinks
	for _, b := range f.Blocks {
		for _, in := range b.Instrs {
			switch x := in.(type) {
			case *ssa.Store:
				if ia, ok := x.Addr.(*ssa.IndexAddr); ok {
					if t := taint[ia.X]; t != nil {
						report("store into", t, x.Pos())
					}
				}
			case ssa.CallInstruction:
				com := x.Common()
				if bi, ok := com.Value.(*ssa.Builtin); ok {
					switch bi.Name() {
					case "append":
						if len(com.Args) > 0 {
							if t := taint[com.Args[0]]; t != nil && t.short {
								report("append onto re-slice of", t, x.Pos())
							}
						}
					case "copy":
						if len(com.Args) > 0 {
							if t := taint[com.Args[0]]; t != nil {
								report("copy into", t, x.Pos())
							}
						}
					}
					continue
				}
				callee := com.StaticCallee()
				if callee != nil && callee.Origin() != nil {
					callee = callee.Origin()
				}
				if callee != nil && callee.Pkg != nil && len(com.Args) > 0 {
					full := callee.Pkg.Pkg.Path() + "." + callee.Name()
					switch full {
					case "sort.Slice", "sort.SliceStable", "sort.Sort", "sort.Stable", "slices.Sort", "slices.SortFunc", "slices.SortStableFunc", "slices.Reverse":
						if t := taint[unbox(com.Args[0])]; t != nil {
							report("sort of", t, x.Pos())
						} else if t := taint[com.Args[0]]; t != nil {
							report("sort of", t, x.Pos())
						}
					}
				}
			case *ssa.MakeClosure:
				fn, _ := x.Fn.(*ssa.Function)
				if fn == nil {
					continue
				}
				vInit, pInit := map[ssa.Value]*c46Taint{}, map[ssa.Value]*c46Taint{}
				for i, bnd := range x.Bindings {
					if i >= len(fn.FreeVars) {
						break
					}
					if t := cell[bnd]; t != nil {
						pInit[fn.FreeVars[i]] = t
					}
					if t := taint[bnd]; t != nil {
						vInit[fn.FreeVars[i]] = t
					}
				}
				if len(vInit)+len(pInit) > 0 {
					c46PurityFunc(fn, vInit, pInit, isRangeSlice, report)
				}
			}
		}
	}
}

var _ = packages.NeedName
