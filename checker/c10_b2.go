package main

// C10-B2: the built-in SQL functions slice and index their operands only in range.
//
// The operands of a built-in function are values chosen by the client: strings of any length
// (including empty), and 64-bit integers of any value (including MinInt64 / MaxInt64, whose
// negation and sums wrap). An index or slice expression that is out of range panics inside
// Expression.Eval; nothing between there and Engine.Query / RowIter.Next recovers it.
//
// Decided with the bounds engine in *strict* mode (eng_bounds.go): machine-integer semantics, i.e.
// a sum, difference, negation or unsigned->signed conversion is related to its operands only where
// it provably does not overflow. Scope: every function declaration (function literals included) of
// the given packages whose body contains a slice expression or indexes a string, []byte or []rune;
// in those functions every index and slice expression is an obligation, keyed
// "<Type.Func>/<expression>".

import (
	"fmt"
	"go/ast"
	"go/types"
	"os"
	"sort"

	"golang.org/x/tools/go/packages"
)

// c10B2Packages: the packages holding the built-in scalar SQL functions.
var c10B2Packages = []string{"sql/expression/function", "sql/expression/function/json"}

// c10B2Exceptions: expressions that are in range for a reason the zone domain cannot express. One
// symbol each; every reason was checked against the engine (repro/c10b2_test.go).
var c10B2Exceptions = map[string]string{
	"sql/expression/function.ConcatWithSeparator.Eval/parts[1:]":               "NewConcatWithSeparator (the only place a ConcatWithSeparator is built; WithChildren goes through it) rejects an empty argument list, and the first loop iteration either returns (NULL separator, conversion error) or appends the separator: len(parts) >= 1 here (a loop invariant about the first iteration, not a difference bound)",
	"sql/expression/function.Format.Eval/decimalChar[1:2]":                     "decimalChar is golang.org/x/text's rendering of 1.5 in the requested locale: digit, decimal separator, digit, so at least 3 bytes for every locale language.Parse accepts (TestC10B2FormatDecimalCharAllLocales renders all of them); third-party code, not analysed",
	"sql/expression/function.padString/padStr[:rem]":                           "rem is the remainder of divmod(padLen, len(padStr)) with padLen = length - len(str) > 0 and len(padStr) > 0 (both tested above): 0 <= rem < len(padStr); a remainder by a non-constant divisor computed in a callee is outside the zone domain",
	"sql/expression/function.padString/result[:length]":                        "len(result) = quo*len(padStr) + rem + len(str) = padLen + len(str) = length by the division identity quo*b + rem = a (non-linear: not a difference bound); checked by TestC10B2PadKeepsRequestedLength",
	"sql/expression/function/json.JSONMergePatch.Eval/j.JSONs[0]":              "NewJSONMergePatch (the only place a JSONMergePatch with arguments is built; WithChildren goes through it) requires at least 2 arguments and nothing assigns the field afterwards: a constructor-established length, not a fact of Eval's own control flow",
	"sql/expression/function/json.JSONMergePreserve.Eval/j.JSONs[0]":           "NewJSONMergePreserve (the only constructor; WithChildren goes through it) requires at least 2 arguments and nothing assigns the field afterwards",
	"sql/expression/function.padString/result[(int64(len(result)) - length):]": "len(result) = length by the same division identity, so the lower bound is 0; checked by TestC10B2PadKeepsRequestedLength",
}

// c10B2Funcs: the functions of the given module packages whose body contains a slice expression or
// an index into a text value.
func c10B2Funcs(c *Ctx, rels []string) []*types.Func {
	var fns []*types.Func
	c.P.EachFuncDecl(rels, func(pk *packages.Package, fd *ast.FuncDecl) {
		has := false
		ast.Inspect(fd.Body, func(n ast.Node) bool {
			switch x := n.(type) {
			case *ast.SliceExpr:
				has = true
			case *ast.IndexExpr:
				// an index into a string, []byte or []rune (the values computed from the arguments)
				if tv, ok := pk.TypesInfo.Types[x.X]; ok && tv.Type != nil && c10B2TextType(tv.Type) {
					has = true
				}
			}
			return !has
		})
		if !has {
			return
		}
		if fn, _ := pk.TypesInfo.Defs[fd.Name].(*types.Func); fn != nil {
			fns = append(fns, fn)
		}
	})
	sort.Slice(fns, func(i, j int) bool { return FuncName(fns[i]) < FuncName(fns[j]) })
	return fns
}

// c10B2TextType: string, []byte, []rune (or a named type / pointer to array of those element types).
func c10B2TextType(t types.Type) bool {
	switch u := t.Underlying().(type) {
	case *types.Basic:
		return u.Info()&types.IsString != 0
	case *types.Slice:
		if b, ok := u.Elem().Underlying().(*types.Basic); ok {
			return b.Kind() == types.Uint8 || b.Kind() == types.Int32
		}
	}
	return false
}

// c10B2Unreferenced: unexported package-level functions that no identifier of the loaded module
// refers to. Such a function cannot run, whatever the SQL input; its unproven expressions are
// recorded as exceptions (they become obligations again with the first reference).
func c10B2Unreferenced(c *Ctx, fns []*types.Func) map[*types.Func]bool {
	cand := map[*types.Func]bool{}
	for _, f := range fns {
		if sig, _ := f.Type().(*types.Signature); sig != nil && sig.Recv() == nil && !f.Exported() && f.Name() != "init" && f.Name() != "main" {
			cand[f] = true
		}
	}
	if len(cand) == 0 {
		return cand
	}
	for _, pk := range c.P.Module {
		for _, obj := range pk.TypesInfo.Uses {
			if f, ok := obj.(*types.Func); ok && cand[f.Origin()] {
				delete(cand, f.Origin())
			}
		}
	}
	return cand
}

func runC10B2(c *Ctx, rels []string, exceptions map[string]string, floor int) {
	c.Rule("C10-B2", "in every function of the built-in SQL function packages whose body slices a value or indexes a string/[]byte/[]rune (function literals included), each index and slice expression is in range on every path, under machine-integer semantics (a client-chosen int64 may be MinInt64/MaxInt64: sums, differences and negations are trusted only where they provably do not wrap)", floor)
	for _, rel := range rels {
		if c.P.Pkg(rel) == nil {
			c.Undecided("C10-B2", rel, 0, "package "+rel+" not loaded")
			return
		}
	}
	fns := c10B2Funcs(c, rels)
	dead := c10B2Unreferenced(c, fns)
	BoundsCheckFuncsOpt(c, "C10-B2", fns, BoundsOpts{Strict: true, Anon: true, Exceptions: exceptions,
		Unreached: func(f *types.Func) string {
			if dead[f] {
				return "dead code: " + f.Name() + " is unexported and nothing in the loaded module refers to it, so no SQL input reaches this expression (it is an obligation again as soon as a reference appears)"
			}
			return ""
		}})
	if os.Getenv("VCHK_C10_LIST") != "" {
		for _, o := range c.Obs {
			if o.Rule == "C10-B2" {
				fmt.Fprintf(os.Stderr, "B2 %v %s %s\n", o.Status, o.Key, o.Pos)
			}
		}
	}
}
