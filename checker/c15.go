package main

import (
	"fmt"
	"go/ast"
	"go/token"
	"go/types"
	"sort"
	"strings"

	"golang.org/x/tools/go/cfg"
	"golang.org/x/tools/go/packages"
	"golang.org/x/tools/go/ssa"
)

// C15 — a failed data-modifying statement has no effect: the statement-boundary protocol
// (StatementBegin / DiscardChanges / StatementComplete) around the DML iterators.

type c15Params struct {
	sqlRel     string   // package declaring the EditOpenerCloser and RowIter interfaces
	ocIface    string   // "EditOpenerCloser"
	iterIface  string   // "RowIter"
	ignorable  string   // "IgnorableError" (interface in sqlRel), "" if none
	planRel    string   // package declaring the two wrapper iterators
	plainType  string   // "TableEditorIter"
	ckptType   string   // "CheckpointingTableEditorIter"
	plainCtor  string   // "NewTableEditorIter"
	ckptCtor   string   // "NewCheckpointingTableEditorIter"
	iterPkgs   []string // packages searched for DML iterator types
	editorPkgs []string // packages whose EditOpenerCloser implementations are checked (S4, S5)
	floors     map[string]int
}

var c15Repo = c15Params{
	sqlRel: "sql", ocIface: "EditOpenerCloser", iterIface: "RowIter", ignorable: "IgnorableError",
	planRel: "sql/plan", plainType: "TableEditorIter", ckptType: "CheckpointingTableEditorIter",
	plainCtor: "NewTableEditorIter", ckptCtor: "NewCheckpointingTableEditorIter",
	iterPkgs:   []string{"sql/rowexec", "sql/plan"},
	editorPkgs: []string{"memory", "sql/plan", "sql/fulltext", "sql/in_mem_table", "sql/rowexec"},
	floors:     map[string]int{"C15-S0": 2, "C15-S1": 4, "C15-S2": 6, "C15-S3": 7, "C15-S4": 40, "C15-S5": 5, "C15-S6": 2, "C15-S7": 1, "C15-S8": 1, "C15-S9": 4},
}

// c15S5Exceptions: wrapper editors whose lifecycle methods do not all forward to the same
// sub-editors, with the reason this is harmless. One symbol per entry.
var c15S5Exceptions = map[string]string{
	"sql/in_mem_table.StatementLockingTableEditor/StatementBegin": "takes the statement lock instead of forwarding; the wrapped editors (IndexedSetTableEditor, MultiIndexedSetTableEditor) have an empty StatementBegin and keep no snapshot",
}

func init() {
	register(&Property{
		ID:       "C15",
		Patterns: []string{"./sql/rowexec", "./memory", "./sql/fulltext", "./sql/in_mem_table"},
		Explanation: "Statement-boundary protocol around the DML iterators. Decided: (S0) plan.TableEditorIter.Next / CheckpointingTableEditorIter.Next call StatementBegin on every opener-closer before the wrapped iterator's first Next; " +
			"(S1) every return of those Next methods whose error operand can be a real error (not nil / io.EOF on that path) is preceded on every CFG path by a store to the iterator's recorded-error field (plain iterator) resp. a DiscardChanges call (checkpointing iterator), and StatementComplete is never reached with a possibly-failed row; " +
			"(S2) TableEditorIter.Close calls DiscardChanges on every opener-closer exactly on the recorded-error branch and StatementComplete on every one otherwise (loops without early exit), the returned error depends on their results, and the wrapped iterator is closed on every path; " +
			"(S3) every RowIter type whose methods edit rows through editors held in its fields is constructed only as the wrapped argument of NewTableEditorIter/NewCheckpointingTableEditorIter; " +
			"(S4) no error-returning method of an EditOpenerCloser implementation returns a literal nil on a path where an error variable is known non-nil and was not looked at again (swallowed error); " +
			"(S5) a wrapper editor forwards StatementBegin, DiscardChanges and StatementComplete to the same set of sub-editors; " +
			"(S6–S9) for every editor whose StatementBegin keeps a snapshot (a receiver field assigned from a value derived from another receiver field; discovered structurally — memory.tableEditor: initialTable from editedTable): (S6) the snapshot field is assigned only in StatementBegin and in composite literals; (S7) outside StatementBegin nothing writes through the snapshot — no store / map update / copy() into memory reached from a load of the field, no call (static, or interface call resolved to the implementations of the package) passing it to a function that writes through that parameter, transitively; (S8) DiscardChanges writes the live table from the snapshot (a store into memory reached from the live field of a value derived from the snapshot, a call g(live…, snapshot…) where g writes through the former a value derived from the latter, or a receiver helper that does so on every path) on every path to a return except through the `err.(sql.IgnorableError)` ok-edge; (S9) every value assigned to the snapshot field is a fresh object (allocation or result of a function whose every return is one), and the pointer fields read through the snapshot (Table.data) receive a fresh value in the copying function on every path — the snapshot is a copy, not an alias. " +
			"A violated clause means a failed statement can be completed instead of discarded (partial rows stay), or a failed completion is reported as success.",
		NotCovered: "aliasing below the second level of the snapshot copy (that TableData.copy re-creates every map / slice it shares), that Close publishes the restored data to the session, snapshot mutation through callees outside the module or through function values, FK cascades into other tables, trigger rollback (AddTriggerRollbackIter), DDL rewrites (C21), errors raised by DiscardChanges itself inside wrapper loops",
		Technique:  "CFG must-pass-through with error-state tracking + who-may-construct over go/types + SSA dependence of the returned error; snapshot rules: who-may-write + pointer-taint / transitive mutates-parameter summaries + data-flow direction (forward slice snapshot -> live) + must-pass over the SSA CFG",
		Run:        func(c *Ctx) { runC15(c, c15Repo) },
		Fixture: func(c *Ctx, fx *Prog) {
			p := c15Params{sqlRel: "testdata/c15/sql", ocIface: "EditOpenerCloser", iterIface: "RowIter", ignorable: "IgnorableError",
				planRel: "testdata/c15/plan", plainType: "TableEditorIter", ckptType: "CheckpointingTableEditorIter",
				plainCtor: "NewTableEditorIter", ckptCtor: "NewCheckpointingTableEditorIter",
				iterPkgs: []string{"testdata/c15/exec"}, editorPkgs: []string{"testdata/c15/exec"}, floors: map[string]int{}}
			expectFixture(c, fx, "c15: broken protocol fixture must be reported", []string{
				"C15-S0:CheckpointingTableEditorIter.Next/StatementBegin",
				"C15-S1:TableEditorIter.Next/return ctx.Err()",
				"C15-S1:CheckpointingTableEditorIter.Next/discard-on-error",
				"C15-S1:CheckpointingTableEditorIter.Next/return err",
				"C15-S2:TableEditorIter.Close/complete-all",
				"C15-S2:TableEditorIter.Close/discard-error-returned",
				"C15-S2:TableEditorIter.Close/inner-close",
				"C15-S3:testdata/c15/exec.rowWriter/construct@NewBare",
				"C15-S4:testdata/c15/exec.memEditor.StatementComplete/swallow err",
				"C15-S5:testdata/c15/exec.pairEditor/DiscardChanges",
				"C15-S6:resnapSnap.Lookup/assigns resnapSnap.snap",
				"C15-S7:swapSnap.DiscardChanges/reads swapSnap.snap/call table.replaceData",
				"C15-S8:swapSnap.DiscardChanges/restores live from snap",
				"C15-S8:condSnap.DiscardChanges/restores live from snap",
				"C15-S9:aliasSnap.StatementBegin/snapshot-copy aliasSnap.snap",
				"C15-S9:shallowSnap.StatementBegin/snapshot-copy-deep shallowSnap.snap.data",
			}, func(fc *Ctx) { runC15(fc, p) })
		},
		FixturePkgs: []string{"./testdata/c15/sql", "./testdata/c15/plan", "./testdata/c15/exec"},
	})
}

func runC15(c *Ctx, p c15Params) {
	fl := func(id string) int { return p.floors[id] }
	c.Rule("C15-S0", "Next of the statement-boundary iterators calls StatementBegin on every opener-closer on every path before the wrapped iterator's Next", fl("C15-S0"))
	c.Rule("C15-S1", "every return of TableEditorIter.Next / CheckpointingTableEditorIter.Next whose error operand may be a real error is preceded on every path by recording the error (resp. DiscardChanges); StatementComplete is never reached with a possibly-failed row", fl("C15-S1"))
	c.Rule("C15-S2", "TableEditorIter.Close: DiscardChanges on every opener-closer exactly when an error was recorded (and is not ignorable), StatementComplete on every one otherwise, no early loop exit, their errors reach the return value, the wrapped iterator is closed on every path", fl("C15-S2"))
	c.Rule("C15-S3", "every RowIter type that edits rows through editors held in its fields is constructed only as the wrapped argument of NewTableEditorIter / NewCheckpointingTableEditorIter", fl("C15-S3"))
	c.Rule("C15-S4", "no error-returning method of an EditOpenerCloser implementation returns literal nil on a path where an error variable is known non-nil and is not used again (swallowed error)", fl("C15-S4"))
	c.Rule("C15-S5", "a wrapper editor forwards StatementBegin, DiscardChanges and StatementComplete to the same set of sub-editors", fl("C15-S5"))

	sqlPk, planPk := c.P.Pkg(p.sqlRel), c.P.Pkg(p.planRel)
	if sqlPk == nil || planPk == nil {
		c.Undecided("C15-S1", "packages", 0, "anchor packages not loaded: "+p.sqlRel+", "+p.planRel)
		return
	}
	oc := dmlLookupIface(c.P, p.sqlRel, p.ocIface)
	ri := dmlLookupIface(c.P, p.sqlRel, p.iterIface)
	if oc == nil || ri == nil {
		c.Undecided("C15-S1", "interfaces", 0, "interfaces "+p.ocIface+"/"+p.iterIface+" not found in "+p.sqlRel)
		return
	}
	a := &c15{c: c, p: p, oc: oc, ri: ri, planPk: planPk, info: planPk.TypesInfo}
	a.wrappers()
	a.constructors()
	a.swallowed()
	a.forwarding()
	a.snapshots()
}

type c15 struct {
	c      *Ctx
	p      c15Params
	oc, ri *types.Interface
	planPk *packages.Package
	info   *types.Info
}

// fieldByType finds the unique field of a struct type satisfying pred.
func c15FieldByType(nt *types.Named, pred func(t types.Type) bool) string {
	st, ok := nt.Underlying().(*types.Struct)
	if !ok {
		return ""
	}
	name, n := "", 0
	for i := 0; i < st.NumFields(); i++ {
		if pred(st.Field(i).Type()) {
			name = st.Field(i).Name()
			n++
		}
	}
	if n != 1 {
		return ""
	}
	return name
}

func (a *c15) isOC(t types.Type) bool {
	return t != nil && dmlImplements(t, a.oc)
}

func (a *c15) isOCIface(t types.Type) bool {
	nt := dmlNamedOf(t)
	return nt != nil && nt.Underlying() == types.Type(a.oc)
}

// ---- S0, S1, S2: the two wrapper iterators ----------------------------------------------

func (a *c15) wrappers() {
	c, p := a.c, a.p
	lookupT := func(name string) *types.Named {
		tn, _ := a.planPk.Types.Scope().Lookup(name).(*types.TypeName)
		if tn == nil {
			return nil
		}
		nt, _ := tn.Type().(*types.Named)
		return nt
	}
	plainT, ckptT := lookupT(p.plainType), lookupT(p.ckptType)
	if plainT == nil || ckptT == nil {
		c.Undecided("C15-S1", "wrapper-types", 0, "types "+p.plainType+"/"+p.ckptType+" not found in "+p.planRel)
		return
	}
	errField := c15FieldByType(plainT, IsErrorType)
	ocField := c15FieldByType(plainT, func(t types.Type) bool {
		s, ok := t.Underlying().(*types.Slice)
		return ok && a.isOCIface(s.Elem())
	})
	isRowIter := func(t types.Type) bool {
		nt := dmlNamedOf(t)
		return nt != nil && nt.Underlying() == types.Type(a.ri)
	}
	innerField := c15FieldByType(plainT, isRowIter)
	ckEdit := c15FieldByType(ckptT, a.isOCIface)
	ckInner := c15FieldByType(ckptT, isRowIter)
	if errField == "" || ocField == "" || innerField == "" || ckEdit == "" || ckInner == "" {
		c.Undecided("C15-S1", "wrapper-fields", plainT.Obj().Pos(), fmt.Sprintf("cannot identify fields by type: error=%q []EditOpenerCloser=%q RowIter=%q / EditOpenerCloser=%q RowIter=%q", errField, ocField, innerField, ckEdit, ckInner))
		return
	}
	_, nextPlain := c.P.FuncDecl(p.planRel, p.plainType+".Next")
	_, closePlain := c.P.FuncDecl(p.planRel, p.plainType+".Close")
	_, nextCk := c.P.FuncDecl(p.planRel, p.ckptType+".Next")
	if nextPlain == nil || closePlain == nil || nextCk == nil {
		c.Undecided("C15-S1", "wrapper-methods", plainT.Obj().Pos(), "Next/Close methods of the wrapper iterators not found")
		return
	}
	a.plainNext(nextPlain, errField, ocField, innerField)
	a.ckptNext(nextCk, ckEdit, ckInner)
	a.plainClose(closePlain, errField, ocField, innerField)
}

// lifecycleCallOn: node n contains (optionally inside function literals) a call X.method where
// X normalises to want (an access path rooted at the receiver).
func (a *c15) lifecycleCallOn(fd *ast.FuncDecl, n ast.Node, method, want string, intoLits bool) *ast.CallExpr {
	recv := dmlRecvObj(a.info, fd)
	for _, call := range dmlCallsIn(n, intoLits) {
		x, ok := dmlMethodCallOn(call, method)
		if !ok {
			continue
		}
		fn := Callee(a.info, call)
		if fn == nil || !a.isOC(a.info.TypeOf(x)) {
			continue
		}
		if dmlNormPath(a.info, fd.Body, recv, x) == want {
			return call
		}
	}
	return nil
}

// c15LoopAll checks that `call` sits in a range loop over recv.<field> whose body runs the
// call unconditionally and has no early exit. Returns "" when fine, else the reason.
func (a *c15) loopAll(fd *ast.FuncDecl, scope ast.Node, call *ast.CallExpr, field string) string {
	recv := dmlRecvObj(a.info, fd)
	var loop *ast.RangeStmt
	ast.Inspect(scope, func(n ast.Node) bool {
		if rs, ok := n.(*ast.RangeStmt); ok && rs.Body.Pos() <= call.Pos() && call.End() <= rs.Body.End() {
			if dmlIsFieldSel(a.info, rs.X, recv, field) {
				loop = rs
			}
		}
		return true
	})
	if loop == nil {
		return "the call is not inside a range loop over " + field
	}
	seen := false
	for _, st := range loop.Body.List {
		exit := ""
		ast.Inspect(st, func(n ast.Node) bool {
			switch x := n.(type) {
			case *ast.FuncLit:
				return false
			case *ast.BranchStmt:
				exit = x.Tok.String()
			case *ast.ReturnStmt:
				exit = "return"
			}
			return true
		})
		if exit != "" {
			return "the loop body contains `" + exit + "`: not every opener-closer is reached"
		}
		if !seen {
			var always []ast.Node
			switch x := st.(type) {
			case *ast.ExprStmt:
				always = append(always, x.X)
			case *ast.AssignStmt:
				for _, r := range x.Rhs {
					always = append(always, r)
				}
			case *ast.IfStmt:
				if x.Init != nil {
					always = append(always, x.Init)
				}
				always = append(always, x.Cond)
			case *ast.DeclStmt:
				always = append(always, x)
			}
			for _, n := range always {
				if n.Pos() <= call.Pos() && call.End() <= n.End() {
					seen = true
				}
			}
		}
	}
	if !seen {
		return "the call is conditional inside the loop body"
	}
	return ""
}

func (a *c15) plainNext(fd *ast.FuncDecl, errField, ocField, innerField string) {
	c, info := a.c, a.info
	g := c.P.CFG(info, fd.Body)
	recv := dmlRecvObj(info, fd)
	name := DeclName(fd)
	sig := info.Defs[fd.Name].(*types.Func).Type().(*types.Signature)
	isInnerNext := func(n ast.Node) bool {
		for _, call := range dmlCallsIn(n, false) {
			if x, ok := dmlMethodCallOn(call, "Next"); ok && dmlIsFieldSel(info, x, recv, innerField) {
				return true
			}
		}
		return false
	}
	// S0: StatementBegin on all opener-closers before inner.Next
	beginCall := a.lifecycleCallOn(fd, fd.Body, "StatementBegin", "recv."+ocField+"[*]", true)
	key := name + "/StatementBegin"
	if beginCall == nil {
		c.Bad("C15-S0", key, fd.Pos(), name+" never calls StatementBegin on the elements of "+ocField+": DiscardChanges has no snapshot to return to")
	} else if why := a.loopAll(fd, fd.Body, beginCall, ocField); why != "" {
		c.Bad("C15-S0", key, beginCall.Pos(), name+": StatementBegin is not called for every opener-closer: "+why)
	} else {
		path := PathAvoiding(g, EntryPoint(g), func(n ast.Node) bool { return n.Pos() <= beginCall.Pos() && beginCall.End() <= n.End() }, isInnerNext, nil)
		if path != nil {
			c.Bad("C15-S0", key, path[len(path)-1].Pos(), name+": the wrapped iterator's Next is reachable without StatementBegin having been called", c.P.DescribePath(path)...)
		} else {
			c.Ok("C15-S0", key, beginCall.Pos(), "StatementBegin over "+ocField+" precedes "+innerField+".Next on every path")
		}
	}
	// S1: returns with a possibly-real error are preceded by a store to errField
	isStore := func(n ast.Node) bool {
		as, ok := n.(*ast.AssignStmt)
		if !ok {
			return false
		}
		for i, l := range as.Lhs {
			if dmlIsFieldSel(info, l, recv, errField) {
				if len(as.Rhs) == len(as.Lhs) && isNilIdent(info, as.Rhs[i]) {
					return false
				}
				return true
			}
		}
		return false
	}
	a.returnsRecorded(fd, sig, name, isStore, "a store to "+errField, "Close then takes the StatementComplete branch and the rows edited so far stay")
}

// returnsRecorded implements S1 for one Next method: for every distinct error operand E of a
// return (other than literal nil), no path from the entry reaches that return while E may be a
// real error (E is not known to be nil or io.EOF on that path) unless `recorded` was passed.
func (a *c15) returnsRecorded(fd *ast.FuncDecl, sig *types.Signature, name string, recorded func(ast.Node) bool, what, consequence string) {
	c, info := a.c, a.info
	g := c.P.CFG(info, fd.Body)
	groups := map[string][]*ast.ReturnStmt{}
	var order []string
	ast.Inspect(fd.Body, func(n ast.Node) bool {
		switch x := n.(type) {
		case *ast.FuncLit:
			return false
		case *ast.ReturnStmt:
			e := dmlErrOperand(info, sig, x)
			if e == nil || isNilIdent(info, e) {
				return true
			}
			k := types.ExprString(e)
			if groups[k] == nil {
				order = append(order, k)
			}
			groups[k] = append(groups[k], x)
		}
		return true
	})
	sort.Strings(order)
	for _, k := range order {
		key := name + "/return " + k
		var bad []ast.Node
		for _, ret := range groups[k] {
			var v types.Object
			if id, ok := ast.Unparen(dmlErrOperand(info, sig, ret)).(*ast.Ident); ok {
				v = info.Uses[id]
			}
			// state: abstract value set of v (nil / io.EOF / other); a non-identifier operand is always "any"
			bad = dmlSearch(g, EntryPoint(g), dmlErrAny,
				func(n ast.Node, st int) (int, dmlVerdict) {
					if recorded(n) {
						return st, dmlStop
					}
					if r, ok := n.(*ast.ReturnStmt); ok {
						if r == ret && st&dmlErrOther != 0 {
							return st, dmlHit
						}
						return st, dmlStop
					}
					if v != nil && dmlAssigns(info, n, v) {
						return dmlErrAny, dmlGo
					}
					return st, dmlGo
				},
				func(b *cfg.Block, succ int, st int) (int, bool) { return dmlRefineErr(info, b, succ, v, st) }, nil)
			if bad != nil {
				break
			}
		}
		if bad != nil {
			c.Bad("C15-S1", key, bad[len(bad)-1].Pos(), fmt.Sprintf("%s returns the error `%s` on a path without %s: %s", name, k, what, consequence), c.P.DescribePath(bad)...)
		} else {
			c.Ok("C15-S1", key, groups[k][0].Pos(), "preceded by "+what+" (or the operand is nil/io.EOF) on every path")
		}
	}
}

func (a *c15) ckptNext(fd *ast.FuncDecl, editField, innerField string) {
	c, info := a.c, a.info
	g := c.P.CFG(info, fd.Body)
	recv := dmlRecvObj(info, fd)
	name := DeclName(fd)
	sig := info.Defs[fd.Name].(*types.Func).Type().(*types.Signature)
	callOn := func(n ast.Node, method, field string) *ast.CallExpr {
		for _, call := range dmlCallsIn(n, false) {
			if x, ok := dmlMethodCallOn(call, method); ok && dmlIsFieldSel(info, x, recv, field) && Callee(info, call) != nil {
				return call
			}
		}
		return nil
	}
	isInnerNext := func(n ast.Node) bool { return callOn(n, "Next", innerField) != nil }
	isBegin := func(n ast.Node) bool { return callOn(n, "StatementBegin", editField) != nil }
	isDiscard := func(n ast.Node) bool { return callOn(n, "DiscardChanges", editField) != nil }
	isComplete := func(n ast.Node) bool { return callOn(n, "StatementComplete", editField) != nil }

	// S0
	key := name + "/StatementBegin"
	if path := PathAvoiding(g, EntryPoint(g), isBegin, isInnerNext, nil); path != nil {
		c.Bad("C15-S0", key, path[len(path)-1].Pos(), name+": the wrapped iterator's Next is reachable without "+editField+".StatementBegin", c.P.DescribePath(path)...)
	} else if callOn(fd.Body, "Next", innerField) == nil {
		c.Undecided("C15-S0", key, fd.Pos(), name+" does not call "+innerField+".Next")
		return
	} else {
		c.Ok("C15-S0", key, fd.Pos(), editField+".StatementBegin precedes "+innerField+".Next on every path")
	}

	// S1a: returns with a possibly-real error are preceded by DiscardChanges, or the operand is the
	// result of StatementComplete / DiscardChanges itself (the bracket was closed by that very call).
	a.returnsRecorded(fd, sig, name, func(n ast.Node) bool { return isDiscard(n) || isComplete(n) },
		editField+".DiscardChanges (or the error is StatementComplete's own)", "the failed row's edits are neither discarded nor completed")

	// S1b: the error variable of inner.Next: find `_, v := inner.Next(...)`
	var errVar types.Object
	var nextPt CFGPoint
	found := false
	for _, b := range g.Blocks {
		for i, n := range b.Nodes {
			if as, ok := n.(*ast.AssignStmt); ok && isInnerNext(n) && len(as.Lhs) == 2 {
				if id, ok := as.Lhs[1].(*ast.Ident); ok {
					if o := info.Defs[id]; o != nil {
						errVar = o
					} else {
						errVar = info.Uses[id]
					}
					nextPt, found = CFGPoint{b, i}, true
				}
			}
		}
	}
	if !found || errVar == nil {
		c.Undecided("C15-S1", name+"/discard-on-error", fd.Pos(), "cannot find `row, err := "+innerField+".Next(ctx)`")
		return
	}
	edge := func(b *cfg.Block, succ int, st int) (int, bool) { return dmlRefineErr(info, b, succ, errVar, st) }
	// on a definitely-failed row (err is neither nil nor io.EOF) every exit is preceded by DiscardChanges
	path := dmlSearch(g, nextPt, dmlErrAny, func(n ast.Node, st int) (int, dmlVerdict) {
		if isDiscard(n) || dmlAssigns(info, n, errVar) {
			return st, dmlStop
		}
		if _, ok := n.(*ast.ReturnStmt); ok {
			if st == dmlErrOther {
				return st, dmlHit
			}
			return st, dmlStop
		}
		return st, dmlGo
	}, edge, func(st int) bool { return st == dmlErrOther })
	if path != nil {
		c.Bad("C15-S1", name+"/discard-on-error", path[len(path)-1].Pos(), name+": a row that failed (err != nil && err != io.EOF) leaves Next without "+editField+".DiscardChanges: its partial edits stay in the editor and are completed with the next row", c.P.DescribePath(path)...)
	} else {
		c.Ok("C15-S1", name+"/discard-on-error", fd.Pos(), "every exit after a failed row passes DiscardChanges")
	}
	// StatementComplete is reachable only where err is nil or io.EOF
	path = dmlSearch(g, nextPt, dmlErrAny, func(n ast.Node, st int) (int, dmlVerdict) {
		if dmlAssigns(info, n, errVar) {
			return st, dmlStop
		}
		if isComplete(n) {
			if st&dmlErrOther != 0 {
				return st, dmlHit
			}
			return st, dmlStop
		}
		return st, dmlGo
	}, edge, nil)
	if path != nil {
		c.Bad("C15-S1", name+"/complete-only-on-success", path[len(path)-1].Pos(), name+": "+editField+".StatementComplete is reachable on a path where the row's error was not established to be nil or io.EOF", c.P.DescribePath(path)...)
	} else if callOn(fd.Body, "StatementComplete", editField) == nil {
		c.Bad("C15-S1", name+"/complete-only-on-success", fd.Pos(), name+" never calls "+editField+".StatementComplete: successful rows are never applied")
	} else {
		c.Ok("C15-S1", name+"/complete-only-on-success", fd.Pos(), "StatementComplete only after err == nil / err == io.EOF")
	}
}

// plainClose decides S2 on TableEditorIter.Close.
func (a *c15) plainClose(fd *ast.FuncDecl, errField, ocField, innerField string) {
	c, info := a.c, a.info
	recv := dmlRecvObj(info, fd)
	name := DeclName(fd)
	// variables that hold a copy of recv.errField
	copies := map[types.Object]bool{}
	ignVars := map[types.Object]bool{} // `_, v := X.(IgnorableError)`
	ast.Inspect(fd.Body, func(n ast.Node) bool {
		as, ok := n.(*ast.AssignStmt)
		if !ok {
			return true
		}
		if len(as.Lhs) == 1 && len(as.Rhs) == 1 && dmlIsFieldSel(info, as.Rhs[0], recv, errField) {
			if id, ok := as.Lhs[0].(*ast.Ident); ok && as.Tok == token.DEFINE {
				copies[info.Defs[id]] = true
			}
		}
		if len(as.Lhs) == 2 && len(as.Rhs) == 1 {
			if ta, ok := ast.Unparen(as.Rhs[0]).(*ast.TypeAssertExpr); ok && ta.Type != nil && a.p.ignorable != "" {
				if nt := dmlNamedOf(info.TypeOf(ta.Type)); nt != nil && nt.Obj().Name() == a.p.ignorable && nt.Obj().Pkg() == c.P.Pkg(a.p.sqlRel).Types {
					if id, ok := as.Lhs[1].(*ast.Ident); ok {
						if o := info.Defs[id]; o != nil {
							ignVars[o] = true
						}
					}
				}
			}
		}
		return true
	})
	isErrExpr := func(e ast.Expr) bool {
		if dmlIsFieldSel(info, e, recv, errField) {
			return true
		}
		id, ok := ast.Unparen(e).(*ast.Ident)
		return ok && copies[info.Uses[id]]
	}
	// the copies must not be re-assigned before the test: find the first top-level if whose
	// condition is a conjunction containing `<err> != nil`
	var split func(e ast.Expr) []ast.Expr
	split = func(e ast.Expr) []ast.Expr {
		e = ast.Unparen(e)
		if be, ok := e.(*ast.BinaryExpr); ok && be.Op == token.LAND {
			return append(split(be.X), split(be.Y)...)
		}
		return []ast.Expr{e}
	}
	var theIf *ast.IfStmt
	for _, st := range fd.Body.List {
		ifs, ok := st.(*ast.IfStmt)
		if !ok {
			// a re-assignment of a copy before the branch makes the reading unsound
			for o := range copies {
				if as, ok := st.(*ast.AssignStmt); ok && as.Tok != token.DEFINE && dmlAssigns(info, as, o) {
					c.Undecided("C15-S2", name+"/branch", st.Pos(), "the copy of "+errField+" is re-assigned before the discard/complete branch")
					return
				}
			}
			continue
		}
		for _, cj := range split(ifs.Cond) {
			if be, ok := cj.(*ast.BinaryExpr); ok && be.Op == token.NEQ && isNilIdent(info, be.Y) && isErrExpr(be.X) {
				theIf = ifs
			}
		}
		if theIf != nil {
			break
		}
	}
	if theIf == nil || theIf.Else == nil {
		c.Undecided("C15-S2", name+"/branch", fd.Pos(), "no `if <recorded error> != nil … else …` branch found in "+name)
		return
	}
	for _, cj := range split(theIf.Cond) {
		if be, ok := cj.(*ast.BinaryExpr); ok && be.Op == token.NEQ && isNilIdent(info, be.Y) && isErrExpr(be.X) {
			continue
		}
		if u, ok := cj.(*ast.UnaryExpr); ok && u.Op == token.NOT {
			if id, ok := ast.Unparen(u.X).(*ast.Ident); ok && ignVars[info.Uses[id]] {
				continue
			}
		}
		c.Bad("C15-S2", name+"/branch", cj.Pos(), name+": the discard branch is additionally guarded by `"+types.ExprString(cj)+"`: a recorded non-ignorable error can reach StatementComplete")
		return
	}
	c.Ok("C15-S2", name+"/branch", theIf.Pos(), "discard branch taken iff a non-ignorable error was recorded")

	want := "recv." + ocField + "[*]"
	check := func(scope ast.Node, other ast.Node, method, otherMethod, key string) *ast.CallExpr {
		call := a.lifecycleCallOn(fd, scope, method, want, false)
		switch {
		case call == nil:
			c.Bad("C15-S2", name+"/"+key, scope.Pos(), fmt.Sprintf("%s: the %s branch does not call %s on the elements of %s", name, key, method, ocField))
			return nil
		case a.lifecycleCallOn(fd, scope, otherMethod, want, false) != nil:
			c.Bad("C15-S2", name+"/"+key, scope.Pos(), fmt.Sprintf("%s: the %s branch also calls %s", name, key, otherMethod))
			return nil
		}
		if why := a.loopAll(fd, scope, call, ocField); why != "" {
			c.Bad("C15-S2", name+"/"+key, call.Pos(), fmt.Sprintf("%s: %s is not called for every opener-closer: %s", name, method, why))
			return nil
		}
		c.Ok("C15-S2", name+"/"+key, call.Pos(), method+" on every element of "+ocField)
		return call
	}
	dCall := check(theIf.Body, theIf.Else, "DiscardChanges", "StatementComplete", "discard-all")
	cCall := check(theIf.Else, theIf.Body, "StatementComplete", "DiscardChanges", "complete-all")

	// error propagation through SSA
	fn, _ := info.Defs[fd.Name].(*types.Func)
	sf := c.P.SSAFunc(fn)
	if sf == nil {
		c.Undecided("C15-S2", name+"/errors-returned", fd.Pos(), "no SSA for "+name)
	} else {
		deps := c15ReturnDeps(sf)
		for _, it := range []struct {
			call *ast.CallExpr
			key  string
			m    string
		}{{dCall, "discard-error-returned", "DiscardChanges"}, {cCall, "complete-error-returned", "StatementComplete"}} {
			if it.call == nil {
				continue
			}
			ok := false
			for pos := range deps {
				if pos >= it.call.Pos() && pos <= it.call.End() {
					ok = true
				}
			}
			c.Check(ok, "C15-S2", name+"/"+it.key, it.call.Pos(), "the result of "+it.m+" reaches the returned error",
				name+": the error result of "+it.m+" never reaches the value returned by Close: a failed "+it.m+" is reported as success")
		}
	}

	// inner.Close on every path
	g := c.P.CFG(info, fd.Body)
	isInnerClose := func(n ast.Node) bool {
		for _, call := range dmlCallsIn(n, false) {
			if x, ok := dmlMethodCallOn(call, "Close"); ok && dmlIsFieldSel(info, x, recv, innerField) {
				return true
			}
		}
		return false
	}
	deferred := false
	for _, dc := range DeferredCalls(fd.Body, true) {
		if x, ok := dmlMethodCallOn(dc, "Close"); ok && dmlIsFieldSel(info, x, recv, innerField) {
			deferred = true
		}
	}
	if path := PathAvoiding(g, EntryPoint(g), isInnerClose, nil, nil); path != nil && !deferred {
		pos := fd.Pos()
		if last := path[len(path)-1]; last != nil {
			pos = last.Pos()
		}
		c.Bad("C15-S2", name+"/inner-close", pos, name+": an exit is reachable without closing the wrapped iterator (whose Close closes the editors: the in-memory editor restores or publishes its table there)", c.P.DescribePath(path)...)
	} else {
		c.Ok("C15-S2", name+"/inner-close", fd.Pos(), innerField+".Close on every path")
	}
}

// c15ReturnDeps: positions of the call instructions that the last operand of any Return of f
// may depend on (through phis, conversions, stores to local allocs, and — generously — through
// the arguments of other calls).
func c15ReturnDeps(f *ssa.Function) map[token.Pos]bool {
	out := map[token.Pos]bool{}
	seen := map[ssa.Value]bool{}
	var visit func(v ssa.Value)
	visit = func(v ssa.Value) {
		if v == nil || seen[v] {
			return
		}
		seen[v] = true
		switch x := v.(type) {
		case *ssa.Call:
			out[x.Pos()] = true
			out[x.Common().Pos()] = true
			for _, arg := range x.Common().Args {
				visit(arg)
			}
		case *ssa.Phi:
			for _, e := range x.Edges {
				visit(e)
			}
		case *ssa.Extract:
			visit(x.Tuple)
		case *ssa.MakeInterface:
			visit(x.X)
		case *ssa.ChangeInterface:
			visit(x.X)
		case *ssa.ChangeType:
			visit(x.X)
		case *ssa.TypeAssert:
			visit(x.X)
		case *ssa.UnOp:
			visit(x.X)
		case *ssa.Alloc:
			for _, ref := range *x.Referrers() {
				if st, ok := ref.(*ssa.Store); ok && st.Addr == x {
					visit(st.Val)
				}
			}
		}
	}
	for _, b := range f.Blocks {
		for _, in := range b.Instrs {
			if r, ok := in.(*ssa.Return); ok && len(r.Results) > 0 {
				visit(r.Results[len(r.Results)-1])
			}
		}
	}
	return out
}

// ---- S3: who may construct a DML iterator ---------------------------------------------

func (a *c15) constructors() {
	c, p := a.c, a.p
	editNames := map[string]bool{"Insert": true, "Update": true, "Delete": true}
	type iterT struct {
		nt    *types.Named
		calls []string
	}
	var found []*iterT
	for _, rel := range p.iterPkgs {
		pk := c.P.Pkg(rel)
		if pk == nil {
			c.Undecided("C15-S3", "package "+rel, 0, "package not loaded")
			continue
		}
		info := pk.TypesInfo
		for _, nt := range dmlNamedTypes(pk) {
			if !dmlImplements(nt, a.ri) || dmlImplements(nt, a.oc) {
				continue
			}
			it := &iterT{nt: nt}
			for _, fd := range dmlMethodDecls(pk, nt) {
				recv := dmlRecvObj(info, fd)
				for _, call := range dmlCallsIn(fd.Body, true) {
					sel, ok := ast.Unparen(call.Fun).(*ast.SelectorExpr)
					if !ok || !editNames[sel.Sel.Name] || !a.isOC(info.TypeOf(sel.X)) {
						continue
					}
					path := dmlNormPath(info, fd.Body, recv, sel.X)
					if strings.HasPrefix(path, "recv.") {
						it.calls = append(it.calls, fd.Name.Name+": "+path+"."+sel.Sel.Name)
					}
				}
			}
			if len(it.calls) > 0 {
				found = append(found, it)
			}
		}
	}
	planPk := a.planPk
	ctor := map[*types.Func]bool{}
	for _, n := range []string{p.plainCtor, p.ckptCtor} {
		if fn := LookupFunc(planPk, n); fn != nil {
			ctor[fn] = true
		}
	}
	if len(ctor) != 2 {
		c.Undecided("C15-S3", "constructors", 0, "constructors "+p.plainCtor+"/"+p.ckptCtor+" not found")
		return
	}
	for _, it := range found {
		tkey := dmlTypeKey(it.nt)
		c.Ok("C15-S3", tkey+"/is-dml-iterator", it.nt.Obj().Pos(), "edits rows through field-held editors: "+strings.Join(it.calls, "; "))
		nlit := 0
		for _, pk := range c.P.Module {
			info := pk.TypesInfo
			for _, file := range pk.Syntax {
				var stack []ast.Node
				ast.Inspect(file, func(n ast.Node) bool {
					if n == nil {
						stack = stack[:len(stack)-1]
						return true
					}
					stack = append(stack, n)
					cl, ok := n.(*ast.CompositeLit)
					if !ok || dmlNamedOf(info.TypeOf(cl)) != it.nt {
						return true
					}
					nlit++
					fd := dmlEnclosingDecl(pk, cl.Pos())
					where := "?"
					if fd != nil {
						where = DeclName(fd)
					}
					key := tkey + "/construct@" + where
					why := c15LiteralWrapped(info, stack, fd, ctor)
					if why == "" {
						c.Ok("C15-S3", key, cl.Pos(), "wrapped by a statement-boundary iterator")
					} else {
						c.Bad("C15-S3", key, cl.Pos(), fmt.Sprintf("%s is constructed in %s %s: its row edits run outside StatementBegin/DiscardChanges/StatementComplete, so a failing row leaves the earlier rows applied", tkey, where, why))
					}
					return true
				})
			}
		}
		if nlit == 0 {
			c.Note("C15-S3", tkey+"/no-literal", it.nt.Obj().Pos(), "type is never constructed in the loaded packages")
		}
	}
}

// c15LiteralWrapped: the composite literal on top of stack is (a) argument 0 of a constructor
// call, possibly under & or parens, or (b) assigned to a local variable all of whose uses are
// argument 0 of constructor calls. Returns "" if so, otherwise what was found.
func c15LiteralWrapped(info *types.Info, stack []ast.Node, fd *ast.FuncDecl, ctor map[*types.Func]bool) string {
	i := len(stack) - 1
	var cur ast.Node = stack[i]
	for i > 0 {
		switch par := stack[i-1].(type) {
		case *ast.UnaryExpr, *ast.ParenExpr:
			cur = par
			i--
			continue
		case *ast.CallExpr:
			if len(par.Args) > 0 && par.Args[0] == cur && ctor[Callee(info, par)] {
				return ""
			}
			return "and passed to " + types.ExprString(par.Fun)
		case *ast.AssignStmt:
			if par.Tok != token.DEFINE || len(par.Lhs) != len(par.Rhs) {
				return "and assigned with `=`"
			}
			var v types.Object
			for j, r := range par.Rhs {
				if r == cur {
					if id, ok := par.Lhs[j].(*ast.Ident); ok {
						v = info.Defs[id]
					}
				}
			}
			if v == nil || fd == nil {
				return "in an assignment that could not be read"
			}
			uses, bad := 0, ""
			var st []ast.Node
			ast.Inspect(fd.Body, func(n ast.Node) bool {
				if n == nil {
					st = st[:len(st)-1]
					return true
				}
				st = append(st, n)
				id, ok := n.(*ast.Ident)
				if !ok || info.Uses[id] != v {
					return true
				}
				uses++
				if len(st) >= 2 {
					if call, ok := st[len(st)-2].(*ast.CallExpr); ok && len(call.Args) > 0 && call.Args[0] == ast.Expr(id) && ctor[Callee(info, call)] {
						return true
					}
				}
				if bad == "" {
					bad = "and its variable `" + id.Name + "` is used outside the wrapped argument of the statement-boundary constructors"
				}
				return true
			})
			if bad != "" {
				return bad
			}
			if uses == 0 {
				return "and never wrapped"
			}
			return ""
		default:
			return "without being wrapped (" + fmt.Sprintf("%T", par) + ")"
		}
	}
	return "without being wrapped"
}

// ---- S4: swallowed errors in editors ----------------------------------------------------

func (a *c15) editorTypes() []struct {
	pk *packages.Package
	nt *types.Named
} {
	var out []struct {
		pk *packages.Package
		nt *types.Named
	}
	for _, rel := range a.p.editorPkgs {
		pk := a.c.P.Pkg(rel)
		if pk == nil {
			a.c.Undecided("C15-S4", "package "+rel, 0, "package not loaded")
			continue
		}
		for _, nt := range dmlNamedTypes(pk) {
			if dmlImplements(nt, a.oc) {
				out = append(out, struct {
					pk *packages.Package
					nt *types.Named
				}{pk, nt})
			}
		}
	}
	return out
}

func (a *c15) swallowed() {
	c := a.c
	for _, et := range a.editorTypes() {
		info := et.pk.TypesInfo
		for _, fd := range dmlMethodDecls(et.pk, et.nt) {
			fn, _ := info.Defs[fd.Name].(*types.Func)
			if fn == nil {
				continue
			}
			sig := fn.Type().(*types.Signature)
			if n := sig.Results().Len(); n == 0 || !IsErrorType(sig.Results().At(n-1).Type()) {
				continue
			}
			key := dmlTypeKey(et.nt) + "." + fd.Name.Name
			bad := c15Swallow(c.P, info, fd, sig)
			if len(bad) == 0 {
				c.Ok("C15-S4", key, fd.Pos(), "")
				continue
			}
			for _, b := range bad {
				c.Bad("C15-S4", key+"/swallow "+b.v, b.path[len(b.path)-1].Pos(), fmt.Sprintf("%s returns nil although `%s` is known to be non-nil on this path and is not looked at again: the failure is reported as success", key, b.v), c.P.DescribePath(b.path)...)
			}
		}
	}
}

type c15Swallowed struct {
	v    string
	path []ast.Node
}

// c15Swallow finds paths: non-nil edge of a test of error variable e  →  `return …, nil`
// (literal nil in the error position) with no node in between that mentions e.
func c15Swallow(p *Prog, info *types.Info, fd *ast.FuncDecl, sig *types.Signature) []c15Swallowed {
	g := p.CFG(info, fd.Body)
	var out []c15Swallowed
	done := map[types.Object]bool{}
	for _, b := range g.Blocks {
		if !b.Live || len(b.Succs) != 2 || len(b.Nodes) == 0 {
			continue
		}
		cond, isExpr := b.Nodes[len(b.Nodes)-1].(ast.Expr)
		if !isExpr {
			continue
		}
		// error-typed variables mentioned in the condition
		var vars []types.Object
		ast.Inspect(cond, func(n ast.Node) bool {
			if id, ok := n.(*ast.Ident); ok {
				if o, ok := info.Uses[id].(*types.Var); ok && IsErrorType(o.Type()) && !o.IsField() {
					vars = append(vars, o)
				}
			}
			return true
		})
		for _, o := range vars {
			if done[o] || !dmlCondOnlyNilTests(info, cond, o) {
				continue
			}
			for si := range b.Succs {
				st, feasible := dmlRefineErr(info, b, si, o, dmlErrAny)
				if !feasible || st&dmlErrNil != 0 {
					continue // o may be nil on this edge
				}
				path := dmlSearch(g, CFGPoint{b.Succs[si], -1}, 0, func(n ast.Node, st int) (int, dmlVerdict) {
					if r, isRet := n.(*ast.ReturnStmt); isRet {
						e := dmlErrOperand(info, sig, r)
						if e != nil && isNilIdent(info, e) && !dmlMentions(info, r, o, true) {
							return st, dmlHit
						}
						return st, dmlStop
					}
					if dmlMentions(info, n, o, true) || dmlAssigns(info, n, o) {
						return st, dmlStop
					}
					return st, dmlGo
				}, nil, nil)
				if path != nil && !done[o] {
					done[o] = true
					out = append(out, c15Swallowed{v: o.Name(), path: append([]ast.Node{cond}, path...)})
				}
			}
		}
	}
	return out
}

// ---- S5: wrapper editors forward the lifecycle to the same sub-editors -------------------

func (a *c15) forwarding() {
	c := a.c
	methods := []string{"StatementBegin", "DiscardChanges", "StatementComplete"}
	for _, et := range a.editorTypes() {
		info := et.pk.TypesInfo
		sets := map[string]map[string]bool{}
		pos := map[string]token.Pos{}
		any := false
		for _, fd := range dmlMethodDecls(et.pk, et.nt) {
			m := fd.Name.Name
			if m != methods[0] && m != methods[1] && m != methods[2] {
				continue
			}
			recv := dmlRecvObj(info, fd)
			sets[m] = map[string]bool{}
			pos[m] = fd.Pos()
			for _, call := range dmlCallsIn(fd.Body, true) {
				x, ok := dmlMethodCallOn(call, m)
				if !ok || !a.isOC(info.TypeOf(x)) {
					continue
				}
				path := dmlNormPath(info, fd.Body, recv, x)
				if path == "recv" {
					continue
				}
				sets[m][path] = true
				any = true
			}
		}
		if !any || len(sets) < 3 {
			continue
		}
		union := map[string]bool{}
		for _, s := range sets {
			for k := range s {
				union[k] = true
			}
		}
		var all []string
		for k := range union {
			all = append(all, k)
		}
		sort.Strings(all)
		tkey := dmlTypeKey(et.nt)
		for _, m := range methods {
			var missing []string
			for _, k := range all {
				if !sets[m][k] {
					missing = append(missing, k)
				}
			}
			key := tkey + "/" + m
			switch {
			case len(missing) == 0:
				c.Ok("C15-S5", key, pos[m], "forwards to "+strings.Join(all, ", "))
			case c15S5Exceptions[key] != "" && !c.fixtureMode:
				c.Exc("C15-S5", key, pos[m], c15S5Exceptions[key])
			default:
				c.Bad("C15-S5", key, pos[m], fmt.Sprintf("%s.%s does not forward to %s although its sibling lifecycle methods do: that sub-editor's statement is never begun/discarded/completed", tkey, m, strings.Join(missing, ", ")))
			}
		}
	}
}
