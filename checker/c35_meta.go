package main

import (
	"fmt"
	"go/ast"
	"go/token"
	"go/types"
	"strings"
)

// C35-M1: the column flags announced to the client are independent functions of the column's
// attributes. In server.schemaToFields every `flags |= MySqlFlag_X` contribution must sit in the
// body of an `if` that is a direct statement of the per-column loop (not in an else / else-if arm
// of another contribution: that would suppress one flag whenever another applies), and its
// condition must test the attribute the flag announces.
var c35FlagAttr = map[string]string{
	"MySqlFlag_NOT_NULL_FLAG":       "!Nullable",
	"MySqlFlag_AUTO_INCREMENT_FLAG": "AutoIncrement",
	"MySqlFlag_PRI_KEY_FLAG":        "PrimaryKey",
	"MySqlFlag_UNSIGNED_FLAG":       "IsUnsigned",
}

func c35MetaFlags(c *Ctx) {
	c.Rule("C35-M1", "schemaToFields: each column flag (NOT_NULL, AUTO_INCREMENT, PRI_KEY, UNSIGNED) is contributed under its own attribute test, independently of the other flags (no else/else-if coupling)", 4)
	pk := c.P.Pkg("server")
	fd := c.P.Decl(LookupFunc(pk, "schemaToFields"))
	if fd == nil {
		c.Undecided("C35-M1", "schemaToFields", 0, "function not found")
		return
	}
	info := pk.TypesInfo
	parents := map[ast.Node]ast.Node{}
	var stack []ast.Node
	ast.Inspect(fd.Body, func(n ast.Node) bool {
		if n == nil {
			stack = stack[:len(stack)-1]
			return true
		}
		if len(stack) > 0 {
			parents[n] = stack[len(stack)-1]
		}
		stack = append(stack, n)
		return true
	})
	seen := map[string]bool{}
	ast.Inspect(fd.Body, func(n ast.Node) bool {
		as, ok := n.(*ast.AssignStmt)
		if !ok || len(as.Rhs) != 1 {
			return true
		}
		// flags = flags | K   or   flags |= K
		var kexpr ast.Expr
		if as.Tok == token.OR_ASSIGN {
			kexpr = as.Rhs[0]
		} else if be, ok := ast.Unparen(as.Rhs[0]).(*ast.BinaryExpr); ok && be.Op == token.OR {
			kexpr = be.Y
		}
		if kexpr == nil {
			return true
		}
		var kname string
		if se, ok := ast.Unparen(kexpr).(*ast.SelectorExpr); ok {
			if k, ok := info.Uses[se.Sel].(*types.Const); ok {
				kname = k.Name()
			}
		}
		want, tracked := c35FlagAttr[kname]
		if !tracked {
			return true
		}
		seen[kname] = true
		key := "schemaToFields/" + kname
		// enclosing if
		var ifs *ast.IfStmt
		var child ast.Node = as
		for p := parents[as]; p != nil; p = parents[p] {
			if is, ok := p.(*ast.IfStmt); ok {
				ifs = is
				break
			}
			child = p
		}
		if ifs == nil {
			c.Bad("C35-M1", key, as.Pos(), kname+" is contributed unconditionally")
			return true
		}
		inBody := child == ast.Node(ifs.Body)
		// the if itself must not be the else-arm of another if, and must be a direct statement of the loop body
		_, parentIsIf := parents[ifs].(*ast.IfStmt)
		cond := types.ExprString(ifs.Cond)
		condOK := false
		if strings.HasPrefix(want, "!") {
			condOK = strings.HasPrefix(cond, "!") && strings.HasSuffix(cond, "."+want[1:])
		} else {
			condOK = !strings.HasPrefix(cond, "!") && strings.Contains(cond, want)
		}
		switch {
		case !inBody:
			c.Bad("C35-M1", key, as.Pos(), kname+" is contributed in an else arm: the flag is announced exactly when another attribute test fails")
		case parentIsIf:
			c.Bad("C35-M1", key, as.Pos(), fmt.Sprintf("%s is contributed in an else-if arm of another flag's test: a column with both attributes is announced without %s (clients then decode its values with the wrong signedness/key information)", kname, kname))
		case !condOK:
			c.Bad("C35-M1", key, as.Pos(), fmt.Sprintf("%s is contributed under `%s`, expected a test of %s", kname, cond, want))
		default:
			c.Ok("C35-M1", key, as.Pos(), cond)
		}
		return true
	})
	for k := range c35FlagAttr {
		if !seen[k] {
			c.Bad("C35-M1", "schemaToFields/"+k, fd.Pos(), k+" is never contributed to the announced column flags")
		}
	}
}
