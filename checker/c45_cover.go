package main

import (
	"fmt"
	"go/ast"
	"go/constant"
	"go/token"
	"go/types"
	"sort"
	"strings"

	"golang.org/x/tools/go/packages"
)

// C45-T6: coverage agreement between the AST pass and the token pass.
//
// The redactor decides "is this keyword-typed token an identifier?" from a set collected out of
// the AST, and walks the text with the lexer until the lexer reports the end of input. Both
// passes must cover the same bytes: if the parser may succeed on a PREFIX of the text the token
// pass walks, (1) identifiers after the prefix are missing from the set, so those spelled like
// non-reserved keywords are written verbatim, and (2) text that does not parse after the prefix
// produces a redacted string instead of the unparseable marker (an unchecked error source, T3).
//
// Which parse entry points of the lexer package are whole-input parsers is READ from the
// lexer/parser source, not listed:
//   - the generated parser accepts only when the lexer reports token 0;
//   - Tokenizer.Scan returns the constant 0 at the end of the buffer, and additionally inside
//     `if tkn.<boolField>` blocks: those fields are the early-end modes (E0);
//   - a bool field under whose test an early-end field is set is an early-end mode too (closure);
//   - a function that stores a non-false value into an early-end field outside any test of an
//     early-end field switches the mode on ("origin"); every function that can reach an origin
//     through static calls may stop before the end of its text: a prefix parser;
//   - a whole-input parser must moreover hand its text parameter, unchanged, to a tokenizer
//     constructor (directly or through a function for which the same holds).
type c45Cover struct {
	c       *Ctx
	lex     *packages.Package
	tokT    *types.Named
	early   map[*types.Var]string // early-end mode field -> why
	origins map[*types.Func][]string
	prefix  map[*types.Func]string // function -> chain to an origin
	decls   map[*types.Func]*ast.FuncDecl
	covMemo map[string]int
	natural int
}

func c45FieldOf(info *types.Info, e ast.Expr, owner *types.Named) *types.Var {
	sel, ok := ast.Unparen(e).(*ast.SelectorExpr)
	if !ok {
		return nil
	}
	v, ok := info.Uses[sel.Sel].(*types.Var)
	if !ok || !v.IsField() {
		return nil
	}
	st, ok := owner.Underlying().(*types.Struct)
	if !ok {
		return nil
	}
	for i := 0; i < st.NumFields(); i++ {
		if st.Field(i) == v {
			return v
		}
	}
	return nil
}

func c45IsBool(t types.Type) bool {
	b, ok := t.Underlying().(*types.Basic)
	return ok && b.Info()&types.IsBoolean != 0
}

// c45WalkStack: ast.Inspect with the stack of enclosing nodes.
func c45WalkStack(root ast.Node, f func(n ast.Node, stack []ast.Node)) {
	var stack []ast.Node
	ast.Inspect(root, func(n ast.Node) bool {
		if n == nil {
			stack = stack[:len(stack)-1]
			return true
		}
		f(n, stack)
		stack = append(stack, n)
		return true
	})
}

// guardFields: the bool fields of the tokenizer tested by the `if` statements in whose THEN
// branch the node lies (innermost first).
func (cv *c45Cover) guardFields(n ast.Node, stack []ast.Node) []*types.Var {
	info := cv.lex.TypesInfo
	var out []*types.Var
	for i := len(stack) - 1; i >= 0; i-- {
		ifs, ok := stack[i].(*ast.IfStmt)
		if !ok {
			continue
		}
		if !(ifs.Body.Pos() <= n.Pos() && n.End() <= ifs.Body.End()) {
			continue
		}
		if f := c45FieldOf(info, ifs.Cond, cv.tokT); f != nil && c45IsBool(f.Type()) {
			out = append(out, f)
		}
	}
	return out
}

func c45NewCover(c *Ctx, lex *packages.Package, tokType string, scan *types.Func) (*c45Cover, error) {
	tn, _ := lex.Types.Scope().Lookup(tokType).(*types.TypeName)
	if tn == nil {
		return nil, fmt.Errorf("type %s not found in %s", tokType, lex.PkgPath)
	}
	named, _ := tn.Type().(*types.Named)
	if named == nil {
		return nil, fmt.Errorf("%s is not a named type", tokType)
	}
	cv := &c45Cover{c: c, lex: lex, tokT: named, early: map[*types.Var]string{}, origins: map[*types.Func][]string{},
		prefix: map[*types.Func]string{}, decls: map[*types.Func]*ast.FuncDecl{}, covMemo: map[string]int{}}
	info := lex.TypesInfo
	for _, file := range lex.Syntax {
		for _, d := range file.Decls {
			if fd, ok := d.(*ast.FuncDecl); ok && fd.Body != nil {
				if fn, ok := info.Defs[fd.Name].(*types.Func); ok {
					cv.decls[fn] = fd
				}
			}
		}
	}
	sd := cv.decls[scan]
	if sd == nil {
		return nil, fmt.Errorf("source of %s.Scan not loaded", tokType)
	}
	// E0: fields whose test guards a `return 0, …` of Scan
	nret := 0
	c45WalkStack(sd.Body, func(n ast.Node, stack []ast.Node) {
		ret, ok := n.(*ast.ReturnStmt)
		if !ok || len(ret.Results) == 0 {
			return
		}
		for _, s := range stack {
			if _, isLit := s.(*ast.FuncLit); isLit {
				return
			}
		}
		tv, ok := info.Types[ret.Results[0]]
		if !ok || tv.Value == nil || tv.Value.Kind() != constant.Int || constant.Sign(tv.Value) != 0 {
			return
		}
		nret++
		g := cv.guardFields(ret, stack)
		if len(g) == 0 {
			cv.natural++
			return
		}
		cv.early[g[0]] = "Scan returns token 0 under `if " + g[0].Name() + "`"
	})
	if nret == 0 || cv.natural == 0 {
		return nil, fmt.Errorf("%s.Scan: no unconditional end-of-input return (token 0) found (%d returns of 0)", tokType, nret)
	}
	// closure + origins
	type store struct {
		fn     *types.Func
		field  *types.Var
		guards []*types.Var
		pos    token.Pos
	}
	var stores []store
	for fn, fd := range cv.decls {
		c45WalkStack(fd.Body, func(n ast.Node, stack []ast.Node) {
			switch x := n.(type) {
			case *ast.AssignStmt:
				for i, l := range x.Lhs {
					f := c45FieldOf(info, l, cv.tokT)
					if f == nil || !c45IsBool(f.Type()) {
						continue
					}
					if len(x.Rhs) == len(x.Lhs) {
						if tv, ok := info.Types[x.Rhs[i]]; ok && tv.Value != nil && tv.Value.Kind() == constant.Bool && !constant.BoolVal(tv.Value) {
							continue // switched off
						}
					}
					stores = append(stores, store{fn, f, cv.guardFields(x, stack), x.Pos()})
				}
			case *ast.KeyValueExpr:
				id, ok := x.Key.(*ast.Ident)
				if !ok {
					return
				}
				f, ok := info.Uses[id].(*types.Var)
				if !ok || !f.IsField() || !c45IsBool(f.Type()) {
					return
				}
				if tv, ok := info.Types[x.Value]; ok && tv.Value != nil && tv.Value.Kind() == constant.Bool && !constant.BoolVal(tv.Value) {
					return
				}
				st := cv.tokT.Underlying().(*types.Struct)
				for i := 0; i < st.NumFields(); i++ {
					if st.Field(i) == f {
						stores = append(stores, store{fn, f, nil, x.Pos()})
					}
				}
			}
		})
	}
	for changed := true; changed; {
		changed = false
		for _, s := range stores {
			if _, isEarly := cv.early[s.field]; !isEarly {
				continue
			}
			for _, g := range s.guards {
				if _, ok := cv.early[g]; !ok {
					cv.early[g] = fmt.Sprintf("%s sets %s under `if %s`", FuncName(s.fn), s.field.Name(), g.Name())
					changed = true
				}
			}
		}
	}
	for _, s := range stores {
		if _, isEarly := cv.early[s.field]; !isEarly {
			continue
		}
		if len(s.guards) == 0 {
			cv.origins[s.fn] = append(cv.origins[s.fn], s.field.Name())
		}
	}
	// prefix functions: reach an origin through static calls
	calls := map[*types.Func][]*types.Func{}
	for fn, fd := range cv.decls {
		seen := map[*types.Func]bool{}
		ast.Inspect(fd.Body, func(n ast.Node) bool {
			if call, ok := n.(*ast.CallExpr); ok {
				if g := Callee(info, call); g != nil {
					g = g.Origin()
					if cv.decls[g] != nil && !seen[g] {
						seen[g] = true
						calls[fn] = append(calls[fn], g)
					}
				}
			}
			return true
		})
	}
	for fn, fs := range cv.origins {
		sort.Strings(fs)
		cv.prefix[fn] = FuncName(fn) + " switches on " + strings.Join(fs, ", ")
	}
	for changed := true; changed; {
		changed = false
		for fn, gs := range calls {
			if _, ok := cv.prefix[fn]; ok {
				continue
			}
			for _, g := range gs {
				if why, ok := cv.prefix[g]; ok {
					cv.prefix[fn] = FuncName(fn) + " -> " + why
					changed = true
					break
				}
			}
		}
	}
	return cv, nil
}

func (cv *c45Cover) isCtor(fn *types.Func) bool {
	if fn == nil || fn.Pkg() != cv.lex.Types {
		return false
	}
	sig := fn.Type().(*types.Signature)
	if sig.Recv() != nil {
		return false
	}
	for i := 0; i < sig.Results().Len(); i++ {
		if p, ok := sig.Results().At(i).Type().(*types.Pointer); ok && types.Identical(p.Elem(), cv.tokT) {
			return true
		}
	}
	return false
}

func c45IsStringT(t types.Type) bool {
	b, ok := t.Underlying().(*types.Basic)
	return ok && b.Info()&types.IsString != 0
}

// coversText: parameter idx of fn reaches a tokenizer constructor unchanged.
func (cv *c45Cover) coversText(fn *types.Func, idx int) bool {
	key := fmt.Sprintf("%p/%d", fn, idx)
	switch cv.covMemo[key] {
	case 1:
		return true
	case 2, 3:
		return false
	}
	cv.covMemo[key] = 3
	res := false
	defer func() {
		if res {
			cv.covMemo[key] = 1
		} else {
			cv.covMemo[key] = 2
		}
	}()
	fd := cv.decls[fn]
	if fd == nil {
		return false
	}
	sig := fn.Type().(*types.Signature)
	if idx >= sig.Params().Len() {
		return false
	}
	p := sig.Params().At(idx)
	info := cv.lex.TypesInfo
	reassigned := false
	ast.Inspect(fd.Body, func(n ast.Node) bool {
		switch x := n.(type) {
		case *ast.AssignStmt:
			for _, l := range x.Lhs {
				if id, ok := l.(*ast.Ident); ok && info.Uses[id] == p {
					reassigned = true
				}
			}
		case *ast.UnaryExpr:
			if id, ok := ast.Unparen(x.X).(*ast.Ident); ok && x.Op == token.AND && info.Uses[id] == p {
				reassigned = true
			}
		}
		return true
	})
	if reassigned {
		return false
	}
	ast.Inspect(fd.Body, func(n ast.Node) bool {
		call, ok := n.(*ast.CallExpr)
		if !ok || res {
			return !res
		}
		g := Callee(info, call)
		if g == nil {
			return true
		}
		for j, a := range call.Args {
			id, ok := ast.Unparen(a).(*ast.Ident)
			if !ok || info.Uses[id] != p {
				continue
			}
			if cv.isCtor(g) || cv.coversText(g.Origin(), j) {
				res = true
			}
		}
		return true
	})
	return res
}

func (cv *c45Cover) describe() string {
	var es []string
	for f, why := range cv.early {
		es = append(es, f.Name()+" ("+why+")")
	}
	sort.Strings(es)
	var os []string
	for fn, fs := range cv.origins {
		os = append(os, FuncName(fn)+"{"+strings.Join(fs, ",")+"}")
	}
	sort.Strings(os)
	return "early-end modes of the lexer: " + strings.Join(es, "; ") + " — switched on by: " + strings.Join(os, ", ")
}

func (t *c45Taint) ruleT6(lex *packages.Package, floor int) {
	c, info := t.c, t.pk.TypesInfo
	c.Rule("C45-T6", "the parse whose AST feeds the identifier set covers exactly the text the token pass walks: a whole-input parser of the lexer package (read from its source) over the same text value, or a prefix parser whose remainder result bounds the token pass / fails the call when input remains", floor)
	cv, err := c45NewCover(c, lex, t.cfg.lexerType, t.scan)
	if err != nil {
		c.Undecided("C45-T6", "lexer/early-end-modes", 0, err.Error())
		return
	}
	if len(cv.early) == 0 || len(cv.origins) == 0 {
		c.Note("C45-T6", "lexer/early-end-modes", t.scan.Pos(), "the lexer has no early-end mode: every parse entry point consumes its whole text")
	} else {
		c.Ok("C45-T6", "lexer/early-end-modes", t.scan.Pos(), cv.describe())
	}
	stmtT, _ := lex.Types.Scope().Lookup("Statement").(*types.TypeName)
	if stmtT == nil {
		c.Undecided("C45-T6", "lexer/Statement", 0, "type Statement not found in "+lex.PkgPath)
		return
	}
	isSet := func(tp types.Type) bool {
		m, ok := tp.Underlying().(*types.Map)
		if !ok || !c45IsStringT(m.Key()) {
			return false
		}
		st, ok := m.Elem().Underlying().(*types.Struct)
		return ok && st.NumFields() == 0
	}
	objOf := func(e ast.Expr) types.Object {
		if id, ok := ast.Unparen(e).(*ast.Ident); ok {
			return c45Obj(info, id)
		}
		return nil
	}
	nPass := 0
	c.P.EachFuncDecl([]string{t.cfg.rel}, func(_ *packages.Package, fd *ast.FuncDecl) {
		if fd.Body == nil {
			return
		}
		// the token pass: calls of Tokenizer.Scan
		var tkObj types.Object
		var scanPos token.Pos
		nScanRecv := 0
		ast.Inspect(fd.Body, func(n ast.Node) bool {
			call, ok := n.(*ast.CallExpr)
			if !ok || Callee(info, call) != t.scan {
				return true
			}
			if sel, ok := call.Fun.(*ast.SelectorExpr); ok {
				o := objOf(sel.X)
				if o == nil || (tkObj != nil && o != tkObj) {
					nScanRecv = 2
				} else if tkObj == nil {
					nScanRecv = 1
				}
				if o != nil {
					tkObj = o
				}
				scanPos = call.Pos()
			}
			return true
		})
		if scanPos == token.NoPos {
			return
		}
		nPass++
		name := DeclName(fd)
		if nScanRecv != 1 || tkObj == nil {
			c.Undecided("C45-T6", name+"/token-pass", scanPos, "the tokenizer whose Scan is called is not one local variable")
			return
		}
		// its construction
		var tokArg ast.Expr
		var tokCall *ast.CallExpr
		nDef := 0
		ast.Inspect(fd.Body, func(n ast.Node) bool {
			as, ok := n.(*ast.AssignStmt)
			if !ok {
				return true
			}
			for i, l := range as.Lhs {
				if objOf(l) != tkObj {
					continue
				}
				nDef++
				if len(as.Rhs) == len(as.Lhs) {
					if call, ok := ast.Unparen(as.Rhs[i]).(*ast.CallExpr); ok && cv.isCtor(Callee(info, call)) {
						for _, a := range call.Args {
							if c45IsStringT(info.TypeOf(a)) {
								tokArg, tokCall = a, call
							}
						}
					}
				}
			}
			return true
		})
		if nDef != 1 || tokArg == nil {
			c.Undecided("C45-T6", name+"/token-pass", scanPos, fmt.Sprintf("the tokenizer %s is not assigned exactly once from a constructor of %s taking the text", tkObj.Name(), lex.PkgPath))
			return
		}
		// the AST pass: calls of lexer-package functions returning a Statement
		type parse struct {
			call          *ast.CallExpr
			fn            *types.Func
			stmtI, remI   int
			textI         int
			lhs           []ast.Expr
			assignedByDef bool
		}
		var parses []parse
		ast.Inspect(fd.Body, func(n ast.Node) bool {
			as, ok := n.(*ast.AssignStmt)
			var call *ast.CallExpr
			var lhs []ast.Expr
			if ok && len(as.Rhs) == 1 {
				call, _ = ast.Unparen(as.Rhs[0]).(*ast.CallExpr)
				lhs = as.Lhs
			} else if vs, ok := n.(*ast.ValueSpec); ok && len(vs.Values) == 1 {
				call, _ = ast.Unparen(vs.Values[0]).(*ast.CallExpr)
				for _, id := range vs.Names {
					lhs = append(lhs, id)
				}
			}
			if call == nil {
				return true
			}
			fn := Callee(info, call)
			if fn == nil || fn.Pkg() != lex.Types {
				return true
			}
			sig := fn.Type().(*types.Signature)
			p := parse{call: call, fn: fn, stmtI: -1, remI: -1, textI: -1, lhs: lhs}
			for i := 0; i < sig.Results().Len(); i++ {
				rt := sig.Results().At(i).Type()
				if types.Identical(rt, stmtT.Type()) && p.stmtI < 0 {
					p.stmtI = i
				}
				if b, ok := rt.Underlying().(*types.Basic); ok && b.Info()&types.IsInteger != 0 && p.remI < 0 {
					p.remI = i
				}
			}
			if p.stmtI < 0 {
				return true
			}
			for i := 0; i < sig.Params().Len(); i++ {
				if c45IsStringT(sig.Params().At(i).Type()) && p.textI < 0 {
					p.textI = i
				}
			}
			parses = append(parses, p)
			return true
		})
		// unbound parse calls (result discarded / used inline) cannot be read
		nCalls := 0
		ast.Inspect(fd.Body, func(n ast.Node) bool {
			if call, ok := n.(*ast.CallExpr); ok {
				if fn := Callee(info, call); fn != nil && fn.Pkg() == lex.Types {
					sig := fn.Type().(*types.Signature)
					for i := 0; i < sig.Results().Len(); i++ {
						if types.Identical(sig.Results().At(i).Type(), stmtT.Type()) {
							nCalls++
							break
						}
					}
				}
			}
			return true
		})
		if len(parses) != 1 || nCalls != 1 {
			c.Undecided("C45-T6", name+"/parser", scanPos, fmt.Sprintf("%s walks the text with the lexer but has %d parse call(s) of %s (%d bound to variables); exactly one is expected to feed the identifier set", name, nCalls, lex.PkgPath, len(parses)))
			return
		}
		p := parses[0]
		pname := FuncName(p.fn)

		// (1) identifier set comes from that AST
		var stmtObj types.Object
		if p.stmtI < len(p.lhs) {
			stmtObj = objOf(p.lhs[p.stmtI])
		}
		setOK, setMsg := false, "no call passes an identifier set (map[string]struct{}) built from the parsed statement"
		var setPos token.Pos = p.call.Pos()
		ast.Inspect(fd.Body, func(n ast.Node) bool {
			call, ok := n.(*ast.CallExpr)
			if !ok {
				return true
			}
			for _, a := range call.Args {
				tv := info.TypeOf(a)
				if tv == nil || !isSet(tv) {
					continue
				}
				so := objOf(a)
				if so == nil {
					setMsg = "the identifier set passed to " + types.ExprString(call.Fun) + " is not a local variable"
					continue
				}
				// definitions of the set variable
				nd, good := 0, 0
				ast.Inspect(fd.Body, func(m ast.Node) bool {
					as, ok := m.(*ast.AssignStmt)
					if !ok {
						return true
					}
					for i, l := range as.Lhs {
						if objOf(l) != so {
							continue
						}
						nd++
						if len(as.Rhs) != len(as.Lhs) {
							continue
						}
						bc, ok := ast.Unparen(as.Rhs[i]).(*ast.CallExpr)
						if !ok {
							continue
						}
						if g := Callee(info, bc); g == nil || g.Pkg() != t.pk.Types {
							continue
						}
						for _, ba := range bc.Args {
							if stmtObj != nil && objOf(ba) == stmtObj {
								good++
							}
						}
					}
					return true
				})
				setPos = call.Pos()
				if nd == 1 && good == 1 {
					setOK = true
					setMsg = fmt.Sprintf("%s is built once by a package function from %s, the statement returned by %s", so.Name(), stmtObj.Name(), pname)
				} else {
					setOK = false
					setMsg = fmt.Sprintf("the identifier set %s is not built exactly once from the statement returned by %s (%d assignments, %d from that statement): keyword-typed identifiers of the walked text would miss the set", so.Name(), pname, nd, good)
					return false
				}
			}
			return true
		})
		if stmtObj != nil {
			// the statement variable must not be rebound
			n := 0
			ast.Inspect(fd.Body, func(m ast.Node) bool {
				if as, ok := m.(*ast.AssignStmt); ok {
					for _, l := range as.Lhs {
						if objOf(l) == stmtObj {
							n++
						}
					}
				}
				return true
			})
			if n > 1 {
				setOK, setMsg = false, fmt.Sprintf("the statement variable %s is assigned %d times; the identifier set may come from another AST", stmtObj.Name(), n)
			}
		}
		c.Check(setOK, "C45-T6", name+"/ident-set-from-ast", setPos, setMsg, name+": "+setMsg)

		// (2) the parser and (3) the text
		var textArg ast.Expr
		if p.textI >= 0 && p.textI < len(p.call.Args) {
			textArg = p.call.Args[p.textI]
		}
		textObj := types.Object(nil)
		if textArg != nil {
			textObj = objOf(textArg)
		}
		assignedAfter := func(o types.Object, after token.Pos) token.Pos {
			var at token.Pos
			ast.Inspect(fd.Body, func(m ast.Node) bool {
				switch x := m.(type) {
				case *ast.AssignStmt:
					for _, l := range x.Lhs {
						if objOf(l) == o && x.Pos() > after && x.Tok != token.DEFINE {
							at = x.Pos()
						}
					}
				case *ast.UnaryExpr:
					if x.Op == token.AND && objOf(x.X) == o {
						at = x.Pos()
					}
				case *ast.IncDecStmt:
					if objOf(x.X) == o {
						at = x.Pos()
					}
				}
				return true
			})
			return at
		}
		first := p.call.Pos()
		if tokCall.Pos() < first {
			first = tokCall.Pos()
		}
		why, isPrefix := cv.prefix[p.fn.Origin()]
		whole := !isPrefix && p.textI >= 0 && cv.coversText(p.fn.Origin(), p.textI)
		switch {
		case whole:
			c.Ok("C45-T6", name+"/parser", p.call.Pos(), fmt.Sprintf("%s is a whole-input parser: no early-end mode of the lexer is switched on in its call closure and its text parameter reaches a tokenizer constructor unchanged; trailing input makes it fail", pname))
			// same text value
			same := textObj != nil && objOf(tokArg) == textObj
			msg := ""
			if !same {
				msg = fmt.Sprintf("%s parses %s but the lexer walks %s: the AST pass and the token pass do not cover the same text", name, types.ExprString(textArg), types.ExprString(tokArg))
			} else if at := assignedAfter(textObj, first); at != token.NoPos {
				same = false
				msg = fmt.Sprintf("%s: %s is modified (%s) between/after the parse and the construction of the tokenizer; the two passes may cover different text", name, textObj.Name(), c.P.Rel(at))
			}
			c.Check(same, "C45-T6", name+"/same-text", tokCall.Pos(), fmt.Sprintf("%s and %s receive the same unmodified variable %s", pname, types.ExprString(tokCall.Fun), types.ExprString(tokArg)), msg)
		case !isPrefix:
			c.Undecided("C45-T6", name+"/parser", p.call.Pos(), fmt.Sprintf("%s: cannot establish that the text argument of %s reaches a tokenizer constructor unchanged (whole-input coverage unproved)", name, pname))
		default:
			// prefix parser
			var remObj types.Object
			remBlank := false
			if p.remI >= 0 && p.remI < len(p.lhs) {
				if id, ok := p.lhs[p.remI].(*ast.Ident); ok && id.Name == "_" {
					remBlank = true
				} else {
					remObj = objOf(p.lhs[p.remI])
				}
			}
			base := fmt.Sprintf("%s builds the identifier set from %s, which can succeed on a prefix of its text (%s), while the lexer walks %s to the end of input", name, pname, why, types.ExprString(tokArg))
			conseq := ": identifiers after the first statement that are spelled like non-reserved keywords miss the set and are written verbatim, and unparseable trailing text no longer yields the unparseable marker (an unchecked error source)"
			switch {
			case p.remI < 0:
				c.Bad("C45-T6", name+"/parser", p.call.Pos(), base+"; it reports no remainder position that could bound the token pass"+conseq)
			case remBlank || remObj == nil:
				c.Bad("C45-T6", name+"/parser", p.call.Pos(), base+"; its remainder position (result "+fmt.Sprint(p.remI)+") is discarded"+conseq)
			default:
				ok, how := t.remainderUsed(fd, p.call, remObj, textObj, tokArg)
				if ok {
					c.Ok("C45-T6", name+"/parser", p.call.Pos(), pname+" is a prefix parser; "+how)
					same := textObj != nil && assignedAfter(textObj, first) == token.NoPos
					c.Check(same, "C45-T6", name+"/same-text", tokCall.Pos(), "text variable unmodified", name+": the parsed text variable is modified between the two passes")
				} else {
					c.Bad("C45-T6", name+"/parser", p.call.Pos(), base+"; its remainder position "+remObj.Name()+" neither bounds the tokenizer's input ("+types.ExprString(tokArg)+") nor is compared with the length of the text on every path to a successful return"+conseq)
				}
			}
		}
	})
	if nPass == 0 {
		c.Undecided("C45-T6", "token-pass", 0, "no function of "+t.cfg.rel+" calls "+t.cfg.lexerType+".Scan")
	}
}

// remainderUsed: the remainder r of a prefix parser either bounds the tokenizer input
// (text[:r]) or is compared with len(text) in a condition every path from the parse call to a
// nil-error return passes through.
func (t *c45Taint) remainderUsed(fd *ast.FuncDecl, pcall *ast.CallExpr, rem, text types.Object, tokArg ast.Expr) (bool, string) {
	info := t.pk.TypesInfo
	objOf := func(e ast.Expr) types.Object {
		if id, ok := ast.Unparen(e).(*ast.Ident); ok {
			return c45Obj(info, id)
		}
		return nil
	}
	if sl, ok := ast.Unparen(tokArg).(*ast.SliceExpr); ok && text != nil && objOf(sl.X) == text && sl.High != nil && objOf(sl.High) == rem {
		lowZero := sl.Low == nil
		if !lowZero {
			if tv, ok := info.Types[sl.Low]; ok && tv.Value != nil && constant.Sign(tv.Value) == 0 {
				lowZero = true
			}
		}
		if lowZero {
			return true, "the token pass is bounded by its remainder position (" + types.ExprString(tokArg) + ")"
		}
	}
	if text == nil {
		return false, ""
	}
	isLenText := func(e ast.Expr) bool {
		call, ok := ast.Unparen(e).(*ast.CallExpr)
		return ok && IsBuiltinCall(info, call, "len") && len(call.Args) == 1 && objOf(call.Args[0]) == text
	}
	var conds []ast.Expr
	ast.Inspect(fd.Body, func(n ast.Node) bool {
		if be, ok := n.(*ast.BinaryExpr); ok {
			switch be.Op {
			case token.EQL, token.NEQ, token.LSS, token.GTR, token.LEQ, token.GEQ:
				if (objOf(be.X) == rem && isLenText(be.Y)) || (objOf(be.Y) == rem && isLenText(be.X)) {
					conds = append(conds, be)
				}
			}
		}
		return true
	})
	if len(conds) == 0 {
		return false, ""
	}
	g := t.c.P.CFG(info, fd.Body)
	from, ok := FindNode(g, pcall)
	if !ok {
		return false, ""
	}
	si, ei := c45StrErr(info.Defs[fd.Name].(*types.Func))
	barrier := func(n ast.Node) bool {
		for _, cnd := range conds {
			if n.Pos() <= cnd.Pos() && cnd.End() <= n.End() {
				return true
			}
		}
		return false
	}
	target := func(n ast.Node) bool {
		ret, ok := n.(*ast.ReturnStmt)
		if !ok {
			return false
		}
		if ei < 0 || si < 0 || len(ret.Results) <= ei {
			return true
		}
		return isNilIdent(info, ret.Results[ei])
	}
	if path := PathAvoiding(g, from, barrier, target, nil); path != nil {
		return false, ""
	}
	return true, "its remainder position is compared with the length of the text on every path to a successful return"
}
