package main

import (
	"fmt"
	"go/constant"
	"go/token"
	"go/types"
	"sort"
	"strings"

	"golang.org/x/tools/go/ssa"
)

// C09-E3 — computed IsNullable agrees with the structurally NULL configurations of Eval.
//
// Some expressions evaluate to the literal NULL for every row because of how the node is BUILT, not because of
// the data: a CASE without ELSE whose arms do not match, a function whose optional argument is absent. Such a
// return of the literal (nil, nil) is reached in Eval through branch conditions that only test the receiver's own
// fields (field == nil, len(field) == 0, a bool field) - no evaluated child value is consulted. Under that field
// configuration G the node yields NULL whatever the row is, so its IsNullable, folded under the same G, must return
// the constant true on every path: returning false - or merely the nullability of a child, which is false for a
// NOT NULL column - announces a NOT NULL column that carries NULL.
//
// Both sides are read from go/ssa: Eval's returns of two nil constants are reached by a path search that only crosses
// conditional branches whose condition is a field test (the path fixes their polarity: G); the zero-iteration exit of a
// `for range recv.field` loop is the test len(field) == 0. IsNullable is then walked with G fixed: field tests decided
// by G take one edge, everything else (child IsNullable calls) both; each reached return is classified
// TRUE / FALSE / CHILD (the result of an IsNullable call on a child) / UNKNOWN.

type c09Atom struct {
	path string // field access path from the receiver, "Else", "UnaryExpression.Child"
	kind string // "nil" | "empty" | "true"
}

type c09G map[c09Atom]bool

func (g c09G) String() string {
	var parts []string
	for a, v := range g {
		s := ""
		switch a.kind {
		case "nil":
			s = "recv." + a.path + " == nil"
			if !v {
				s = "recv." + a.path + " != nil"
			}
		case "empty":
			s = "len(recv." + a.path + ") == 0"
			if !v {
				s = "len(recv." + a.path + ") > 0"
			}
		default:
			s = "recv." + a.path
			if !v {
				s = "!recv." + a.path
			}
		}
		parts = append(parts, s)
	}
	sort.Strings(parts)
	if len(parts) == 0 {
		return "(unconditionally)"
	}
	return strings.Join(parts, " && ")
}

func (g c09G) key() string { return g.String() }

// lookup: value of the atom under g (with nil => empty), known?
func (g c09G) lookup(a c09Atom) (bool, bool) {
	if v, ok := g[a]; ok {
		return v, true
	}
	if a.kind == "empty" {
		if v, ok := g[c09Atom{a.path, "nil"}]; ok && v {
			return true, true
		}
	}
	if a.kind == "nil" {
		if v, ok := g[c09Atom{a.path, "empty"}]; ok && !v {
			return false, true
		}
	}
	return false, false
}

func (g c09G) with(a c09Atom, v bool) c09G {
	n := c09G{}
	for k, x := range g {
		n[k] = x
	}
	n[a] = v
	return n
}

type c09FieldReader struct {
	fn     *ssa.Function
	recv   *ssa.Parameter
	prefix string // access path of the method's receiver inside the analysed type (promoted methods)
	mut    map[string]bool
}

func c09NewFieldReader(fn *ssa.Function, prefix string) *c09FieldReader {
	r := &c09FieldReader{fn: fn, prefix: prefix, mut: map[string]bool{}}
	if len(fn.Params) > 0 && fn.Signature.Recv() != nil {
		r.recv = fn.Params[0]
	}
	if r.recv != nil {
		for _, b := range fn.Blocks {
			for _, in := range b.Instrs {
				if st, ok := in.(*ssa.Store); ok {
					if p, ok := r.addrPath(st.Addr, 0); ok && p != "" {
						r.mut[p] = true
					}
				}
			}
		}
	}
	return r
}

func (r *c09FieldReader) join(base, name string) string {
	if base == "" {
		return name
	}
	return base + "." + name
}

// addrPath: the receiver-relative access path an address denotes ("" = the receiver struct itself).
func (r *c09FieldReader) addrPath(v ssa.Value, depth int) (string, bool) {
	if depth > 8 || r.recv == nil {
		return "", false
	}
	switch x := v.(type) {
	case *ssa.Parameter:
		if x == r.recv {
			if _, isPtr := x.Type().Underlying().(*types.Pointer); isPtr {
				return r.prefix, true
			}
		}
	case *ssa.Alloc:
		// value receiver spilled to a local: exactly one store, of the receiver
		if refs := x.Referrers(); refs != nil {
			n := 0
			ok := false
			for _, ref := range *refs {
				if st, isSt := ref.(*ssa.Store); isSt && st.Addr == x {
					n++
					ok = st.Val == ssa.Value(r.recv)
				}
			}
			if n == 1 && ok {
				return r.prefix, true
			}
		}
	case *ssa.FieldAddr:
		base, ok := r.addrPath(x.X, depth+1)
		if !ok {
			return "", false
		}
		st := x.X.Type().Underlying().(*types.Pointer).Elem().Underlying().(*types.Struct)
		return r.join(base, st.Field(x.Field).Name()), true
	case *ssa.UnOp:
		// pointer-typed field followed: recv.p.f
		if x.Op == token.MUL {
			if _, isPtr := x.Type().Underlying().(*types.Pointer); isPtr {
				return r.addrPath(x.X, depth+1)
			}
		}
	}
	return "", false
}

// valuePath: the access path of a field VALUE (a load of a field address, or Field of the receiver value).
func (r *c09FieldReader) valuePath(v ssa.Value) (string, bool) {
	switch x := v.(type) {
	case *ssa.UnOp:
		if x.Op == token.MUL {
			if _, isFA := x.X.(*ssa.FieldAddr); isFA {
				return r.addrPath(x.X, 0)
			}
		}
	case *ssa.Field:
		var base string
		if x.X == ssa.Value(r.recv) {
			base = r.prefix
		} else if b, ok := r.valuePath(x.X); ok {
			base = b
		} else {
			return "", false
		}
		st := x.X.Type().Underlying().(*types.Struct)
		return r.join(base, st.Field(x.Field).Name()), true
	}
	return "", false
}

type c09Env map[ssa.Value]int64 // integer constants known along the current path (phis resolved by the edge taken)

func c09Int(v ssa.Value, env c09Env) (int64, bool) {
	switch x := v.(type) {
	case *ssa.Const:
		if x.Value != nil && x.Value.Kind() == constant.Int {
			if i, ok := constant.Int64Val(x.Value); ok {
				return i, true
			}
		}
	case *ssa.BinOp:
		a, ok1 := c09Int(x.X, env)
		b, ok2 := c09Int(x.Y, env)
		if ok1 && ok2 {
			switch x.Op {
			case token.ADD:
				return a + b, true
			case token.SUB:
				return a - b, true
			}
		}
	default:
		if i, ok := env[v]; ok {
			return i, true
		}
	}
	return 0, false
}

// atomOf classifies a branch condition: (atom, value of the atom when the condition is true).
func (r *c09FieldReader) atomOf(cond ssa.Value, env c09Env) (c09Atom, bool, bool) {
	switch x := cond.(type) {
	case *ssa.UnOp:
		if x.Op == token.NOT {
			a, v, ok := r.atomOf(x.X, env)
			return a, !v, ok
		}
		if x.Op == token.MUL {
			if b, ok := x.Type().Underlying().(*types.Basic); ok && b.Kind() == types.Bool {
				if p, ok := r.valuePath(x); ok && !r.mut[p] {
					return c09Atom{p, "true"}, true, true
				}
			}
		}
	case *ssa.Field:
		if b, ok := x.Type().Underlying().(*types.Basic); ok && b.Kind() == types.Bool {
			if p, ok := r.valuePath(x); ok {
				return c09Atom{p, "true"}, true, true
			}
		}
	case *ssa.BinOp:
		// field == nil / field != nil
		if x.Op == token.EQL || x.Op == token.NEQ {
			for _, pr := range [][2]ssa.Value{{x.X, x.Y}, {x.Y, x.X}} {
				if ngIsNilConst(pr[1]) {
					if p, ok := r.valuePath(pr[0]); ok && !r.mut[p] {
						return c09Atom{p, "nil"}, x.Op == token.EQL, true
					}
				}
			}
		}
		// len(field) <op> k
		lenOf := func(v ssa.Value) (string, bool) {
			call, ok := v.(*ssa.Call)
			if !ok || len(call.Call.Args) != 1 {
				return "", false
			}
			if b, ok := call.Call.Value.(*ssa.Builtin); !ok || b.Name() != "len" {
				return "", false
			}
			p, ok := r.valuePath(call.Call.Args[0])
			if !ok || r.mut[p] {
				return "", false
			}
			return p, true
		}
		op := x.Op
		lv, rv := x.X, x.Y
		p, ok := lenOf(lv)
		if !ok {
			if p2, ok2 := lenOf(rv); ok2 {
				p, ok = p2, true
				lv, rv = rv, lv
				op = ivFlip(op)
			}
		}
		if ok {
			if k, isK := c09Int(rv, env); isK {
				// len op k, len >= 0: which of these is exactly "len == 0" / "len > 0"?
				switch {
				case op == token.EQL && k == 0, op == token.LEQ && k == 0, op == token.LSS && k == 1:
					return c09Atom{p, "empty"}, true, true
				case op == token.NEQ && k == 0, op == token.GTR && k == 0, op == token.GEQ && k == 1:
					return c09Atom{p, "empty"}, false, true
				}
			}
		}
	}
	return c09Atom{}, false, false
}

// step resolves the phis of block `to` for the edge from->to into env (integer constants only).
func c09Step(from, to *ssa.BasicBlock, env c09Env) c09Env {
	idx := -1
	for i, p := range to.Preds {
		if p == from {
			idx = i
		}
	}
	var out c09Env
	for _, in := range to.Instrs {
		phi, ok := in.(*ssa.Phi)
		if !ok {
			break
		}
		if out == nil {
			out = c09Env{}
			for k, v := range env {
				out[k] = v
			}
		}
		delete(out, phi)
		if idx >= 0 {
			if k, ok := c09Int(phi.Edges[idx], env); ok {
				out[phi] = k
			}
		}
	}
	if out == nil {
		return env
	}
	return out
}

// c09RetVal resolves a result of a Return: in functions with defer, go/ssa stores the results into locals, runs the
// deferred calls and returns loads of those locals; the value is then the last store to the local in the same block.
func c09RetVal(ret *ssa.Return, i int) ssa.Value {
	v := ret.Results[i]
	ld, ok := v.(*ssa.UnOp)
	if !ok || ld.Op != token.MUL {
		return v
	}
	al, ok := ld.X.(*ssa.Alloc)
	if !ok {
		return v
	}
	b := ret.Block()
	pos := -1
	for j, in := range b.Instrs {
		if in == ssa.Instruction(ld) {
			pos = j
		}
	}
	for j := pos - 1; j >= 0; j-- {
		switch x := b.Instrs[j].(type) {
		case *ssa.Store:
			if x.Addr == ssa.Value(al) {
				return x.Val
			}
		case *ssa.RunDefers:
			// a deferred closure could assign a named result: only when the local is captured
			if refs := al.Referrers(); refs != nil {
				for _, r := range *refs {
					if _, isClosure := r.(*ssa.MakeClosure); isClosure {
						return v
					}
				}
			}
		}
	}
	return v
}

// c09NilConfigs: the field configurations under which Eval reaches a return of the literal (nil, nil) crossing only
// field tests.
func c09NilConfigs(p *Prog, fn *ssa.Function, r *c09FieldReader) (configs []c09G, where []token.Pos) {
	if len(fn.Blocks) == 0 {
		return
	}
	seenCfg := map[string]bool{}
	type state struct {
		b   *ssa.BasicBlock
		g   c09G
		env c09Env
	}
	visited := map[string]bool{}
	var walk func(s state, depth int)
	walk = func(s state, depth int) {
		if depth > 64 {
			return
		}
		key := fmt.Sprintf("%d|%s|%v", s.b.Index, s.g.key(), s.env)
		if visited[key] {
			return
		}
		visited[key] = true
		last := s.b.Instrs[len(s.b.Instrs)-1]
		switch x := last.(type) {
		case *ssa.Return:
			if len(x.Results) == 2 && ngIsNilConst(c09RetVal(x, 0)) && ngIsNilConst(c09RetVal(x, 1)) {
				if !seenCfg[s.g.key()] {
					seenCfg[s.g.key()] = true
					configs = append(configs, s.g)
					where = append(where, x.Pos())
				}
			}
		case *ssa.Jump:
			walk(state{s.b.Succs[0], s.g, c09Step(s.b, s.b.Succs[0], s.env)}, depth+1)
		case *ssa.If:
			a, whenTrue, ok := r.atomOf(x.Cond, s.env)
			if !ok {
				// a constant condition along this path (e.g. 1 < 0)?
				return // data-dependent branch: paths through it are not structural
			}
			for i, succ := range s.b.Succs {
				condVal := i == 0
				atomVal := whenTrue == condVal
				if v, known := s.g.lookup(a); known {
					if v != atomVal {
						continue
					}
					walk(state{succ, s.g, c09Step(s.b, succ, s.env)}, depth+1)
				} else {
					walk(state{succ, s.g.with(a, atomVal), c09Step(s.b, succ, s.env)}, depth+1)
				}
			}
		}
	}
	walk(state{fn.Blocks[0], c09G{}, c09Env{}}, 0)
	return
}

// c09FoldNullable walks IsNullable under G; returns the classes of the reachable returns with a description.
func c09FoldNullable(p *Prog, fn *ssa.Function, r *c09FieldReader, g c09G, nullableM string, assume ...string) (classes map[string][]string) {
	assumed := func(v ssa.Value) bool { // v is `recv.<assumed child>.IsNullable()`
		call, ok := v.(*ssa.Call)
		if !ok || !call.Call.IsInvoke() || call.Call.Method.Name() != nullableM || len(assume) == 0 {
			return false
		}
		pth, ok := r.valuePath(call.Call.Value)
		return ok && pth == assume[0]
	}
	classes = map[string][]string{}
	if len(fn.Blocks) == 0 {
		classes["UNKNOWN"] = append(classes["UNKNOWN"], "no body")
		return
	}
	type state struct {
		b    *ssa.BasicBlock
		pred *ssa.BasicBlock
		g    c09G
		env  c09Env
	}
	visited := map[string]bool{}
	var classify func(v ssa.Value, b, pred *ssa.BasicBlock, g c09G, depth int) string
	classify = func(v ssa.Value, b, pred *ssa.BasicBlock, g c09G, depth int) string {
		if depth > 6 {
			return "UNKNOWN"
		}
		switch x := v.(type) {
		case *ssa.Const:
			if x.Value != nil && x.Value.Kind() == constant.Bool {
				if constant.BoolVal(x.Value) {
					return "TRUE"
				}
				return "FALSE"
			}
		case *ssa.Phi:
			if x.Block() == b && pred != nil {
				for i, p := range b.Preds {
					if p == pred {
						return classify(x.Edges[i], pred, nil, g, depth+1)
					}
				}
			}
			return "UNKNOWN"
		case *ssa.Call:
			if assumed(x) {
				return "TRUE"
			}
			if x.Call.IsInvoke() && x.Call.Method.Name() == nullableM {
				// IsNullable of a child: false for a NOT NULL child. If G says that child is nil the call cannot be reached.
				pth, ok := r.valuePath(x.Call.Value)
				if ok {
					if isNil, known := g.lookup(c09Atom{pth, "nil"}); known && isNil {
						return "INFEASIBLE"
					}
					return "CHILD"
				}
				return "CHILD?" // a child reached through a collection / local: which one is not read
			}
		case *ssa.UnOp:
			if x.Op == token.NOT {
				switch classify(x.X, b, pred, g, depth+1) {
				case "TRUE":
					return "FALSE"
				case "FALSE":
					return "TRUE"
				case "CHILD":
					return "CHILD"
				}
			}
		}
		if a, whenTrue, ok := r.atomOf(v, nil); ok {
			if val, known := g.lookup(a); known {
				if val == whenTrue {
					return "TRUE"
				}
				return "FALSE"
			}
		}
		return "UNKNOWN"
	}
	var walk func(s state, depth int)
	walk = func(s state, depth int) {
		if depth > 64 {
			classes["UNKNOWN"] = append(classes["UNKNOWN"], "path too long")
			return
		}
		predIdx := -1
		if s.pred != nil {
			predIdx = s.pred.Index
		}
		key := fmt.Sprintf("%d|%d|%s|%v", s.b.Index, predIdx, s.g.key(), s.env)
		if visited[key] {
			return
		}
		visited[key] = true
		// a method call or field access through a field that G says is nil panics: the configuration is one that
		// IsNullable itself does not support, the path ends
		for _, in := range s.b.Instrs {
			var through ssa.Value
			switch x := in.(type) {
			case *ssa.Call:
				if x.Call.IsInvoke() {
					through = x.Call.Value
				} else if x.Call.Signature().Recv() != nil && len(x.Call.Args) > 0 {
					if _, isPtr := x.Call.Args[0].Type().Underlying().(*types.Pointer); isPtr {
						through = nil // calling a pointer method on nil does not panic by itself
					}
				}
			case *ssa.FieldAddr:
				through = x.X
			}
			if through != nil {
				if pth, ok := r.valuePath(through); ok {
					if isNil, known := s.g.lookup(c09Atom{pth, "nil"}); known && isNil {
						classes["PANIC"] = append(classes["PANIC"], p.Rel(in.Pos()))
						return
					}
				}
			}
		}
		last := s.b.Instrs[len(s.b.Instrs)-1]
		switch x := last.(type) {
		case *ssa.Return:
			if len(x.Results) != 1 {
				return
			}
			cl := classify(c09RetVal(x, 0), s.b, s.pred, s.g, 0)
			classes[cl] = append(classes[cl], p.Rel(x.Pos()))
		case *ssa.Jump:
			walk(state{s.b.Succs[0], s.b, s.g, c09Step(s.b, s.b.Succs[0], s.env)}, depth+1)
		case *ssa.If:
			a, whenTrue, ok := r.atomOf(x.Cond, s.env)
			condV, neg := x.Cond, false
			if u, isNot := condV.(*ssa.UnOp); isNot && u.Op == token.NOT {
				condV, neg = u.X, true
			}
			for i, succ := range s.b.Succs {
				g2 := s.g
				if assumed(condV) && (i == 0) == neg {
					continue // the assumed child is nullable: only the edge on which its IsNullable() is true
				}
				if ok {
					atomVal := whenTrue == (i == 0)
					if v, known := s.g.lookup(a); known {
						if v != atomVal {
							continue
						}
					} else {
						g2 = s.g.with(a, atomVal)
					}
				} else if k, isConst := x.Cond.(*ssa.Const); isConst && k.Value != nil && k.Value.Kind() == constant.Bool {
					if constant.BoolVal(k.Value) != (i == 0) {
						continue
					}
				}
				walk(state{succ, s.b, g2, c09Step(s.b, succ, s.env)}, depth+1)
			}
		}
	}
	walk(state{fn.Blocks[0], nil, g, c09Env{}}, 0)
	return
}

// c09E3Exceptions: type -> reason (one symbol each).
var c09E3Exceptions = map[string]string{}

// c09EmbedPrefix: the access path of the struct that declares method m inside type T ("" when T declares it).
func c09EmbedPrefix(T types.Type, pkg *types.Package, name string) (string, bool) {
	_, index, _ := types.LookupFieldOrMethod(T, true, pkg, name)
	if len(index) == 0 {
		return "", false
	}
	t := T
	var parts []string
	for _, i := range index[:len(index)-1] {
		if p, ok := t.Underlying().(*types.Pointer); ok {
			t = p.Elem()
		}
		st, ok := t.Underlying().(*types.Struct)
		if !ok {
			return "", false
		}
		parts = append(parts, st.Field(i).Name())
		t = st.Field(i).Type()
	}
	return strings.Join(parts, "."), true
}

// c09CheckFieldNull decides E3 for one implementation with a computed IsNullable.
func c09CheckFieldNull(c *Ctx, key string, T types.Type, pkg *types.Package, nullable, eval *types.Func, cfg c09Config) {
	nsf := c.P.SSAFunc(nullable)
	esf := c.P.SSAFunc(eval)
	if nsf == nil || esf == nil || len(nsf.Blocks) == 0 || len(esf.Blocks) == 0 {
		return
	}
	ep, ok1 := c09EmbedPrefix(T, pkg, cfg.EvalM)
	np, ok2 := c09EmbedPrefix(T, pkg, cfg.NullableM)
	if !ok1 || !ok2 {
		return
	}
	er := c09NewFieldReader(esf, ep)
	configs, where := c09NilConfigs(c.P, esf, er)
	if len(configs) == 0 {
		return
	}
	nr := c09NewFieldReader(nsf, np)
	for i, g := range configs {
		k := key
		if len(configs) > 1 {
			k = key + " [" + g.String() + "]"
		}
		// fields tested by G must not be written by either method
		classes := c09FoldNullable(c.P, nsf, nr, g, cfg.NullableM)
		var bad []string
		for _, cl := range []string{"FALSE", "CHILD"} {
			for _, at := range classes[cl] {
				what := "returns false"
				if cl == "CHILD" {
					what = "returns the nullability of a child (false for a NOT NULL child)"
				}
				bad = append(bad, fmt.Sprintf("%s: IsNullable %s under this configuration", at, what))
			}
		}
		switch {
		case len(bad) > 0:
			if why, ok := c09E3Exceptions[k]; ok && !c.fixtureMode {
				c.Exc("C09-E3", k, where[i], why)
				continue
			}
			c.Bad("C09-E3", k, where[i], fmt.Sprintf("%s: when %s, Eval (%s) returns the literal NULL for every row (no evaluated value is consulted on the way), but IsNullable (%s) does not return true under the same condition: the column is announced NOT NULL and carries NULL",
				key, g, c.P.Rel(where[i]), c.P.Rel(nullable.Pos())), bad...)
		case len(classes["PANIC"]) > 0:
			c.Note("C09-E3", k, where[i], fmt.Sprintf("not applicable: when %s Eval has a (defensive) return of the literal NULL, but IsNullable dereferences the nil field under that configuration (%v): the type does not support it", g, classes["PANIC"]))
		case len(classes["UNKNOWN"]) > 0:
			c.Note("C09-E3", k, where[i], fmt.Sprintf("not decided: when %s Eval returns the literal NULL, IsNullable reaches a return that is not read (%v)", g, classes["UNKNOWN"]))
		case len(classes["TRUE"]) == 0:
			c.Note("C09-E3", k, where[i], fmt.Sprintf("not decided: when %s Eval returns the literal NULL, no return of IsNullable is reachable under that configuration", g))
		default:
			c.Ok("C09-E3", k, where[i], fmt.Sprintf("when %s Eval returns the literal NULL and IsNullable returns true on every path (%d)", g, len(classes["TRUE"])))
		}
	}
}
