package main

import (
	"fmt"
	"go/token"
	"go/types"
	"sort"

	"golang.org/x/tools/go/packages"
	"golang.org/x/tools/go/ssa"
)

// C16-V1 — row form. The in-memory backend keeps two shapes of a table row: the full,
// schema-shaped row (what sql.Expression / GetField ordinals refer to) and the storage row (the
// full row with the VIRTUAL generated columns dropped, produced by the storage projection).
// Index key tuples are built by evaluating the index expressions on a row, so that row must be
// the full one; the partitions hold storage rows.
//
//	projection  = function of the package with a Row parameter and a single Row result whose body
//	              reads sql.Column.Virtual (toStorageRow), closed under "returns the result of a projection"
//	full sink   = Row parameter of a package function that flows (SSA: identity, phi, re-slice, cells)
//	              into the row argument of sql.Expression.Eval, closed over static calls
//	              (rowToIndexStorage.row <- addRowToIndexes.row <- insertHelper.row <- …)
//	V1 instance = every static call in the package that passes a value to a full sink, and every direct
//	              Expression.Eval(ctx, row): no reaching definition of the argument is a projection result
//	V1 store    = every Row stored into (a slice of) a value of the partitions type: its reaching
//	              definitions are disjoint from those of every full-sink argument of the same function
//	              (one value cannot be both the stored and the schema-shaped row)
type c16RowForm struct {
	c       *Ctx
	pk      *packages.Package
	rowT    types.Type
	partT   types.Type
	proj    map[*ssa.Function]bool
	sinks   map[*ssa.Function]map[int]string // function -> param index -> why
	evalItf *types.Func
}

func c16RowFormRule(c *Ctx, p c16Params, pk *packages.Package, rowT, partT types.Type, floor int) {
	const rule = "C16-V1"
	c.Rule(rule, "row form: no row argument of sql.Expression.Eval or of a function that forwards it there (index key construction: addRowToIndexes -> rowToIndexStorage) is, on any SSA reaching definition, the result of the storage projection (toStorageRow: VIRTUAL columns dropped, ordinals shifted); a Row stored into partitions never shares a reaching definition with such an argument", floor)
	rowPk := c.P.Pkg(p.rowRel)
	var virtualF *types.Var
	if ctn, _ := rowPk.Types.Scope().Lookup("Column").(*types.TypeName); ctn != nil {
		if st, _ := ctn.Type().Underlying().(*types.Struct); st != nil {
			for i := 0; i < st.NumFields(); i++ {
				if st.Field(i).Name() == "Virtual" {
					virtualF = st.Field(i)
				}
			}
		}
	}
	var evalM *types.Func
	if etn, _ := rowPk.Types.Scope().Lookup("Expression").(*types.TypeName); etn != nil {
		obj, _, _ := types.LookupFieldOrMethod(etn.Type(), false, rowPk.Types, "Eval")
		evalM, _ = obj.(*types.Func)
	}
	if virtualF == nil || evalM == nil {
		c.Undecided(rule, "anchors", 0, "sql.Column.Virtual or sql.Expression.Eval not found")
		return
	}
	c.P.SSA()
	sp := c.P.ssaPkgs[pk.Types]
	if sp == nil {
		c.Undecided(rule, "ssa", 0, "no SSA for package "+p.rel)
		return
	}
	rf := &c16RowForm{c: c, pk: pk, rowT: rowT, partT: partT, proj: map[*ssa.Function]bool{}, sinks: map[*ssa.Function]map[int]string{}, evalItf: evalM}

	// all functions of the package (methods, anonymous functions included)
	var fns []*ssa.Function
	seen := map[*ssa.Function]bool{}
	var addFn func(f *ssa.Function)
	addFn = func(f *ssa.Function) {
		if f == nil || seen[f] || f.Blocks == nil {
			return
		}
		seen[f] = true
		fns = append(fns, f)
		for _, a := range f.AnonFuncs {
			addFn(a)
		}
	}
	for _, m := range sp.Members {
		switch x := m.(type) {
		case *ssa.Function:
			addFn(x)
		case *ssa.Type:
			for _, t := range []types.Type{x.Type(), types.NewPointer(x.Type())} {
				ms := c.P.ssaProg.MethodSets.MethodSet(t)
				for i := 0; i < ms.Len(); i++ {
					if f := c.P.ssaProg.MethodValue(ms.At(i)); f != nil && f.Pkg == sp && f.Synthetic == "" {
						addFn(f)
					}
				}
			}
		}
	}
	sort.Slice(fns, func(i, j int) bool { return fns[i].Pos() < fns[j].Pos() })

	isRow := func(t types.Type) bool { return types.Identical(t, rowT) }

	// ---- projections --------------------------------------------------------------------
	for _, f := range fns {
		sig := f.Signature
		if sig.Results().Len() != 1 || !isRow(sig.Results().At(0).Type()) {
			continue
		}
		hasRowParam := false
		for i := 0; i < sig.Params().Len(); i++ {
			if isRow(sig.Params().At(i).Type()) {
				hasRowParam = true
			}
		}
		if !hasRowParam {
			continue
		}
		reads := false
		for _, b := range f.Blocks {
			for _, in := range b.Instrs {
				switch x := in.(type) {
				case *ssa.FieldAddr:
					if st, ok := x.X.Type().Underlying().(*types.Pointer).Elem().Underlying().(*types.Struct); ok && st.Field(x.Field) == virtualF {
						reads = true
					}
				case *ssa.Field:
					if st, ok := x.X.Type().Underlying().(*types.Struct); ok && st.Field(x.Field) == virtualF {
						reads = true
					}
				}
			}
		}
		if reads {
			rf.proj[f] = true
		}
	}
	if len(rf.proj) == 0 {
		c.Undecided(rule, "storage-projection", 0, "no function (Row) Row reading sql.Column.Virtual found in package "+p.rel+": the storage projection is not where the rule expects it")
		return
	}
	// closure: a function returning the result of a projection is a projection
	for changed := true; changed; {
		changed = false
		for _, f := range fns {
			if rf.proj[f] || f.Signature.Results().Len() == 0 {
				continue
			}
			for _, b := range f.Blocks {
				ret, ok := b.Instrs[len(b.Instrs)-1].(*ssa.Return)
				if !ok {
					continue
				}
				for _, r := range ret.Results {
					if !isRow(r.Type()) {
						continue
					}
					if len(rf.projOrigins(r)) > 0 {
						rf.proj[f] = true
						changed = true
					}
				}
			}
		}
	}
	var pnames []string
	for f := range rf.proj {
		pnames = append(pnames, f.RelString(sp.Pkg))
	}
	sort.Strings(pnames)
	c.Notef("C16-V1 storage projections: %v", pnames)

	// ---- full sinks (closure over static calls) -------------------------------------------
	type use struct {
		caller *ssa.Function
		pos    token.Pos
		callee string
		arg    ssa.Value
	}
	var uses []use
	collect := func() {
		uses = uses[:0]
		for _, f := range fns {
			for _, b := range f.Blocks {
				for _, in := range b.Instrs {
					ci, ok := in.(ssa.CallInstruction)
					if !ok {
						continue
					}
					com := ci.Common()
					if com.IsInvoke() {
						if com.Method == evalM || (com.Method.Name() == "Eval" && rf.implementsEval(com.Method)) {
							for _, a := range com.Args {
								if isRow(a.Type()) {
									uses = append(uses, use{f, ci.Pos(), "sql.Expression.Eval", a})
								}
							}
						}
						continue
					}
					callee := com.StaticCallee()
					if callee == nil {
						continue
					}
					if callee.Object() != nil && callee.Name() == "Eval" {
						if fo, ok := callee.Object().(*types.Func); ok && rf.implementsEval(fo) {
							args := com.Args
							for _, a := range args {
								if isRow(a.Type()) {
									uses = append(uses, use{f, ci.Pos(), "sql.Expression.Eval", a})
								}
							}
							continue
						}
					}
					ps := rf.sinks[callee]
					if ps == nil {
						continue
					}
					for i, a := range com.Args {
						if _, ok := ps[i]; ok {
							uses = append(uses, use{f, ci.Pos(), callee.RelString(sp.Pkg), a})
						}
					}
				}
			}
		}
	}
	for round := 0; round < 20; round++ {
		collect()
		grew := false
		for _, u := range uses {
			for _, o := range rf.origins(u.arg) {
				par, ok := o.(*ssa.Parameter)
				if !ok || !isRow(par.Type()) {
					continue
				}
				pf := par.Parent()
				idx := -1
				for i, q := range pf.Params {
					if q == par {
						idx = i
					}
				}
				if idx < 0 {
					continue
				}
				if rf.sinks[pf] == nil {
					rf.sinks[pf] = map[int]string{}
				}
				if _, ok := rf.sinks[pf][idx]; !ok {
					rf.sinks[pf][idx] = u.callee
					grew = true
				}
			}
		}
		if !grew {
			break
		}
	}
	collect()
	var snames []string
	for f, ps := range rf.sinks {
		for i, why := range ps {
			snames = append(snames, fmt.Sprintf("%s.%s->%s", f.RelString(sp.Pkg), f.Params[i].Name(), why))
		}
	}
	sort.Strings(snames)
	c.Notef("C16-V1 schema-shaped row parameters (forwarded to Expression.Eval): %v", snames)

	// ---- V1 instances ---------------------------------------------------------------------
	fullOrigins := map[*ssa.Function]map[ssa.Value]string{}
	for _, u := range uses {
		key := fmt.Sprintf("%s/%s", u.caller.RelString(sp.Pkg), u.callee)
		bad := rf.projOrigins(u.arg)
		if fullOrigins[u.caller] == nil {
			fullOrigins[u.caller] = map[ssa.Value]string{}
		}
		for _, o := range rf.origins(u.arg) {
			fullOrigins[u.caller][o] = u.callee
		}
		if len(bad) == 0 {
			c.Ok(rule, key, u.pos, "row argument is never a storage-projection result")
			continue
		}
		var path []string
		for _, b := range bad {
			path = append(path, fmt.Sprintf("%s: %s", c.P.Rel(b.Pos()), b.String()))
		}
		c.Bad(rule, key, u.pos, fmt.Sprintf("%s passes to %s a row that can be the result of the storage projection %v (VIRTUAL columns dropped): the expressions evaluated on it address columns by their ordinal in the full schema, so index keys are built from shifted columns",
			u.caller.RelString(sp.Pkg), u.callee, pnames), path...)
	}

	// ---- V1 stores ------------------------------------------------------------------------
	for _, f := range fns {
		for _, b := range f.Blocks {
			for _, in := range b.Instrs {
				st, ok := in.(*ssa.Store)
				if !ok || !isRow(st.Val.Type()) {
					continue
				}
				ia, ok := st.Addr.(*ssa.IndexAddr)
				if !ok || !rf.intoPartitions(ia.X, 0) {
					continue
				}
				key := f.RelString(sp.Pkg) + "/partition row store (element)"
				if _, viaAppend := ia.X.(*ssa.Alloc); viaAppend {
					key = f.RelString(sp.Pkg) + "/partition row store (append)"
				}
				conflict := ""
				for _, o := range rf.origins(st.Val) {
					if call, isCall := o.(*ssa.Call); isCall {
						if cal := call.Common().StaticCallee(); cal != nil && rf.proj[cal] {
							continue // a projection result is the right thing to store; its use as a sink argument is reported there
						}
					}
					if callee, ok := fullOrigins[f][o]; ok {
						if _, isConst := o.(*ssa.Const); !isConst {
							conflict = fmt.Sprintf("`%s` (also passed to %s)", o.String(), callee)
						}
					}
				}
				c.Check(conflict == "", rule, key, st.Pos(), "stored row shares no definition with a schema-shaped row argument",
					fmt.Sprintf("%s stores into the partitions the same row value %s as a schema-shaped row: partitions hold storage rows (VIRTUAL columns dropped), so either the stored row or the index keys use the wrong ordinals", f.RelString(sp.Pkg), conflict))
			}
		}
	}
}

// implementsEval: fn is sql.Expression.Eval or the Eval method of a type/interface that satisfies sql.Expression.
func (rf *c16RowForm) implementsEval(fn *types.Func) bool {
	if fn == rf.evalItf {
		return true
	}
	sig, _ := fn.Type().(*types.Signature)
	if sig == nil || sig.Recv() == nil {
		return false
	}
	itf, _ := rf.evalItf.Type().(*types.Signature).Recv().Type().Underlying().(*types.Interface)
	if itf == nil {
		// method of interface: receiver type is the interface's named type
		return false
	}
	return types.Implements(sig.Recv().Type(), itf) || types.Implements(types.NewPointer(sig.Recv().Type()), itf)
}

// origins: terminal definitions of a value, backwards through phi, re-slice, type changes, tuple
// extraction and loads of local variables (all stores to the alloc).
func (rf *c16RowForm) origins(v ssa.Value) []ssa.Value {
	var out []ssa.Value
	seen := map[ssa.Value]bool{}
	var walk func(v ssa.Value)
	walk = func(v ssa.Value) {
		if v == nil || seen[v] {
			return
		}
		seen[v] = true
		switch x := v.(type) {
		case *ssa.Phi:
			for _, e := range x.Edges {
				walk(e)
			}
		case *ssa.Slice:
			walk(x.X)
		case *ssa.ChangeType:
			walk(x.X)
		case *ssa.Extract:
			out = append(out, x.Tuple)
			// a projection in a tuple position is not modelled; the call itself is the origin
		case *ssa.UnOp:
			if x.Op == token.MUL {
				if a, ok := x.X.(*ssa.Alloc); ok {
					n := 0
					for _, r := range *a.Referrers() {
						if st, ok := r.(*ssa.Store); ok && st.Addr == a {
							walk(st.Val)
							n++
						}
					}
					if n > 0 {
						return
					}
				}
			}
			out = append(out, v)
		default:
			out = append(out, v)
		}
	}
	walk(v)
	return out
}

// projOrigins: those origins of v that are calls of a storage projection.
func (rf *c16RowForm) projOrigins(v ssa.Value) []ssa.Value {
	var out []ssa.Value
	for _, o := range rf.origins(v) {
		if call, ok := o.(*ssa.Call); ok {
			if callee := call.Common().StaticCallee(); callee != nil && rf.proj[callee] {
				out = append(out, o)
			}
		}
	}
	return out
}

// intoPartitions: x (the slice/array an element is stored into) belongs to a value of the
// partitions type: partitions[k][i] = row, or the variadic array of append(partitions[k], row).
func (rf *c16RowForm) intoPartitions(x ssa.Value, depth int) bool {
	if depth > 6 {
		return false
	}
	switch y := x.(type) {
	case *ssa.Lookup:
		return types.Identical(y.X.Type(), rf.partT)
	case *ssa.Phi:
		for _, e := range y.Edges {
			if rf.intoPartitions(e, depth+1) {
				return true
			}
		}
	case *ssa.Slice:
		return rf.intoPartitions(y.X, depth+1)
	case *ssa.Alloc:
		// varargs array: &[1]Row -> Slice -> append(first, slice) with first from partitions
		for _, r := range *y.Referrers() {
			sl, ok := r.(*ssa.Slice)
			if !ok {
				continue
			}
			for _, r2 := range *sl.Referrers() {
				call, ok := r2.(*ssa.Call)
				if !ok {
					continue
				}
				if b, ok := call.Call.Value.(*ssa.Builtin); ok && b.Name() == "append" && len(call.Call.Args) == 2 && call.Call.Args[1] == sl {
					if rf.intoPartitions(call.Call.Args[0], depth+1) {
						return true
					}
				}
			}
		}
	}
	return false
}
