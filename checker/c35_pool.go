package main

import (
	"fmt"
	"go/ast"
	"go/token"
	"go/types"
	"strings"

	"golang.org/x/tools/go/packages"
)

// C35-B2: a pooled row buffer is not released while bytes encoded into it are still unsent.
//
// doQuery takes the row-encoding buffer from a process-wide sync.Pool; the resultFor* helpers
// encode rows into it and the rows of the *sqltypes.Result they return ALIAS its bytes. Once the
// buffer is Put back, any other connection may obtain it and encode its own rows over them. So,
// for every variable acquired as `<sync.Pool>.Get().(*ConfinedBuffer)`:
//
//	/no-use-after-release  after an explicit Put(v) no CFG path reaches a mention of v or a
//	    hand-over of an alias (a value assigned from a call that received v: passed to a call,
//	    returned, sent, stored); a deferred Put runs after every statement of the body, so it is
//	    safe unless the function returns an alias (or has it as a named result) or an
//	    earlier-registered defer (which runs later) mentions v or an alias;
//	/released-once  at most one Put on every path (a deferred release plus an explicit one, two
//	    defers, or an explicit Put that can reach a Put, hand the same buffer to two connections);
//	    the Put is not inside a non-deferred closure;
//	Put(x)/owner  every Put of such a buffer anywhere in the loaded packages releases a
//	    variable acquired in the same function (a callee that releases its parameter pulls the
//	    buffer from under its caller).
//
// A path WITHOUT a Put is not a violation (the buffer is garbage-collected: a performance matter,
// not a result difference); it is reported as a note.
func c35PoolRelease(c *Ctx, a *c35Anchors, floor int) {
	c.Rule("C35-B2", "a pooled row buffer (sync.Pool.Get().(*ByteBuffer)) is released at most once, only by the function that acquired it, and never before the last hand-over of a value that aliases it (the results of the calls that received the buffer)", floor)
	isConfinedPtr := func(t types.Type) bool {
		p, ok := t.(*types.Pointer)
		if !ok {
			return false
		}
		n, ok := p.Elem().(*types.Named)
		if !ok || n.Obj().Pkg() == nil {
			return false
		}
		full := n.Obj().Pkg().Path() + "." + n.Obj().Name()
		for _, ct := range a.confinedTypes {
			if ct == full {
				return true
			}
		}
		return false
	}
	isPool := func(fn *types.Func, name string) bool {
		return fn != nil && FullName(fn) == "sync.Pool."+name
	}
	type acq struct {
		pk   *packages.Package
		fd   *ast.FuncDecl
		v    types.Object
		stmt ast.Node
	}
	var acqs []acq
	byFunc := map[*ast.FuncDecl]map[types.Object]bool{}
	type putSite struct {
		pk   *packages.Package
		fd   *ast.FuncDecl
		call *ast.CallExpr
	}
	var puts []putSite
	c.P.EachModuleFuncDecl(func(pk *packages.Package, fd *ast.FuncDecl) {
		info := pk.TypesInfo
		ast.Inspect(fd.Body, func(n ast.Node) bool {
			switch x := n.(type) {
			case *ast.AssignStmt:
				if len(x.Lhs) != len(x.Rhs) {
					return true
				}
				for i, r := range x.Rhs {
					ta, ok := ast.Unparen(r).(*ast.TypeAssertExpr)
					if !ok || ta.Type == nil {
						continue
					}
					call, ok := ast.Unparen(ta.X).(*ast.CallExpr)
					if !ok || !isPool(Callee(info, call), "Get") || !isConfinedPtr(info.TypeOf(ta)) {
						continue
					}
					if id, ok := x.Lhs[i].(*ast.Ident); ok {
						if o := c35Obj(info, id); o != nil {
							acqs = append(acqs, acq{pk, fd, o, x})
							if byFunc[fd] == nil {
								byFunc[fd] = map[types.Object]bool{}
							}
							byFunc[fd][o] = true
							continue
						}
					}
					c.Undecided("C35-B2", DeclName(fd)+"/acquire", x.Pos(), "a pooled buffer is acquired into something that is not a local variable")
				}
			case *ast.CallExpr:
				if isPool(Callee(info, x), "Put") && len(x.Args) == 1 && isConfinedPtr(info.TypeOf(x.Args[0])) {
					puts = append(puts, putSite{pk, fd, x})
				}
			}
			return true
		})
	})
	// owner
	for _, p := range puts {
		key := fmt.Sprintf("%s/Put(%s)/owner", DeclName(p.fd), types.ExprString(p.call.Args[0]))
		o := c35Obj(p.pk.TypesInfo, p.call.Args[0])
		c.Check(o != nil && byFunc[p.fd][o], "C35-B2", key, p.call.Pos(), "releases a buffer acquired in the same function",
			fmt.Sprintf("%s puts %s back into the pool but did not acquire it: the function that took the buffer from the pool (and the rows it still has to send) keeps using it while other connections can obtain it", DeclName(p.fd), types.ExprString(p.call.Args[0])))
	}
	for _, q := range acqs {
		c35PoolOne(c, q.pk, q.fd, q.v, q.stmt, isPool)
	}
}

func c35PoolOne(c *Ctx, pk *packages.Package, fd *ast.FuncDecl, v types.Object, acqStmt ast.Node, isPool func(*types.Func, string) bool) {
	info := pk.TypesInfo
	name := DeclName(fd) + "/" + v.Name()
	objOf := func(e ast.Expr) types.Object { return c35Obj(info, e) }
	mayAlias := func(t types.Type) bool {
		if IsErrorType(t) {
			return false
		}
		switch t.Underlying().(type) {
		case *types.Basic:
			return false
		}
		return true
	}
	// aliases: variables assigned from a call that received v
	aliases := map[types.Object]bool{}
	ast.Inspect(fd.Body, func(n ast.Node) bool {
		as, ok := n.(*ast.AssignStmt)
		if !ok || len(as.Rhs) != 1 {
			return true
		}
		call, ok := ast.Unparen(as.Rhs[0]).(*ast.CallExpr)
		if !ok {
			return true
		}
		if fn := Callee(info, call); isPool(fn, "Put") {
			return true
		}
		got := false
		for _, arg := range call.Args {
			if objOf(arg) == v {
				got = true
			}
		}
		if !got {
			return true
		}
		for _, l := range as.Lhs {
			if o := objOf(l); o != nil && o != v && mayAlias(o.Type()) {
				aliases[o] = true
			}
		}
		return true
	})
	var aliasNames []string
	for o := range aliases {
		aliasNames = append(aliasNames, o.Name())
	}
	isPutCall := func(n ast.Node) bool {
		call, ok := n.(*ast.CallExpr)
		return ok && isPool(Callee(info, call), "Put") && len(call.Args) == 1 && objOf(call.Args[0]) == v
	}
	containsPut := func(n ast.Node, intoLits bool) bool {
		found := false
		ast.Inspect(n, func(m ast.Node) bool {
			if m == nil || found {
				return false
			}
			if _, ok := m.(*ast.FuncLit); ok && !intoLits {
				return false
			}
			if isPutCall(m) {
				found = true
			}
			return !found
		})
		return found
	}
	// classify the Put sites
	var deferred []*ast.DeferStmt
	var inClosure []ast.Node
	nPutCalls := 0
	c45WalkStack(fd.Body, func(n ast.Node, stack []ast.Node) {
		if !isPutCall(n) {
			return
		}
		nPutCalls++
		var def *ast.DeferStmt
		lit := false
		for _, s := range stack {
			switch x := s.(type) {
			case *ast.DeferStmt:
				if def == nil && !lit {
					def = x
				}
			case *ast.FuncLit:
				if def == nil {
					lit = true
				}
			}
		}
		switch {
		case def != nil:
			for _, d := range deferred {
				if d == def {
					deferred = append(deferred, def) // second Put inside the same deferred function
					return
				}
			}
			deferred = append(deferred, def)
		case lit:
			inClosure = append(inClosure, n)
		}
	})
	g := c.P.CFG(info, fd.Body)
	isExplicitPut := func(n ast.Node) bool {
		if _, ok := n.(*ast.DeferStmt); ok {
			return false
		}
		return containsPut(n, false)
	}
	var explicit []ast.Node
	for _, b := range g.Blocks {
		for _, n := range b.Nodes {
			if isExplicitPut(n) {
				explicit = append(explicit, n)
			}
		}
	}

	// ---- released-once
	key := name + "/released-once"
	switch {
	case len(inClosure) > 0:
		c.Bad("C35-B2", key, inClosure[0].Pos(), fmt.Sprintf("%s: the pooled buffer %s is put back inside a closure that is not deferred; when it runs relative to the last use of the rows encoded into the buffer cannot be established", DeclName(fd), v.Name()))
	case len(deferred) > 1:
		c.Bad("C35-B2", key, deferred[1].Pos(), fmt.Sprintf("%s: the pooled buffer %s is put back by more than one deferred call: the pool hands the same buffer to two connections, which encode their rows over each other", DeclName(fd), v.Name()))
	case len(deferred) == 1 && len(explicit) > 0:
		c.Bad("C35-B2", key, explicit[0].Pos(), fmt.Sprintf("%s: the pooled buffer %s is put back explicitly here and again by the deferred release at %s: the pool hands the same buffer to two connections, which encode their rows over each other", DeclName(fd), v.Name(), c.P.Rel(deferred[0].Pos())))
	default:
		bad := false
		for _, p := range explicit {
			from, ok := FindNode(g, p)
			if !ok {
				continue
			}
			if path := PathAvoiding(g, from, nil, isExplicitPut, nil); path != nil {
				bad = true
				c.Bad("C35-B2", key, p.Pos(), fmt.Sprintf("%s: after this Put of %s another Put is reachable: the pool hands the same buffer to two connections", DeclName(fd), v.Name()), c.P.DescribePath(path)...)
				break
			}
		}
		if !bad {
			how := "no release (left to the garbage collector)"
			if len(deferred) == 1 {
				how = "one deferred release"
			} else if len(explicit) > 0 {
				how = fmt.Sprintf("%d explicit release site(s), none can reach another", len(explicit))
				if from, ok := FindNode(g, acqStmt); ok {
					if path := PathAvoiding(g, from, isExplicitPut, nil, nil); path != nil {
						c.Note("C35-B2", name+"/leak", acqStmt.Pos(), "a path from the acquisition to an exit has no Put (not a result difference: the buffer is garbage-collected): "+strings.Join(c.P.DescribePath(path), " -> "))
					}
				}
			}
			c.Ok("C35-B2", key, acqStmt.Pos(), how)
		}
	}

	// ---- no-use-after-release
	key = name + "/no-use-after-release"
	tracked := func(o types.Object) bool { return o != nil && (o == v || aliases[o]) }
	// an occurrence of v is a use; an occurrence of an alias is a use when the value is handed over
	useIn := func(n ast.Node) (string, bool) {
		what, found := "", false
		c45WalkStack(n, func(m ast.Node, stack []ast.Node) {
			if found {
				return
			}
			id, ok := m.(*ast.Ident)
			if !ok {
				return
			}
			o := info.Uses[id]
			if o == nil || !tracked(o) {
				return
			}
			if o == v {
				what, found = "use of the buffer "+v.Name(), true
				return
			}
			all := append([]ast.Node{n}, stack...)
			for _, s := range all {
				switch x := s.(type) {
				case *ast.CallExpr:
					if IsBuiltinCall(info, x, "len") || IsBuiltinCall(info, x, "cap") {
						continue
					}
					what, found = fmt.Sprintf("%s (aliases the buffer) handed to %s", o.Name(), types.ExprString(x.Fun)), true
				case *ast.ReturnStmt:
					what, found = o.Name()+" (aliases the buffer) returned", true
				case *ast.SendStmt:
					what, found = o.Name()+" (aliases the buffer) sent on a channel", true
				case *ast.CompositeLit:
					what, found = o.Name()+" (aliases the buffer) stored in a composite value", true
				case *ast.AssignStmt:
					for _, r := range x.Rhs {
						if r.Pos() <= id.Pos() && id.End() <= r.End() {
							what, found = o.Name()+" (aliases the buffer) copied", true
						}
					}
				}
				if found {
					return
				}
			}
		})
		return what, found
	}
	bad := false
	for _, p := range explicit {
		from, ok := FindNode(g, p)
		if !ok {
			continue
		}
		var what string
		target := func(n ast.Node) bool {
			if isExplicitPut(n) {
				return false
			}
			w, is := useIn(n)
			if is {
				what = w
			}
			return is
		}
		if path := PathAvoiding(g, from, nil, target, nil); path != nil {
			bad = true
			last := path[len(path)-1]
			c.Bad("C35-B2", key, last.Pos(), fmt.Sprintf("%s puts the pooled buffer %s back (%s) and afterwards reaches: %s. From the Put on, every other connection can obtain the buffer and encode its rows over the bytes of the rows that are still unsent: clients receive another statement's values", DeclName(fd), v.Name(), c.P.Rel(p.Pos()), what), c.P.DescribePath(path)...)
			break
		}
	}
	if !bad && len(deferred) == 1 && len(explicit) == 0 {
		d := deferred[0]
		// (o) inside the deferred literal nothing touches the buffer after the Put
		if lit, ok := ast.Unparen(d.Call.Fun).(*ast.FuncLit); ok {
			lg := c.P.CFG(info, lit.Body)
			for _, b := range lg.Blocks {
				for _, n := range b.Nodes {
					if !containsPut(n, false) || bad {
						continue
					}
					from, ok := FindNode(lg, n)
					if !ok {
						continue
					}
					var what string
					if path := PathAvoiding(lg, from, nil, func(m ast.Node) bool {
						w, is := useIn(m)
						if is {
							what = w
						}
						return is
					}, nil); path != nil {
						bad = true
						c.Bad("C35-B2", key, path[len(path)-1].Pos(), fmt.Sprintf("%s: inside the deferred release the pooled buffer %s is put back and then touched again (%s): another connection may already be encoding rows into it", DeclName(fd), v.Name(), what), c.P.DescribePath(path)...)
					}
				}
			}
		}
		// (i) an alias must not be returned
		sig := info.Defs[fd.Name].(*types.Func).Type().(*types.Signature)
		for i := 0; i < sig.Results().Len() && !bad; i++ {
			if tracked(sig.Results().At(i)) {
				bad = true
				c.Bad("C35-B2", key, d.Pos(), fmt.Sprintf("%s releases the pooled buffer %s in a defer but %s, which aliases it, is a result of the function: the caller receives rows backed by a buffer other connections may already be writing", DeclName(fd), v.Name(), sig.Results().At(i).Name()))
			}
		}
		inspectNoLit(fd.Body, func(n ast.Node) bool {
			ret, ok := n.(*ast.ReturnStmt)
			if !ok || bad {
				return !bad
			}
			for _, r := range ret.Results {
				hit := ""
				ast.Inspect(r, func(m ast.Node) bool {
					switch x := m.(type) {
					case *ast.CallExpr, *ast.FuncLit:
						return false // evaluated before the deferred release runs
					case *ast.Ident:
						if tracked(info.Uses[x]) {
							hit = x.Name
						}
					}
					return hit == ""
				})
				if hit != "" {
					bad = true
					c.Bad("C35-B2", key, ret.Pos(), fmt.Sprintf("%s releases the pooled buffer %s in a defer but returns %s, which aliases it: the caller receives rows backed by a buffer other connections may already be writing", DeclName(fd), v.Name(), hit))
					break
				}
			}
			return !bad
		})
		// (ii) a defer registered earlier runs after the release
		if !bad {
			inspectNoLit(fd.Body, func(n ast.Node) bool {
				od, ok := n.(*ast.DeferStmt)
				if !ok || od == d || bad {
					return !bad
				}
				mention := ""
				ast.Inspect(od, func(m ast.Node) bool {
					if id, ok := m.(*ast.Ident); ok && tracked(info.Uses[id]) {
						mention = id.Name
					}
					return mention == ""
				})
				if mention == "" {
					return true
				}
				from, ok := FindNode(g, od)
				if !ok {
					return true
				}
				if path := PathAvoiding(g, from, nil, func(m ast.Node) bool { return m == ast.Node(d) }, nil); path != nil {
					bad = true
					c.Bad("C35-B2", key, od.Pos(), fmt.Sprintf("%s: this deferred call uses %s and is registered before the deferred release of the pooled buffer %s (%s), so it runs after the buffer went back to the pool", DeclName(fd), mention, v.Name(), c.P.Rel(d.Pos())), c.P.DescribePath(path)...)
				}
				return !bad
			})
		}
	}
	if !bad {
		al := "no alias"
		if len(aliasNames) > 0 {
			al = "aliases: " + strings.Join(aliasNames, ", ")
		}
		switch {
		case len(deferred) == 1 && len(explicit) == 0:
			c.Ok("C35-B2", key, deferred[0].Pos(), "deferred release: runs after every hand-over in the body; no alias is returned, no earlier-registered defer touches the buffer ("+al+")")
		case len(explicit) > 0:
			c.Ok("C35-B2", key, explicit[0].Pos(), "no use of the buffer and no hand-over of an alias is reachable from a Put ("+al+")")
		default:
			c.Ok("C35-B2", key, acqStmt.Pos(), "never released ("+al+")")
		}
	}
	_ = token.NoPos
}
