package main

import (
	"fmt"
	"go/ast"
	"go/constant"
	"go/token"
	"go/types"
	"sort"
	"strings"

	"golang.org/x/tools/go/packages"
)

// C27-T — constant tables that conversions index by a declared precision.
//
// Storing a temporal value rounds it to the column's fractional-second precision p: the rounding
// unit must be exactly 10^-p seconds, otherwise a value that is representable with p digits is
// stored as a different value without any report (the seeded 100_00 in precisionConversion[5]).
// The units come from constant tables and unit scalars; their shape is read from the composite
// literals / initialisers with go/constant:
//
//	T1  decimal-digit tables (precisionConversion, indexed by datetimeType.precision and used as the
//	    divisor of time.Second; powersOfTen of appendMicroseconds, indexed by 6-precision and
//	    precision-1): entry[i] == 10^i (1 for whole seconds, one factor 10 per fractional digit), as many
//	    entries as there are precisions (MaxDatetimePrecision+1), last entry == time.Second /
//	    time.Microsecond (the unit the code itself uses for the maximum precision); the table is only
//	    read (indexed), and precisionConversion only by the precision field, as divisor of time.Second;
//	T2  unit scalars of the TIME type agree with package time (microsecondsPerSecond == time.Second /
//	    time.Microsecond ...), the TIME range is symmetric and equals 838:59:59 in those units, and none
//	    of these package-level variables is ever assigned or has its address taken;
//	T3  ZeroTimestampDatetimeStrs[p] is the zero datetime with exactly p fractional digits.

type c27TPow10 struct {
	Func       string    // enclosing function ("" = package-level variable)
	Var        string    // table variable
	IndexField [2]string // {type, field}: every index expression must be this field ("" = not required)
	Dividend   [2]string // {package path, constant}: every indexed value must be the divisor of this constant ("" = not required)
	Last       [4]string // {pkg, const, pkg, const}: last entry == first / second
}

type c27TUnit struct {
	Var      string
	Num, Den [2]string // {package path, constant}
}

type c27TConfig struct {
	Rel       string
	MaxPrec   string // constant: number of fractional digits supported
	Pow10     []c27TPow10
	Units     []c27TUnit
	RangeMax  string       // variable holding the TIME maximum
	RangeMin  string       // variable holding the TIME minimum
	RangeHMS  [3]int64     // 838, 59, 59
	RangeUnit [3][2]string // {package path, constant} of hour, minute, second
	RangeDen  [2]string    // unit the range is expressed in
	ZeroStrs  string       // table of zero datetime strings
	ZeroDate  string       // constant prefix
	Floors    [3]int
}

func c27TDefault() c27TConfig {
	return c27TConfig{
		Rel:     "sql/types",
		MaxPrec: "MaxDatetimePrecision",
		Pow10: []c27TPow10{
			{Var: "precisionConversion", IndexField: [2]string{"datetimeType", "precision"}, Dividend: [2]string{"time", "Second"}, Last: [4]string{"time", "Second", "time", "Microsecond"}},
			{Func: "appendMicroseconds", Var: "powersOfTen", Last: [4]string{"time", "Second", "time", "Microsecond"}},
		},
		Units: []c27TUnit{
			{"microsecondsPerSecond", [2]string{"time", "Second"}, [2]string{"time", "Microsecond"}},
			{"microsecondsPerMinute", [2]string{"time", "Minute"}, [2]string{"time", "Microsecond"}},
			{"microsecondsPerHour", [2]string{"time", "Hour"}, [2]string{"time", "Microsecond"}},
			{"nanosecondsPerMicrosecond", [2]string{"time", "Microsecond"}, [2]string{"time", "Nanosecond"}},
		},
		RangeMax: "timespanMaximum", RangeMin: "timespanMinimum", RangeHMS: [3]int64{838, 59, 59},
		RangeUnit: [3][2]string{{"time", "Hour"}, {"time", "Minute"}, {"time", "Second"}}, RangeDen: [2]string{"time", "Microsecond"},
		ZeroStrs: "ZeroTimestampDatetimeStrs", ZeroDate: "ZeroDateStr",
		Floors: [3]int{10, 10, 8},
	}
}

// c27tVarInit finds the variable `name` (package level, or declared in function fn) and its
// initialiser expression.
func c27tVarInit(pk *packages.Package, fn, name string) (types.Object, ast.Expr) {
	var obj types.Object
	var init ast.Expr
	take := func(id *ast.Ident, val ast.Expr) {
		if id.Name == name && obj == nil {
			if o := pk.TypesInfo.Defs[id]; o != nil {
				obj, init = o, val
			}
		}
	}
	fromSpec := func(vs *ast.ValueSpec) {
		for i, id := range vs.Names {
			var v ast.Expr
			if i < len(vs.Values) && len(vs.Values) == len(vs.Names) {
				v = vs.Values[i]
			}
			take(id, v)
		}
	}
	for _, file := range pk.Syntax {
		for _, d := range file.Decls {
			switch x := d.(type) {
			case *ast.GenDecl:
				if fn != "" || x.Tok != token.VAR {
					continue
				}
				for _, sp := range x.Specs {
					if vs, ok := sp.(*ast.ValueSpec); ok {
						fromSpec(vs)
					}
				}
			case *ast.FuncDecl:
				if fn == "" || x.Body == nil || DeclName(x) != fn {
					continue
				}
				ast.Inspect(x.Body, func(n ast.Node) bool {
					switch s := n.(type) {
					case *ast.AssignStmt:
						if s.Tok == token.DEFINE && len(s.Lhs) == len(s.Rhs) {
							for i, l := range s.Lhs {
								if id, ok := l.(*ast.Ident); ok {
									take(id, s.Rhs[i])
								}
							}
						}
					case *ast.DeclStmt:
						if gd, ok := s.Decl.(*ast.GenDecl); ok && gd.Tok == token.VAR {
							for _, sp := range gd.Specs {
								if vs, ok := sp.(*ast.ValueSpec); ok {
									fromSpec(vs)
								}
							}
						}
					}
					return true
				})
			}
		}
	}
	return obj, init
}

// c27tElems reads the constant elements of an array/slice composite literal (no keyed elements).
func c27tElems(info *types.Info, e ast.Expr) ([]ast.Expr, []constant.Value, string) {
	cl, ok := ast.Unparen(e).(*ast.CompositeLit)
	if !ok {
		return nil, nil, "initialiser is not a composite literal"
	}
	switch info.TypeOf(cl).Underlying().(type) {
	case *types.Array, *types.Slice:
	default:
		return nil, nil, "initialiser is not an array or slice literal"
	}
	var vals []constant.Value
	for _, el := range cl.Elts {
		if _, keyed := el.(*ast.KeyValueExpr); keyed {
			return nil, nil, "keyed elements are not read"
		}
		x := ast.Unparen(el)
		// []byte("…") / T(const): read the constant operand of a conversion
		if call, ok := x.(*ast.CallExpr); ok && len(call.Args) == 1 {
			if tv, ok := info.Types[call.Fun]; ok && tv.IsType() {
				x = ast.Unparen(call.Args[0])
			}
		}
		tv, ok := info.Types[x]
		if !ok || tv.Value == nil {
			return nil, nil, fmt.Sprintf("element %d is not a constant", len(vals))
		}
		vals = append(vals, tv.Value)
	}
	return cl.Elts, vals, ""
}

func c27tConst(p *Prog, ref [2]string) constant.Value {
	pk := p.ByPath[ref[0]]
	if pk == nil {
		pk = p.Pkg(ref[0])
	}
	if pk == nil {
		return nil
	}
	if k, ok := pk.Types.Scope().Lookup(ref[1]).(*types.Const); ok {
		return k.Val()
	}
	return nil
}

func c27tQuo(a, b constant.Value) constant.Value {
	if a == nil || b == nil || a.Kind() != constant.Int || b.Kind() != constant.Int || constant.Sign(b) == 0 {
		return nil
	}
	return constant.BinaryOp(a, token.QUO_ASSIGN, b) // integer division
}

func c27tEq(a, b constant.Value) bool {
	return a != nil && b != nil && a.Kind() == constant.Int && b.Kind() == constant.Int && constant.Compare(a, token.EQL, b)
}

// c27tParents maps every node of the package's files to its parent.
func c27tParents(pk *packages.Package) map[ast.Node]ast.Node {
	par := map[ast.Node]ast.Node{}
	for _, f := range pk.Syntax {
		var stack []ast.Node
		ast.Inspect(f, func(n ast.Node) bool {
			if n == nil {
				stack = stack[:len(stack)-1]
				return true
			}
			if len(stack) > 0 {
				par[n] = stack[len(stack)-1]
			}
			stack = append(stack, n)
			return true
		})
	}
	return par
}

type c27tUse struct {
	id   *ast.Ident
	kind string // "index" (read of an element), "len", "range", "write", "addr", "other"
	idx  *ast.IndexExpr
}

// c27tUses classifies every reference to obj in the module packages.
func c27tUses(p *Prog, obj types.Object, parents map[*packages.Package]map[ast.Node]ast.Node) []c27tUse {
	var out []c27tUse
	for _, pk := range p.Module {
		var ids []*ast.Ident
		for id, o := range pk.TypesInfo.Uses {
			if o == obj {
				ids = append(ids, id)
			}
		}
		if len(ids) == 0 {
			continue
		}
		sort.Slice(ids, func(i, j int) bool { return ids[i].Pos() < ids[j].Pos() })
		par := parents[pk]
		if par == nil {
			par = c27tParents(pk)
			parents[pk] = par
		}
		for _, id := range ids {
			u := c27tUse{id: id, kind: "other"}
			var n ast.Node = id
			up := par[n]
			for {
				if pe, ok := up.(*ast.ParenExpr); ok {
					n, up = pe, par[pe]
					continue
				}
				break
			}
			target := n // the expression that denotes the variable or one of its elements
			if ix, ok := up.(*ast.IndexExpr); ok && ix.X == n {
				u.kind, u.idx = "index", ix
				target = ix
				up = par[ix]
				for {
					if pe, ok := up.(*ast.ParenExpr); ok {
						target, up = pe, par[pe]
						continue
					}
					break
				}
			} else if _, isVar := obj.Type().Underlying().(*types.Basic); isVar {
				u.kind = "index" // a scalar: a plain read
			}
			switch x := up.(type) {
			case *ast.AssignStmt:
				for _, l := range x.Lhs {
					if l == target {
						u.kind = "write"
					}
				}
			case *ast.IncDecStmt:
				if x.X == target {
					u.kind = "write"
				}
			case *ast.UnaryExpr:
				if x.Op == token.AND {
					u.kind = "addr"
				}
			case *ast.CallExpr:
				if u.idx == nil && IsBuiltinCall(pk.TypesInfo, x, "len") {
					u.kind = "len"
				}
			case *ast.RangeStmt:
				if x.X == target && u.idx == nil {
					u.kind = "range"
				}
				if x.Key == target || x.Value == target {
					u.kind = "write"
				}
			case *ast.SliceExpr:
				if u.idx == nil {
					u.kind = "other" // a slice of the table aliases it
				}
			}
			out = append(out, u)
		}
	}
	return out
}

func runC27T(c *Ctx, cfg c27TConfig) {
	c.Rule("C27-T1", "decimal-digit tables indexed by a fractional-second precision (precisionConversion, powersOfTen): entry[i] == 10^i, MaxDatetimePrecision+1 entries, last entry == time.Second/time.Microsecond; only read by indexing; precisionConversion is indexed by datetimeType.precision only and used as the divisor of time.Second", cfg.Floors[0])
	c.Rule("C27-T2", "unit scalars of the TIME type equal the ratios of package time's constants, the TIME range is symmetric and equals 838:59:59 in those units, and none of the variables is assigned or address-taken anywhere", cfg.Floors[1])
	c.Rule("C27-T3", "ZeroTimestampDatetimeStrs[p] is the zero datetime followed by exactly p fractional zero digits, one entry per precision", cfg.Floors[2])
	pk := c.P.Pkg(cfg.Rel)
	if pk == nil {
		c.Undecided("C27-T1", "package", 0, "package "+cfg.Rel+" not loaded")
		return
	}
	info := pk.TypesInfo
	parents := map[*packages.Package]map[ast.Node]ast.Node{}
	var maxPrec constant.Value
	if k, ok := pk.Types.Scope().Lookup(cfg.MaxPrec).(*types.Const); ok && k.Val().Kind() == constant.Int {
		maxPrec = k.Val()
	} else {
		c.Undecided("C27-T1", cfg.MaxPrec, 0, "precision limit constant not found")
	}
	ten := constant.MakeInt64(10)

	// ---- T1 ----
	for _, t := range cfg.Pow10 {
		name := t.Var
		if t.Func != "" {
			name = t.Func + "." + t.Var
		}
		obj, init := c27tVarInit(pk, t.Func, t.Var)
		if obj == nil || init == nil {
			c.Undecided("C27-T1", name, 0, "table variable or its initialiser not found")
			continue
		}
		elts, vals, why := c27tElems(info, init)
		if why != "" {
			c.Undecided("C27-T1", name, init.Pos(), "table not readable: "+why)
			continue
		}
		for i, v := range vals {
			key := fmt.Sprintf("%s[%d]", name, i)
			if v.Kind() != constant.Int {
				c.Undecided("C27-T1", key, elts[i].Pos(), "entry is not an integer constant")
				continue
			}
			want := constant.MakeInt64(1)
			for j := 0; j < i; j++ {
				want = constant.BinaryOp(want, token.MUL, ten)
			}
			rel := fmt.Sprintf("entry i must be 10^i (1 for whole seconds, ten times more per fractional digit, %s.%s/%s.%s for the last one)", t.Last[0], t.Last[1], t.Last[2], t.Last[3])
			c.Check(c27tEq(v, want), "C27-T1", key, elts[i].Pos(), "== "+want.ExactString(),
				fmt.Sprintf("%s: %s is %s, want %s: %s. One more fractional digit divides the rounding unit by exactly 10; with this entry values of precision %d are rounded to a different unit, so a value that is representable with %d fractional digits is stored as a different value without error or warning", c.P.Rel(elts[i].Pos()), key, v.ExactString(), want.ExactString(), rel, i, i))
		}
		if maxPrec != nil {
			wantLen := constant.BinaryOp(maxPrec, token.ADD, constant.MakeInt64(1))
			c.Check(c27tEq(constant.MakeInt64(int64(len(vals))), wantLen), "C27-T1", name+"/len", init.Pos(), "one entry per precision 0.."+maxPrec.ExactString(),
				fmt.Sprintf("%s: %s has %d entries, the precisions 0..%s (%s) need %s: a declared precision indexes outside the table or is served by the wrong entry", c.P.Rel(init.Pos()), name, len(vals), cfg.MaxPrec, maxPrec.ExactString(), wantLen.ExactString()))
		}
		if t.Last[0] != "" && len(vals) > 0 {
			want := c27tQuo(c27tConst(c.P, [2]string{t.Last[0], t.Last[1]}), c27tConst(c.P, [2]string{t.Last[2], t.Last[3]}))
			if want == nil {
				c.Undecided("C27-T1", name+"/last", init.Pos(), "anchor constants not found")
			} else {
				last := vals[len(vals)-1]
				c.Check(c27tEq(last, want), "C27-T1", name+"/last", elts[len(elts)-1].Pos(), fmt.Sprintf("last entry == %s.%s/%s.%s", t.Last[0], t.Last[1], t.Last[2], t.Last[3]),
					fmt.Sprintf("%s: the last entry of %s is %s, but the maximum precision is microseconds: %s.%s/%s.%s = %s", c.P.Rel(elts[len(elts)-1].Pos()), name, last.ExactString(), t.Last[0], t.Last[1], t.Last[2], t.Last[3], want.ExactString()))
			}
		}
		// usage
		var bad []string
		nIdx := 0
		for _, u := range c27tUses(c.P, obj, parents) {
			switch u.kind {
			case "len", "range":
				continue
			case "index":
				nIdx++
				uinfo := c27tInfoFor(c.P, u.id)
				if t.IndexField[0] != "" {
					if !c27tIsField(uinfo, c27tResolveLocal(c.P, uinfo, u.idx.Index), t.IndexField) {
						bad = append(bad, fmt.Sprintf("%s: indexed by `%s`, not by the %s.%s field", c.P.Rel(u.id.Pos()), types.ExprString(u.idx.Index), t.IndexField[0], t.IndexField[1]))
					}
				}
				if t.Dividend[0] != "" {
					if !c27tIsDivisorOf(c.P, uinfo, parents, u.idx, c27tConst(c.P, t.Dividend)) {
						bad = append(bad, fmt.Sprintf("%s: the indexed value is not used as the divisor of %s.%s", c.P.Rel(u.id.Pos()), t.Dividend[0], t.Dividend[1]))
					}
				}
			default:
				bad = append(bad, fmt.Sprintf("%s: %s of the table (%s)", c.P.Rel(u.id.Pos()), u.kind, "it must only be read by indexing"))
			}
		}
		if nIdx == 0 {
			bad = append(bad, "the table is never indexed")
		}
		if len(bad) == 0 {
			c.Ok("C27-T1", name+"/use", obj.Pos(), fmt.Sprintf("%d indexed read(s), no write", nIdx))
		} else {
			c.Bad("C27-T1", name+"/use", obj.Pos(), fmt.Sprintf("%s: the table %s is not used the way its entries are decided for (read-only, indexed by the declared precision%s)", c.P.Rel(obj.Pos()), name, map[bool]string{true: ", divisor of " + t.Dividend[0] + "." + t.Dividend[1], false: ""}[t.Dividend[0] != ""]), bad...)
		}
	}

	// sweep: every other integer-constant table of the package is listed (information only), so that a
	// new precision/scale/width table does not go unnoticed
	anchored := map[token.Pos]bool{}
	for _, t := range cfg.Pow10 {
		if _, init := c27tVarInit(pk, t.Func, t.Var); init != nil {
			anchored[ast.Unparen(init).Pos()] = true
		}
	}
	nOther := 0
	for _, f := range pk.Syntax {
		ast.Inspect(f, func(n ast.Node) bool {
			cl, ok := n.(*ast.CompositeLit)
			if !ok || anchored[cl.Pos()] || len(cl.Elts) < 3 {
				return true
			}
			var et types.Type
			switch tt := info.TypeOf(cl).Underlying().(type) {
			case *types.Array:
				et = tt.Elem()
			case *types.Slice:
				et = tt.Elem()
			default:
				return true
			}
			if b, ok := et.Underlying().(*types.Basic); !ok || b.Info()&types.IsInteger == 0 || b.Kind() == types.Uint8 {
				return true
			}
			if _, vals, why := c27tElems(info, cl); why == "" && len(vals) >= 3 {
				nOther++
				c.Note("C27-T1", "other-table", cl.Pos(), fmt.Sprintf("integer constant table with %d entries that is not one of the anchored precision tables: not decided", len(vals)))
			}
			return true
		})
	}
	c.Notef("C27-T: %d anchored decimal-digit tables, %d other integer constant tables in %s (listed as info)", len(cfg.Pow10), nOther, cfg.Rel)

	// ---- T2 ----
	scalar := func(name string) (types.Object, constant.Value, token.Pos) {
		if k, ok := pk.Types.Scope().Lookup(name).(*types.Const); ok { // declared as a constant: immutable by construction
			if k.Val().Kind() != constant.Int {
				return k, nil, k.Pos()
			}
			return k, k.Val(), k.Pos()
		}
		obj, init := c27tVarInit(pk, "", name)
		if obj == nil || init == nil {
			return nil, nil, 0
		}
		tv, ok := info.Types[init]
		if !ok || tv.Value == nil || tv.Value.Kind() != constant.Int {
			return obj, nil, init.Pos()
		}
		return obj, tv.Value, init.Pos()
	}
	immutable := func(name string, obj types.Object) {
		var bad []string
		for _, u := range c27tUses(c.P, obj, parents) {
			if u.kind == "write" || u.kind == "addr" {
				bad = append(bad, fmt.Sprintf("%s: %s", c.P.Rel(u.id.Pos()), u.kind))
			}
		}
		if len(bad) == 0 {
			c.Ok("C27-T2", name+"/immutable", obj.Pos(), "never assigned, never address-taken")
		} else {
			c.Bad("C27-T2", name+"/immutable", obj.Pos(), fmt.Sprintf("%s: %s is a package-level variable whose initial value the conversions rely on, but it is assigned or its address is taken: the value read from the initialiser is not the value used", c.P.Rel(obj.Pos()), name), bad...)
		}
	}
	for _, u := range cfg.Units {
		obj, v, pos := scalar(u.Var)
		if obj == nil || v == nil {
			c.Undecided("C27-T2", u.Var+"/value", pos, "unit variable not found or not initialised with an integer constant")
			continue
		}
		want := c27tQuo(c27tConst(c.P, u.Num), c27tConst(c.P, u.Den))
		if want == nil {
			c.Undecided("C27-T2", u.Var+"/value", pos, "anchor constants not found")
			continue
		}
		c.Check(c27tEq(v, want), "C27-T2", u.Var+"/value", pos, fmt.Sprintf("== %s.%s/%s.%s = %s", u.Num[0], u.Num[1], u.Den[0], u.Den[1], want.ExactString()),
			fmt.Sprintf("%s: %s is %s, but %s.%s/%s.%s is %s: TIME values are composed from and decomposed into hours/minutes/seconds/microseconds with this factor, so a value is stored as a different duration", c.P.Rel(pos), u.Var, v.ExactString(), u.Num[0], u.Num[1], u.Den[0], u.Den[1], want.ExactString()))
		immutable(u.Var, obj)
	}
	if cfg.RangeMax != "" {
		omax, vmax, pmax := scalar(cfg.RangeMax)
		omin, vmin, pmin := scalar(cfg.RangeMin)
		if omax == nil || omin == nil || vmax == nil || vmin == nil {
			c.Undecided("C27-T2", cfg.RangeMax+"/value", pmax, "TIME range variables not found or not constant-initialised")
		} else {
			ok := true
			want := constant.MakeInt64(0)
			for i, ref := range cfg.RangeUnit {
				uv := c27tQuo(c27tConst(c.P, ref), c27tConst(c.P, cfg.RangeDen))
				if uv == nil {
					ok = false
					break
				}
				want = constant.BinaryOp(want, token.ADD, constant.BinaryOp(constant.MakeInt64(cfg.RangeHMS[i]), token.MUL, uv))
			}
			if !ok {
				c.Undecided("C27-T2", cfg.RangeMax+"/value", pmax, "anchor constants of package time not found")
			} else {
				c.Check(c27tEq(vmax, want), "C27-T2", cfg.RangeMax+"/value", pmax, fmt.Sprintf("== %d:%d:%d in microseconds = %s", cfg.RangeHMS[0], cfg.RangeHMS[1], cfg.RangeHMS[2], want.ExactString()),
					fmt.Sprintf("%s: %s is %s, the SQL TIME maximum %d:%02d:%02d is %s microseconds: in-range TIME values are clamped (stored as a different value) or out-of-range ones accepted", c.P.Rel(pmax), cfg.RangeMax, vmax.ExactString(), cfg.RangeHMS[0], cfg.RangeHMS[1], cfg.RangeHMS[2], want.ExactString()))
			}
			neg := constant.UnaryOp(token.SUB, vmax, 0)
			c.Check(c27tEq(vmin, neg), "C27-T2", cfg.RangeMin+"/value", pmin, "== -"+cfg.RangeMax,
				fmt.Sprintf("%s: %s is %s, want %s (= -%s): the TIME range is symmetric, negative values are clamped differently from positive ones", c.P.Rel(pmin), cfg.RangeMin, vmin.ExactString(), neg.ExactString(), cfg.RangeMax))
			immutable(cfg.RangeMax, omax)
			immutable(cfg.RangeMin, omin)
		}
	}

	// ---- T3 ----
	if cfg.ZeroStrs != "" {
		obj, init := c27tVarInit(pk, "", cfg.ZeroStrs)
		if obj == nil || init == nil {
			c.Undecided("C27-T3", cfg.ZeroStrs, 0, "table not found")
			return
		}
		elts, vals, why := c27tElems(info, init)
		if why != "" {
			c.Undecided("C27-T3", cfg.ZeroStrs, init.Pos(), "table not readable: "+why)
			return
		}
		prefix := ""
		if k, ok := pk.Types.Scope().Lookup(cfg.ZeroDate).(*types.Const); ok && k.Val().Kind() == constant.String {
			prefix = constant.StringVal(k.Val())
		}
		base := ""
		for i, v := range vals {
			key := fmt.Sprintf("%s[%d]", cfg.ZeroStrs, i)
			if v.Kind() != constant.String {
				c.Undecided("C27-T3", key, elts[i].Pos(), "entry is not a string constant")
				continue
			}
			s := constant.StringVal(v)
			if i == 0 {
				base = s
				c.Check(prefix != "" && strings.HasPrefix(s, prefix+" ") && !strings.Contains(s, ".") && strings.Trim(s, "0-: ") == "", "C27-T3", key, elts[i].Pos(), "zero datetime without fraction",
					fmt.Sprintf("%s: %s is %q: the entry for precision 0 must be the zero date %q followed by a zero time without fractional part", c.P.Rel(elts[i].Pos()), key, s, prefix))
				continue
			}
			want := base + "." + strings.Repeat("0", i)
			c.Check(s == want, "C27-T3", key, elts[i].Pos(), fmt.Sprintf("%d fractional digits", i),
				fmt.Sprintf("%s: %s is %q, want %q: a zero DATETIME(%d) is rendered with a different number of fractional digits than its declared precision", c.P.Rel(elts[i].Pos()), key, s, want, i))
		}
		if maxPrec != nil {
			wantLen := constant.BinaryOp(maxPrec, token.ADD, constant.MakeInt64(1))
			c.Check(c27tEq(constant.MakeInt64(int64(len(vals))), wantLen), "C27-T3", cfg.ZeroStrs+"/len", init.Pos(), "one entry per precision",
				fmt.Sprintf("%s: %s has %d entries, precisions 0..%s need %s", c.P.Rel(init.Pos()), cfg.ZeroStrs, len(vals), maxPrec.ExactString(), wantLen.ExactString()))
		}
	}
}

// c27tInfoFor returns the types.Info of the module package that contains the identifier.
func c27tInfoFor(p *Prog, id *ast.Ident) *types.Info {
	for _, pk := range p.Module {
		if _, ok := pk.TypesInfo.Uses[id]; ok {
			return pk.TypesInfo
		}
	}
	return nil
}

// c27tIsField: e is a selector of the given field of the given named struct type (type-resolved).
func c27tIsField(info *types.Info, e ast.Expr, tf [2]string) bool {
	sel, ok := ast.Unparen(e).(*ast.SelectorExpr)
	if !ok || info == nil {
		return false
	}
	s := info.Selections[sel]
	if s == nil || s.Kind() != types.FieldVal || s.Obj().Name() != tf[1] {
		return false
	}
	rt := s.Recv()
	if p, ok := rt.(*types.Pointer); ok {
		rt = p.Elem()
	}
	n, ok := rt.(*types.Named)
	return ok && n.Obj().Name() == tf[0]
}

// c27tIsDivisorOf: the element read ix is (through parentheses and type conversions) the right
// operand of a division whose left operand is the constant `dividend`.
func c27tIsDivisorOf(p *Prog, info *types.Info, parents map[*packages.Package]map[ast.Node]ast.Node, ix *ast.IndexExpr, dividend constant.Value) bool {
	if info == nil || dividend == nil {
		return false
	}
	var par map[ast.Node]ast.Node
	for pk, m := range parents {
		if pk.TypesInfo == info {
			par = m
		}
	}
	if par == nil {
		return false
	}
	var n ast.Node = ix
	for i := 0; i < 8; i++ {
		up := par[n]
		switch x := up.(type) {
		case *ast.ParenExpr:
			n = x
			continue
		case *ast.CallExpr:
			if tv, ok := info.Types[x.Fun]; ok && tv.IsType() && len(x.Args) == 1 && x.Args[0] == n {
				n = x
				continue
			}
			return false
		case *ast.BinaryExpr:
			if x.Op != token.QUO || x.Y != n {
				return false
			}
			tv, ok := info.Types[x.X]
			return ok && tv.Value != nil && tv.Value.Kind() == constant.Int && constant.Compare(tv.Value, token.EQL, dividend)
		}
		return false
	}
	return false
}

// c27tResolveLocal: when e is a local variable with exactly one definition `x := <expr>` (and no
// other assignment), the defining expression; otherwise e itself.
func c27tResolveLocal(p *Prog, info *types.Info, e ast.Expr) ast.Expr {
	id, ok := ast.Unparen(e).(*ast.Ident)
	if !ok || info == nil {
		return e
	}
	obj, ok := info.Uses[id].(*types.Var)
	if !ok || obj.IsField() || obj.Parent() == nil || obj.Parent() == obj.Pkg().Scope() {
		return e
	}
	var def ast.Expr
	writes := 0
	for _, pk := range p.Module {
		if pk.TypesInfo != info {
			continue
		}
		for _, f := range pk.Syntax {
			if !(f.Pos() <= obj.Pos() && obj.Pos() < f.End()) {
				continue
			}
			ast.Inspect(f, func(n ast.Node) bool {
				switch s := n.(type) {
				case *ast.AssignStmt:
					for i, l := range s.Lhs {
						lid, ok := l.(*ast.Ident)
						if !ok || (info.Defs[lid] != obj && info.Uses[lid] != obj) {
							continue
						}
						writes++
						if s.Tok == token.DEFINE && len(s.Lhs) == len(s.Rhs) {
							def = s.Rhs[i]
						}
					}
				case *ast.IncDecStmt:
					if lid, ok := s.X.(*ast.Ident); ok && info.Uses[lid] == obj {
						writes++
					}
				case *ast.UnaryExpr:
					if lid, ok := s.X.(*ast.Ident); ok && s.Op == token.AND && info.Uses[lid] == obj {
						writes++
					}
				}
				return true
			})
		}
	}
	if writes == 1 && def != nil {
		return def
	}
	return e
}
