package main

import (
	"fmt"
	"go/ast"
	"go/constant"
	"go/token"
	"go/types"

	"golang.org/x/tools/go/cfg"
	"golang.org/x/tools/go/packages"
)

// C27-U (consumer side of the conversion contract): a call that binds the sql.ConvertInRange
// verdict of a conversion to a named variable must consult it on the success path. Number types
// report overflow/underflow with a nil error and a clamped (or wrapped) value, so a consumer
// that uses the converted value on a path where the error is nil and the verdict is
// Overflow/Underflow stores a different value than the one given without any report.
//
// Decided per call site, with the CFG walk of eng_cir.go: starting after the conversion, with
// every `err != nil` / `err == nil` test on the error bound by the same statement resolved to
// "no error", and every test on the verdict resolved for Overflow resp. Underflow, no reached
// node may use the converted value, except
//   - a return statement that hands the verdict back together with the value (propagation),
//   - a statement that only builds the out-of-range error/warning from it,
//   - a use after a sql.Context/Session Warn call on the same path, or followed by one in the
//     same straight-line block (MySQL's non-strict behaviour: clamp and warn),
//   - the branch condition itself.
// The walk is path-sensitive in the error variable: `err = kind.New(...)` makes it non-nil,
// any other assignment makes its tests undecided (both branches followed).
// A verdict that is bound but never compared with a constant of the enum and never propagated
// is reported as well (the binding is then decoration).

// c27uExceptions: call sites whose converted value may be used although the verdict is not
// InRange, one symbol per entry.
var c27uExceptions = map[string]string{}

func ruleVerdictConsulted(c *Ctx, rule string, sqlRel string, rels []string, exceptions map[string]string) {
	sqlPk := c.P.Pkg(sqlRel)
	if sqlPk == nil {
		c.Undecided(rule, sqlRel, 0, "package not loaded")
		return
	}
	cirTN, _ := sqlPk.Types.Scope().Lookup("ConvertInRange").(*types.TypeName)
	over, _ := sqlPk.Types.Scope().Lookup("Overflow").(*types.Const)
	under, _ := sqlPk.Types.Scope().Lookup("Underflow").(*types.Const)
	if cirTN == nil || over == nil || under == nil {
		c.Undecided(rule, "ConvertInRange", 0, "type or constants not found")
		return
	}
	cirT := cirTN.Type()
	errT := types.Universe.Lookup("error").Type()
	seen := map[string]int{}
	c.P.EachFuncDecl(rels, func(pk *packages.Package, fd *ast.FuncDecl) {
		info := pk.TypesInfo
		// a function that itself returns a verdict belongs to the conversion family (producer or
		// relay): its returns are decided by C27-V1/V2, not here
		if fn, _ := info.Defs[fd.Name].(*types.Func); fn != nil {
			res := fn.Type().(*types.Signature).Results()
			for i := 0; i < res.Len(); i++ {
				if types.Identical(res.At(i).Type(), cirT) {
					return
				}
			}
		}
		// test-support helpers (a *testing.T / testing.TB parameter) assert the verdict through the test
		// framework, whose aborting calls this walk does not model: they are not engine paths
		if fn, _ := info.Defs[fd.Name].(*types.Func); fn != nil {
			ps := fn.Type().(*types.Signature).Params()
			for i := 0; i < ps.Len(); i++ {
				t := ps.At(i).Type()
				if p, ok := t.(*types.Pointer); ok {
					t = p.Elem()
				}
				if n, ok := types.Unalias(t).(*types.Named); ok && n.Obj().Pkg() != nil && n.Obj().Pkg().Path() == "testing" {
					return
				}
			}
		}
		for _, d := range findCIRDefs(info, cirT, fd.Body) {
			if d.valueObj == nil {
				continue
			}
			call := ast.Unparen(d.assign.Rhs[0]).(*ast.CallExpr)
			callee := "call"
			if fn := Callee(info, call); fn != nil {
				callee = fn.Name()
			}
			key := pkRel(pk) + "." + DeclName(fd) + "/" + d.valueObj.Name() + "<-" + callee
			seen[key]++
			if seen[key] > 1 {
				key = fmt.Sprintf("%s#%d", key, seen[key])
			}
			// the error bound by the same statement
			var errObj types.Object
			for _, l := range d.assign.Lhs {
				if id := identOf(l); id != nil && id.Name != "_" {
					o := info.Defs[id]
					if o == nil {
						o = info.Uses[id]
					}
					if o != nil && types.Identical(o.Type(), errT) {
						errObj = o
					}
				}
			}
			flow, err := newCIRFlow(c.P, info, cirT, fd.Body, d)
			if err != nil {
				c.Undecided(rule, key, d.assign.Pos(), err.Error())
				continue
			}
			// error state along the walk: 0 = nil (right after the call, on the success path),
			// 1 = known non-nil (assigned from an error constructor), 2 = unknown
			errState := 0
			flow.Extra = func(cond ast.Expr) (bool, bool) {
				if errObj == nil || errState == 2 {
					return false, false
				}
				be, ok := ast.Unparen(cond).(*ast.BinaryExpr)
				if !ok || (be.Op != token.NEQ && be.Op != token.EQL) {
					return false, false
				}
				isErr := func(e ast.Expr) bool { id := identOf(e); return id != nil && info.Uses[id] == errObj }
				isNil := func(e ast.Expr) bool { tv, ok := info.Types[e]; return ok && tv.IsNil() }
				if (isErr(be.X) && isNil(be.Y)) || (isErr(be.Y) && isNil(be.X)) {
					return (be.Op == token.EQL) == (errState == 0), true
				}
				return false, false
			}
			mentions := func(n ast.Node, o types.Object) bool {
				found := false
				ast.Inspect(n, func(m ast.Node) bool {
					if _, isLit := m.(*ast.FuncLit); isLit {
						return false
					}
					if id, ok := m.(*ast.Ident); ok && info.Uses[id] == o {
						found = true
					}
					return !found
				})
				return found
			}
			// redefinition of the value or of the error ends the obligations of this conversion
			stop := func(n ast.Node) bool {
				if n == ast.Node(d.assign) {
					return true
				}
				if as, ok := n.(*ast.AssignStmt); ok {
					for _, l := range as.Lhs {
						if id := identOf(l); id != nil {
							o := info.Uses[id]
							if o == nil {
								o = info.Defs[id]
							}
							if o == d.cirObj || o == d.valueObj {
								// `v = f(v)` still uses the old value on the right-hand side
								usesOld := false
								for _, r := range as.Rhs {
									if mentions(r, d.valueObj) {
										usesOld = true
									}
								}
								if !usesOld {
									return true
								}
							}
						}
					}
				}
				return false
			}
			// does the verdict ever decide anything?
			consulted := false
			ast.Inspect(fd.Body, func(n ast.Node) bool {
				switch x := n.(type) {
				case *ast.BinaryExpr:
					if (x.Op == token.EQL || x.Op == token.NEQ) && (mentions(x.X, d.cirObj) || mentions(x.Y, d.cirObj)) {
						consulted = true
					}
				case *ast.SwitchStmt:
					if x.Tag != nil && mentions(x.Tag, d.cirObj) {
						consulted = true
					}
				case *ast.ReturnStmt:
					if mentions(x, d.cirObj) {
						consulted = true
					}
				case *ast.CallExpr:
					for _, a := range x.Args {
						if id := identOf(a); id != nil && info.Uses[id] == d.cirObj {
							consulted = true // handed to a helper that decides
						}
					}
				}
				return true
			})
			var badPos token.Pos
			bad := ""
			isWarn := func(n ast.Node) bool {
				found := false
				ast.Inspect(n, func(m ast.Node) bool {
					if _, isLit := m.(*ast.FuncLit); isLit {
						return false
					}
					if call, ok := m.(*ast.CallExpr); ok {
						if fn := Callee(info, call); fn != nil && fn.Name() == "Warn" && fn.Pkg() == sqlPk.Types {
							found = true
						}
					}
					return !found
				})
				return found
			}
			// the error variable assigned on the walk: from an error constructor -> non-nil, else unknown
			errAssign := func(n ast.Node) (int, bool) {
				as, ok := n.(*ast.AssignStmt)
				if !ok || errObj == nil {
					return 0, false
				}
				for i, l := range as.Lhs {
					id := identOf(l)
					if id == nil || (info.Uses[id] != errObj && info.Defs[id] != errObj) {
						continue
					}
					if len(as.Rhs) == len(as.Lhs) {
						if call, ok := ast.Unparen(as.Rhs[i]).(*ast.CallExpr); ok {
							if fn := Callee(info, call); fn != nil && (fn.Name() == "New" || fn.Name() == "Errorf" || fn.Name() == "Wrap" || fn.Name() == "Wrapf") {
								return 1, true
							}
						}
					}
					return 2, true
				}
				return 0, false
			}
			for _, sit := range []struct {
				name string
				v    constant.Value
			}{{"Overflow", over.Val()}, {"Underflow", under.Val()}} {
				type st struct {
					b      *cfg.Block
					err    int
					warned bool
				}
				visited := map[st]bool{}
				edge := flow.edgeOK(sit.v)
				var walk func(b *cfg.Block, i int, es int, warned bool)
				walk = func(b *cfg.Block, i int, es int, warned bool) {
					for ; i < len(b.Nodes); i++ {
						n := b.Nodes[i]
						if stop(n) {
							return
						}
						if isWarn(n) {
							warned = true
						}
						isCond := i == len(b.Nodes)-1 && len(b.Succs) == 2
						if mentions(n, d.valueObj) && !isCond && !warned {
							ok := false
							if rs, isRet := n.(*ast.ReturnStmt); isRet && mentions(rs, d.cirObj) {
								ok = true // propagated with its verdict
							}
							if c27uOnlyReports(info, n, d.valueObj) {
								ok = true
							}
							for j := i + 1; j < len(b.Nodes) && !ok; j++ {
								if isWarn(b.Nodes[j]) {
									ok = true // stored together with a warning raised in the same straight-line block
								}
							}
							if !ok && bad == "" {
								badPos = n.Pos()
								bad = fmt.Sprintf("with a nil error and verdict %s the converted value %s (the type's bound, or wrapped) is still used at %s with no warning raised on the way: a value that does not fit is stored as a different value without error or warning",
									sit.name, d.valueObj.Name(), c.P.Fset.Position(n.Pos()))
							}
						}
						if ne, changed := errAssign(n); changed {
							es = ne
						}
						if _, isRet := n.(*ast.ReturnStmt); isRet {
							return
						}
					}
					for si, succ := range b.Succs {
						errState = es
						if !edge(b, si) {
							continue
						}
						k := st{succ, es, warned}
						if visited[k] {
							continue
						}
						visited[k] = true
						walk(succ, 0, es, warned)
					}
				}
				walk(flow.defPt.B, flow.defPt.I+1, 0, false)
			}
			switch {
			case flow.Undecided:
				c.Undecided(rule, key, d.assign.Pos(), "a branch condition on the ConvertInRange value could not be resolved")
			case bad != "" && exceptions[key] != "":
				c.Exc(rule, key, d.assign.Pos(), exceptions[key])
			case bad != "":
				c.Bad(rule, key, badPos, bad)
			case !consulted:
				if exceptions[key] != "" {
					c.Exc(rule, key, d.assign.Pos(), exceptions[key])
				} else {
					c.Bad(rule, key, d.assign.Pos(), fmt.Sprintf("the verdict %s is bound but never compared, switched on, returned or handed on: an out-of-range conversion goes unnoticed", d.cirObj.Name()))
				}
			default:
				c.Ok(rule, key, d.assign.Pos(), "converted value used only when the verdict is InRange (or handed back with its verdict)")
			}
		}
	})
}

// c27uOnlyReports: the node only feeds the value into an error or warning constructor
// (kind.New(...), fmt.Errorf, ctx.Warn): reporting the rejected value is not storing it.
func c27uOnlyReports(info *types.Info, n ast.Node, val types.Object) bool {
	ok := true
	var visit func(m ast.Node, inReport bool)
	visit = func(m ast.Node, inReport bool) {
		if m == nil || !ok {
			return
		}
		switch x := m.(type) {
		case *ast.FuncLit:
			return
		case *ast.Ident:
			if info.Uses[x] == val && !inReport {
				ok = false
			}
			return
		case *ast.CallExpr:
			rep := inReport
			if fn := Callee(info, x); fn != nil {
				switch fn.Name() {
				case "New", "Errorf", "Warn", "Sprintf", "NewWarning":
					rep = true
				}
			}
			visit(x.Fun, inReport)
			for _, a := range x.Args {
				visit(a, rep)
			}
			return
		}
		ast.Inspect(m, func(k ast.Node) bool {
			if k == m || k == nil {
				return true
			}
			visit(k, inReport)
			return false
		})
	}
	visit(n, false)
	return ok
}
