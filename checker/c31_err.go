package main

import (
	"go/ast"
	"go/types"

	"golang.org/x/tools/go/packages"
)

// C31-K4 (an invalid date is flagged, not silently shifted): the date/time conversion functions of
// sql/types carry the "truncated / incorrect value" report of the parser as an error that stays
// pending next to a best-effort value (`2023-02-30` parses as 02-03 plus ErrTruncatedIncorrect).
// On no path may such a function answer a nil error while that report is still pending.
// Engine: eng_pending.go. Scope: functions of the package whose results are (time.Time, error),
// or (interface{}, ..., error) methods of the datetime type.
var c31ErrExceptions = map[string]string{
	"sql/types.parseDatetime/err<-Parse/return time.Time{}, false, nil":          "layout probing: a layout that does not match is not an error of the conversion; that no layout matched is reported by the bool result",
	"sql/types.parseDatetime/err<-Parse#2/return time.Time{}, false, nil":        "layout probing (see the first probe)",
	"sql/types.ConvertToTime/err<-ConvertWithoutRangeCheck/return ZeroTime, nil": "infeasible pairing: ConvertWithoutRangeCheck returns ZeroTime only for zero-date inputs, always with a nil error (IsZeroTimestampStr is tested before parsing, and no layout of time.Parse can yield year 0 month 0), so no truncation report can be pending when res equals ZeroTime (probed: a zero date with trailing garbage takes the not-parsed path and still warns)",
}

func c31TimeResult(typesRel string, recvNames map[string]bool) func(pk *packages.Package, fd *ast.FuncDecl) bool {
	return func(pk *packages.Package, fd *ast.FuncDecl) bool {
		fn, _ := pk.TypesInfo.Defs[fd.Name].(*types.Func)
		if fn == nil {
			return false
		}
		sig := fn.Type().(*types.Signature)
		if r := sig.Recv(); r != nil {
			t := r.Type()
			if p, ok := t.(*types.Pointer); ok {
				t = p.Elem()
			}
			if n, ok := types.Unalias(t).(*types.Named); ok && recvNames[n.Obj().Name()] {
				return true
			}
		}
		if sig.Results().Len() >= 1 {
			if n, ok := types.Unalias(sig.Results().At(0).Type()).(*types.Named); ok && n.Obj().Pkg() != nil && n.Obj().Pkg().Path() == "time" && n.Obj().Name() == "Time" {
				return true
			}
		}
		return false
	}
}

func runC31Err(c *Ctx, rel string, recv map[string]bool, floor int) {
	const rule = "C31-K4"
	c.Rule(rule, "date/time conversion functions (result time.Time, or methods of the datetime type): no return answers a nil error on a path where an error bound from a call is still pending (not established nil by a plain nil test, not handed on)", floor)
	drops, sites := pendingErrorDrops(c.P, []string{rel}, c31TimeResult(rel, recv))
	for _, d := range drops {
		if why := c31ErrExceptions[d.key]; why != "" {
			c.Exc(rule, d.key, d.pos, why)
			continue
		}
		c.Bad(rule, d.key, d.pos, d.what)
	}
	for i := 0; i < sites; i++ {
		c.Ok(rule, "error site", 0, "pending error reaches a return or is established nil on every path")
	}
}
