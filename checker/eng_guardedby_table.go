package main

import (
	"fmt"
	"go/types"
	"sort"
	"strings"
)

// The frozen guarded-by table: mutex-bearing structs whose lock discipline was confirmed by
// reading, with the fields confirmed as guarded (they stay obligations even if every locked
// access disappears), the guard of each field for multi-mutex structs, and the fields that are
// deliberately not guarded (one line of reason each). Further fields of these structs that are
// written after construction and accessed under the lock somewhere are added by inference.

type gbEntry struct {
	Rel, Type string            // package (relative to the module) and struct name
	Prop      string            // property that reports the entry
	Fields    []string          // confirmed guarded fields
	FieldLock map[string]string // field -> mutex field (structs with several mutexes)
	Skip      map[string]string // field -> why it is not guarded
}

var gbTable = []gbEntry{
	{Rel: "", Type: "ProcessList", Prop: "C36", Fields: []string{"procs", "byQueryPid"}},
	{Rel: "sql", Type: "MemoryManager", Prop: "C36", Fields: []string{"caches", "token"}},
	{Rel: "sql/sqlredact", Type: "Mapping", Prop: "C36", Fields: []string{"idents", "values", "nCount", "vCount"}},
	{Rel: "memory", Type: "BaseDatabase", Prop: "C36", Fields: []string{"tables"}},
	{Rel: "memory", Type: "DbProvider", Prop: "C36", Fields: []string{"dbs"}},
	{Rel: "sql", Type: "IndexRegistry", Prop: "C36", Fields: []string{"indexes", "statuses", "indexOrder", "drivers", "refCounts", "deleteIndexQueue", "indexLoaders"},
		FieldLock: map[string]string{"indexes": "mut", "statuses": "mut", "indexOrder": "mut", "indexLoaders": "mut", "drivers": "driversMut", "refCounts": "rcmut", "deleteIndexQueue": "rcmut"}},
	{Rel: "sql", Type: "ViewRegistry", Prop: "C36", Fields: []string{"views"}},
	{Rel: "sql/variables", Type: "globalSystemVariables", Prop: "C36", Fields: []string{"sysVarVals"}},
	{Rel: "sql", Type: "BackgroundThreads", Prop: "C36", Fields: []string{"nameToCancel", "nameToCtx"}},
	{Rel: "internal/cmap", Type: "Map", Prop: "C36", Fields: []string{"m"}},
	{Rel: "sql", Type: "UserVars", Prop: "C36", Fields: []string{"userVars"}},
	{Rel: "sql/analyzer", Type: "Catalog", Prop: "C36", Fields: []string{"locks"}},
	{Rel: "sql/plan", Type: "Max1Row", Prop: "C36", Fields: []string{"Result", "EmptyResult"}},
	{Rel: "server", Type: "SessionManager", Prop: "C36", Fields: []string{"sessions", "connections", "lastPid"},
		Skip: map[string]string{"connWatcher": "assigned once by NewServerWithHandler before the listener accepts connections, read-only afterwards; connWatcher has its own lock"}},
	{Rel: "server", Type: "connWatcher", Prop: "C36", Fields: []string{"conns"},
		Skip: map[string]string{"scanBuf": "documented as touched only by the single sweeper goroutine (snapshot buffer), so that the scan can drop mu"}},
	{Rel: "server", Type: "connState", Prop: "C36", Fields: []string{"done", "stop", "dead"}},
	{Rel: "sql", Type: "LockSubsystem", Prop: "C38", Fields: []string{"locks"}},
	{Rel: "sql/plan", Type: "Subquery", Prop: "C11", Fields: []string{"cache", "hashCache", "resultsCached", "disposeFunc"}},
}

func gbPkgPath(rel string) string {
	if rel == "" {
		return modPath
	}
	return modPath + "/" + rel
}

var gbCache = map[*Prog]*gbResult{}

// gbShared runs the engine once per loaded program over the frozen table.
func gbShared(c *Ctx) *gbResult {
	if r, ok := gbCache[c.P]; ok {
		return r
	}
	conf := gbConfig{Pkgs: c.P.Module, OnlyStructs: map[string]bool{}, FieldLock: map[string]string{}, SkipFields: map[string]string{}, ForceGuarded: map[string]bool{},
		Foreign: map[string]string{modPath + "/sql.Process": modPath + ".ProcessList.mu"}}
	for _, e := range gbTable {
		k := gbPkgPath(e.Rel) + "." + e.Type
		conf.OnlyStructs[k] = true
		for _, f := range e.Fields {
			conf.ForceGuarded[k+"."+f] = true
		}
		for f, m := range e.FieldLock {
			conf.FieldLock[e.Type+"."+f] = m
		}
		for f, why := range e.Skip {
			conf.SkipFields[k+"."+f] = why
		}
	}
	r := gbAnalyse(c.P, conf)
	gbCache[c.P] = r
	return r
}

func (r *gbResult) structByName(pkgPath, name string) *gbStruct {
	for _, gs := range r.Structs {
		if gs.Name.Name() == name && gs.Name.Pkg() != nil && gs.Name.Pkg().Path() == pkgPath {
			return gs
		}
	}
	return nil
}

// gbReportEntry reports one table entry under the three rule ids (access groups, helper call
// sites, releases) and checks that the confirmed fields still exist. excAcc / excExit are the
// named exceptions of the reporting property.
func gbReportEntry(c *Ctx, r *gbResult, e gbEntry, ruleAcc, ruleCall, ruleExit string, excAcc, excExit map[string]string) {
	gs := r.structByName(gbPkgPath(e.Rel), e.Type)
	label := e.Type
	if gs == nil {
		c.Undecided(ruleAcc, label+"/struct", 0, fmt.Sprintf("struct %s.%s with a sync mutex field not found in the loaded packages", gbPkgPath(e.Rel), e.Type))
		return
	}
	have := map[string]*types.Var{}
	for _, f := range gs.Fields {
		have[f.Name()] = f
	}
	for _, f := range e.Fields {
		fv := have[f]
		if fv == nil {
			c.Undecided(ruleAcc, label+"/"+f, gs.Name.Pos(), "confirmed guarded field no longer exists: re-confirm the table by reading")
			continue
		}
		n := 0
		for _, a := range r.Accesses {
			if a.Field == fv && !a.Fresh {
				n++
			}
		}
		if n == 0 {
			c.Undecided(ruleAcc, label+"/"+f, fv.Pos(), "confirmed guarded field has no access outside constructors any more: re-confirm the table by reading")
		}
	}
	for f, why := range e.Skip {
		if have[f] == nil {
			c.Bad(ruleAcc, label+"/"+f+"(skip)", gs.Name.Pos(), "stale table entry: skipped field no longer exists ("+why+")")
		} else {
			c.Note(ruleAcc, label+"/"+f+"(skip)", have[f].Pos(), "not guarded by design: "+why)
		}
	}
	// inferred extras (information)
	var extras []string
	conf := map[string]bool{}
	for _, f := range e.Fields {
		conf[f] = true
	}
	for _, f := range gs.Fields {
		if r.Guarded(f) && !conf[f.Name()] {
			extras = append(extras, f.Name())
		}
	}
	if len(extras) > 0 {
		sort.Strings(extras)
		c.Notef("%s: fields treated as guarded by inference (written after construction and accessed under the lock somewhere): %s", label, strings.Join(extras, ", "))
	}
	r.report(c, gs, ruleAcc, nil, excAcc)
	r.reportCalls(c, gs, ruleCall)
	r.reportExits(c, gs, ruleExit, excExit)
}
