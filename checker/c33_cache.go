package main

import (
	"fmt"
	"go/ast"
	"go/constant"
	"go/token"
	"go/types"
	"sort"
	"strings"

	"golang.org/x/tools/go/ssa"
)

// G7: what the nodes cache is guarded by a cacheability test over every argument that
// influences it.
//
// The nodes keep a compiled matcher and a computed result across rows under bool fields that are
// assigned from calls of one package predicate over receiver fields (`r.cacheRegex =
// canBeCached(ctx, r.Pattern, r.Flags)`, `r.cacheVal = r.cacheRegex && canBeCached(ctx, r.Text, …)`).
// cover(flag) = the receiver fields named in those calls, closed under conjunction with other
// flags. Read from the syntax; anything but `&&`, flag fields, calls of the predicate with receiver
// fields and the constant false makes the flag unreadable (undecided, never a pass).

type c33Cover struct {
	fields map[*types.Var]bool
	all    bool // constant false: never caches
	bad    string
}

func (e *c33) ruleG7() {
	c := e.c
	info := e.pk.TypesInfo
	preds := map[*types.Func]int{}
	type obligation struct {
		key  string
		pos  token.Pos
		flag *types.Var
		need map[*types.Var]string
		what string
		fam  *c33Fam
	}
	var obs []obligation
	covers := map[*c33Fam]map[*types.Var]*c33Cover{}
	predOf := map[*c33Fam]map[*types.Func]bool{}
	for _, fam := range e.fams {
		fam := fam
		covers[fam] = map[*types.Var]*c33Cover{}
		predOf[fam] = map[*types.Func]bool{}
		// fields the result depends on
		needAll := map[*types.Var]string{}
		needRe := map[*types.Var]string{}
		e.eachInstr(e.funcs, func(fn *ssa.Function, in ssa.Instruction) {
			if e.famOfFn(fn) != fam {
				return
			}
			call, ok := in.(*ssa.Call)
			if !ok {
				return
			}
			if e.isEvalCall(call.Common()) && c33Outer(fn) == fam.eval {
				if _, f, _, ok := c33FieldLoad(call.Call.Value); ok {
					needAll[f] = "evaluated in " + e.cfg.EvalM
				}
			}
			if c33StaticFn(call.Common()) == e.H {
				for role, idx := range map[string]int{"pattern": e.hPattern, "match_type": e.hFlags} {
					if idx >= 0 && idx < len(call.Call.Args) {
						if _, f, _, ok := c33FieldLoad(c33Strip(call.Call.Args[idx])); ok {
							needAll[f] = "evaluated by " + e.H.Name() + " as " + role
							needRe[f] = "evaluated by " + e.H.Name() + " as " + role
						}
					}
				}
			}
		})
		// the cached-result fields: receiver fields returned by Eval
		cacheFields := map[*types.Var]bool{}
		var methods []*ast.FuncDecl
		for _, file := range e.pk.Syntax {
			for _, d := range file.Decls {
				fd, ok := d.(*ast.FuncDecl)
				if !ok || fd.Body == nil || fd.Recv == nil || len(fd.Recv.List) == 0 {
					continue
				}
				if name := DeclName(fd); !strings.HasPrefix(name, fam.tn.Name()+".") {
					continue
				}
				methods = append(methods, fd)
			}
		}
		recvField := func(fd *ast.FuncDecl, x ast.Expr) *types.Var {
			sel, ok := ast.Unparen(x).(*ast.SelectorExpr)
			if !ok || len(fd.Recv.List[0].Names) == 0 {
				return nil
			}
			id, ok := ast.Unparen(sel.X).(*ast.Ident)
			if !ok || info.Uses[id] != info.Defs[fd.Recv.List[0].Names[0]] {
				return nil
			}
			v, _ := info.Uses[sel.Sel].(*types.Var)
			if v == nil || !v.IsField() {
				return nil
			}
			return v
		}
		for _, fd := range methods {
			if fd.Name.Name != e.cfg.EvalM {
				continue
			}
			ast.Inspect(fd.Body, func(n ast.Node) bool {
				if r, ok := n.(*ast.ReturnStmt); ok && len(r.Results) > 0 {
					if f := recvField(fd, r.Results[0]); f != nil && f != fam.reField {
						cacheFields[f] = true
					}
				}
				return true
			})
		}
		isBool := func(v *types.Var) bool {
			b, ok := v.Type().Underlying().(*types.Basic)
			return ok && b.Kind() == types.Bool
		}
		// flag assignments
		var readCover func(fd *ast.FuncDecl, x ast.Expr) *c33Cover
		readCover = func(fd *ast.FuncDecl, x ast.Expr) *c33Cover {
			x = ast.Unparen(x)
			if tv, ok := info.Types[x]; ok && tv.Value != nil && tv.Value.Kind() == constant.Bool {
				if !constant.BoolVal(tv.Value) {
					return &c33Cover{all: true, fields: map[*types.Var]bool{}}
				}
				return &c33Cover{bad: "the constant true"}
			}
			switch y := x.(type) {
			case *ast.BinaryExpr:
				if y.Op != token.LAND {
					return &c33Cover{bad: "operator " + y.Op.String()}
				}
				a, b := readCover(fd, y.X), readCover(fd, y.Y)
				// a conjunction is at least as strict as either side: an unreadable side adds nothing
				switch {
				case a.bad != "" && b.bad != "":
					return a
				case a.bad != "":
					return b
				case b.bad != "":
					return a
				}
				r := &c33Cover{all: a.all || b.all, fields: map[*types.Var]bool{}}
				for f := range a.fields {
					r.fields[f] = true
				}
				for f := range b.fields {
					r.fields[f] = true
				}
				return r
			case *ast.SelectorExpr:
				if f := recvField(fd, y); f != nil && isBool(f) {
					return &c33Cover{fields: map[*types.Var]bool{f: true}}
				}
			case *ast.CallExpr:
				fn := Callee(info, y)
				if fn != nil && fn.Pkg() == e.pk.Types && fn.Type().(*types.Signature).Recv() == nil {
					r := &c33Cover{fields: map[*types.Var]bool{}}
					for _, a := range y.Args {
						if t := info.TypeOf(a); t != nil && c33IsContext(t) {
							continue
						}
						f := recvField(fd, a)
						if f == nil {
							return &c33Cover{bad: "the argument " + types.ExprString(a) + " of " + fn.Name()}
						}
						r.fields[f] = true
					}
					preds[fn]++
					predOf[fam][fn] = true
					return r
				}
			}
			return &c33Cover{bad: types.ExprString(x)}
		}
		for _, fd := range methods {
			fd := fd
			ast.Inspect(fd.Body, func(n ast.Node) bool {
				as, ok := n.(*ast.AssignStmt)
				if !ok || len(as.Lhs) != 1 || len(as.Rhs) != 1 {
					return true
				}
				f := recvField(fd, as.Lhs[0])
				if f == nil || !isBool(f) {
					return true
				}
				cv := readCover(fd, as.Rhs[0])
				if old := covers[fam][f]; old != nil {
					// several assignments: what every one of them covers
					if old.bad != "" {
						cv = old
					} else if cv.bad == "" {
						m := &c33Cover{all: old.all && cv.all, fields: map[*types.Var]bool{}}
						for x := range old.fields {
							if cv.fields[x] || cv.all {
								m.fields[x] = true
							}
						}
						for x := range cv.fields {
							if old.all {
								m.fields[x] = true
							}
						}
						cv = m
					}
				}
				covers[fam][f] = cv
				return true
			})
		}
		// guarded stores
		for _, fd := range methods {
			fd := fd
			fname := DeclName(fd)
			var stack []ast.Node
			ast.Inspect(fd.Body, func(n ast.Node) bool {
				if n == nil {
					stack = stack[:len(stack)-1]
					return true
				}
				stack = append(stack, n)
				as, ok := n.(*ast.AssignStmt)
				if !ok {
					return true
				}
				for i, lhs := range as.Lhs {
					f := recvField(fd, lhs)
					if f == nil {
						continue
					}
					var need map[*types.Var]string
					what := ""
					switch {
					case cacheFields[f]:
						need, what = needAll, "the result kept in "+f.Name()
					case f == fam.reField:
						// only stores of a freshly compiled matcher
						var rhs ast.Expr
						if len(as.Rhs) == 1 {
							rhs = as.Rhs[0]
						} else if i < len(as.Rhs) {
							rhs = as.Rhs[i]
						}
						call, _ := ast.Unparen(rhs).(*ast.CallExpr)
						hobj, _ := e.H.Object().(*types.Func)
						if call == nil || Callee(info, call) != hobj {
							continue
						}
						need, what = needRe, "the matcher kept in "+f.Name()
					default:
						continue
					}
					// innermost enclosing if whose condition is a flag (possibly negated)
					var flag *types.Var
					neg := false
					inLit := false
					for k := len(stack) - 2; k >= 0; k-- {
						if _, ok := stack[k].(*ast.FuncLit); ok {
							inLit = true
						}
						ifs, ok := stack[k].(*ast.IfStmt)
						if !ok {
							continue
						}
						cond := ast.Unparen(ifs.Cond)
						n2 := false
						if u, ok := cond.(*ast.UnaryExpr); ok && u.Op == token.NOT {
							cond, n2 = ast.Unparen(u.X), true
						}
						if g := recvField(fd, cond); g != nil && isBool(g) {
							inBody := stack[k+1] == ast.Node(ifs.Body)
							inElse := ifs.Else != nil && stack[k+1] == ifs.Else
							if inBody || inElse {
								flag, neg = g, n2 != inElse
								break
							}
						}
					}
					site := fname
					if inLit {
						site += "$lit"
					}
					if flag == nil {
						if f == fam.reField {
							continue // compiled unconditionally: nothing is kept under a flag here
						}
						c.Bad("C33-G7", site+"/"+f.Name()+" unguarded", as.Pos(), fmt.Sprintf("%s stores %s without a cacheability flag: the value computed for one row is returned for every later row", site, what))
						continue
					}
					if neg && f != fam.reField {
						c.Bad("C33-G7", site+"/"+f.Name()+" under !"+flag.Name(), as.Pos(), fmt.Sprintf("%s stores %s when the flag %s is false", site, what, flag.Name()))
						continue
					}
					key := site + "/" + f.Name() + " under " + flag.Name()
					if neg {
						key = site + "/" + f.Name() + " under !" + flag.Name()
					}
					obs = append(obs, obligation{key, as.Pos(), flag, need, what, fam})
				}
				return true
			})
		}
	}
	// a matcher compiled once under a flag needs the per-row compile under the negated flag, and vice versa
	type polar struct{ pos, neg token.Pos }
	pol := map[*c33Fam]map[*types.Var]*polar{}
	for _, o := range obs {
		if !strings.HasPrefix(o.what, "the matcher") {
			continue
		}
		if pol[o.fam] == nil {
			pol[o.fam] = map[*types.Var]*polar{}
		}
		pp := pol[o.fam][o.flag]
		if pp == nil {
			pp = &polar{}
			pol[o.fam][o.flag] = pp
		}
		if strings.Contains(o.key, " under !") {
			pp.neg = o.pos
		} else {
			pp.pos = o.pos
		}
	}
	for _, fam := range e.fams {
		for flag, pp := range pol[fam] {
			key := fam.tn.Name() + "/compiles under " + flag.Name() + " and !" + flag.Name()
			switch {
			case !pp.pos.IsValid():
				c.Bad("C33-G7", key, pp.neg, fmt.Sprintf("%s compiles its matcher only when %s is false: with a cacheable (constant) pattern nothing is ever compiled, the matcher stays nil and the function answers NULL where its siblings match", fam.tn.Name(), flag.Name()))
			case !pp.neg.IsValid():
				c.Bad("C33-G7", key, pp.pos, fmt.Sprintf("%s compiles its matcher only when %s holds: with a pattern or match_type that is a column nothing is ever compiled, the matcher stays nil and the function answers NULL where its siblings match", fam.tn.Name(), flag.Name()))
			default:
				c.Ok("C33-G7", key, pp.pos, "compiled once under the flag, per row under its negation")
			}
		}
	}
	// one predicate
	var pred *types.Func
	for f, n := range preds {
		if pred == nil || n > preds[pred] || n == preds[pred] && f.Name() < pred.Name() {
			pred = f
		}
	}
	for _, fam := range e.fams {
		for f := range predOf[fam] {
			if f != pred {
				c.Bad("C33-G7", fam.tn.Name()+"/predicate "+f.Name(), fam.tn.Pos(), fmt.Sprintf("%s decides cacheability with %s, its siblings with %s", fam.tn.Name(), f.Name(), pred.Name()))
			}
		}
	}
	// expand covers through conjunctions with other flags
	expand := func(fam *c33Fam, flag *types.Var) (*c33Cover, string) {
		seen := map[*types.Var]bool{}
		res := &c33Cover{fields: map[*types.Var]bool{}}
		var rec func(g *types.Var) string
		rec = func(g *types.Var) string {
			if seen[g] {
				return ""
			}
			seen[g] = true
			cv := covers[fam][g]
			if cv == nil {
				return "the flag " + g.Name() + " is never assigned from the cacheability predicate"
			}
			if cv.bad != "" {
				return "the flag " + g.Name() + " is assigned from " + cv.bad + ", which is not a conjunction of predicate calls over receiver fields"
			}
			if cv.all {
				res.all = true
			}
			for f := range cv.fields {
				if b, ok := f.Type().Underlying().(*types.Basic); ok && b.Kind() == types.Bool {
					if msg := rec(f); msg != "" {
						return msg
					}
					continue
				}
				res.fields[f] = true
			}
			return ""
		}
		msg := rec(flag)
		return res, msg
	}
	for _, o := range obs {
		cv, msg := expand(o.fam, o.flag)
		if msg != "" {
			c.Undecided("C33-G7", o.key, o.pos, msg)
			continue
		}
		var missing []string
		for f, why := range o.need {
			if !cv.all && !cv.fields[f] {
				missing = append(missing, f.Name()+" ("+why+")")
			}
		}
		sort.Strings(missing)
		if len(missing) > 0 {
			c.Bad("C33-G7", o.key, o.pos, fmt.Sprintf("%s: %s is kept across rows under the flag %s, but the flag's cacheability test does not include the argument %s: when that argument is a column, the value computed for the first row is used for every row and this function disagrees with its siblings",
				o.fam.tn.Name(), o.what, o.flag.Name(), strings.Join(missing, ", ")))
			continue
		}
		var have []string
		for f := range cv.fields {
			have = append(have, f.Name())
		}
		sort.Strings(have)
		c.Ok("C33-G7", o.key, o.pos, "flag covers "+strings.Join(have, ", "))
	}
}
