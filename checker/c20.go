package main

import (
	"fmt"
	"go/constant"
	"go/token"
	"go/types"
	"sort"
	"strings"

	"golang.org/x/tools/go/ssa"
)

// C20 — the AUTO_INCREMENT counter is monotone: who may write it, and in which shape.

type c20Params struct {
	rel        string // backend package ("memory")
	structName string // "TableData"
	field      string // "autoIncVal"
	sqlRel     string // package declaring Column and the table interfaces
	colType    string // "Column"
	colField   string // "AutoIncrement"
	truncIface string // "TruncateableTable"
	truncM     string // "Truncate"
	setM       string // "SetAutoIncrementValue" (the ALTER TABLE … AUTO_INCREMENT = n entry)
	rowType    string // "Row" (in sqlRel): elements of such values are row cells (rules N, U)
	accIface   string // "tableEditAccumulator" (in rel): the interface through which rows are handed to the table
	accAdd     string // "Insert": its row-adding method
	floors     map[string]int
}

var c20Repo = c20Params{rel: "memory", structName: "TableData", field: "autoIncVal", sqlRel: "sql", colType: "Column", colField: "AutoIncrement",
	truncIface: "TruncateableTable", truncM: "Truncate", setM: "SetAutoIncrementValue",
	rowType: "Row", accIface: "tableEditAccumulator", accAdd: "Insert",
	floors: map[string]int{"C20-W": 13, "C20-H": 1, "C20-R": 2, "C20-N": 2, "C20-U": 2}}

// c20RExceptions: callers of a resetting helper that neither are the TRUNCATE entry point nor restore the counter.
var c20RExceptions = map[string]string{
	"Table.getRewriteTableEditor/calls TableData.truncate": "truncates the four full-text side tables of a rewritten table; their schemas are built by fulltext.NewSchema (position / doc-count / global-count / row-count) and contain no AUTO_INCREMENT column, so there is no counter to lose",
}

func init() {
	register(&Property{
		ID:       "C20",
		Patterns: []string{"./memory", "./sql/analyzer", "./sql/planbuilder", "./sql/rowexec"},
		Explanation: "Every write of the in-memory AUTO_INCREMENT counter (TableData.autoIncVal) is classified by the SSA shape of the stored value and of its control dependence, wherever the write is located: (W) monotone — the value is the Uint64 conversion of x and the store is control-dependent on `Compare(x, current counter) > 0`; increment — the address of the counter is passed to a helper; reset — the constants 0/1 into a freshly allocated TableData, or into an existing one under a branch on Column.AutoIncrement (the auto column is being added or removed), or unconditionally inside an unexported helper (whose callers rule R checks); copy — the value is loaded from another counter; explicit — the value is the parameter of SetAutoIncrementValue. Any other store is a violation. " +
			"(H) every helper that receives the counter's address stores only `current + 1`, guarded against math.MaxUint64 and by an in-range conversion of the new value for the column type. " +
			"(R) an unconditional resetting helper (TableData.truncate) may be called only from the TRUNCATE entry point (the method implementing sql.TruncateableTable) or by a function that afterwards restores the counter with a copy-shaped store: a table rewrite is not a TRUNCATE. " +
			"(N) the counter means `next value to hand out`: whenever a function learns a row cell (an element of a sql.Row value, or a parameter an in-package caller binds to one) — it compares the cell with the counter or stores its conversion into the counter — the counter is strictly greater than that cell at every return that may be a success. Decided by abstract interpretation of sign(cell − counter) along every SSA path: Compare gives {<,=,>} refined by the branches on its result while the counter is unwritten, `counter = cell` gives {=}, `counter = cell + k` gives {<}, the increment helper maps = to <, and only {<} may reach a normal return; interprocedural over static in-package calls (callee effect per abstract input, the compare result may be returned to the caller), with earlier cells of a loop folded into a pending flag. " +
			"(U) every function that hands a row to the edit accumulator (tableEditAccumulator.Insert: the row will be stored) compares that row's cell with the counter, itself or in a callee receiving the row. " +
			"(T1) who may turn a statement into a TRUNCATE (the executor of plan.Truncate and the backend's Truncate both reset the counter; DELETE must keep it): sql.TruncateableTable.Truncate is called only by a function that executes a *plan.Truncate node (or a delegating Truncate method); a *plan.Truncate node is constructed outside package plan only by the builder of the TRUNCATE statement (all its callers sit in the `case \"truncate\"` arm of the statement dispatch) or by a guarded rewrite: some for/range/if/switch statement that reads sql.Column.AutoIncrement lies on every CFG path from the function's entry to the construction and, folded over schemas of 1..3 columns x {column i AUTO_INCREMENT or not}, leaves the function whenever ANY column is AUTO_INCREMENT (analyzer.deleteToTruncate).",
		NotCovered: "T1: schemas of more than 3 columns, rewrites that build a Truncate node through a path other than the constructor functions of package plan or a composite literal, the other conditions of the DELETE->TRUNCATE rewrite (triggers, foreign keys), integrators' backends outside the module; LAST_INSERT_ID() / OkResult.InsertID reporting, the expression-level AutoIncrement node (GetNextAutoIncrementValue reserves a proposed value, not a stored cell: it is outside N), ALTER semantics beyond carrying the counter over, concurrency of the counter, that two counter addresses in one function denote the same TableData (N identifies the counter by field, as W does), that the compared cell is the AUTO_INCREMENT column's cell (index not checked), rows written to partitions without going through the accumulator",
		Technique:  "T1: who-may-construct / who-may-call over go/types + CFG all-paths + finite-domain fold of the guard (eng_mini); who-may-write over go/ssa (all stores and address escapes of one struct field) + dominance-based control dependence + static call graph; N: path-sensitive abstract interpretation (sign of cell − counter) over the SSA CFG with interprocedural summaries",
		Run:        func(c *Ctx) { runC20(c, c20Repo); c20Truncate(c) },
		Fixture: func(c *Ctx, fx *Prog) {
			p := c20Params{rel: "testdata/c20/mem", structName: "TableData", field: "autoIncVal", sqlRel: "testdata/c20/sql", colType: "Column", colField: "AutoIncrement",
				truncIface: "TruncateableTable", truncM: "Truncate", setM: "SetAutoIncrementValue",
				rowType: "Row", accIface: "rowStore", accAdd: "Put", floors: map[string]int{}}
			expectFixture(c, fx, "c20: non-monotone counter writes must be reported", []string{
				"C20-W:Table.Insert/unclassified",
				"C20-W:Table.Delete/unclassified",
				"C20-H:bumpUnsafe/increment-shape",
				"C20-R:Table.Rewrite/calls TableData.truncate",
				"C20-N:Table.InsertNoBump/counter-past-stored-cell",
				"C20-N:Table.InsertEqualNotBumped/counter-past-stored-cell",
				"C20-N:Table.InsertSplitNoBump/counter-past-stored-cell",
				"C20-U:Table.Update/stores row via rowStore.Put",
			}, func(fc *Ctx) { runC20(fc, p) })
		},
		FixturePkgs: []string{"./testdata/c20/sql", "./testdata/c20/mem"},
	})
}

func runC20(c *Ctx, p c20Params) {
	c.Rule("C20-W", "every store to TableData.autoIncVal has one of the shapes monotone / increment / reset / copy / explicit", p.floors["C20-W"])
	c.Rule("C20-H", "every helper that receives &autoIncVal stores only cur+1 guarded against MaxUint64 and out-of-range for the column type", p.floors["C20-H"])
	c.Rule("C20-R", "unconditional resetting helpers are called only by the TRUNCATE entry point or by functions that restore the counter afterwards", p.floors["C20-R"])
	pk, sqlPk := c.P.Pkg(p.rel), c.P.Pkg(p.sqlRel)
	if pk == nil || sqlPk == nil {
		c.Undecided("C20-W", "packages", 0, "packages "+p.rel+" / "+p.sqlRel+" not loaded")
		return
	}
	tn, _ := pk.Types.Scope().Lookup(p.structName).(*types.TypeName)
	if tn == nil {
		c.Undecided("C20-W", p.structName, 0, "struct not found")
		return
	}
	st, _ := tn.Type().Underlying().(*types.Struct)
	fieldIdx := -1
	for i := 0; st != nil && i < st.NumFields(); i++ {
		if st.Field(i).Name() == p.field {
			fieldIdx = i
		}
	}
	var colField *types.Var
	if ctn, ok := sqlPk.Types.Scope().Lookup(p.colType).(*types.TypeName); ok {
		if cst, ok := ctn.Type().Underlying().(*types.Struct); ok {
			for i := 0; i < cst.NumFields(); i++ {
				if cst.Field(i).Name() == p.colField {
					colField = cst.Field(i)
				}
			}
		}
	}
	truncI := dmlLookupIface(c.P, p.sqlRel, p.truncIface)
	if fieldIdx < 0 || colField == nil || truncI == nil {
		c.Undecided("C20-W", "anchors", tn.Pos(), fmt.Sprintf("field %s.%s, %s.%s or interface %s not found", p.structName, p.field, p.colType, p.colField, p.truncIface))
		return
	}
	prog := c.P.SSA()
	pkgOf := func(f *ssa.Function) *types.Package {
		for g := f; g != nil; g = g.Parent() {
			if g.Pkg != nil {
				return g.Pkg.Pkg
			}
			if o := g.Origin(); o != nil && o.Pkg != nil {
				return o.Pkg.Pkg
			}
		}
		return nil
	}
	funcs := dmlSSAFuncs(c.P, prog, map[*types.Package]bool{pk.Types: true}, pkgOf)
	short := func(f *ssa.Function) string {
		root := f
		for root.Parent() != nil {
			root = root.Parent()
		}
		if obj, ok := root.Object().(*types.Func); ok {
			return c21ShortName(obj)
		}
		return root.Name()
	}
	isCounterAddr := func(v ssa.Value) bool {
		fa, ok := v.(*ssa.FieldAddr)
		if !ok || fa.Field != fieldIdx {
			return false
		}
		t := fa.X.Type()
		if pt, ok := t.Underlying().(*types.Pointer); ok {
			t = pt.Elem()
		}
		return types.Identical(t, tn.Type())
	}
	isCounterLoad := func(v ssa.Value) bool {
		u, ok := v.(*ssa.UnOp)
		return ok && u.Op == token.MUL && isCounterAddr(u.X)
	}
	constUint := func(v ssa.Value) (uint64, bool) {
		k, ok := v.(*ssa.Const)
		if !ok || k.Value == nil || k.Value.Kind() != constant.Int {
			return 0, false
		}
		u, exact := constant.Uint64Val(k.Value)
		return u, exact
	}
	var resetConst func(v ssa.Value, depth int) bool
	resetConst = func(v ssa.Value, depth int) bool {
		if depth > 4 {
			return false
		}
		if u, ok := constUint(v); ok {
			return u <= 1
		}
		if cv, ok := v.(*ssa.Convert); ok {
			return resetConst(cv.X, depth+1)
		}
		if ph, ok := v.(*ssa.Phi); ok {
			for _, e := range ph.Edges {
				if !resetConst(e, depth+1) {
					return false
				}
			}
			return len(ph.Edges) > 0
		}
		return false
	}
	// sameValue: structural equality of two SSA values (identical, or the same load / index path)
	var sameValue func(a, b ssa.Value, depth int) bool
	sameValue = func(a, b ssa.Value, depth int) bool {
		if a == b {
			return true
		}
		if depth > 6 || a == nil || b == nil {
			return false
		}
		switch x := a.(type) {
		case *ssa.UnOp:
			y, ok := b.(*ssa.UnOp)
			return ok && x.Op == y.Op && sameValue(x.X, y.X, depth+1)
		case *ssa.IndexAddr:
			y, ok := b.(*ssa.IndexAddr)
			return ok && sameValue(x.X, y.X, depth+1) && sameValue(x.Index, y.Index, depth+1)
		case *ssa.Index:
			y, ok := b.(*ssa.Index)
			return ok && sameValue(x.X, y.X, depth+1) && sameValue(x.Index, y.Index, depth+1)
		case *ssa.FieldAddr:
			y, ok := b.(*ssa.FieldAddr)
			return ok && x.Field == y.Field && sameValue(x.X, y.X, depth+1)
		case *ssa.MakeInterface:
			y, ok := b.(*ssa.MakeInterface)
			return ok && sameValue(x.X, y.X, depth+1)
		case *ssa.Const:
			y, ok := b.(*ssa.Const)
			return ok && x.Value != nil && y.Value != nil && constant.Compare(x.Value, token.EQL, y.Value)
		}
		return false
	}
	// dominatedByEdge: block b is dominated by the `want` successor of an If in block p whose condition satisfies pred
	dominatedByEdge := func(b *ssa.BasicBlock, pred func(cond ssa.Value) bool, want int) bool {
		for _, pb := range b.Parent().Blocks {
			if len(pb.Instrs) == 0 {
				continue
			}
			ifi, ok := pb.Instrs[len(pb.Instrs)-1].(*ssa.If)
			if !ok || !pred(ifi.Cond) {
				continue
			}
			t := pb.Succs[want]
			if len(t.Preds) == 1 && t.Dominates(b) {
				return true
			}
		}
		return false
	}
	stripIface := func(v ssa.Value) ssa.Value {
		for {
			switch x := v.(type) {
			case *ssa.MakeInterface:
				v = x.X
			case *ssa.ChangeInterface:
				v = x.X
			default:
				return v
			}
		}
	}
	// methodCall: v is Extract(idx) of a call (invoke or static) to a method with the given name; returns the call
	extractOfCall := func(v ssa.Value, idx int, name string) *ssa.Call {
		ex, ok := v.(*ssa.Extract)
		if !ok || ex.Index != idx {
			return nil
		}
		call, ok := ex.Tuple.(*ssa.Call)
		if !ok {
			return nil
		}
		com := call.Common()
		if com.IsInvoke() {
			if com.Method.Name() == name {
				return call
			}
			return nil
		}
		if sc := com.StaticCallee(); sc != nil && sc.Name() == name {
			return call
		}
		return nil
	}
	callArgs := func(call *ssa.Call) []ssa.Value {
		com := call.Common()
		if com.IsInvoke() {
			return com.Args
		}
		if com.Signature().Recv() != nil && len(com.Args) > 0 {
			return com.Args[1:]
		}
		return com.Args
	}
	// monotone: stored = TypeAssert(Extract0(Convert(ctx, x))) and dominated by true edge of `Extract0(Compare(ctx, x, <counter load>)) > 0`
	monotone := func(s *ssa.Store) bool {
		v := s.Val
		if ta, ok := v.(*ssa.TypeAssert); ok {
			v = ta.X
		}
		conv := extractOfCall(v, 0, "Convert")
		if conv == nil {
			return false
		}
		cargs := callArgs(conv)
		if len(cargs) < 2 {
			return false
		}
		x := stripIface(cargs[len(cargs)-1])
		return dominatedByEdge(s.Block(), func(cond ssa.Value) bool {
			bo, ok := cond.(*ssa.BinOp)
			if !ok || bo.Op != token.GTR {
				return false
			}
			if z, ok := constUint(bo.Y); !ok || z != 0 {
				return false
			}
			cmp := extractOfCall(bo.X, 0, "Compare")
			if cmp == nil {
				return false
			}
			a := callArgs(cmp)
			if len(a) < 3 {
				return false
			}
			return sameValue(stripIface(a[len(a)-2]), x, 0) && isCounterLoad(stripIface(a[len(a)-1]))
		}, 0)
	}
	guardedByAutoColumn := func(s *ssa.Store) bool {
		return dominatedByEdge(s.Block(), func(cond ssa.Value) bool {
			u, ok := cond.(*ssa.UnOp)
			if !ok || u.Op != token.MUL {
				return false
			}
			fa, ok := u.X.(*ssa.FieldAddr)
			if !ok {
				return false
			}
			t := fa.X.Type()
			if pt, ok := t.Underlying().(*types.Pointer); ok {
				t = pt.Elem()
			}
			sst, ok := t.Underlying().(*types.Struct)
			return ok && fa.Field < sst.NumFields() && sst.Field(fa.Field) == colField
		}, 0)
	}

	type rec struct {
		fn    *ssa.Function
		shape string
		pos   token.Pos
		desc  string
	}
	var recs []rec
	helpers := map[*ssa.Function]int{}    // helper -> index of the pointer parameter
	resetters := map[*ssa.Function]bool{} // functions with an unconditional reset of an existing TableData
	for _, f := range funcs {
		for _, b := range f.Blocks {
			for _, in := range b.Instrs {
				switch x := in.(type) {
				case *ssa.Store:
					if !isCounterAddr(x.Addr) {
						continue
					}
					base := x.Addr.(*ssa.FieldAddr).X
					_, fresh := base.(*ssa.Alloc)
					shape := ""
					switch {
					case resetConst(x.Val, 0) && fresh:
						shape = "reset-init"
					case resetConst(x.Val, 0) && guardedByAutoColumn(x):
						shape = "reset-auto-column-change"
					case resetConst(x.Val, 0) && !(token.IsExported(f.Name()) && f.Parent() == nil):
						// only an unexported helper may reset unconditionally: all its callers are visible to rule R.
						// An exported function / method (reachable through an interface from outside the package) may not.
						shape = "reset-unconditional"
						resetters[f] = true
					case isCounterLoad(x.Val):
						shape = "copy"
					case monotone(x):
						shape = "monotone"
					default:
						if pr, ok := x.Val.(*ssa.Parameter); ok && f.Name() == p.setM && f.Signature.Recv() != nil {
							shape = "explicit"
							_ = pr
						}
					}
					// copy guarded by a comparison of the two counters is still a copy
					if shape == "" {
						if ph, ok := x.Val.(*ssa.Phi); ok {
							all := len(ph.Edges) > 0
							for _, e := range ph.Edges {
								if !isCounterLoad(e) {
									all = false
								}
							}
							if all {
								shape = "copy"
							}
						}
					}
					recs = append(recs, rec{f, shape, x.Pos(), ""})
				case ssa.CallInstruction:
					com := x.Common()
					for i, a := range com.Args {
						if !isCounterAddr(a) {
							continue
						}
						callee := com.StaticCallee()
						if callee == nil || len(callee.Blocks) == 0 || pkgOf(callee) != pk.Types {
							recs = append(recs, rec{f, "", x.Pos(), "the counter's address is passed to a function that cannot be read"})
							continue
						}
						helpers[callee] = i
						recs = append(recs, rec{f, "increment via " + short(callee), x.Pos(), ""})
					}
				}
			}
		}
	}
	// any other escape of the address (stored into a variable, returned, captured)
	for _, f := range funcs {
		for _, b := range f.Blocks {
			for _, in := range b.Instrs {
				fa, ok := in.(*ssa.FieldAddr)
				if !ok || !isCounterAddr(fa) {
					continue
				}
				for _, ref := range *fa.Referrers() {
					switch r := ref.(type) {
					case *ssa.Store:
						if r.Addr == ssa.Value(fa) {
							continue
						}
					case *ssa.UnOp:
						continue
					case ssa.CallInstruction:
						continue
					case *ssa.DebugRef:
						continue
					}
					recs = append(recs, rec{f, "", fa.Pos(), "the address of the counter escapes (stored / returned / captured): its writers can no longer be enumerated"})
				}
			}
		}
	}
	sort.SliceStable(recs, func(i, j int) bool { return recs[i].pos < recs[j].pos })
	for _, r := range recs {
		name := short(r.fn)
		if r.shape == "" {
			why := r.desc
			if why == "" {
				why = "a store to " + p.structName + "." + p.field + " that is neither monotone (guarded by Compare(new, current) > 0 on the stored value), an increment helper call, a reset to 0/1, a copy of another counter, nor the explicit ALTER TABLE value: the counter can move backwards and hand out a used value again"
			}
			c.Bad("C20-W", name+"/unclassified", r.pos, name+": "+why)
			continue
		}
		c.Ok("C20-W", name+"/"+r.shape, r.pos, "")
	}
	if len(recs) == 0 {
		c.Undecided("C20-W", "stores", tn.Pos(), "no store to the counter found")
	}

	// H: helper shape
	var hs []*ssa.Function
	for h := range helpers {
		hs = append(hs, h)
	}
	sort.Slice(hs, func(i, j int) bool { return hs[i].Pos() < hs[j].Pos() })
	for _, h := range hs {
		pi := helpers[h]
		key := short(h) + "/increment-shape"
		if pi >= len(h.Params) {
			c.Undecided("C20-H", key, h.Pos(), "parameter not found")
			continue
		}
		ptr := h.Params[pi]
		why := ""
		nStores := 0
		for _, b := range h.Blocks {
			for _, in := range b.Instrs {
				switch x := in.(type) {
				case *ssa.Store:
					if x.Addr != ssa.Value(ptr) {
						continue
					}
					nStores++
					bo, ok := x.Val.(*ssa.BinOp)
					isLoad := func(v ssa.Value) bool {
						u, ok := v.(*ssa.UnOp)
						return ok && u.Op == token.MUL && u.X == ssa.Value(ptr)
					}
					one := func(v ssa.Value) bool { u, ok := constUint(v); return ok && u == 1 }
					if !ok || bo.Op != token.ADD || !isLoad(bo.X) || !one(bo.Y) {
						why = "stores something other than `*p + 1`"
						continue
					}
					cur := bo.X
					okMax := dominatedByEdge(x.Block(), func(cond ssa.Value) bool {
						cb, ok := cond.(*ssa.BinOp)
						if !ok || cb.Op != token.EQL || !sameValue(cb.X, cur, 0) {
							return false
						}
						u, ok := constUint(cb.Y)
						return ok && u == ^uint64(0)
					}, 1)
					if !okMax {
						why = "the increment is not guarded against math.MaxUint64 (wraps to 0)"
						continue
					}
					okRange := dominatedByEdge(x.Block(), func(cond ssa.Value) bool {
						cb, ok := cond.(*ssa.BinOp)
						if !ok || cb.Op != token.EQL {
							return false
						}
						conv := extractOfCall(cb.X, 1, "Convert")
						if conv == nil {
							return false
						}
						a := callArgs(conv)
						if len(a) < 2 || stripIface(a[len(a)-1]) != ssa.Value(bo) {
							return false
						}
						k, ok := cb.Y.(*ssa.Const)
						return ok && k.Value != nil && constant.Compare(k.Value, token.EQL, constant.MakeInt64(0)) // InRange == iota 0
					}, 0)
					if !okRange {
						why = "the increment is not guarded by an in-range conversion of the new value for the column type"
					}
				case ssa.CallInstruction:
					for _, a := range x.Common().Args {
						if a == ssa.Value(ptr) {
							why = "passes the counter's address on"
						}
					}
				}
			}
		}
		if nStores == 0 && why == "" {
			why = "never stores through the pointer"
		}
		if why != "" {
			c.Bad("C20-H", key, h.Pos(), short(h)+" "+why)
		} else {
			c.Ok("C20-H", key, h.Pos(), "stores cur+1 only, guarded against MaxUint64 and out-of-range")
		}
	}

	// R: callers of unconditional resetters
	var rs []*ssa.Function
	for r := range resetters {
		rs = append(rs, r)
	}
	sort.Slice(rs, func(i, j int) bool { return rs[i].Pos() < rs[j].Pos() })
	for _, r := range rs {
		ncallers := 0
		for _, f := range funcs {
			var callPos token.Pos
			var callBlock *ssa.BasicBlock
			for _, b := range f.Blocks {
				for _, in := range b.Instrs {
					if ci, ok := in.(ssa.CallInstruction); ok && ci.Common().StaticCallee() == r && !callPos.IsValid() {
						callPos, callBlock = ci.Pos(), b
					}
				}
			}
			if !callPos.IsValid() {
				continue
			}
			ncallers++
			key := short(f) + "/calls " + short(r)
			isTrunc := false
			if f.Signature.Recv() != nil && f.Name() == p.truncM && f.Parent() == nil {
				if nt := dmlNamedOf(f.Signature.Recv().Type()); nt != nil && dmlImplements(nt, truncI) {
					isTrunc = true
				}
			}
			restores := false
			for _, b := range f.Blocks {
				for _, in := range b.Instrs {
					s, ok := in.(*ssa.Store)
					if !ok || !isCounterAddr(s.Addr) {
						continue
					}
					v := s.Val
					copyShaped := isCounterLoad(v)
					if ph, ok := v.(*ssa.Phi); ok {
						copyShaped = len(ph.Edges) > 0
						for _, e := range ph.Edges {
							if !isCounterLoad(e) {
								copyShaped = false
							}
						}
					}
					if copyShaped && (b == callBlock && s.Pos() > callPos || callBlock.Dominates(b) && b != callBlock) {
						restores = true
					}
				}
			}
			switch {
			case isTrunc:
				c.Ok("C20-R", key, callPos, "the TRUNCATE entry point")
			case restores:
				c.Ok("C20-R", key, callPos, "restores the counter with a copy-shaped store after the call")
			case c20RExceptions[key] != "" && !c.fixtureMode:
				c.Exc("C20-R", key, callPos, c20RExceptions[key])
			default:
				c.Bad("C20-R", key, callPos, fmt.Sprintf("%s calls %s, which resets the AUTO_INCREMENT counter unconditionally, but is not the TRUNCATE entry point and does not restore the counter afterwards: the rebuilt table restarts from max(existing)+1 and hands out values of deleted rows again", short(f), short(r)))
			}
		}
		if ncallers == 0 {
			c.Note("C20-R", short(r)+"/no-callers", r.Pos(), "resetting helper without callers")
		}
	}
	_ = strings.TrimSpace

	runC20Next(c, p, pk.Types, sqlPk.Types, tn, fieldIdx, funcs, pkgOf, short, helpers)
}
