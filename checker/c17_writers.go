package main

// C17-P2w — who may write the commit decision of TransactionCommittingIter.
//
// C17-P2 folds Close's commit decision over the iterator's flags, i.e. it decides the table *given
// the field values the constructor stored*. That is the decision actually taken only if nothing
// changes those fields between construction and Close. Decided here, over go/ssa:
//
//	decision fields := the fields of the iterator whose loaded value can influence a branch of
//	Close (forward slice from each load — through operators, phis, conversions and the calls it is
//	passed to or invoked on — to an If), in Close and the functions it calls statically;
//	(inputs)  they are a subset of {autocommit flag, implicit-commit flag, the child iterator}: the
//	table P2 folds is the whole decision — in particular it does not depend on what Next returned;
//	(writers) every store to a decision field, every whole-struct store through a pointer to the
//	iterator, and every escape of a decision field's address, in the package that declares the
//	(unexported) fields — the whole module if one is exported — goes to an object that was
//	freshly allocated by the storing function or by a function that returns only fresh objects
//	(composite literal, new, copy-and-modify, constructor result): never to an existing iterator.

import (
	"fmt"
	"go/token"
	"go/types"
	"sort"
	"strings"

	"golang.org/x/tools/go/packages"
	"golang.org/x/tools/go/ssa"
)

func (a *c17) decisionWriters() {
	c, p := a.c, a.p
	c.Rule("C17-P2w", "the fields TransactionCommittingIter.Close's commit decision reads are the folded flags and the child iterator only, and are written only into freshly constructed iterators (never through a pointer to an existing one)", p.floors["C17-P2w"])
	pk := c.P.Pkg(p.iterRel)
	if pk == nil {
		c.Undecided("C17-P2w", p.iterType, 0, "package "+p.iterRel+" not loaded")
		return
	}
	tn, _ := pk.Types.Scope().Lookup(p.iterType).(*types.TypeName)
	if tn == nil {
		c.Undecided("C17-P2w", p.iterType, 0, "type not found in "+p.iterRel)
		return
	}
	st, _ := tn.Type().Underlying().(*types.Struct)
	if st == nil {
		c.Undecided("C17-P2w", p.iterType, tn.Pos(), "not a struct")
		return
	}
	owns := map[*types.Var]bool{}
	for i := 0; i < st.NumFields(); i++ {
		owns[st.Field(i)] = true
	}
	ix := orgIndexOfPkgs(c.P, []*packages.Package{pk})
	closeObj, _, _ := types.LookupFieldOrMethod(types.NewPointer(tn.Type()), true, pk.Types, "Close")
	closeFn, _ := closeObj.(*types.Func)
	closeSSA := ix.FuncValue(closeFn)
	if closeSSA == nil || len(closeSSA.Blocks) == 0 {
		c.Undecided("C17-P2w", p.iterType+".Close", tn.Pos(), "no SSA body")
		return
	}
	// ---- decision fields
	decision := map[*types.Var]token.Pos{}
	seenFn := map[*ssa.Function]bool{}
	var scan func(f *ssa.Function, depth int)
	scan = func(f *ssa.Function, depth int) {
		if f == nil || seenFn[f] || len(f.Blocks) == 0 || depth > 3 {
			return
		}
		seenFn[f] = true
		for _, af := range f.AnonFuncs {
			scan(af, depth)
		}
		for _, b := range f.Blocks {
			for _, in := range b.Instrs {
				var fv *types.Var
				var loaded []ssa.Value
				switch x := in.(type) {
				case *ssa.FieldAddr:
					fv = orgFieldOf(x.X.Type(), x.Field)
					if x.Referrers() != nil {
						for _, r := range *x.Referrers() {
							if u, ok := r.(*ssa.UnOp); ok && u.Op == token.MUL {
								loaded = append(loaded, u)
							}
						}
					}
				case *ssa.Field:
					fv = orgFieldOf(x.X.Type(), x.Field)
					loaded = append(loaded, x)
				case ssa.CallInstruction:
					if cal := x.Common().StaticCallee(); cal != nil && ix.inMod[orgPkgOf(cal)] {
						scan(cal, depth+1)
					}
				}
				if fv == nil || !owns[fv] {
					continue
				}
				for _, v := range loaded {
					if c17ReachesBranch(v, map[ssa.Value]bool{}) {
						if _, ok := decision[fv]; !ok {
							decision[fv] = in.Pos()
						}
					}
				}
			}
		}
	}
	scan(closeSSA, 0)
	if len(decision) == 0 {
		c.Undecided("C17-P2w", p.iterType+".Close/decision-inputs", closeSSA.Pos(), "no field of the iterator influences a branch of Close: the commit decision was not recognised")
		return
	}
	// ---- (inputs)
	ri := dmlLookupIface(c.P, p.sqlRel, "RowIter")
	var names, extra []string
	exported := false
	for fv := range decision {
		names = append(names, fv.Name())
		if fv.Exported() {
			exported = true
		}
		isChild := false
		if nt := dmlNamedOf(fv.Type()); nt != nil && ri != nil && nt.Underlying() == types.Type(ri) {
			isChild = true
		}
		if fv.Name() != p.autoField && fv.Name() != p.implField && !isChild {
			extra = append(extra, fv.Name())
		}
	}
	sort.Strings(names)
	sort.Strings(extra)
	c.Check(len(extra) == 0, "C17-P2w", p.iterType+".Close/decision-inputs", closeSSA.Pos(),
		fmt.Sprintf("the branches of Close depend on the iterator fields %v only: the folded table is the whole decision (it does not depend on what Next returned)", names),
		fmt.Sprintf("%s.Close branches on the iterator field(s) %v, which are not among the flags the decision table folds (%s, %s, child iterator): the commit decision depends on state the table does not cover (e.g. on an earlier Next)", p.iterType, extra, p.implField, p.autoField))
	if exported {
		ix = orgIndexOf(c.P) // an exported field can be written anywhere in the module
	}
	// ---- (writers)
	ptrT := types.NewPointer(tn.Type())
	for _, f := range ix.funcs {
		for _, b := range f.Blocks {
			for _, in := range b.Instrs {
				switch x := in.(type) {
				case *ssa.FieldAddr:
					fv := orgFieldOf(x.X.Type(), x.Field)
					if fv == nil {
						continue
					}
					if _, isDecision := decision[fv]; !isDecision || x.Referrers() == nil {
						continue
					}
					fresh := c17Fresh(ix, x.X, 0)
					for _, r := range *x.Referrers() {
						key := c42FnName(f) + "/" + fv.Name()
						switch u := r.(type) {
						case *ssa.UnOp:
							continue // a load
						case *ssa.Store:
							if u.Addr == ssa.Value(x) {
								if fresh {
									c.Ok("C17-P2w", key, u.Pos(), "stored into an iterator constructed by this function")
								} else {
									c.Bad("C17-P2w", key, u.Pos(), fmt.Sprintf("%s writes the decision field %s of an existing %s (%s): Close's commit decision — commit and clear the implicit transaction when autocommit is on or the statement commits implicitly — is then taken on a value that is not the one the constructor computed; a statement that skips the commit leaves its transaction, and its table snapshot, installed in the session",
										c42FnName(f), fv.Name(), p.iterType, c17Describe(x.X)))
								}
								continue
							}
						case *ssa.DebugRef:
							continue
						}
						if !fresh {
							c.Bad("C17-P2w", key+"/address", r.Pos(), fmt.Sprintf("%s lets the address of the decision field %s of an existing %s escape (%T): it can be written behind the rule's back", c42FnName(f), fv.Name(), p.iterType, r))
						}
					}
				case *ssa.Store:
					if types.Identical(x.Addr.Type(), ptrT) {
						if _, isFA := x.Addr.(*ssa.FieldAddr); isFA {
							continue
						}
						key := c42FnName(f) + "/*"
						if c17Fresh(ix, x.Addr, 0) {
							c.Ok("C17-P2w", key, x.Pos(), "whole-struct store into an iterator constructed by this function (copy)")
						} else {
							c.Bad("C17-P2w", key, x.Pos(), fmt.Sprintf("%s overwrites an existing %s as a whole (%s): all decision fields change after construction", c42FnName(f), p.iterType, c17Describe(x.Addr)))
						}
					}
				}
			}
		}
	}
}

// c17ReachesBranch: v (transitively through the values computed from it) is the condition of an If.
func c17ReachesBranch(v ssa.Value, seen map[ssa.Value]bool) bool {
	if seen[v] {
		return false
	}
	seen[v] = true
	refs := v.Referrers()
	if refs == nil {
		return false
	}
	for _, r := range *refs {
		switch x := r.(type) {
		case *ssa.If:
			return true
		case *ssa.Store, *ssa.MapUpdate, *ssa.Send, *ssa.Return, *ssa.DebugRef, *ssa.Defer, *ssa.Go:
			continue
		case ssa.Value:
			if c17ReachesBranch(x, seen) {
				return true
			}
		}
	}
	return false
}

// c17Fresh: v points to (or is) an object allocated by the current function, or returned by a module
// function all of whose returns are fresh.
func c17Fresh(ix *orgIndex, v ssa.Value, depth int) bool {
	switch x := orgPeel(v).(type) {
	case *ssa.Alloc:
		return true
	case *ssa.Phi:
		for _, e := range x.Edges {
			if !c17Fresh(ix, e, depth) {
				return false
			}
		}
		return len(x.Edges) > 0
	case *ssa.FieldAddr: // a field of a fresh object (embedded struct)
		return c17Fresh(ix, x.X, depth)
	case *ssa.Extract:
		if call, ok := x.Tuple.(*ssa.Call); ok {
			return c17FreshResult(ix, call, x.Index, depth)
		}
	case *ssa.Call:
		return c17FreshResult(ix, x, 0, depth)
	}
	return false
}

func c17FreshResult(ix *orgIndex, call *ssa.Call, idx, depth int) bool {
	cal := call.Call.StaticCallee()
	if cal == nil || len(cal.Blocks) == 0 || !ix.inMod[orgPkgOf(cal)] || depth > 2 {
		return false
	}
	n := 0
	for _, b := range cal.Blocks {
		if ret, ok := b.Instrs[len(b.Instrs)-1].(*ssa.Return); ok && idx < len(ret.Results) {
			if c, isC := ret.Results[idx].(*ssa.Const); isC && c.IsNil() {
				continue
			}
			n++
			if !c17Fresh(ix, ret.Results[idx], depth+1) {
				return false
			}
		}
	}
	return n > 0
}

func c17Describe(v ssa.Value) string {
	switch x := orgPeel(v).(type) {
	case *ssa.Parameter:
		if len(x.Parent().Params) > 0 && x.Parent().Params[0] == x && x.Parent().Signature.Recv() != nil {
			return "the receiver " + x.Name()
		}
		return "the parameter " + x.Name()
	case *ssa.UnOp:
		return "a pointer loaded from " + strings.TrimPrefix(fmt.Sprintf("%T", x.X), "*ssa.")
	case *ssa.Call:
		return "the result of a call that is not a constructor"
	}
	return strings.TrimPrefix(fmt.Sprintf("%T", v), "*ssa.")
}
