package main

import (
	"fmt"
	"go/ast"
	"go/constant"
	"go/token"
	"go/types"
	"sort"
	"strings"

	"golang.org/x/tools/go/cfg"
	"golang.org/x/tools/go/packages"
)

type c24Names struct {
	rel, enum, opStruct                     string
	scopeBegin, scopeEnd, gotoOp            string
	compiler, resolver                      string
	stackType                               string
	newLabel, getLabel, pushScope, popScope string
}

var c24WalkDirs = map[string]bool{}

func init() {
	real := c24Names{
		rel: "sql/procedures", enum: "OpCode", opStruct: "InterpreterOperation",
		scopeBegin: "OpCode_ScopeBegin", scopeEnd: "OpCode_ScopeEnd", gotoOp: "OpCode_Goto",
		compiler: "ConvertStmt", resolver: "resolveGoToIndexes", stackType: "InterpreterStack",
		newLabel: "NewLabel", getLabel: "GetLabel", pushScope: "PushScope", popScope: "PopScope",
	}
	fx := real
	fx.rel = "testdata/c24/proc"
	register(&Property{
		ID:        "C24",
		Patterns:  []string{"./sql/procedures"},
		Technique: "emitter/handler opcode sets read from composite literals and the dispatch switch (go/types), CFG must-pass-through for scope bracketing and label registration, constant tables of the goto resolver and the goto scope walker; O7: abstract interpretation of each loop arm over emission positions (order of append / len reads) and symbolic following of the compiled jumps",
		Explanation: "A stored procedure body is compiled by procedures.ConvertStmt into InterpreterOperation values and run by execOp's dispatch switch. Decided: (O1) every opcode that any " +
			"InterpreterOperation literal emits has an arm in the dispatch switch whose default panics (an emitted but unhandled opcode crashes CALL); (O3) every emission of OpCode_ScopeBegin is followed " +
			"on all non-error paths of the compiler by an emission of OpCode_ScopeEnd (DECLARE scoping: the interpreter pushes/pops one scope per pair); (O4) every emitted OpCode_Goto has a concrete " +
			"Index (given in the literal, or assigned later to an alias of the literal) or a symbolic one (a negative constant, or the not-found value of GetLabel) that is a case of the resolver's " +
			"switch and carries a Target label to resolve against; (O5) the compile-time label table has agreeing writers and readers: if some arm reads it (GetLabel, used by ITERATE), every loop arm " +
			"(an arm that emits a Goto and calls the resolver) registers its label with NewLabel before any statement of its body is compiled, otherwise ITERATE inside that loop binds to a stale " +
			"label of an earlier loop; (O6) the goto handler's scope walker replays scope ops consistently with the dispatch arms: the forward walk performs the same push/pop as executing the op, the backward walk the inverse; " +
			"(O7) jump targets of the loop arms (WHILE, REPEAT, LOOP): each arm is abstracted to its layout — the order of appended ops, compiled body copies and len(*ops) reads (positions; derived by dataflow over the arm, not from names) — and jumps are followed over it: the index the resolver patches into ITERATE continues exactly like the normal end of every body copy (for WHILE: at the condition op, so the condition is re-tested); the back-edge gives the statement's sequence (WHILE: test before every body; REPEAT: body, then test after every body; LOOP: body after body); the exit test's target and the index patched into LEAVE are the arm's end; the resolver's scan range covers every body copy.",
		NotCovered: "jump targets of IF / CASE / BEGIN…END / handlers (O7 covers the three loop statements only), the run-time execution of the ops, that the exit test's condition is the statement's condition (and its negation for REPEAT), handler (DECLARE ... HANDLER) semantics, parameter modes, cursor semantics, expression evaluation; " +
			"handled-but-never-emitted opcodes are information only",
		Run: func(c *Ctx) { runC24(c, real, 14); c24RunO7(c, real) },
		Fixture: func(c *Ctx, fx2 *Prog) {
			expectFixture(c, fx2, "c24: unhandled opcode, unbalanced scope, unresolvable goto, unregistered loop label, wrong walker table must be reported",
				[]string{
					"C24-O1:OpCode_Halt",
					"C24-O3:ConvertStmt/Block",
					"C24-O4:ConvertStmt/Leave/goto", "C24-O4:ConvertStmt/If/goto",
					"C24-O5:ConvertStmt/While",
					"C24-O6:execOp/backward/OpCode_ScopeEnd",
				},
				func(fc *Ctx) { runC24(fc, fx, 0) })
		},
		FixturePkgs: []string{"./testdata/c24/proc"},
	})
}

func runC24(c *Ctx, nm c24Names, floorEmitted int) {
	fl := func(n int) int {
		if c.fixtureMode {
			return 0
		}
		return n
	}
	c.Rule("C24-O1", "every opcode constant used as OpCode of an "+nm.opStruct+" literal (or stored into an OpCode field) is a case of the dispatch switch (the switch over "+nm.enum+" whose default panics)", fl(floorEmitted))
	c.Rule("C24-O3", "per arm of "+nm.compiler+" that emits "+nm.scopeBegin+": every path from that emission to a non-error exit of the arm passes an emission of "+nm.scopeEnd, fl(1))
	c.Rule("C24-O4", "per emitted "+nm.gotoOp+" literal: Index is concrete (literal field or a later .Index assignment reaching the literal) or symbolic and covered by the cases of "+nm.resolver+"'s Index switch, with a Target", fl(7))
	c.Rule("C24-O5", "if an arm of "+nm.compiler+" reads the label table ("+nm.getLabel+"), every loop arm (emits a "+nm.gotoOp+" and calls "+nm.resolver+") calls "+nm.newLabel+" on every path before compiling a body statement", fl(3))
	c.Rule("C24-O6", "goto scope walker: forward loop (counter++) maps scope opcodes to the same stack call as the dispatch arms, backward loop (counter--) to the inverse", fl(4))
	pk := c.P.Pkg(nm.rel)
	if pk == nil {
		c.Undecided("C24-O1", "package", 0, "package not loaded: "+nm.rel)
		return
	}
	info := pk.TypesInfo
	consts, enumT := EnumConsts(pk, nm.enum)
	if len(consts) == 0 {
		c.Undecided("C24-O1", nm.enum, 0, "opcode enum not found")
		return
	}
	constName := func(x ast.Expr) string {
		tv, ok := info.Types[x]
		if !ok || tv.Value == nil || !types.Identical(tv.Type, enumT) {
			return ""
		}
		return nameOf(consts, tv.Value)
	}
	stn, _ := pk.Types.Scope().Lookup(nm.opStruct).(*types.TypeName)
	if stn == nil {
		c.Undecided("C24-O1", nm.opStruct, 0, "operation struct not found")
		return
	}
	isOpLit := func(n ast.Node) *ast.CompositeLit {
		lit, ok := n.(*ast.CompositeLit)
		if !ok {
			return nil
		}
		t := info.Types[lit].Type
		if p, ok := t.(*types.Pointer); ok {
			t = p.Elem()
		}
		if nt, ok := types.Unalias(t).(*types.Named); ok && nt.Obj() == stn {
			return lit
		}
		return nil
	}
	litField := func(lit *ast.CompositeLit, name string) ast.Expr {
		for _, el := range lit.Elts {
			if kv, ok := el.(*ast.KeyValueExpr); ok {
				if id, ok := kv.Key.(*ast.Ident); ok && id.Name == name {
					return kv.Value
				}
			}
		}
		return nil
	}

	// ---- emitted set -------------------------------------------------------------------------------
	emitted := map[string]token.Pos{}
	for _, file := range pk.Syntax {
		ast.Inspect(file, func(n ast.Node) bool {
			if lit := isOpLit(n); lit != nil {
				oc := litField(lit, "OpCode")
				if oc == nil {
					if len(lit.Elts) > 0 {
						if _, keyed := lit.Elts[0].(*ast.KeyValueExpr); !keyed {
							c.Undecided("C24-O1", "positional-literal", lit.Pos(), "positional "+nm.opStruct+" literal: opcode not readable")
							return true
						}
					}
					// zero opcode
					if _, seen := emitted[consts[0].Obj.Name()]; !seen {
						emitted[consts[0].Obj.Name()] = lit.Pos()
					}
					return true
				}
				name := constName(oc)
				if name == "" {
					c.Undecided("C24-O1", "non-constant-opcode", oc.Pos(), "OpCode of an emitted operation is not a constant: "+types.ExprString(oc))
					return true
				}
				if _, seen := emitted[name]; !seen {
					emitted[name] = lit.Pos()
				}
			}
			if as, ok := n.(*ast.AssignStmt); ok && len(as.Lhs) == len(as.Rhs) {
				for i, l := range as.Lhs {
					if sel, ok := ast.Unparen(l).(*ast.SelectorExpr); ok {
						if s := info.Selections[sel]; s != nil && s.Kind() == types.FieldVal && s.Obj().Name() == "OpCode" && types.Identical(s.Obj().Type(), enumT) {
							name := constName(as.Rhs[i])
							if name == "" {
								c.Undecided("C24-O1", "non-constant-opcode-store", as.Pos(), "OpCode field assigned a non-constant")
							} else if _, seen := emitted[name]; !seen {
								emitted[name] = as.Pos()
							}
						}
					}
				}
			}
			return true
		})
	}

	// ---- dispatch switch ---------------------------------------------------------------------------
	type sw struct {
		fd    *ast.FuncDecl
		stmt  *ast.SwitchStmt
		cases map[string]*ast.CaseClause
		deflt *ast.CaseClause
	}
	var switches []*sw
	c.P.EachFuncDecl([]string{nm.rel}, func(p *packages.Package, fd *ast.FuncDecl) {
		ast.Inspect(fd.Body, func(n ast.Node) bool {
			s, ok := n.(*ast.SwitchStmt)
			if !ok || s.Tag == nil {
				return true
			}
			if tv, ok := info.Types[s.Tag]; !ok || !types.Identical(tv.Type, enumT) {
				return true
			}
			w := &sw{fd: fd, stmt: s, cases: map[string]*ast.CaseClause{}}
			for _, cs := range s.Body.List {
				cc := cs.(*ast.CaseClause)
				if cc.List == nil {
					w.deflt = cc
				}
				for _, x := range cc.List {
					if name := constName(x); name != "" {
						w.cases[name] = cc
					}
				}
			}
			switches = append(switches, w)
			return true
		})
	})
	var dispatch *sw
	for _, w := range switches {
		if w.deflt == nil {
			continue
		}
		panics := false
		for _, st := range w.deflt.Body {
			if es, ok := st.(*ast.ExprStmt); ok {
				if call, ok := es.X.(*ast.CallExpr); ok && IsBuiltinCall(info, call, "panic") {
					panics = true
				}
			}
		}
		if panics {
			if dispatch != nil {
				c.Undecided("C24-O1", "dispatch", w.stmt.Pos(), "more than one switch over "+nm.enum+" with a panicking default: dispatch not unique")
			}
			dispatch = w
		}
	}
	if dispatch == nil {
		c.Undecided("C24-O1", "dispatch", 0, "no switch over "+nm.enum+" with a panicking default found: the dispatch cannot be located")
		return
	}
	var names []string
	for n := range emitted {
		names = append(names, n)
	}
	sort.Strings(names)
	for _, n := range names {
		_, ok := dispatch.cases[n]
		c.Check(ok, "C24-O1", n, emitted[n], "handled in "+DeclName(dispatch.fd),
			fmt.Sprintf("%s is emitted at %s but the dispatch switch in %s has no case for it: CALL reaches default -> panic", n, c.P.Rel(emitted[n]), DeclName(dispatch.fd)))
	}
	for _, k := range consts {
		if _, em := emitted[k.Obj.Name()]; !em {
			_, h := dispatch.cases[k.Obj.Name()]
			c.Note("C24-O1", "never-emitted/"+k.Obj.Name(), k.Obj.Pos(), fmt.Sprintf("opcode is never emitted (handled: %v)", h))
		}
	}

	// ---- compiler arms ------------------------------------------------------------------------------
	_, compFd := c.P.FuncDecl(nm.rel, nm.compiler)
	resolverFn := LookupFunc(pk, nm.resolver)
	compFn := LookupFunc(pk, nm.compiler)
	if compFd == nil || resolverFn == nil {
		c.Undecided("C24-O3", nm.compiler, 0, "compiler or resolver function not found")
		return
	}
	stackMethod := func(name string) *types.Func { return LookupFunc(pk, nm.stackType+"."+name) }
	newLabelFn, getLabelFn, pushFn, popFn := stackMethod(nm.newLabel), stackMethod(nm.getLabel), stackMethod(nm.pushScope), stackMethod(nm.popScope)
	if newLabelFn == nil || getLabelFn == nil || pushFn == nil || popFn == nil {
		c.Undecided("C24-O5", nm.stackType, 0, "stack methods not found")
		return
	}
	var ts *ast.TypeSwitchStmt
	for _, st := range compFd.Body.List {
		if t, ok := st.(*ast.TypeSwitchStmt); ok {
			ts = t
		}
	}
	if ts == nil {
		c.Undecided("C24-O3", nm.compiler, compFd.Pos(), "no type switch over the statement kinds found")
		return
	}
	g := c.P.CFG(info, compFd.Body)
	deps := lfBuild(info, compFd.Body, nil)
	armName := func(cc *ast.CaseClause) string {
		if cc.List == nil {
			return "default"
		}
		var parts []string
		for _, x := range cc.List {
			s := types.ExprString(x)
			if i := strings.LastIndex(s, "."); i >= 0 {
				s = s[i+1:]
			}
			parts = append(parts, strings.TrimPrefix(s, "*"))
		}
		return strings.Join(parts, ",")
	}
	callsTo := func(n ast.Node, fn *types.Func) bool {
		return ContainsCall(info, n, func(f *types.Func, _ *ast.CallExpr) bool { return f.Origin() == fn })
	}
	litWithOp := func(n ast.Node, op string) *ast.CompositeLit {
		var found *ast.CompositeLit
		ast.Inspect(n, func(m ast.Node) bool {
			if lit := isOpLit(m); lit != nil && found == nil {
				if oc := litField(lit, "OpCode"); oc != nil && constName(oc) == op {
					found = lit
				}
			}
			return found == nil
		})
		return found
	}
	// appendOf finds, inside n, a call of the builtin append one of whose appended values may be (through local
	// variables) a literal with the given opcode: the emission of that operation.
	appendOf := func(n ast.Node, op string) ast.Node {
		var found ast.Node
		ast.Inspect(n, func(m ast.Node) bool {
			call, ok := m.(*ast.CallExpr)
			if !ok || found != nil || !IsBuiltinCall(info, call, "append") || len(call.Args) < 2 {
				return found == nil
			}
			for _, a := range call.Args[1:] {
				deps.Aliases(a, func(x ast.Expr) {
					if lit := isOpLit(x); lit != nil {
						if oc := litField(lit, "OpCode"); oc != nil && constName(oc) == op {
							found = call
						}
					}
				})
			}
			return found == nil
		})
		return found
	}
	errEdgePrune := func(b *cfg.Block, succ int) bool {
		o, nonNil, ok := ErrNilEdge(info, b, succ)
		if ok && nonNil && o != nil && IsErrorType(o.Type()) {
			return false // error exits abort the whole compilation
		}
		return true
	}
	// resolver's symbolic cases
	resolverCases := map[int64]bool{}
	if rfd := c.P.Decl(resolverFn); rfd != nil {
		ast.Inspect(rfd.Body, func(n ast.Node) bool {
			s, ok := n.(*ast.SwitchStmt)
			if !ok || s.Tag == nil {
				return true
			}
			sel, ok := ast.Unparen(s.Tag).(*ast.SelectorExpr)
			if !ok || sel.Sel.Name != "Index" {
				return true
			}
			for _, cs := range s.Body.List {
				for _, x := range cs.(*ast.CaseClause).List {
					if tv, ok := info.Types[x]; ok && tv.Value != nil {
						if v, ok := constant.Int64Val(tv.Value); ok {
							resolverCases[v] = true
						}
					}
				}
			}
			return true
		})
	}
	// GetLabel's constant results (the not-found value)
	getLabelConsts := map[int64]bool{}
	if gfd := c.P.Decl(getLabelFn); gfd != nil {
		ast.Inspect(gfd.Body, func(n ast.Node) bool {
			if r, ok := n.(*ast.ReturnStmt); ok && len(r.Results) == 1 {
				if tv, ok := info.Types[r.Results[0]]; ok && tv.Value != nil {
					if v, ok := constant.Int64Val(tv.Value); ok {
						getLabelConsts[v] = true
					}
				}
			}
			return true
		})
	}
	tableRead := false
	for _, cs := range ts.Body.List {
		if callsTo(cs, getLabelFn) {
			tableRead = true
		}
	}
	for _, cs := range ts.Body.List {
		cc := cs.(*ast.CaseClause)
		arm := armName(cc)
		if len(cc.Body) == 0 {
			continue
		}
		armNode := &ast.BlockStmt{List: cc.Body, Lbrace: cc.Body[0].Pos(), Rbrace: cc.Body[len(cc.Body)-1].End()}
		inArm := func(n ast.Node) bool { return n != nil && n.Pos() >= armNode.Lbrace && n.End() <= armNode.Rbrace }
		// entry of the arm: the CFG node of the arm with the smallest position (case bodies start a block)
		var entry CFGPoint
		entryOK := false
		for _, b := range g.Blocks {
			for i, bn := range b.Nodes {
				if inArm(bn) && (!entryOK || bn.Pos() < entry.B.Nodes[entry.I+1].Pos()) {
					entry, entryOK = CFGPoint{b, i - 1}, true
				}
			}
		}

		// O3: bracketing
		if begin := appendOf(armNode, nm.scopeBegin); begin != nil {
			from, ok := FindNode(g, begin)
			if !ok {
				c.Undecided("C24-O3", nm.compiler+"/"+arm, begin.Pos(), "emission not found in the CFG")
			} else {
				barrier := func(n ast.Node) bool { return appendOf(n, nm.scopeEnd) != nil }
				// exits of the arm: a return statement, or the first node after the arm
				target := func(n ast.Node) bool {
					if _, isRet := n.(*ast.ReturnStmt); isRet {
						return true
					}
					return !inArm(n)
				}
				path := PathAvoiding(g, from, barrier, target, errEdgePrune)
				if path == nil {
					c.Ok("C24-O3", nm.compiler+"/"+arm, begin.Pos(), "every non-error path emits "+nm.scopeEnd)
				} else {
					c.Bad("C24-O3", nm.compiler+"/"+arm, begin.Pos(), nm.scopeBegin+" is emitted but a non-error path leaves the arm without emitting "+nm.scopeEnd+": the interpreter pushes a variable scope that is never popped (DECLAREd names leak into the enclosing block)", c.P.DescribePath(path)...)
				}
			}
		}

		// O4: goto literals of this arm
		ast.Inspect(armNode, func(n ast.Node) bool {
			lit := isOpLit(n)
			if lit == nil {
				return true
			}
			if oc := litField(lit, "OpCode"); oc == nil || constName(oc) != nm.gotoOp {
				return true
			}
			key := nm.compiler + "/" + arm + "/goto"
			idx := litField(lit, "Index")
			hasTarget := litField(lit, "Target") != nil
			if idx == nil {
				// a later assignment X.Index = ... whose X may alias this literal
				assigned := false
				ast.Inspect(armNode, func(m ast.Node) bool {
					as, ok := m.(*ast.AssignStmt)
					if !ok {
						return true
					}
					for _, l := range as.Lhs {
						sel, ok := ast.Unparen(l).(*ast.SelectorExpr)
						if !ok || sel.Sel.Name != "Index" {
							continue
						}
						deps.Aliases(sel.X, func(x ast.Expr) {
							if x == ast.Expr(lit) {
								assigned = true
							}
						})
					}
					return true
				})
				c.Check(assigned, "C24-O4", key, lit.Pos(), "Index assigned after emission",
					"emitted "+nm.gotoOp+" has no Index and no later .Index assignment reaches it: it jumps to operation 0 (the procedure restarts)")
				return true
			}
			var symbolic []int64
			if tv := info.Types[idx]; tv.Value != nil {
				if v, ok := constant.Int64Val(tv.Value); ok && v < 0 {
					symbolic = append(symbolic, v)
				}
			}
			if callsTo(idx, getLabelFn) {
				for v := range getLabelConsts {
					symbolic = append(symbolic, v)
				}
			}
			if len(symbolic) == 0 {
				c.Ok("C24-O4", key, lit.Pos(), "concrete Index "+types.ExprString(idx))
				return true
			}
			var bad []string
			for _, v := range symbolic {
				if !resolverCases[v] {
					bad = append(bad, fmt.Sprintf("symbolic Index %d is not a case of %s's Index switch (never resolved: the interpreter runs a goto to a negative position)", v, nm.resolver))
				}
			}
			if !hasTarget {
				bad = append(bad, "symbolic Index without Target: the resolver matches goto operations by Target label")
			}
			c.Check(len(bad) == 0, "C24-O4", key, lit.Pos(), fmt.Sprintf("symbolic Index %v resolved by %s", symbolic, nm.resolver), strings.Join(bad, "; "))
			return true
		})

		// O5: loop arms register their label before compiling body statements
		isLoopArm := litWithOp(armNode, nm.gotoOp) != nil && callsTo(armNode, resolverFn)
		if isLoopArm {
			key := nm.compiler + "/" + arm
			if !entryOK {
				c.Undecided("C24-O5", key, cc.Pos(), "arm not found in the CFG")
			} else if !tableRead {
				c.Ok("C24-O5", key, cc.Pos(), "no arm reads the label table: labels are resolved by "+nm.resolver+" only")
			} else {
				// label guard: if X != "" { NewLabel(X, ...) }
				guards := map[ast.Node]bool{}
				ast.Inspect(armNode, func(n ast.Node) bool {
					ifs, ok := n.(*ast.IfStmt)
					if !ok {
						return true
					}
					be, ok := ast.Unparen(ifs.Cond).(*ast.BinaryExpr)
					if !ok || be.Op != token.NEQ {
						return true
					}
					if tv := info.Types[be.Y]; tv.Value == nil || tv.Value.Kind() != constant.String || constant.StringVal(tv.Value) != "" {
						return true
					}
					ok2 := false
					ast.Inspect(ifs.Body, func(m ast.Node) bool {
						if call, ok := m.(*ast.CallExpr); ok && originOf(Callee(info, call)) == newLabelFn && len(call.Args) > 0 &&
							types.ExprString(call.Args[0]) == types.ExprString(be.X) {
							ok2 = true
						}
						return true
					})
					if ok2 {
						guards[ifs.Cond] = true
					}
					return true
				})
				barrier := func(n ast.Node) bool {
					if e, ok := n.(ast.Expr); ok && guards[ast.Unparen(e)] {
						return true
					}
					if guards[n] {
						return true
					}
					return callsTo(n, newLabelFn)
				}
				target := func(n ast.Node) bool { return inArm(n) && compFn != nil && callsTo(n, compFn) }
				path := PathAvoiding(g, entry, barrier, target, nil)
				if path == nil {
					c.Ok("C24-O5", key, cc.Pos(), "label registered before the body is compiled")
				} else {
					c.Bad("C24-O5", key, cc.Pos(), fmt.Sprintf("loop arm %s compiles a body statement before (or without) registering its label with %s, while ITERATE resolves labels through %s: an ITERATE inside this loop binds to a stale label of an earlier loop with the same name", arm, nm.newLabel, nm.getLabel), c.P.DescribePath(path)...)
				}
			}
		}
	}

	// ---- O6: goto scope walker -----------------------------------------------------------------------
	effect := func(cc *ast.CaseClause) string {
		if cc == nil {
			return "none"
		}
		var out []string
		for _, st := range cc.Body {
			if callsTo(st, pushFn) {
				out = append(out, "push")
			}
			if callsTo(st, popFn) {
				out = append(out, "pop")
			}
		}
		if len(out) == 0 {
			return "none"
		}
		return strings.Join(out, "+")
	}
	inverse := map[string]string{"push": "pop", "pop": "push", "none": "none"}
	mainEff := map[string]string{nm.scopeBegin: effect(dispatch.cases[nm.scopeBegin]), nm.scopeEnd: effect(dispatch.cases[nm.scopeEnd])}
	if mainEff[nm.scopeBegin] != "push" || mainEff[nm.scopeEnd] != "pop" {
		c.Bad("C24-O6", DeclName(dispatch.fd)+"/dispatch", dispatch.stmt.Pos(), fmt.Sprintf("dispatch arms: %s -> %s, %s -> %s; expected push / pop", nm.scopeBegin, mainEff[nm.scopeBegin], nm.scopeEnd, mainEff[nm.scopeEnd]))
	}
	gotoArm := dispatch.cases[nm.gotoOp]
	nWalk := 0
	if gotoArm != nil {
		for _, st := range gotoArm.Body {
			ast.Inspect(st, func(n ast.Node) bool {
				fs, ok := n.(*ast.ForStmt)
				if !ok {
					return true
				}
				inc, ok := fs.Post.(*ast.IncDecStmt)
				if !ok {
					return true
				}
				var inner *sw
				for _, w := range switches {
					if w.stmt.Pos() >= fs.Body.Pos() && w.stmt.End() <= fs.Body.End() {
						inner = w
					}
				}
				if inner == nil {
					return true
				}
				dir := "forward"
				if inc.Tok == token.DEC {
					dir = "backward"
				}
				c24WalkDirs[dir] = true
				for _, op := range []string{nm.scopeBegin, nm.scopeEnd} {
					want := mainEff[op]
					if dir == "backward" {
						want = inverse[want]
					}
					got := effect(inner.cases[op])
					nWalk++
					c.Check(got == want, "C24-O6", DeclName(dispatch.fd)+"/"+dir+"/"+op, inner.stmt.Pos(), got,
						fmt.Sprintf("the %s goto walk performs %q for %s but executing the operation performs %q (so a %s jump must perform %q): the scope stack is out of step with the operation counter after LEAVE/ITERATE/IF jumps", dir, got, op, mainEff[op], dir, want))
				}
				return false
			})
		}
	}
	if nWalk > 0 && !c.fixtureMode {
		for _, dir := range []string{"forward", "backward"} {
			if !c24WalkDirs[dir] {
				c.Bad("C24-O6", DeclName(dispatch.fd)+"/"+dir+"/walker-missing", dispatch.stmt.Pos(),
					fmt.Sprintf("the goto handler has no %s scope walk: a %s jump (LEAVE/IF/CASE skip forward, ITERATE/loops jump backward) crosses ScopeBegin/ScopeEnd operations without replaying them, so DECLAREd variables and handlers of the skipped block stay in (or fall out of) scope", dir, dir))
			}
		}
	}
	if nWalk == 0 && !c.fixtureMode {
		c.Undecided("C24-O6", "walker", dispatch.stmt.Pos(), "goto handler's scope walker (for loops with ++/-- and a nested switch over "+nm.enum+") not found")
	}
}
