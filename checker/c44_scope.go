package main

import (
	"fmt"
	"go/ast"
	"go/token"
	"go/types"
	"sort"
	"strings"

	"golang.org/x/tools/go/packages"
)

// C44-S1: scope preservation of SET.
//
// A SET statement names a scope (session / global / persist …); the analysed statement carries it
// as a sql.SystemVariableScope object and the executor writes the value with
// scope.SetValue(ctx, name, val), which dispatches to the fixed-scope stores (session map,
// global registry, persisted file). An executor that also writes derived variables
// (character_set_* <-> collation_*) must write them through the SAME scope object: a write through
// a fixed-scope store makes `SET GLOBAL x` change the issuing session and leave the global stale.
//
// Everything is discovered:
//   - the scope interface method (SystemVariableScope.SetValue) by name in package sql;
//   - the fixed-scope stores: the callees that receive the `name` parameter inside the
//     implementations of that method (today Session.SetSessionVariable,
//     SystemVariableRegistry.SetGlobal, PersistableSession.PersistGlobal / RemovePersistedGlobal);
//   - the executors: every function of the loaded module packages that calls the interface
//     method.
type c44sCfg struct {
	sqlRel     string
	scopeIface string
	setMethod  string
	floor      int
}

func c44PathOf(info *types.Info, e ast.Expr) (root types.Object, path string, ok bool) {
	switch x := ast.Unparen(e).(type) {
	case *ast.Ident:
		o := info.Uses[x]
		if o == nil {
			o = info.Defs[x]
		}
		if v, isVar := o.(*types.Var); isVar && !v.IsField() {
			return o, x.Name, true
		}
	case *ast.SelectorExpr:
		if f, isVar := info.Uses[x.Sel].(*types.Var); isVar && f.IsField() {
			if r, p, ok := c44PathOf(info, x.X); ok {
				return r, p + "." + x.Sel.Name, true
			}
		}
	case *ast.StarExpr:
		return c44PathOf(info, x.X)
	}
	return nil, "", false
}

func runC44Scope(c *Ctx, cf c44sCfg) {
	c.Rule("C44-S1", "scope preservation: a function that executes SET through a scope object (calls SystemVariableScope.SetValue) writes every system variable, primary or derived, through that one scope object and never through a fixed-scope store (session / global / persisted), in its own body or in the same-package helpers it calls", cf.floor)
	sqlPk := c.P.Pkg(cf.sqlRel)
	if sqlPk == nil {
		c.Undecided("C44-S1", "package", 0, "package "+cf.sqlRel+" not loaded")
		return
	}
	tn, _ := sqlPk.Types.Scope().Lookup(cf.scopeIface).(*types.TypeName)
	var iface *types.Interface
	if tn != nil {
		iface, _ = tn.Type().Underlying().(*types.Interface)
	}
	if iface == nil {
		c.Undecided("C44-S1", cf.scopeIface, 0, "scope interface "+cf.scopeIface+" not found in "+cf.sqlRel)
		return
	}
	var setM *types.Func
	for i := 0; i < iface.NumMethods(); i++ {
		if iface.Method(i).Name() == cf.setMethod {
			setM = iface.Method(i)
		}
	}
	if setM == nil {
		c.Undecided("C44-S1", cf.scopeIface+"."+cf.setMethod, 0, "method not found")
		return
	}
	sig := setM.Type().(*types.Signature)
	nameIdx := -1
	for i := 0; i < sig.Params().Len(); i++ {
		if b, ok := sig.Params().At(i).Type().Underlying().(*types.Basic); ok && b.Info()&types.IsString != 0 && nameIdx < 0 {
			nameIdx = i
		}
	}
	if nameIdx < 0 {
		c.Undecided("C44-S1", cf.scopeIface+"."+cf.setMethod, setM.Pos(), "no string (variable name) parameter")
		return
	}

	// fixed-scope stores: callees receiving the name parameter inside the implementations
	fixed := map[*types.Func]string{}
	nImpl := 0
	c.P.EachModuleFuncDecl(func(pk *packages.Package, fd *ast.FuncDecl) {
		if fd.Recv == nil || fd.Name.Name != cf.setMethod {
			return
		}
		fn, _ := pk.TypesInfo.Defs[fd.Name].(*types.Func)
		if fn == nil {
			return
		}
		recv := fn.Type().(*types.Signature).Recv().Type()
		if !types.Implements(recv, iface) {
			return
		}
		nImpl++
		fsig := fn.Type().(*types.Signature)
		if nameIdx >= fsig.Params().Len() {
			return
		}
		namePar := fsig.Params().At(nameIdx)
		ast.Inspect(fd.Body, func(n ast.Node) bool {
			call, ok := n.(*ast.CallExpr)
			if !ok {
				return true
			}
			g := Callee(pk.TypesInfo, call)
			if g == nil || g.Pkg() == nil || c.P.PkgOf(g) == nil || g.Type().(*types.Signature).Recv() == nil {
				return true // only methods of the module are stores (not fmt.Errorf / error constructors)
			}
			for _, a := range call.Args {
				if id, ok := ast.Unparen(a).(*ast.Ident); ok && pk.TypesInfo.Uses[id] == namePar {
					fixed[g.Origin()] = FuncName(fn)
				}
			}
			return true
		})
	})
	if nImpl == 0 || len(fixed) == 0 {
		c.Undecided("C44-S1", cf.scopeIface+" implementations", setM.Pos(), fmt.Sprintf("%d implementation(s) of %s.%s with %d store callee(s) found in the loaded packages: the fixed-scope stores cannot be read", nImpl, cf.scopeIface, cf.setMethod, len(fixed)))
		return
	}
	var fixedNames []string
	for f := range fixed {
		fixedNames = append(fixedNames, FuncName(f))
	}
	sort.Strings(fixedNames)
	c.Note("C44-S1", "fixed-scope stores", setM.Pos(), "read from the implementations of "+cf.scopeIface+"."+cf.setMethod+": "+strings.Join(fixedNames, ", "))
	// a call resolves to a fixed-scope store if it is one, or a concrete method implementing one
	isFixed := func(g *types.Func) *types.Func {
		if g == nil {
			return nil
		}
		g = g.Origin()
		if _, ok := fixed[g]; ok {
			return g
		}
		gs, _ := g.Type().(*types.Signature)
		if gs == nil || gs.Recv() == nil {
			return nil
		}
		for f := range fixed {
			fs := f.Type().(*types.Signature)
			if fs.Recv() == nil || f.Name() != g.Name() {
				continue
			}
			if fi, ok := fs.Recv().Type().Underlying().(*types.Interface); ok {
				if types.Implements(gs.Recv().Type(), fi) || types.Implements(types.NewPointer(gs.Recv().Type()), fi) {
					return f
				}
			}
		}
		return nil
	}

	// executors
	type fnDecl struct {
		pk *packages.Package
		fd *ast.FuncDecl
	}
	decls := map[*types.Func]fnDecl{}
	c.P.EachModuleFuncDecl(func(pk *packages.Package, fd *ast.FuncDecl) {
		if fn, ok := pk.TypesInfo.Defs[fd.Name].(*types.Func); ok {
			decls[fn] = fnDecl{pk, fd}
		}
	})
	// a scope write: the interface method, or the same method of a concrete type implementing the interface
	isScopeSet := func(g *types.Func) bool {
		if g == nil {
			return false
		}
		if g == setM {
			return true
		}
		gs, _ := g.Type().(*types.Signature)
		if gs == nil || gs.Recv() == nil || g.Name() != setM.Name() {
			return false
		}
		return types.Implements(gs.Recv().Type(), iface) || types.Implements(types.NewPointer(gs.Recv().Type()), iface)
	}
	isExecutor := func(d fnDecl) bool {
		return c44ContainsCallDeep(d.pk.TypesInfo, d.fd.Body, isScopeSet)
	}
	var execs []*types.Func
	for fn, d := range decls {
		if isExecutor(d) {
			execs = append(execs, fn)
		}
	}
	sort.Slice(execs, func(i, j int) bool { return FuncName(execs[i]) < FuncName(execs[j]) })
	if len(execs) == 0 {
		c.Undecided("C44-S1", "executors", setM.Pos(), "no function of the loaded packages calls "+cf.scopeIface+"."+cf.setMethod)
		return
	}
	for _, efn := range execs {
		d := decls[efn]
		info := d.pk.TypesInfo
		name := DeclName(d.fd)
		seen := map[string]int{}
		mkKey := func(what string) string {
			seen[what]++
			if seen[what] > 1 {
				return fmt.Sprintf("%s/%s#%d", name, what, seen[what])
			}
			return name + "/" + what
		}
		argStr := func(call *ast.CallExpr, i int) string {
			if i < len(call.Args) {
				return types.ExprString(call.Args[i])
			}
			return "?"
		}
		// (1) all writes through one scope path
		type write struct {
			call *ast.CallExpr
			root types.Object
			path string
			ok   bool
		}
		var writes []write
		// local aliases: `scope := sysVar.Scope` (a local assigned exactly once, from a path)
		nAssign := map[types.Object]int{}
		aliasRHS := map[types.Object]ast.Expr{}
		ast.Inspect(d.fd.Body, func(n ast.Node) bool {
			if as, ok := n.(*ast.AssignStmt); ok {
				for i, l := range as.Lhs {
					if id, ok := l.(*ast.Ident); ok {
						o := info.Defs[id]
						if o == nil {
							o = info.Uses[id]
						}
						if o != nil {
							nAssign[o]++
							if len(as.Rhs) == len(as.Lhs) {
								aliasRHS[o] = as.Rhs[i]
							}
						}
					}
				}
			}
			return true
		})
		resolve := func(e ast.Expr) (types.Object, string, bool) {
			r, p, ok := c44PathOf(info, e)
			for depth := 0; ok && depth < 4; depth++ {
				rhs, has := aliasRHS[r]
				if !has || nAssign[r] != 1 {
					break
				}
				r2, p2, ok2 := c44PathOf(info, rhs)
				if !ok2 {
					break
				}
				rest := strings.TrimPrefix(p, r.Name())
				r, p = r2, p2+rest
			}
			return r, p, ok
		}
		ast.Inspect(d.fd.Body, func(n ast.Node) bool {
			call, ok := n.(*ast.CallExpr)
			if !ok || !isScopeSet(Callee(info, call)) {
				return true
			}
			w := write{call: call}
			if sel, ok := call.Fun.(*ast.SelectorExpr); ok {
				w.root, w.path, w.ok = resolve(sel.X)
			}
			writes = append(writes, w)
			return true
		})
		// reference scope: the receiver of the write whose name argument is rooted at the same object (the variable being set)
		var refRoot types.Object
		refPath := ""
		for _, w := range writes {
			if !w.ok || nameIdx >= len(w.call.Args) {
				continue
			}
			if r, _, ok := resolve(w.call.Args[nameIdx]); ok && r == w.root {
				refRoot, refPath = w.root, w.path
				break
			}
		}
		if refRoot == nil {
			// no primary write recognisable: the most common receiver path is the reference
			cnt := map[string]int{}
			for _, w := range writes {
				if w.ok {
					cnt[w.path]++
				}
			}
			best := 0
			for _, w := range writes {
				if w.ok && (cnt[w.path] > best || (cnt[w.path] == best && w.path < refPath)) {
					best, refRoot, refPath = cnt[w.path], w.root, w.path
				}
			}
		}
		// the reference path must not be rebound in the function
		rebound := token.NoPos
		if refRoot != nil {
			ast.Inspect(d.fd.Body, func(n ast.Node) bool {
				as, ok := n.(*ast.AssignStmt)
				if !ok {
					return true
				}
				for _, l := range as.Lhs {
					if r, p, ok := c44PathOf(info, l); ok && r == refRoot && strings.HasPrefix(refPath, p) && as.Tok != token.DEFINE {
						rebound = as.Pos()
					}
				}
				return true
			})
		}
		for _, w := range writes {
			key := mkKey(fmt.Sprintf("write %s = %s", argStr(w.call, nameIdx), argStr(w.call, nameIdx+1)))
			switch {
			case !w.ok:
				c.Bad("C44-S1", key, w.call.Pos(), fmt.Sprintf("%s: the scope object of this write (%s) is not a variable/field path of the function; it cannot be the scope of the statement being executed: the value lands in a scope the statement did not name", name, types.ExprString(w.call.Fun)))
			case w.root != refRoot || w.path != refPath:
				c.Bad("C44-S1", key, w.call.Pos(), fmt.Sprintf("%s writes %s through scope %s while the variable being set is written through %s: a derived variable must be stored in the scope the SET statement names", name, argStr(w.call, nameIdx), w.path, refPath))
			case rebound != token.NoPos:
				c.Bad("C44-S1", key, w.call.Pos(), fmt.Sprintf("%s: the scope %s is reassigned inside the function (%s); the writes may go to different scopes", name, refPath, c.P.Rel(rebound)))
			default:
				c.Ok("C44-S1", key, w.call.Pos(), "through "+w.path+"."+cf.setMethod)
			}
		}
		// (2) no fixed-scope store in the body or in same-package helpers
		guarded := func(call *ast.CallExpr) bool {
			if refRoot == nil {
				return false
			}
			g := false
			c45WalkStack(d.fd.Body, func(n ast.Node, stack []ast.Node) {
				if n != ast.Node(call) {
					return
				}
				for _, s := range stack {
					var cond ast.Node
					switch x := s.(type) {
					case *ast.IfStmt:
						cond = x.Cond
					case *ast.SwitchStmt:
						cond = x.Tag
					case *ast.TypeSwitchStmt:
						cond = x.Assign
					}
					if cond == nil {
						continue
					}
					ast.Inspect(cond, func(m ast.Node) bool {
						if e, ok := m.(ast.Expr); ok {
							if r, p, ok := c44PathOf(info, e); ok && r == refRoot && p == refPath {
								g = true
							}
						}
						return true
					})
				}
			})
			return g
		}
		var scan func(dd fnDecl, chain string, visited map[*types.Func]bool)
		scan = func(dd fnDecl, chain string, visited map[*types.Func]bool) {
			ast.Inspect(dd.fd.Body, func(n ast.Node) bool {
				call, ok := n.(*ast.CallExpr)
				if !ok {
					return true
				}
				g := Callee(dd.pk.TypesInfo, call)
				if g == nil {
					return true
				}
				if f := isFixed(g); f != nil {
					what := fmt.Sprintf("%s%s(%s)", chain, g.Name(), argStr(call, nameIdx))
					key := mkKey(what)
					if chain == "" && guarded(call) {
						c.Ok("C44-S1", key, call.Pos(), "fixed-scope store under a test of "+refPath)
						return true
					}
					via := ""
					if chain != "" {
						via = " (reached from " + name + " through " + strings.TrimSuffix(chain, "/") + ")"
					}
					c.Bad("C44-S1", key, call.Pos(), fmt.Sprintf("%s executes SET through the scope object %s but this write of %s goes to the fixed-scope store %s%s: `SET GLOBAL`/`SET PERSIST` of the variable changes the wrong scope (the issuing session, or the global value for a session SET) and leaves the named scope stale", name, refPath, argStr(call, nameIdx), FuncName(f), via))
					return true
				}
				g = g.Origin()
				if gd, ok := decls[g]; ok && gd.pk == d.pk && !visited[g] && g != efn {
					visited[g] = true
					if !isExecutor(gd) {
						scan(gd, chain+"-> "+DeclName(gd.fd)+"/", visited)
					}
				}
				return true
			})
		}
		scan(d, "", map[*types.Func]bool{})
	}
}

func c44ContainsCallDeep(info *types.Info, n ast.Node, target func(*types.Func) bool) bool {
	found := false
	ast.Inspect(n, func(m ast.Node) bool {
		if call, ok := m.(*ast.CallExpr); ok && target(Callee(info, call)) {
			found = true
		}
		return !found
	})
	return found
}
