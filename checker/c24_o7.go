package main

import (
	"fmt"
	"go/ast"
	"go/constant"
	"go/token"
	"go/types"
	"strings"
)

// C24-O7 — jump targets of the loop arms of the procedure compiler.
//
// Each loop arm (an arm of ConvertStmt's statement type switch that emits a Goto and calls the
// resolver) is abstracted to its *layout*: the sequence of emission events in arm order
//
//	op(lit)   one `*ops = append(*ops, x)` (x traced to its InterpreterOperation literal)
//	body      one loop/statement that compiles the loop's statements by a recursive ConvertStmt call
//
// and every `len(*ops)` read is a *position* (number of events emitted before it; `± constant` is
// resolved across single-op events). This is a dataflow over the order of `len(*ops)` reads and
// appends, not over variable names. Over the layout, jumps are followed symbolically:
// cont(p) = the first observable event reached from position p through unconditional Gotos
// (T = the arm's conditional exit test, B = a copy of the body, exit = the arm's end).
//
// Decided per loop arm:
//
//	iterate   the position the resolver patches into `ITERATE label` continues exactly like the normal
//	          end of every body copy: cont(iterate) == cont(position after each body)
//	shape     WHILE: cont(entry) = T, cont(after T) = B, cont(after each B) = T;
//	          REPEAT: cont(entry) = B, cont(after each B) = T, cont(after T) = B;
//	          LOOP: no T, cont(entry) = B, cont(after each B) = B
//	exit      the exit test's jump target and the position the resolver patches into `LEAVE label`
//	          are the arm's end (after every emitted op)
//	range     the resolver's scan range covers every body copy

const c24O7 = "C24-O7"

type c24Pos struct {
	ev, off int
	ok      bool
}

type c24Event struct {
	body   bool
	lit    *ast.CompositeLit
	opcode string
	at     token.Pos
}

func c24RunO7(c *Ctx, nm c24Names) {
	c.Rule(c24O7, "per loop arm of "+nm.compiler+" (layout = order of appended ops, compiled body copies and len(*ops) reads): ITERATE's patched index continues like the normal end of the body (WHILE: at the condition op); the back-edge gives the statement kind's test/body sequence; the exit test and LEAVE go to the arm's end; the resolver scans every body copy", 14)
	pk := c.P.Pkg(nm.rel)
	if pk == nil {
		c.Undecided(c24O7, "package", 0, "package not loaded: "+nm.rel)
		return
	}
	info := pk.TypesInfo
	consts, enumT := EnumConsts(pk, nm.enum)
	_, compFd := c.P.FuncDecl(nm.rel, nm.compiler)
	compFn, resolverFn := LookupFunc(pk, nm.compiler), LookupFunc(pk, nm.resolver)
	stn, _ := pk.Types.Scope().Lookup(nm.opStruct).(*types.TypeName)
	if compFd == nil || resolverFn == nil || stn == nil || len(consts) == 0 {
		c.Undecided(c24O7, nm.compiler, 0, "compiler, resolver, operation struct or opcode enum not found")
		return
	}
	rfd := c.P.Decl(resolverFn)
	if rfd == nil {
		c.Undecided(c24O7, nm.resolver, 0, "resolver has no body")
		return
	}
	// ops parameter of the compiler: *[]*Op
	isOpsType := func(t types.Type) bool {
		p, ok := t.Underlying().(*types.Pointer)
		if !ok {
			return false
		}
		sl, ok := p.Elem().Underlying().(*types.Slice)
		return ok && dmlNamedOf(sl.Elem()) == dmlNamedOf(stn.Type())
	}
	var opsObj types.Object
	for _, fl := range compFd.Type.Params.List {
		for _, n := range fl.Names {
			if o := info.Defs[n]; o != nil && isOpsType(o.Type()) {
				opsObj = o
			}
		}
	}
	if opsObj == nil {
		c.Undecided(c24O7, nm.compiler+"/ops", compFd.Pos(), "no parameter of type *[]*"+nm.opStruct)
		return
	}
	// resolver: parameter roles
	rparams := map[types.Object]int{}
	i := 0
	for _, fl := range rfd.Type.Params.List {
		for _, n := range fl.Names {
			rparams[info.Defs[n]] = i
			i++
		}
	}
	paramOf := func(x ast.Expr) int {
		if id := identOf(x); id != nil {
			if k, ok := rparams[info.Uses[id]]; ok {
				return k
			}
		}
		return -1
	}
	symCase := map[int64]int{} // symbolic Index constant -> resolver parameter stored into Index
	startP, endP := -1, -1
	ast.Inspect(rfd.Body, func(n ast.Node) bool {
		switch s := n.(type) {
		case *ast.ForStmt:
			if as, ok := s.Init.(*ast.AssignStmt); ok && len(as.Rhs) == 1 && startP < 0 {
				startP = paramOf(as.Rhs[0])
			}
			if be, ok := s.Cond.(*ast.BinaryExpr); ok && be.Op == token.LSS && endP < 0 {
				endP = paramOf(be.Y)
			}
		case *ast.SwitchStmt:
			sel, ok := ast.Unparen(s.Tag).(*ast.SelectorExpr)
			if s.Tag == nil || !ok || sel.Sel.Name != "Index" {
				return true
			}
			for _, cs := range s.Body.List {
				cc := cs.(*ast.CaseClause)
				for _, x := range cc.List {
					tv := info.Types[x]
					if tv.Value == nil {
						continue
					}
					v, _ := constant.Int64Val(tv.Value)
					for _, st := range cc.Body {
						if as, ok := st.(*ast.AssignStmt); ok && len(as.Lhs) == 1 && len(as.Rhs) == 1 {
							if ls, ok := ast.Unparen(as.Lhs[0]).(*ast.SelectorExpr); ok && ls.Sel.Name == "Index" {
								if k := paramOf(as.Rhs[0]); k >= 0 {
									symCase[v] = k
								}
							}
						}
					}
				}
			}
		}
		return true
	})
	var ts *ast.TypeSwitchStmt
	for _, st := range compFd.Body.List {
		if t, ok := st.(*ast.TypeSwitchStmt); ok {
			ts = t
		}
	}
	if ts == nil {
		c.Undecided(c24O7, nm.compiler, compFd.Pos(), "no type switch over the statement kinds found")
		return
	}
	isOpLit := func(x ast.Expr) *ast.CompositeLit {
		if u, ok := ast.Unparen(x).(*ast.UnaryExpr); ok && u.Op == token.AND {
			x = u.X
		}
		lit, ok := ast.Unparen(x).(*ast.CompositeLit)
		if !ok || dmlNamedOf(info.Types[lit].Type) != dmlNamedOf(stn.Type()) {
			return nil
		}
		return lit
	}
	litField := func(lit *ast.CompositeLit, name string) ast.Expr {
		for _, el := range lit.Elts {
			if kv, ok := el.(*ast.KeyValueExpr); ok {
				if id, ok := kv.Key.(*ast.Ident); ok && id.Name == name {
					return kv.Value
				}
			}
		}
		return nil
	}
	opcodeOf := func(lit *ast.CompositeLit) string {
		oc := litField(lit, "OpCode")
		if oc == nil {
			return consts[0].Obj.Name()
		}
		if tv, ok := info.Types[oc]; ok && tv.Value != nil && types.Identical(tv.Type, enumT) {
			return nameOf(consts, tv.Value)
		}
		return ""
	}
	kindOf := func(cc *ast.CaseClause) string {
		if len(cc.List) != 1 {
			return ""
		}
		if nt := dmlNamedOf(info.Types[cc.List[0]].Type); nt != nil {
			return nt.Obj().Name()
		}
		return ""
	}
	// the symbolic constants the ITERATE and LEAVE arms emit
	iterConst, leaveConst := int64(0), int64(0)
	for _, cs := range ts.Body.List {
		cc := cs.(*ast.CaseClause)
		k := kindOf(cc)
		if k != "Iterate" && k != "Leave" {
			continue
		}
		for _, st := range cc.Body {
			ast.Inspect(st, func(n ast.Node) bool {
				if x, ok := n.(ast.Expr); ok {
					if lit := isOpLit(x); lit != nil && opcodeOf(lit) == nm.gotoOp {
						if idx := litField(lit, "Index"); idx != nil {
							if tv := info.Types[idx]; tv.Value != nil {
								if v, ok := constant.Int64Val(tv.Value); ok && v < 0 {
									if k == "Iterate" {
										iterConst = v
									} else {
										leaveConst = v
									}
								}
							}
						}
					}
				}
				return true
			})
		}
	}
	iterP, hasIter := symCase[iterConst]
	leaveP, hasLeave := symCase[leaveConst]
	if iterConst == 0 || leaveConst == 0 || !hasIter || !hasLeave || startP < 0 || endP < 0 {
		c.Undecided(c24O7, nm.resolver+"/roles", rfd.Pos(), fmt.Sprintf("cannot read the resolver's parameter roles (iterate const %d, leave const %d, cases %v, scan range params %d..%d)", iterConst, leaveConst, symCase, startP, endP))
		return
	}

	usesOps := func(n ast.Node) bool {
		found := false
		ast.Inspect(n, func(m ast.Node) bool {
			if id, ok := m.(*ast.Ident); ok && info.Uses[id] == opsObj {
				found = true
			}
			return !found
		})
		return found
	}
	isLenOps := func(x ast.Expr) bool {
		call, ok := ast.Unparen(x).(*ast.CallExpr)
		if !ok || !IsBuiltinCall(info, call, "len") || len(call.Args) != 1 {
			return false
		}
		st, ok := ast.Unparen(call.Args[0]).(*ast.StarExpr)
		return ok && identOf(st.X) != nil && info.Uses[identOf(st.X)] == opsObj
	}
	compiles := func(n ast.Node) bool {
		return ContainsCall(info, n, func(f *types.Func, _ *ast.CallExpr) bool { return f.Origin() == compFn })
	}

	for _, cs := range ts.Body.List {
		cc := cs.(*ast.CaseClause)
		kind := kindOf(cc)
		hasGoto, callsResolver := false, false
		for _, st := range cc.Body {
			ast.Inspect(st, func(n ast.Node) bool {
				if x, ok := n.(ast.Expr); ok {
					if lit := isOpLit(x); lit != nil && opcodeOf(lit) == nm.gotoOp {
						hasGoto = true
					}
				}
				if call, ok := n.(*ast.CallExpr); ok {
					if fn := Callee(info, call); fn != nil && fn.Origin() == resolverFn {
						callsResolver = true
					}
				}
				return true
			})
		}
		if !hasGoto || !callsResolver {
			continue
		}
		arm := nm.compiler + "/" + kind
		// ---- abstract walk of the arm ---------------------------------------------------------
		var events []c24Event
		varPos := map[types.Object]c24Pos{}
		litOf := map[types.Object]*ast.CompositeLit{}
		idxPos := map[*ast.CompositeLit]c24Pos{} // position stored in the literal's Index
		var resolverArgs []c24Pos
		var resolverCall *ast.CallExpr
		problem := ""
		fail := func(n ast.Node, why string) {
			if problem == "" {
				problem = why + " at " + c.P.Rel(n.Pos())
			}
		}
		var posExpr func(x ast.Expr) c24Pos
		posExpr = func(x ast.Expr) c24Pos {
			x = ast.Unparen(x)
			if isLenOps(x) {
				return c24Pos{len(events), 0, true}
			}
			if id, ok := x.(*ast.Ident); ok {
				if p, ok := varPos[info.Uses[id]]; ok {
					return p
				}
			}
			if sel, ok := x.(*ast.SelectorExpr); ok && sel.Sel.Name == "Index" {
				if id := identOf(sel.X); id != nil {
					if lit := litOf[info.Uses[id]]; lit != nil {
						if p, ok := idxPos[lit]; ok {
							return p
						}
					}
				}
			}
			if be, ok := x.(*ast.BinaryExpr); ok && (be.Op == token.ADD || be.Op == token.SUB) {
				if tv := info.Types[be.Y]; tv.Value != nil {
					if k, ok := constant.Int64Val(tv.Value); ok {
						if p := posExpr(be.X); p.ok {
							if be.Op == token.SUB {
								k = -k
							}
							return c24Pos{p.ev, p.off + int(k), true}
						}
					}
				}
			}
			return c24Pos{}
		}
		noteLit := func(lit *ast.CompositeLit) {
			if idx := litField(lit, "Index"); idx != nil {
				if p := posExpr(idx); p.ok {
					idxPos[lit] = p
				}
			}
		}
		var walk func(list []ast.Stmt)
		walk = func(list []ast.Stmt) {
			for _, st := range list {
				switch s := st.(type) {
				case *ast.AssignStmt:
					// *ops = append(*ops, x...)
					if len(s.Lhs) == 1 && len(s.Rhs) == 1 {
						if star, ok := ast.Unparen(s.Lhs[0]).(*ast.StarExpr); ok && identOf(star.X) != nil && info.Uses[identOf(star.X)] == opsObj {
							call, ok := ast.Unparen(s.Rhs[0]).(*ast.CallExpr)
							if !ok || !IsBuiltinCall(info, call, "append") || len(call.Args) < 2 || !usesOps(call.Args[0]) || call.Ellipsis.IsValid() {
								fail(s, "the operation list is assigned something other than append(*ops, op…)")
								continue
							}
							for _, a := range call.Args[1:] {
								lit := isOpLit(a)
								if lit != nil {
									noteLit(lit)
								} else if id := identOf(a); id != nil {
									lit = litOf[info.Uses[id]]
								}
								if lit == nil {
									fail(a, "appended operation is not traceable to a literal")
									continue
								}
								events = append(events, c24Event{lit: lit, opcode: opcodeOf(lit), at: s.Pos()})
							}
							continue
						}
					}
					if len(s.Lhs) != len(s.Rhs) {
						if usesOps(s) {
							fail(s, "the operation list is used in a multi-value assignment")
						}
						continue
					}
					for k, l := range s.Lhs {
						r := s.Rhs[k]
						if id, ok := ast.Unparen(l).(*ast.Ident); ok {
							o := info.Defs[id]
							if o == nil {
								o = info.Uses[id]
							}
							if lit := isOpLit(r); lit != nil {
								noteLit(lit)
								litOf[o] = lit
								continue
							}
							if p := posExpr(r); p.ok {
								varPos[o] = p
								continue
							}
							if _, had := varPos[o]; had {
								fail(s, "a position variable is assigned a value outside the abstraction")
							}
							if usesOps(r) {
								fail(s, "the operation list is read in a way outside the abstraction")
							}
							continue
						}
						if sel, ok := ast.Unparen(l).(*ast.SelectorExpr); ok && sel.Sel.Name == "Index" {
							if id := identOf(sel.X); id != nil {
								if lit := litOf[info.Uses[id]]; lit != nil {
									if p := posExpr(r); p.ok {
										idxPos[lit] = p
									} else {
										delete(idxPos, lit)
										fail(s, "Index of an emitted operation is assigned a value outside the abstraction")
									}
									continue
								}
							}
						}
						if usesOps(s) {
							fail(s, "the operation list is used in an assignment outside the abstraction")
						}
					}
				case *ast.RangeStmt, *ast.ForStmt:
					if compiles(s) {
						bad := false
						ast.Inspect(s, func(n ast.Node) bool {
							if call, ok := n.(*ast.CallExpr); ok && (IsBuiltinCall(info, call, "append") || IsBuiltinCall(info, call, "len")) && usesOps(call) {
								bad = true
							}
							return true
						})
						if bad {
							fail(s, "a body-compiling loop also appends to / measures the operation list")
						}
						events = append(events, c24Event{body: true, at: s.Pos()})
					} else if usesOps(s) {
						fail(s, "a loop uses the operation list without compiling body statements")
					}
				case *ast.IfStmt:
					if compiles(s) && s.Else == nil && s.Init != nil && compiles(s.Init) {
						events = append(events, c24Event{body: true, at: s.Pos()}) // if err := ConvertStmt(…); err != nil { return err }
					} else if usesOps(s) {
						fail(s, "conditional use of the operation list")
					}
				case *ast.ExprStmt:
					call, ok := s.X.(*ast.CallExpr)
					if ok {
						if fn := Callee(info, call); fn != nil && fn.Origin() == resolverFn {
							if resolverCall != nil {
								fail(s, "the resolver is called twice")
							}
							resolverCall = call
							resolverArgs = nil
							for _, a := range call.Args {
								resolverArgs = append(resolverArgs, posExpr(a))
							}
							continue
						}
					}
					if usesOps(s) {
						fail(s, "the operation list is passed to a call outside the abstraction")
					}
				case *ast.BlockStmt:
					walk(s.List)
				default:
					if usesOps(st) {
						fail(st, "statement uses the operation list outside the abstraction")
					}
				}
			}
		}
		walk(cc.Body)
		N := len(events)
		if problem != "" || resolverCall == nil {
			if problem == "" {
				problem = "no top-level resolver call in the arm"
			}
			c.Undecided(c24O7, arm+"/layout", cc.Pos(), "arm layout not readable: "+problem)
			continue
		}
		// normalise a position across single-op events
		norm := func(p c24Pos) (int, bool) {
			if !p.ok {
				return 0, false
			}
			for p.off > 0 && p.ev < N && !events[p.ev].body {
				p.ev++
				p.off--
			}
			for p.off < 0 && p.ev > 0 && !events[p.ev-1].body {
				p.ev--
				p.off++
			}
			return p.ev, p.off == 0 && p.ev >= 0 && p.ev <= N
		}
		describe := func(p int) string {
			switch {
			case p >= N:
				return "the arm's end"
			case events[p].body:
				return fmt.Sprintf("the body copy compiled at %s", c.P.Rel(events[p].at))
			default:
				return fmt.Sprintf("the %s op appended at %s", events[p].opcode, c.P.Rel(events[p].at))
			}
		}
		// cont(p)
		cont := func(p int) string {
			for steps := 0; steps <= N+1; steps++ {
				if p >= N {
					return "exit"
				}
				ev := events[p]
				if ev.body {
					return "B"
				}
				if ev.opcode != nm.gotoOp {
					return "T"
				}
				ip, ok := idxPos[ev.lit]
				if !ok {
					return "unknown(goto without a position)"
				}
				q, ok := norm(ip)
				if !ok {
					return "unknown(goto into a body)"
				}
				p = q
			}
			return "diverges(goto cycle without test or body)"
		}
		var layout []string
		var tests, bodies []int
		for k, ev := range events {
			switch {
			case ev.body:
				layout = append(layout, "body")
				bodies = append(bodies, k)
			case ev.opcode == nm.gotoOp:
				layout = append(layout, "goto")
			default:
				layout = append(layout, "test:"+ev.opcode)
				tests = append(tests, k)
			}
		}
		lay := "[" + strings.Join(layout, " ") + "]"
		if len(bodies) == 0 || len(tests) > 1 {
			c.Undecided(c24O7, arm+"/layout", cc.Pos(), "arm layout "+lay+" has no body copy or more than one non-goto operation")
			continue
		}
		argPos := func(k int) (int, bool) {
			if k >= len(resolverArgs) {
				return 0, false
			}
			return norm(resolverArgs[k])
		}
		// (1) iterate
		if it, ok := argPos(iterP); !ok {
			c.Undecided(c24O7, arm+"/iterate", resolverCall.Pos(), "the index patched into ITERATE is not a position of the layout "+lay)
		} else {
			got := cont(it)
			var bad []string
			for _, b := range bodies {
				if want := cont(b + 1); want != got {
					bad = append(bad, fmt.Sprintf("after the body copy at %s control continues at %s, but ITERATE is resolved to %s and continues at %s", c.P.Rel(events[b].at), want, describe(it), got))
				}
			}
			if len(bad) == 0 {
				c.Ok(c24O7, arm+"/iterate", resolverCall.Pos(), fmt.Sprintf("layout %s: ITERATE -> %s, continues at %s like the end of every body copy", lay, describe(it), got))
			} else {
				c.Bad(c24O7, arm+"/iterate", resolverCall.Pos(), fmt.Sprintf("layout %s: %s (T = the loop's exit test, B = the body): ITERATE must start the next iteration exactly as falling off the end of the body does; here an ITERATE executed when the loop condition no longer holds runs the body again", lay, strings.Join(bad, "; ")))
			}
		}
		// (2) shape
		{
			var bad []string
			expect := func(what string, got, want string) {
				if got != want {
					bad = append(bad, fmt.Sprintf("%s continues at %s, must be %s", what, got, want))
				}
			}
			switch kind {
			case "While":
				if len(tests) != 1 {
					bad = append(bad, "no exit test is emitted")
				} else {
					expect("the arm's entry", cont(0), "T")
					expect("the exit test's fall-through", cont(tests[0]+1), "B")
				}
				for _, b := range bodies {
					expect("the end of the body copy at "+c.P.Rel(events[b].at), cont(b+1), "T")
				}
			case "Repeat":
				if len(tests) != 1 {
					bad = append(bad, "no exit test is emitted")
				} else {
					expect("the arm's entry", cont(0), "B")
					expect("the exit test's fall-through", cont(tests[0]+1), "B")
				}
				for _, b := range bodies {
					expect("the end of the body copy at "+c.P.Rel(events[b].at), cont(b+1), "T")
				}
			case "Loop":
				if len(tests) != 0 {
					bad = append(bad, "LOOP has no exit test, but a non-goto operation is emitted")
				}
				expect("the arm's entry", cont(0), "B")
				for _, b := range bodies {
					expect("the end of the body copy at "+c.P.Rel(events[b].at), cont(b+1), "B")
				}
			default:
				c.Note(c24O7, arm+"/shape", cc.Pos(), "loop arm of an unknown statement kind: layout "+lay)
			}
			if kind == "While" || kind == "Repeat" || kind == "Loop" {
				c.Check(len(bad) == 0, c24O7, arm+"/shape", cc.Pos(), "layout "+lay, fmt.Sprintf("layout %s of the %s arm: %s (T = exit test, B = body): the compiled jumps do not give the statement's test/body sequence", lay, strings.ToUpper(kind), strings.Join(bad, "; ")))
			}
		}
		// (3) exits
		if lv, ok := argPos(leaveP); !ok {
			c.Undecided(c24O7, arm+"/leave", resolverCall.Pos(), "the index patched into LEAVE is not a position of the layout "+lay)
		} else {
			c.Check(lv == N, c24O7, arm+"/leave", resolverCall.Pos(), "LEAVE -> the arm's end", fmt.Sprintf("layout %s: LEAVE is resolved to %s, must be the arm's end (the first operation after the loop)", lay, describe(lv)))
		}
		for _, t := range tests {
			ip, has := idxPos[events[t].lit]
			q, ok := norm(ip)
			if !has || !ok {
				c.Undecided(c24O7, arm+"/exit-test", events[t].at, "the exit test's jump target is not a position of the layout "+lay)
			} else {
				c.Check(q == N, c24O7, arm+"/exit-test", events[t].at, "exit test -> the arm's end", fmt.Sprintf("layout %s: the exit test jumps to %s when the loop ends, must be the arm's end", lay, describe(q)))
			}
		}
		// (4) scan range
		s0, ok1 := argPos(startP)
		e0, ok2 := argPos(endP)
		if !ok1 || !ok2 {
			c.Undecided(c24O7, arm+"/resolve-range", resolverCall.Pos(), "the resolver's scan range is not a pair of positions of the layout "+lay)
		} else {
			c.Check(s0 <= bodies[0] && e0 >= bodies[len(bodies)-1]+1, c24O7, arm+"/resolve-range", resolverCall.Pos(), "every body copy is scanned",
				fmt.Sprintf("layout %s: the resolver scans from %s to %s and misses a body copy: ITERATE/LEAVE placeholders there keep their negative index", lay, describe(s0), describe(e0)))
		}
	}
}
