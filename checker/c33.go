package main

import (
	"fmt"
	"go/ast"
	"go/token"
	"go/types"
	"os"
	"path/filepath"
	"sort"
	"strings"
	"time"

	"golang.org/x/tools/go/packages"
	"golang.org/x/tools/go/ssa"
	"golang.org/x/tools/go/ssa/ssautil"
)

// C33 — the REGEXP_* functions agree with each other and invalid patterns produce errors.
//
// The match positions are computed at run time by ICU (cgo, outside the analysed source), so
// nothing here says what a pattern matches. Decided are the structural necessary conditions
// that live in the Go wrappers: one compile helper fed from the same arguments (G1), every
// error of the helper / the matcher / the match_type validator reaches the caller of Eval (G2),
// NULL arguments and a NULL pattern yield NULL in every sibling (G3), the strings and the
// position/occurrence integers handed to the matcher are derived from the SQL arguments the
// same way in every sibling (S1, G5), and the match_type validator and the flag interpreter
// agree (G6); what a node keeps across rows is guarded by a cacheability flag over every argument it
// depends on (G7).

type c33Config struct {
	FuncRel   string // package of the SQL functions
	RegexRel  string // package that declares (or aliases) the matcher interface
	RegexName string
	ExprRel   string // package of the expression interface
	ExprIface string
	EvalM     string
	UnwrapRel string   // package of the unwrap helpers
	Unwraps   []string // functions that turn a lazily loaded wrapper into its value
	ConvRel   string   // package / type / method of the to-text conversion
	ConvType  string
	ConvM     string
	// ErrCtors: full names of functions/methods whose error result is never nil (library contracts).
	ErrCtors []string
	// ConstArgs: matcher method -> largest constant accepted for (start, occurrence) when the call
	// passes constants instead of SQL arguments (read from the pinned matcher: see c33Repo).
	ConstArgs map[string][2]int64

	FloorFamily, FloorG1, FloorG2, FloorSlot, FloorG3, FloorG3c, FloorS1, FloorG5, FloorG6, FloorG7 int
}

var c33Repo = c33Config{
	FuncRel: "sql/expression/function", RegexRel: "internal/regex", RegexName: "Regex",
	ExprRel: "sql", ExprIface: "Expression", EvalM: "Eval",
	UnwrapRel: "sql", Unwraps: []string{"Unwrap", "UnwrapAny"},
	ConvRel: "sql/types", ConvType: "StringType", ConvM: "Convert",
	ErrCtors: []string{"gopkg.in/src-d/go-errors.v1.Kind.New", "gopkg.in/src-d/go-errors.v1.Kind.Wrap", "fmt.Errorf", "errors.New"},
	// go-icu-regex (pinned in go.mod): Matches passes `start` to uregex_find unchanged (0-based, unlike
	// IndexOf/Substring/Replace which subtract 1) and loops `for i := 1; i < occurrence`: a whole-subject
	// test is Matches(0, 0|1).
	ConstArgs: map[string][2]int64{"Matches": {0, 1}},
	// floors: the family and the per-argument rules equal today's counts; rules counted per call site sit below today's counts
	// (37 / 28 / 16 / 21 / 13 / 11) because merging the two compile call sites of a node or dropping the dead cache fields of
	// REGEXP_REPLACE is a legitimate refactor
	FloorFamily: 4, FloorG1: 21, FloorG2: 19, FloorSlot: 8, FloorG3: 14, FloorG3c: 16, FloorS1: 7, FloorG5: 11, FloorG6: 11, FloorG7: 10,
}

func init() {
	register(&Property{
		ID:        "C33",
		Patterns:  []string{"./sql/expression/function"},
		Technique: "sibling agreement over go/ssa (resolved callees, argument origins), path exploration with value identity for error propagation and NULL returns, switch-table agreement (go/ast + go/constant); visitor-callback parameter use (go/ast + go/types)",
		Explanation: "Structural necessary conditions of 'REGEXP_LIKE / REGEXP_INSTR / REGEXP_SUBSTR / REGEXP_REPLACE agree and invalid patterns produce errors', decided on the Go wrappers (the family = every struct type of " +
			"sql/expression/function that stores a value of the internal/regex matcher interface; the interface's methods are enumerated from its method set with go/types; analysed with the real build's " +
			"configuration: cgo enabled, no gms_pure_go tag, i.e. internal/regex/regex_cgo.go aliasing github.com/dolthub/go-icu-regex). " +
			"(G1) one compiler: every value stored into a family type's matcher field is result 0 of one and the same package function H (or the matcher handed over from another node of the same type, or nil); " +
			"H is the only function of the loaded module that calls a constructor of the matcher; at every call of H the pattern / subject / match_type parameters receive receiver fields, the same field at every call " +
			"site of a type, fields of the same name in every sibling, and the subject field is the field whose evaluated value is handed to the matcher as the match string. " +
			"(G2) error discipline: the error result of every call of H, of every method of the matcher interface and of every package-local helper of H (the match_type validator) is, on every path from the call, " +
			"returned in the error position of the enclosing function (value identity through phis, cells and wrapping calls; after an `err != nil` test only the non-nil edge carries the obligation), or stored into an " +
			"error field of the node (the cached compile error); a discarded or overwritten error, or a return of nil in its place, is a violation. For the cached-error field: after every call of a function that stores it, " +
			"the caller tests the field and returns it before it returns anything else and before any matcher method is called; a pending field value is not overwritten by a second store in the same function without a nil test. " +
			"Accepted discards (reported as named exceptions): the release method's error in functions that have no error result (sql.Disposable.Dispose), and on a path that returns another, non-nil error. " +
			"(G3) NULL agreement: for every argument expression evaluated in a family Eval or in H, the evaluated value is tested for nil, the nil edge returns the literal (nil, nil) without calling anything, and every other use " +
			"of the value is dominated by the non-nil edge; (G3c) every matcher method call through a node's matcher field is dominated by the non-nil edge of a test of that field with no store or recompile in between, and in Eval " +
			"the nil edge (NULL pattern or NULL match_type) returns the literal (nil, nil). " +
			"(S1) every string handed to the matcher (pattern, subject, replacement) is derived from the evaluated SQL argument through the to-text conversion AND an unwrap step (sql.Unwrap / sql.UnwrapAny) on every " +
			"derivation path, and through no other call (no trimming, case folding, concatenation in one sibling): the conversion returns lazily loaded text wrappers unchanged, so a sibling without the unwrap step fails where the others match. " +
			"(G5) every integer handed to the matcher (position, occurrence) is the evaluated SQL argument with conversions only - no arithmetic in the wrapper, the 1-based/0-based conversion happens in exactly one place, " +
			"the matcher - or a constant within the frozen table (Matches(0, <=1)); position and occurrence come from fields of the same name in every sibling and are different fields. " +
			"(G6) match_type: every non-constant string that reaches the flag-interpreting loop of H is result 0 of one package-local validator; the validator's switch over the characters ends in a default arm that returns a " +
			"constructed error on every path; every flag character the validator lets through is interpreted by an arm of H's switch, constant defaults consist of interpreted characters, and the arms set pairwise different non-zero flag constants. " +
			"(G8) inside every callback that a predicate over expressions hands to the expression tree walker, dynamic-type tests are made on the visited node, never on a captured expression (the root of the walk): otherwise an argument that merely contains a column or a non-deterministic call is cached as a constant. " +
			"(G7) caches: the nodes keep a computed result and a compiled matcher across rows under bool fields assigned from calls of one package predicate over receiver fields (conjunctions of such calls and of other flags). " +
			"Every store of the kept result happens under a flag whose calls name every argument field that is evaluated in Eval or evaluated by H (pattern, match_type); every store of a freshly compiled matcher that is conditional on a flag " +
			"(compile once if the flag holds / recompile per row if it does not) is under a flag that names the pattern and match_type fields, and a node that compiles under a flag also compiles under its negation (otherwise one of the two kinds of pattern is never compiled and the node answers NULL). A missing argument makes the value of the first row the answer for every row, in this sibling only.",
		NotCovered: "what a pattern matches: that ICU's matches equal a reference engine, the values of positions / occurrences / substrings, that REGEXP_REPLACE substitutes exactly the matches REGEXP_INSTR reports (all computed at run time by ICU through cgo); " +
			"the offset arithmetic inside github.com/dolthub/go-icu-regex (read once to freeze the constant-argument table, not analysed); the meaning of each flag constant (n -> DOTALL etc. is not compared with MySQL); " +
			"the boolean end-index argument of REGEXP_INSTR (return_option = 1) and every other value-level choice (result 0/1 of REGEXP_LIKE, collation suffix test); arguments evaluated through a helper function instead of directly in Eval are not followed (the rules would report them as not derived from an evaluated argument); " +
			"range validation of position / occurrence (REGEXP_REPLACE rejects position < 1 and position > length in the wrapper, REGEXP_INSTR / REGEXP_SUBSTR leave both to the matcher, which answers 'no match': a disagreement that is visible but not claimed); " +
			"that an error stored in the cached-error field is not overwritten by a later call of the storing function before Eval reads it (needs the correlation with the cacheRegex flag); errors of other callees (argument evaluation, conversions) which follow the same idiom but are not sources here; " +
			"release of the matcher (Close/Dispose pairing): at the pinned go-icu-regex version the C memory is also released by runtime.AddCleanup and Close is idempotent, so a leak or a double close does not change any REGEXP_* result and is not a necessary condition of this property; " +
			"which node kinds the cacheability predicate (canBeCached) treats as row-dependent - only that every argument is submitted to it and (G8) that its walker callback tests the visited node; that the per-row path really recompiles; sharing of one matcher between a node and its WithChildren copy; the gms_pure_go build variant (internal/regex/regex_pure.go) is not loaded in the quick tier.",
		Run: func(c *Ctx) { runC33(c, c33Repo); runC33Visit(c, c33Repo, 1) },
		Fixture: func(c *Ctx, fx *Prog) {
			cfg := c33Config{
				FuncRel: "testdata/c33/fn", RegexRel: "testdata/c33/rx", RegexName: "Regex",
				ExprRel: "testdata/c33/sqlx", ExprIface: "Expression", EvalM: "Eval",
				UnwrapRel: "testdata/c33/sqlx", Unwraps: []string{"Unwrap", "UnwrapAny"},
				ConvRel: "testdata/c33/sqlx", ConvType: "StringType", ConvM: "Convert",
				ErrCtors:  []string{"vchk/testdata/c33/sqlx.Kind.New", "fmt.Errorf", "errors.New"},
				ConstArgs: map[string][2]int64{"Matches": {0, 1}},
			}
			expectFixture(c, fx, "c33: second compiler, swapped helper arguments, dropped / nulled / overwritten errors, unchecked cached error, missing NULL test, matcher used without nil guard, subject without unwrap, position arithmetic, swapped position/occurrence, validator bypassed, default arm without error, uninterpreted flag, duplicate flag constant, cache flags that forget an argument",
				c33FixtureWant, func(fc *Ctx) { runC33(fc, cfg) })
			expectFixture(c, fx, "c33 visit: a predicate whose walker callback tests the captured root instead of the visited node",
				[]string{"C33-G8:visitsRoot/callback#1/type switch on expr", "C33-G8:visitsRoot/callback#1/type assertion on expr"},
				func(fc *Ctx) { runC33Visit(fc, cfg, 0) })
		},
		FixturePkgs: []string{"./testdata/c33/fn", "./testdata/c33/rx", "./testdata/c33/sqlx"},
	})
}

type c33Fam struct {
	tn      *types.TypeName
	named   *types.Named
	st      *types.Struct
	reField *types.Var
	slots   map[*types.Var]bool // error fields that receive source errors
	eval    *ssa.Function
	// field whose evaluated value is the match string
	subject *types.Var
}

type c33 struct {
	c      *Ctx
	cfg    c33Config
	pk     *packages.Package
	prog   *ssa.Program
	funcs  []*ssa.Function
	regexT types.Type // the (unaliased) matcher interface type
	regexI *types.Interface
	exprT  types.Type
	exprI  *types.Interface
	fams   []*c33Fam
	famOf  map[*types.Named]*c33Fam
	H      *ssa.Function
	// helpers of H declared in the same package that return an error
	hHelpers map[*ssa.Function]bool
	unwraps  map[*types.Func]bool
	conv     *types.Func
	errCtors map[string]bool
	// parameter roles of H (indices into H.Params)
	hPattern, hSubject, hFlags int
}

func runC33(c *Ctx, cfg c33Config) {
	c.Rule("C33-G0", "the family: every struct type of the function package that stores a matcher (info: enumerated, not frozen)", cfg.FloorFamily)
	c.Rule("C33-G1", "one compiler: every store into a matcher field takes result 0 of the one compile helper (or a hand-over / nil); only the helper constructs matchers; the helper receives the same receiver fields in every sibling and the subject field is the matched field", cfg.FloorG1)
	c.Rule("C33-G2", "every error of the compile helper, of a matcher method and of the helper's local callees is returned in the error position or stored in the node's error field on every path; not discarded, not overwritten, not replaced by nil", cfg.FloorG2)
	c.Rule("C33-G2s", "cached compile error: after every call of a function that stores the node's error field the caller tests the field and returns it before returning anything else and before any matcher call; a pending value is not overwritten in the same function without a nil test", cfg.FloorSlot)
	c.Rule("C33-G3", "NULL in, NULL out in every sibling: each argument value evaluated in a family Eval or in the compile helper is nil-tested, the nil edge returns the literal (nil, nil) without calls, every other use is dominated by the non-nil edge", cfg.FloorG3)
	c.Rule("C33-G3c", "every matcher method call through a node's matcher field is dominated by the non-nil edge of a test of that field, with no store/recompile in between; in Eval the nil edge returns the literal (nil, nil)", cfg.FloorG3c)
	c.Rule("C33-S1", "every string handed to the matcher derives from an evaluated SQL argument through the to-text conversion and an unwrap step on every derivation path", cfg.FloorS1)
	c.Rule("C33-G5", "every integer handed to the matcher is an evaluated SQL argument with conversions only (no arithmetic) or a constant of the frozen table; position and occurrence come from the same-named, different fields in every sibling", cfg.FloorG5)
	c.Rule("C33-G6", "match_type: only validated or constant strings reach the flag loop; the validator's default arm returns a constructed error; every validated character is interpreted; interpreted flags are pairwise different non-zero constants", cfg.FloorG6)

	c.Rule("C33-G7", "what a node keeps across rows is guarded by a cacheability flag that covers every argument it depends on: the stored result by every argument evaluated in Eval or by the compile helper, the kept matcher by the pattern and match_type arguments; compiled under both polarities of the flag; one predicate function in all siblings", cfg.FloorG7)

	e := &c33{c: c, cfg: cfg, famOf: map[*types.Named]*c33Fam{}, hHelpers: map[*ssa.Function]bool{}, unwraps: map[*types.Func]bool{}, errCtors: map[string]bool{}}
	for _, n := range cfg.ErrCtors {
		e.errCtors[n] = true
	}
	t0 := time.Now()
	lap := func(what string) {
		if os.Getenv("VCHK_TIMING") != "" {
			fmt.Printf("C33 timing %s: %.1fs\n", what, time.Since(t0).Seconds())
		}
		t0 = time.Now()
	}
	if !e.anchors() {
		return
	}
	lap("anchors+ssa")
	e.ruleG1()
	lap("G1")
	if e.H == nil {
		return
	}
	e.ruleG2()
	e.ruleG3()
	e.ruleG3c()
	e.ruleArgs()
	e.ruleG6()
	e.ruleG7()
	lap("G2..G7")
	dumpObsIfAsked(c)
}

// ---------------------------------------------------------------------------------------
// anchors

func (e *c33) anchors() bool {
	c, cfg := e.c, e.cfg
	e.pk = c.P.Pkg(cfg.FuncRel)
	rp := c.P.Pkg(cfg.RegexRel)
	if e.pk == nil || rp == nil {
		c.Undecided("C33-G0", "packages", 0, "package "+cfg.FuncRel+" or "+cfg.RegexRel+" not loaded")
		return false
	}
	tn, _ := rp.Types.Scope().Lookup(cfg.RegexName).(*types.TypeName)
	if tn == nil {
		c.Undecided("C33-G0", "matcher interface", 0, cfg.RegexRel+"."+cfg.RegexName+" not found")
		return false
	}
	e.regexT = types.Unalias(tn.Type())
	e.regexI, _ = e.regexT.Underlying().(*types.Interface)
	if e.regexI == nil {
		c.Undecided("C33-G0", "matcher interface", tn.Pos(), cfg.RegexRel+"."+cfg.RegexName+" is not an interface")
		return false
	}
	e.exprI = ngLookupIface(c.P, cfg.ExprRel, cfg.ExprIface)
	if xp := c.P.Pkg(cfg.ExprRel); xp != nil {
		if xt, _ := xp.Types.Scope().Lookup(cfg.ExprIface).(*types.TypeName); xt != nil {
			e.exprT = types.Unalias(xt.Type())
		}
	}
	if e.exprI == nil || e.exprT == nil {
		c.Undecided("C33-G0", "expression interface", 0, cfg.ExprRel+"."+cfg.ExprIface+" not found")
		return false
	}
	up := c.P.Pkg(cfg.UnwrapRel)
	for _, n := range cfg.Unwraps {
		if fn := LookupFunc(up, n); fn != nil {
			e.unwraps[fn.Origin()] = true
		} else {
			c.Undecided("C33-S1", "unwrap helper "+n, 0, cfg.UnwrapRel+"."+n+" not found")
			return false
		}
	}
	e.conv = LookupFunc(c.P.Pkg(cfg.ConvRel), cfg.ConvType+"."+cfg.ConvM)
	if e.conv == nil {
		c.Undecided("C33-S1", "conversion", 0, cfg.ConvRel+"."+cfg.ConvType+"."+cfg.ConvM+" not found")
		return false
	}
	// which files of the matcher package (and of the library behind an alias) were analysed
	files := func(pk *packages.Package) string {
		var fs []string
		for _, f := range pk.CompiledGoFiles {
			fs = append(fs, filepath.Base(f))
		}
		sort.Strings(fs)
		return strings.Join(fs, " ")
	}
	c.Notef("matcher package %s analysed from: %s (default build configuration of the go list driver: cgo enabled, no build tags)", rp.PkgPath, files(rp))
	if nt, ok := e.regexT.(*types.Named); ok && nt.Obj().Pkg() != nil && nt.Obj().Pkg().Path() != rp.PkgPath {
		if lp := c.P.ByPath[nt.Obj().Pkg().Path()]; lp != nil {
			c.Notef("%s.%s is an alias of %s.%s (files: %s); only its method set is used", cfg.RegexRel, cfg.RegexName, lp.PkgPath, nt.Obj().Name(), files(lp))
		}
	}
	var ms []string
	for i := 0; i < e.regexI.NumMethods(); i++ {
		m := e.regexI.Method(i)
		ms = append(ms, m.Name()+strings.TrimPrefix(m.Type().String(), "func"))
	}
	c.Notef("matcher methods (from the method set): %s", strings.Join(ms, "; "))

	// SSA of the function package only (closures included): bodies of other packages are not needed
	if c.P.ssaProg != nil {
		e.prog = c.P.ssaProg
	} else {
		e.prog, _ = ssautil.AllPackages(c.P.Roots, ssa.InstantiateGenerics)
	}
	sp := e.prog.Package(e.pk.Types)
	if sp == nil {
		c.Undecided("C33-G0", "ssa", 0, "no SSA package for "+cfg.FuncRel)
		return false
	}
	sp.Build()
	seen := map[*ssa.Function]bool{}
	var add func(f *ssa.Function)
	add = func(f *ssa.Function) {
		if f == nil || seen[f] || len(f.Blocks) == 0 {
			return
		}
		seen[f] = true
		e.funcs = append(e.funcs, f)
		for _, a := range f.AnonFuncs {
			add(a)
		}
	}
	for _, file := range e.pk.Syntax {
		for _, d := range file.Decls {
			if fd, ok := d.(*ast.FuncDecl); ok && fd.Body != nil {
				if fn, ok := e.pk.TypesInfo.Defs[fd.Name].(*types.Func); ok {
					add(e.prog.FuncValue(fn))
				}
			}
		}
	}
	// family
	sc := e.pk.Types.Scope()
	for _, name := range sc.Names() {
		tn, ok := sc.Lookup(name).(*types.TypeName)
		if !ok || tn.IsAlias() {
			continue
		}
		nt, ok := tn.Type().(*types.Named)
		if !ok || nt.TypeParams().Len() > 0 {
			continue
		}
		st, ok := nt.Underlying().(*types.Struct)
		if !ok {
			continue
		}
		var re *types.Var
		n := 0
		for i := 0; i < st.NumFields(); i++ {
			if types.Identical(types.Unalias(st.Field(i).Type()), e.regexT) {
				re = st.Field(i)
				n++
			}
		}
		if n == 0 {
			continue
		}
		key := tn.Name()
		if n > 1 {
			c.Undecided("C33-G0", key, tn.Pos(), "more than one matcher field: the rules assume one compiled matcher per node")
			continue
		}
		f := &c33Fam{tn: tn, named: nt, st: st, reField: re, slots: map[*types.Var]bool{}}
		if m := LookupFunc(e.pk, tn.Name()+"."+e.cfg.EvalM); m != nil {
			f.eval = e.prog.FuncValue(m)
		}
		if f.eval == nil || !types.Implements(types.NewPointer(nt), e.exprI) && !types.Implements(nt, e.exprI) {
			c.Undecided("C33-G0", key, tn.Pos(), "stores a matcher but does not implement "+cfg.ExprRel+"."+cfg.ExprIface+" with a "+cfg.EvalM+" method declared in this package")
			continue
		}
		e.fams = append(e.fams, f)
		e.famOf[nt] = f
		c.Ok("C33-G0", key, tn.Pos(), "stores a matcher in field "+re.Name())
	}
	return len(e.fams) > 0
}

// ---------------------------------------------------------------------------------------
// SSA helpers

func (e *c33) fnName(f *ssa.Function) string {
	if f == nil {
		return "?"
	}
	if f.Parent() != nil {
		return e.fnName(f.Parent()) + "$lit"
	}
	if obj, ok := f.Object().(*types.Func); ok {
		s := FuncName(obj)
		if i := strings.Index(s, "."); i >= 0 {
			// strip the package part: keys are Type.Method / Name inside the function package
			if strings.HasPrefix(s, e.cfg.FuncRel+".") {
				return s[len(e.cfg.FuncRel)+1:]
			}
			if strings.HasPrefix(s, "testdata/") || strings.HasPrefix(s, "vchk/") {
				return s[strings.LastIndex(s[:strings.LastIndex(s, ".")+1], "/")+1:]
			}
		}
		return s
	}
	return f.Name()
}

// outer returns the declared function a closure is nested in.
func c33Outer(f *ssa.Function) *ssa.Function {
	for f.Parent() != nil {
		f = f.Parent()
	}
	return f
}

// recv returns the receiver parameter of the declared function enclosing f, if it is a method.
func c33Recv(f *ssa.Function) *ssa.Parameter {
	o := c33Outer(f)
	if o.Signature.Recv() != nil && len(o.Params) > 0 {
		return o.Params[0]
	}
	return nil
}

func c33SingleStore(a *ssa.Alloc) ssa.Value {
	var val ssa.Value
	n := 0
	for _, r := range *a.Referrers() {
		switch x := r.(type) {
		case *ssa.Store:
			if x.Addr == a {
				val = x.Val
				n++
			}
		case *ssa.MakeClosure:
			// a closure that re-assigns the captured variable
			if fn, ok := x.Fn.(*ssa.Function); ok {
				for i, b := range x.Bindings {
					if b == a && i < len(fn.FreeVars) {
						for _, fr := range *fn.FreeVars[i].Referrers() {
							if s, ok := fr.(*ssa.Store); ok && s.Addr == fn.FreeVars[i] {
								n += 2
							}
						}
					}
				}
			}
		}
	}
	if n == 1 {
		return val
	}
	return nil
}

func c33Binding(fv *ssa.FreeVar) ssa.Value {
	fn := fv.Parent()
	idx := -1
	for i, v := range fn.FreeVars {
		if v == fv {
			idx = i
		}
	}
	par := fn.Parent()
	if idx < 0 || par == nil {
		return nil
	}
	for _, b := range par.Blocks {
		for _, in := range b.Instrs {
			if mc, ok := in.(*ssa.MakeClosure); ok && mc.Fn == fn && idx < len(mc.Bindings) {
				return mc.Bindings[idx]
			}
		}
	}
	return nil
}

// root resolves loads of single-assignment cells (captured parameters) and free variables to the
// value they hold.
func c33Root(v ssa.Value) ssa.Value {
	for i := 0; i < 16; i++ {
		u, ok := v.(*ssa.UnOp)
		if !ok || u.Op != token.MUL {
			return v
		}
		switch a := u.X.(type) {
		case *ssa.Alloc:
			s := c33SingleStore(a)
			if s == nil {
				return v
			}
			v = s
		case *ssa.FreeVar:
			b := c33Binding(a)
			al, ok := b.(*ssa.Alloc)
			if !ok {
				return v // nested closures: not resolved
			}
			s := c33SingleStore(al)
			if s == nil {
				return v
			}
			v = s
		default:
			return v
		}
	}
	return v
}

// fieldAddr decodes &base.f (base resolved through captured cells).
func c33FieldAddr(addr ssa.Value) (base ssa.Value, f *types.Var, named *types.Named, ok bool) {
	fa, isFA := addr.(*ssa.FieldAddr)
	if !isFA {
		return nil, nil, nil, false
	}
	t := fa.X.Type()
	if p, isP := t.Underlying().(*types.Pointer); isP {
		t = p.Elem()
	}
	st, isS := t.Underlying().(*types.Struct)
	if !isS || fa.Field >= st.NumFields() {
		return nil, nil, nil, false
	}
	nt, _ := types.Unalias(t).(*types.Named)
	return c33Root(fa.X), st.Field(fa.Field), nt, true
}

// fieldLoad decodes a load of base.f.
func c33FieldLoad(v ssa.Value) (base ssa.Value, f *types.Var, named *types.Named, ok bool) {
	u, isU := v.(*ssa.UnOp)
	if !isU || u.Op != token.MUL {
		return nil, nil, nil, false
	}
	return c33FieldAddr(u.X)
}

func c33Callee(cc *ssa.CallCommon) *types.Func {
	if cc.IsInvoke() {
		return cc.Method
	}
	f := cc.StaticCallee()
	if f == nil {
		return nil
	}
	if o := f.Origin(); o != nil {
		f = o
	}
	fn, _ := f.Object().(*types.Func)
	if fn != nil {
		return fn.Origin()
	}
	return nil
}

func c33StaticFn(cc *ssa.CallCommon) *ssa.Function {
	if cc.IsInvoke() {
		return nil
	}
	return cc.StaticCallee()
}

// regexMethod: the matcher interface method invoked by cc, or nil.
func (e *c33) regexMethod(cc *ssa.CallCommon) *types.Func {
	if !cc.IsInvoke() || cc.Method == nil {
		return nil
	}
	if !types.Identical(types.Unalias(cc.Value.Type()), e.regexT) {
		return nil
	}
	return cc.Method
}

func (e *c33) isEvalCall(cc *ssa.CallCommon) bool {
	if !cc.IsInvoke() || cc.Method == nil || cc.Method.Name() != e.cfg.EvalM {
		return false
	}
	it, ok := cc.Value.Type().Underlying().(*types.Interface)
	if !ok {
		return false
	}
	// the expression interface or an interface that embeds it
	return types.Identical(types.Unalias(cc.Value.Type()), e.exprT) || types.Implements(cc.Value.Type(), e.exprI) && it.NumMethods() >= e.exprI.NumMethods()
}

func c33CallOf(in ssa.Instruction) *ssa.CallCommon {
	switch x := in.(type) {
	case *ssa.Call:
		return x.Common()
	case *ssa.Defer:
		return x.Common()
	case *ssa.Go:
		return x.Common()
	}
	return nil
}

// extract returns the Extract of index i of a tuple-valued call (nil if that result is unused).
func c33Extract(call *ssa.Call, i int) ssa.Value {
	if call.Common().Signature().Results().Len() == 1 {
		if i == 0 {
			return call
		}
		return nil
	}
	for _, r := range *call.Referrers() {
		if x, ok := r.(*ssa.Extract); ok && x.Index == i {
			return x
		}
	}
	return nil
}

// famOfFn: the family type whose method (or method's closure) f is.
func (e *c33) famOfFn(f *ssa.Function) *c33Fam {
	r := c33Recv(f)
	if r == nil {
		return nil
	}
	t := r.Type()
	if p, ok := t.Underlying().(*types.Pointer); ok {
		t = p.Elem()
	}
	nt, _ := types.Unalias(t).(*types.Named)
	return e.famOf[nt]
}

func (e *c33) inScope(f *ssa.Function) bool {
	o := c33Outer(f)
	return e.famOfFn(f) != nil || o == e.H || e.hHelpers[o]
}

func c33Pos(in ssa.Instruction) token.Pos {
	if p := in.Pos(); p.IsValid() {
		return p
	}
	if cc := c33CallOf(in); cc != nil {
		if cc.Value != nil && cc.Value.Pos().IsValid() {
			return cc.Value.Pos()
		}
	}
	return in.Parent().Pos()
}

func c33Describe(v ssa.Value) string {
	if v == nil {
		return "?"
	}
	if c, ok := v.(*ssa.Const); ok {
		return "the constant " + c.String()
	}
	return fmt.Sprintf("%s (%s)", v.Name(), v.String())
}
