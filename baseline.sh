#!/bin/bash
# The repository's pinned baseline (the nine packages that compile at the pin) with no
# build tag: there are no hooks, so guard-off == the tree as it is.
cd /repo && go test -vet=off -count=1 ./errguard/... ./internal/... ./optgen/cmd/support/... ./sql/in_mem_table/... ./sql/planbuilder/dateparse/... ./sql/sqlredact/... ./enginetest/scriptgen/setup/...
