#!/bin/bash
# usage: mkmut.sh PROP name file 'python-expr transforming s' 'expect-json-array' 'why'
# creates selftest/PROP/name.patch(.json) by editing a temp copy of /repo/file (never /repo itself)
set -e
PROP=$1; NAME=$2; FILE=$3; EXPR=$4; EXPECT=$5; WHY=$6
T=$(mktemp -d /tmp/mkmut.XXXX); mkdir -p $T/a/$(dirname $FILE) $T/b/$(dirname $FILE)
cp /repo/$FILE $T/a/$FILE
python3 - "$T/a/$FILE" "$T/b/$FILE" "$EXPR" <<'PY'
import sys,re
s=open(sys.argv[1]).read()
orig=s
s=eval(sys.argv[3])
assert s!=orig, "mutation did not change the file"
open(sys.argv[2],'w').write(s)
PY
(cd $T && diff -u a/$FILE b/$FILE > out.patch || true)
mkdir -p $(cd "$(dirname "$0")" && pwd)/selftest/$PROP
cp $T/out.patch $(cd "$(dirname "$0")" && pwd)/selftest/$PROP/$NAME.patch
python3 -c "import json,sys; json.dump({'expect': json.loads(sys.argv[1]), 'why': sys.argv[2]}, open('$(cd "$(dirname "$0")" && pwd)/selftest/$PROP/$NAME.json','w'), indent=1)" "$EXPECT" "$WHY"
rm -rf $T
